(* C18FillTidy: textwrap.fill on tidy text (words separated by single plain blanks): the lines of the result are
   consecutive pieces of the text, a blank is dropped at every break (line representation); the first line takes
   every leading word that fits (greedy).  From these: the closed-form guard of model/C18ParseSpec.v implies the
   piece-wise one.  Proofs only. *)
From Coq Require Import List Ascii Bool Arith ZArith Lia.
From Coq Require String.
Import String.StringSyntax.
From DT Require Import PyStr Sexp PyVal TyExpr PureUtils Defaults PyAst IR Extracted Fill C17Spec.
From DT Require Import DocEmit C18Spec DocParse C01Spec C18ParseSpec.
From DT Require Import PyStrFacts DefaultsFacts SplitFacts FillFacts DocEmitFacts C18Facts DocParseFacts C01RestLink C18Parse.
Import ListNotations.

(* ------------------------------------------------------------------ characters *)

Lemma ascii_all : forall P : ascii -> Prop,
    (forall b0 b1 b2 b3 b4 b5 b6 b7, P (Ascii b0 b1 b2 b3 b4 b5 b6 b7)) -> forall c, P c.
Proof. intros P H [b0 b1 b2 b3 b4 b5 b6 b7]. apply H. Qed.

Lemma tw_space_isspace : forall c, tw_space c = true -> isspace c = true.
Proof.
  apply (ascii_all (fun c => tw_space c = true -> isspace c = true)).
  intros [] [] [] [] [] [] [] []; vm_compute; intros H; try reflexivity; discriminate H.
Qed.

Lemma id_char_not_space : forall c, is_id_char c = true -> isspace c = false.
Proof.
  apply (ascii_all (fun c => is_id_char c = true -> isspace c = false)).
  intros [] [] [] [] [] [] [] []; vm_compute; intros H; try reflexivity; discriminate H.
Qed.

(* ------------------------------------------------------------------ tidy text *)

Definition nospace (u : str) : Prop := forallb (fun c => negb (isspace c)) u = true.

Lemma single_spaced_chars : forall s c, single_spaced s = true -> In c s -> isspace c = true -> c = sp.
Proof.
  induction s as [|x r IH]; intros c H Hin Hc; [destruct Hin|].
  cbn [single_spaced] in H. apply andb_true_iff in H. destruct H as [Hx Hr].
  destruct Hin as [E|Hin]; [|exact (IH c Hr Hin Hc)]. subst x. rewrite Hc in Hx.
  apply andb_true_iff in Hx. destruct Hx as [Hx _]. apply ascii_eqb_eq in Hx. exact Hx.
Qed.

Lemma single_spaced_suffix : forall a b, single_spaced (a ++ b) = true -> single_spaced b = true.
Proof.
  induction a as [|x a IH]; intros b H; [exact H|].
  cbn [app single_spaced] in H. apply andb_true_iff in H. apply IH. apply H.
Qed.

Lemma single_spaced_sp_next : forall r, single_spaced (sp :: r) = true ->
    exists d r', r = d :: r' /\ isspace d = false.
Proof.
  intros r H. cbn [single_spaced] in H. change (isspace sp) with true in H. cbv iota in H.
  apply andb_true_iff in H. destruct H as [H _]. apply andb_true_iff in H. destruct H as [_ H].
  destruct r as [|d r']; [discriminate|]. exists d, r'. split; [reflexivity|]. apply negb_true_iff. exact H.
Qed.

Lemma single_spaced_nospace_app : forall u b, nospace u -> single_spaced b = true -> single_spaced (u ++ b) = true.
Proof.
  induction u as [|x u IH]; intros b Hu Hb; [exact Hb|].
  unfold nospace in Hu. cbn [forallb] in Hu. apply andb_true_iff in Hu. destruct Hu as [Hx Hu].
  apply negb_true_iff in Hx. cbn [app single_spaced]. rewrite Hx. cbn [andb]. apply IH; assumption.
Qed.

Lemma single_spaced_sp_cons : forall d r, isspace d = false -> single_spaced (d :: r) = true ->
    single_spaced (sp :: d :: r) = true.
Proof.
  intros d r Hd H. cbn [single_spaced] in *. change (isspace sp) with true. cbv iota.
  rewrite ascii_eqb_refl, Hd in *. cbn [negb andb] in *. exact H.
Qed.

Lemma last_c_cons_ne : forall (x : ascii) r, r <> [] -> last_c (x :: r) = last_c r.
Proof. intros x [|y r] H; [contradiction|]. apply last_c_cons_cons. Qed.

Lemma single_spaced_last : forall s c, single_spaced s = true -> last_c s = Some c -> isspace c = false.
Proof.
  induction s as [|x r IH]; intros c H Hl; [discriminate|].
  destruct r as [|y r'].
  - cbn in Hl. injection Hl as Hl. subst x. cbn [single_spaced] in H.
    destruct (isspace c); [|reflexivity]. rewrite andb_false_r in H. discriminate.
  - rewrite last_c_cons_cons in Hl. apply IH; [|exact Hl].
    cbn [single_spaced] in H. apply andb_true_iff in H. apply H.
Qed.

Lemma tidy_inv : forall s, tidy s = true ->
    single_spaced s = true /\ exists c r, s = c :: r /\ isspace c = false.
Proof.
  intros s H. unfold tidy in H. apply andb_true_iff in H. destruct H as [H1 H2]. split; [exact H2|].
  destruct s as [|c r]; [discriminate|]. exists c, r. split; [reflexivity|]. apply negb_true_iff. exact H1.
Qed.

Lemma tidy_edge_ok : forall s, tidy s = true -> edge_ok s.
Proof.
  intros s H. destruct (tidy_inv s H) as [Hs [c [r [E Hc]]]]. split.
  - exists c, r. split; assumption.
  - destruct (last_c s) as [l|] eqn:El.
    + exists l. split; [reflexivity|]. apply (single_spaced_last s l Hs El).
    + apply last_c_nil_iff in El. subst s. discriminate.
Qed.

Lemma single_spaced_no : forall s c, single_spaced s = true -> isspace c = true -> c <> sp -> mem_c c s = false.
Proof.
  intros s c Hs Hc Hne. destruct (mem_c c s) eqn:E; [|reflexivity]. exfalso.
  apply mem_c_In in E. apply Hne. exact (single_spaced_chars s c Hs E Hc).
Qed.

Lemma single_spaced_replace_ws : forall s, single_spaced s = true -> replace_ws s = s.
Proof.
  intros s Hs. apply replace_ws_id. rewrite forallb_forall. intros c Hin.
  destruct (tw_space c) eqn:E; [|reflexivity]. cbn [negb orb].
  apply ascii_eqb_eq. apply (single_spaced_chars s c Hs Hin). apply tw_space_isspace. exact E.
Qed.

Lemma single_spaced_normal : forall s, single_spaced s = true -> normal s.
Proof.
  intros s Hs. rewrite <- (single_spaced_replace_ws s Hs). apply replace_ws_normal.
Qed.

(* ------------------------------------------------------------------ chunks of single-spaced text *)

Definition line_ok (l : str) : Prop := edge_ok l /\ mem_c nl l = false.

Lemma chunk_true_sp : forall c, chunk_ok true c -> exists r, c = sp :: r /\ forallb (fun x => ascii_eqb x sp) r = true.
Proof.
  intros c [Hne H]. destruct c as [|x r]; [contradiction|]. cbn [forallb] in H.
  apply andb_true_iff in H. destruct H as [Hx Hr].
  apply andb_true_iff in Hx. destruct Hx as [Hx _]. apply eqb_prop in Hx. unfold spc in Hx.
  apply ascii_eqb_eq in Hx. subst x. exists r. split; [reflexivity|].
  rewrite forallb_forall in *. intros y Hy. specialize (Hr y Hy).
  apply andb_true_iff in Hr. destruct Hr as [Hr _]. apply eqb_prop in Hr. exact Hr.
Qed.

(* in single-spaced text a blank chunk is one blank, and something follows it *)
Lemma space_chunk_single : forall c rest, chunk_ok true c -> single_spaced (c ++ rest) = true ->
    c = [sp] /\ rest <> [].
Proof.
  intros c rest Hc Hs. destruct (chunk_true_sp c Hc) as [r [E Hr]]. subst c.
  cbn [app] in Hs. destruct (single_spaced_sp_next _ Hs) as [d [r' [E Hd]]].
  destruct r as [|y r].
  - split; [reflexivity|]. cbn [app] in E. rewrite E. discriminate.
  - exfalso. cbn [app] in E. injection E as E _. subst d. cbn [forallb] in Hr.
    apply andb_true_iff in Hr. destruct Hr as [Hy _]. apply ascii_eqb_eq in Hy. subst y. discriminate.
Qed.

Lemma word_chunk_chars : forall c x, chunk_ok false c -> In x c -> x <> sp.
Proof.
  intros c x [_ H] Hin E. subst x. rewrite forallb_forall in H. specialize (H sp Hin).
  apply andb_true_iff in H. destruct H as [H _]. apply eqb_prop in H. discriminate.
Qed.

Lemma good_app_last : forall a b k, good k (a ++ b) -> a <> [] -> last_is_word a -> good true b.
Proof.
  induction a as [|x a IH]; intros b k H Hne Hl; [contradiction|].
  cbn [app good] in H. destruct H as [Hx Hr].
  destruct a as [|y a'].
  - unfold last_is_word in Hl. cbn [rev app] in Hl. rewrite (chunk_ok_kind _ _ Hx) in Hl. subst k. exact Hr.
  - apply (IH b (negb k) Hr); [discriminate|].
    unfold last_is_word in *. cbn [rev] in *. destruct (rev a' ++ [y]) as [|z zs] eqn:E.
    + destruct (rev a'); discriminate.
    + cbn [app] in Hl. exact Hl.
Qed.

Lemma good_In : forall cs k c, good k cs -> In c cs -> exists k', chunk_ok k' c.
Proof.
  induction cs as [|x cs IH]; intros k c H Hin; [destruct Hin|].
  cbn [good] in H. destruct H as [Hx Hr]. destruct Hin as [E|Hin]; [subst; exists k; exact Hx|].
  apply (IH (negb k) c Hr Hin).
Qed.

Lemma concat_In_chars : forall (cs : list str) c x, In c cs -> In x c -> In x (concat cs).
Proof.
  induction cs as [|y cs IH]; intros c x Hc Hx; [destruct Hc|].
  cbn [concat]. apply in_or_app. destruct Hc as [E|Hc]; [subst; left; exact Hx|right; apply (IH c x Hc Hx)].
Qed.

(* the concatenation of a group that starts and ends with a word chunk is a good line *)
Lemma group_line_ok : forall line k rest,
    good k (line ++ rest) -> single_spaced (concat (line ++ rest)) = true ->
    line <> [] -> first_is_word line -> last_is_word line -> line_ok (concat line).
Proof.
  intros line k rest Hg Hs Hne Hf Hl.
  assert (Hchars : forall c x, In c line -> In x c -> isspace x = true -> x = sp).
  { intros c x Hc Hx Hsx. apply (single_spaced_chars _ x Hs); [|exact Hsx].
    apply (concat_In_chars _ c); [apply in_or_app; left; exact Hc|exact Hx]. }
  assert (Hword : forall c, In c line -> is_space_chunk c = false ->
                            c <> [] /\ forall x, In x c -> isspace x = false).
  { intros c Hc Hk. destruct (good_In _ k c Hg (in_or_app _ _ _ (or_introl Hc))) as [k' Hk'].
    rewrite (chunk_ok_kind _ _ Hk') in Hk. subst k'. split; [apply Hk'|].
    intros x Hx. destruct (isspace x) eqn:E; [|reflexivity]. exfalso.
    apply (word_chunk_chars c x Hk' Hx). apply (Hchars c x Hc Hx E). }
  split; [split|].
  - destruct line as [|c0 lr]; [contradiction|]. cbn [first_is_word] in Hf.
    destruct (Hword c0 (or_introl eq_refl) Hf) as [Hc0 Hall].
    destruct c0 as [|x c0']; [contradiction|]. exists x, (c0' ++ concat lr). split; [reflexivity|].
    apply Hall. left. reflexivity.
  - destruct (rev_case line) as [E|[l' [c E]]]; [contradiction|]. subst line.
    unfold last_is_word in Hl. rewrite rev_app_distr in Hl. cbn [rev app] in Hl.
    assert (Hcin : In c (l' ++ [c])) by (apply in_or_app; right; left; reflexivity).
    destruct (Hword c Hcin Hl) as [Hc Hall].
    destruct (rev_case c) as [E|[c' [x E]]]; [contradiction|]. subst c.
    exists x. split.
    + rewrite concat_app. cbn [concat]. rewrite app_nil_r, app_assoc. apply last_c_app_single.
    + apply Hall. apply in_or_app. right. left. reflexivity.
  - destruct (mem_c nl (concat line)) eqn:E; [|reflexivity]. exfalso. apply mem_c_In in E.
    apply (good_no_nl _ k Hg). rewrite concat_app. apply in_or_app. left. exact E.
Qed.

Lemma seg_repr : forall w hl cs ls, seg w hl cs ls ->
    forall k, good k cs -> single_spaced (concat cs) = true -> (hl = true \/ k = false) ->
    Forall line_ok ls
    /\ (cs = [] -> ls = [])
    /\ (cs <> [] -> ls <> [] /\ concat cs = (if k then [sp] else []) ++ join [sp] ls).
Proof.
  intros w hl cs ls H. induction H as [hl|hl c r ls Hc Hs IH|hl line r ls Hne Hlen Hf Hl Hs IH];
    intros k Hg Hss Hor.
  - split; [constructor|]. split; [reflexivity|]. intros E. contradiction.
  - cbn [good] in Hg. destruct Hg as [Hck Hgr].
    rewrite (chunk_ok_kind _ _ Hck) in Hc. subst k.
    cbn [concat] in Hss. destruct (space_chunk_single c (concat r) Hck Hss) as [Ec Hrne]. subst c.
    assert (Hrne' : r <> []) by (intros E; subst r; apply Hrne; reflexivity).
    destruct (IH false Hgr (single_spaced_suffix _ _ Hss) (or_intror eq_refl)) as [F [_ Hcat]].
    destruct (Hcat Hrne') as [Hlne Ecat].
    split; [exact F|]. split; [discriminate|]. intros _. split; [exact Hlne|].
    cbn [concat negb]. rewrite Ecat. reflexivity.
  - assert (Hk : k = false).
    { destruct Hor as [Eh|Ek]; [|exact Ek]. specialize (Hf Eh).
      destruct line as [|c0 lr]; [contradiction|]. cbn [app good] in Hg. destruct Hg as [Hc0 _].
      cbn [first_is_word] in Hf. rewrite (chunk_ok_kind _ _ Hc0) in Hf. exact Hf. }
    subst k.
    assert (Hfw : first_is_word line).
    { destruct line as [|c0 lr]; [contradiction|]. cbn [app good] in Hg. destruct Hg as [Hc0 _].
      cbn [first_is_word]. apply (chunk_ok_kind _ _ Hc0). }
    pose proof (group_line_ok line false r Hg Hss Hne Hfw Hl) as Hlok.
    pose proof (good_app_last line r false Hg Hne Hl) as Hgr.
    rewrite concat_app in Hss.
    destruct (IH true Hgr (single_spaced_suffix _ _ Hss) (or_introl eq_refl)) as [F [Hnil Hcat]].
    split; [constructor; assumption|]. split.
    + intros E. apply app_eq_nil in E. destruct E as [E _]. contradiction.
    + intros _. split; [discriminate|]. rewrite concat_app. cbn [app].
      destruct r as [|c1 r'].
      * rewrite (Hnil eq_refl). cbn [concat join]. rewrite app_nil_r. reflexivity.
      * destruct (Hcat ltac:(discriminate)) as [Hlne Ecat]. rewrite Ecat.
        destruct ls as [|l1 ls']; [contradiction|]. reflexivity.
Qed.

(* the line representation *)
Theorem fill_tidy_repr : forall w s r,
    tidy s = true -> fill w s = Ok r ->
    exists ls, ls <> [] /\ s = join [sp] ls /\ r = join [nl] ls /\ Forall line_ok ls.
Proof.
  intros w s r Ht Hf. destruct (tidy_inv s Ht) as [Hss [c0 [r0 [Es Hc0]]]].
  destruct (fill_seg w s r Hf) as [ls [Hr [Hseg [Hwf Hcat]]]].
  rewrite (single_spaced_replace_ws s Hss) in *.
  destruct Hwf as [k Hg].
  assert (Hk : k = false).
  { destruct (chunks s) as [|c cs] eqn:Ec; [cbn in Hcat; rewrite <- Hcat in Es; discriminate|].
    cbn [good] in Hg. destruct Hg as [Hc _]. destruct k; [|reflexivity]. exfalso.
    destruct (chunk_true_sp c Hc) as [rr [E _]]. subst c. cbn [concat app] in Hcat.
    rewrite Es in Hcat. injection Hcat as Hcat _. subst c0. discriminate. }
  subst k.
  assert (Hss' : single_spaced (concat (chunks s)) = true) by (rewrite Hcat; exact Hss).
  destruct (seg_repr w false (chunks s) ls Hseg false Hg Hss' (or_intror eq_refl)) as [F [_ Hc]].
  assert (Hne : chunks s <> []).
  { intros E. rewrite E in Hcat. cbn in Hcat. rewrite <- Hcat in Es. discriminate. }
  destruct (Hc Hne) as [Hlne Ecat]. exists ls. split; [exact Hlne|]. split; [|split; [exact Hr|exact F]].
  rewrite <- Hcat. exact Ecat.
Qed.

(* ------------------------------------------------------------------ the first line is greedy *)

Lemma take_fit_prefix : forall w p q n,
    n + List.length (concat p) <= w ->
    exists t rest, take_fit w n (p ++ q) = (p ++ t, rest).
Proof.
  intros w p. induction p as [|c p IH]; intros q n H.
  - cbn [app]. destruct (take_fit w n q) as [t rest]. exists t, rest. reflexivity.
  - cbn [concat] in H. rewrite app_length in H. cbn [app take_fit].
    assert (E : Nat.leb (n + List.length c) w = true) by (apply Nat.leb_le; lia). rewrite E.
    destruct (IH q (n + List.length c)) as [t [rest Ht]]; [lia|]. rewrite Ht. exists t, rest. reflexivity.
Qed.

Lemma drop_last_space_keep : forall p t, p <> [] -> last_is_word p ->
    exists t', drop_last_space (p ++ t) = p ++ t'.
Proof.
  intros p t Hne Hl. destruct (rev_case t) as [E|[t0 [c E]]]; subst t.
  - exists []. rewrite app_nil_r. unfold drop_last_space. unfold last_is_word in Hl.
    destruct (rev p) as [|c r] eqn:Er; [reflexivity|]. rewrite Hl. reflexivity.
  - rewrite app_assoc, drop_last_space_snoc. destruct (is_space_chunk c).
    + exists t0. reflexivity.
    + exists (t0 ++ [c]). rewrite app_assoc. reflexivity.
Qed.

Lemma wrap_first_prefix : forall f w p q,
    p <> [] -> List.length (concat p) <= w -> last_is_word p ->
    exists x more, wrap_chunks (S f) w (p ++ q) false = (concat p ++ x) :: more.
Proof.
  intros f w p q Hne Hlen Hl. destruct (take_fit_prefix w p q 0) as [t [rest Ht]]; [lia|].
  destruct (drop_last_space_keep p t Hne Hl) as [t' Hd].
  destruct p as [|c0 p']; [contradiction|].
  cbn [app] in *. cbn [wrap_chunks]. rewrite andb_false_r. rewrite Ht.
  cbv iota beta. rewrite Hd. cbv iota beta.
  exists (concat t'), (wrap_chunks f w rest true).
  change (c0 :: p' ++ t') with ((c0 :: p') ++ t'). rewrite concat_app. reflexivity.
Qed.

(* the chunk boundaries respect a prefix that ends in a non-blank and is followed by a blank *)
Lemma chunk_split : forall cs k h D,
    good k cs -> concat cs = h ++ sp :: D ->
    (h = [] \/ exists l, last_c h = Some l /\ l <> sp) ->
    exists p q, cs = p ++ q /\ concat p = h.
Proof.
  induction cs as [|c cs IH]; intros k h D Hg Hcat Hh.
  - destruct h; discriminate.
  - destruct Hh as [E|[l [Hl Hlsp]]]; [subst h; exists [], (c :: cs); split; reflexivity|].
    cbn [good] in Hg. destruct Hg as [Hc Hgr]. cbn [concat] in Hcat.
    destruct (app_eq_app_cases _ _ _ _ _ Hcat) as [[m [Eh Em]]|[m [Hm [Ec Em]]]].
    + (* h = c ++ m *)
      assert (Hm : m = [] \/ exists l', last_c m = Some l' /\ l' <> sp).
      { destruct m as [|y m']; [left; reflexivity|right]. exists l. split; [|exact Hlsp].
        rewrite Eh in Hl. rewrite last_c_app_nonnil in Hl by discriminate. exact Hl. }
      destruct (IH (negb k) m D Hgr Em Hm) as [p [q [E1 E2]]].
      exists (c :: p), q. split; [cbn [app]; rewrite E1; reflexivity|]. cbn [concat]. rewrite E2, Eh. reflexivity.
    + (* c = h ++ m, m non-empty and begins with the blank *)
      exfalso. destruct m as [|y m']; [contradiction|]. cbn [app] in Em. injection Em as Ey _. subst y.
      assert (Hin : In sp c) by (rewrite Ec; apply in_or_app; right; left; reflexivity).
      destruct k.
      * destruct (chunk_true_sp c Hc) as [r [E Hr]].
        assert (Hall : forall x, In x c -> x = sp).
        { intros x Hx. rewrite E in Hx. destruct Hx as [Hx|Hx]; [symmetry; exact Hx|].
          rewrite forallb_forall in Hr. apply ascii_eqb_eq. apply Hr. exact Hx. }
        apply Hlsp. apply Hall. rewrite Ec. apply in_or_app. left. apply last_c_In. exact Hl.
      * exact (word_chunk_chars c sp Hc Hin eq_refl).
Qed.

Lemma last_chunk_word : forall cs k p q h l,
    good k cs -> cs = p ++ q -> concat p = h -> last_c h = Some l -> l <> sp -> last_is_word p /\ p <> [].
Proof.
  intros cs k p q h l Hg Ecs Ep Hl Hlsp.
  destruct (rev_case p) as [E|[p0 [c E]]].
  - subst p. cbn in Ep. subst h. discriminate.
  - split; [|rewrite E; destruct p0; discriminate]. subst p. unfold last_is_word. rewrite rev_app_distr. cbn [rev app].
    assert (Hin : In c cs) by (rewrite Ecs; apply in_or_app; left; apply in_or_app; right; left; reflexivity).
    destruct (good_In cs k c Hg Hin) as [k' Hk']. rewrite (chunk_ok_kind _ _ Hk').
    destruct k'; [|reflexivity]. exfalso.
    destruct (chunk_true_sp c Hk') as [r [E Hr]].
    rewrite concat_app in Ep. cbn [concat] in Ep. rewrite app_nil_r in Ep.
    assert (Hlc : last_c c = Some l).
    { rewrite <- Ep in Hl. rewrite last_c_app_nonnil in Hl; [exact Hl|rewrite E; discriminate]. }
    apply Hlsp. apply last_c_In in Hlc. rewrite E in Hlc. destruct Hlc as [Hx|Hx]; [symmetry; exact Hx|].
    rewrite forallb_forall in Hr. apply ascii_eqb_eq. apply Hr. exact Hx.
Qed.

(* greedy first line: a header that fits stays on the first line *)
Theorem fill_first_line : forall w h D r l,
    single_spaced (h ++ sp :: D) = true -> last_c h = Some l -> l <> sp ->
    List.length h <= w -> fill w (h ++ sp :: D) = Ok r -> startswith h r = true.
Proof.
  intros w h D r l Hss Hl Hlsp Hlen Hf.
  destruct (fill_inv w _ r Hf) as [_ [_ Er]].
  rewrite (single_spaced_replace_ws _ Hss) in Er.
  destruct (chunks_spec _ (single_spaced_normal _ Hss)) as [[k Hg] Hcat].
  destruct (chunk_split _ k h D Hg Hcat (or_intror (ex_intro _ l (conj Hl Hlsp)))) as [p [q [Ecs Ep]]].
  destruct (last_chunk_word _ k p q h l Hg Ecs Ep Hl Hlsp) as [Hlw Hpne].
  rewrite Ecs in Er.
  destruct (wrap_first_prefix (List.length (p ++ q)) w p q Hpne) as [x [more Hw]]; [rewrite Ep; exact Hlen|exact Hlw|].
  rewrite Hw in Er. rewrite Ep in Er. subst r.
  destruct more as [|m1 more']; cbn [join]; rewrite <- ?app_assoc; apply startswith_app.
Qed.
