(* C18FillTidy: textwrap.fill on tidy text (words separated by single plain blanks): the lines of the result are
   consecutive pieces of the text, a blank is dropped at every break (line representation); the first line takes
   every leading word that fits (greedy).  From these: the closed-form guard of model/C18ParseSpec.v implies the
   piece-wise one.  Proofs only. *)
From Coq Require Import List Ascii Bool Arith ZArith Lia.
From Coq Require String.
Import String.StringSyntax.
From DT Require Import PyStr Sexp PyVal TyExpr PureUtils Defaults PyAst IR Extracted Fill C17Spec.
From DT Require Import DocEmit C18Spec DocParse C01Spec C18ParseSpec.
From DT Require Import PyStrFacts DefaultsFacts SplitFacts FillFacts DocEmitFacts C18Facts DocParseFacts C01RestLink C18Parse.
Import ListNotations.

(* ------------------------------------------------------------------ characters *)

Lemma ascii_all : forall P : ascii -> Prop,
    (forall b0 b1 b2 b3 b4 b5 b6 b7, P (Ascii b0 b1 b2 b3 b4 b5 b6 b7)) -> forall c, P c.
Proof. intros P H [b0 b1 b2 b3 b4 b5 b6 b7]. apply H. Qed.

Lemma tw_space_isspace : forall c, tw_space c = true -> isspace c = true.
Proof.
  apply (ascii_all (fun c => tw_space c = true -> isspace c = true)).
  intros [] [] [] [] [] [] [] []; vm_compute; intros H; try reflexivity; discriminate H.
Qed.

Lemma id_char_not_space : forall c, is_id_char c = true -> isspace c = false.
Proof.
  apply (ascii_all (fun c => is_id_char c = true -> isspace c = false)).
  intros [] [] [] [] [] [] [] []; vm_compute; intros H; try reflexivity; discriminate H.
Qed.

(* ------------------------------------------------------------------ tidy text *)

Definition nospace (u : str) : Prop := forallb (fun c => negb (isspace c)) u = true.

Lemma single_spaced_chars : forall s c, single_spaced s = true -> In c s -> isspace c = true -> c = sp.
Proof.
  induction s as [|x r IH]; intros c H Hin Hc; [destruct Hin|].
  cbn [single_spaced] in H. apply andb_true_iff in H. destruct H as [Hx Hr].
  destruct Hin as [E|Hin]; [|exact (IH c Hr Hin Hc)]. subst x. rewrite Hc in Hx.
  apply andb_true_iff in Hx. destruct Hx as [Hx _]. apply ascii_eqb_eq in Hx. exact Hx.
Qed.

Lemma single_spaced_suffix : forall a b, single_spaced (a ++ b) = true -> single_spaced b = true.
Proof.
  induction a as [|x a IH]; intros b H; [exact H|].
  cbn [app single_spaced] in H. apply andb_true_iff in H. apply IH. apply H.
Qed.

Lemma single_spaced_sp_next : forall r, single_spaced (sp :: r) = true ->
    exists d r', r = d :: r' /\ isspace d = false.
Proof.
  intros r H. cbn [single_spaced] in H. change (isspace sp) with true in H. cbv iota in H.
  apply andb_true_iff in H. destruct H as [H _]. apply andb_true_iff in H. destruct H as [_ H].
  destruct r as [|d r']; [discriminate|]. exists d, r'. split; [reflexivity|]. apply negb_true_iff. exact H.
Qed.

Lemma single_spaced_nospace_app : forall u b, nospace u -> single_spaced b = true -> single_spaced (u ++ b) = true.
Proof.
  induction u as [|x u IH]; intros b Hu Hb; [exact Hb|].
  unfold nospace in Hu. cbn [forallb] in Hu. apply andb_true_iff in Hu. destruct Hu as [Hx Hu].
  apply negb_true_iff in Hx. cbn [app single_spaced]. rewrite Hx. cbn [andb]. apply IH; assumption.
Qed.

Lemma single_spaced_sp_cons : forall d r, isspace d = false -> single_spaced (d :: r) = true ->
    single_spaced (sp :: d :: r) = true.
Proof.
  intros d r Hd H. cbn [single_spaced] in *. change (isspace sp) with true. cbv iota.
  rewrite ascii_eqb_refl, Hd in *. cbn [negb andb] in *. exact H.
Qed.

Lemma last_c_cons_ne : forall (x : ascii) r, r <> [] -> last_c (x :: r) = last_c r.
Proof. intros x [|y r] H; [contradiction|]. apply last_c_cons_cons. Qed.

Lemma single_spaced_last : forall s c, single_spaced s = true -> last_c s = Some c -> isspace c = false.
Proof.
  induction s as [|x r IH]; intros c H Hl; [discriminate|].
  destruct r as [|y r'].
  - cbn in Hl. injection Hl as Hl. subst x. cbn [single_spaced] in H.
    destruct (isspace c); [|reflexivity]. rewrite andb_false_r in H. discriminate.
  - rewrite last_c_cons_cons in Hl. apply IH; [|exact Hl].
    cbn [single_spaced] in H. apply andb_true_iff in H. apply H.
Qed.

Lemma tidy_inv : forall s, tidy s = true ->
    single_spaced s = true /\ exists c r, s = c :: r /\ isspace c = false.
Proof.
  intros s H. unfold tidy in H. apply andb_true_iff in H. destruct H as [H1 H2]. split; [exact H2|].
  destruct s as [|c r]; [discriminate|]. exists c, r. split; [reflexivity|]. apply negb_true_iff. exact H1.
Qed.

Lemma tidy_edge_ok : forall s, tidy s = true -> edge_ok s.
Proof.
  intros s H. destruct (tidy_inv s H) as [Hs [c [r [E Hc]]]]. split.
  - exists c, r. split; assumption.
  - destruct (last_c s) as [l|] eqn:El.
    + exists l. split; [reflexivity|]. apply (single_spaced_last s l Hs El).
    + apply last_c_nil_iff in El. subst s. discriminate.
Qed.

Lemma single_spaced_no : forall s c, single_spaced s = true -> isspace c = true -> c <> sp -> mem_c c s = false.
Proof.
  intros s c Hs Hc Hne. destruct (mem_c c s) eqn:E; [|reflexivity]. exfalso.
  apply mem_c_In in E. apply Hne. exact (single_spaced_chars s c Hs E Hc).
Qed.

Lemma single_spaced_replace_ws : forall s, single_spaced s = true -> replace_ws s = s.
Proof.
  intros s Hs. apply replace_ws_id. rewrite forallb_forall. intros c Hin.
  destruct (tw_space c) eqn:E; [|reflexivity]. cbn [negb orb].
  apply ascii_eqb_eq. apply (single_spaced_chars s c Hs Hin). apply tw_space_isspace. exact E.
Qed.

Lemma single_spaced_normal : forall s, single_spaced s = true -> normal s.
Proof.
  intros s Hs. rewrite <- (single_spaced_replace_ws s Hs). apply replace_ws_normal.
Qed.

(* ------------------------------------------------------------------ chunks of single-spaced text *)

Definition line_ok (l : str) : Prop := edge_ok l /\ mem_c nl l = false.

Lemma chunk_true_sp : forall c, chunk_ok true c -> exists r, c = sp :: r /\ forallb (fun x => ascii_eqb x sp) r = true.
Proof.
  intros c [Hne H]. destruct c as [|x r]; [contradiction|]. cbn [forallb] in H.
  apply andb_true_iff in H. destruct H as [Hx Hr].
  apply andb_true_iff in Hx. destruct Hx as [Hx _]. apply eqb_prop in Hx. unfold spc in Hx.
  apply ascii_eqb_eq in Hx. subst x. exists r. split; [reflexivity|].
  rewrite forallb_forall in *. intros y Hy. specialize (Hr y Hy).
  apply andb_true_iff in Hr. destruct Hr as [Hr _]. apply eqb_prop in Hr. exact Hr.
Qed.

(* in single-spaced text a blank chunk is one blank, and something follows it *)
Lemma space_chunk_single : forall c rest, chunk_ok true c -> single_spaced (c ++ rest) = true ->
    c = [sp] /\ rest <> [].
Proof.
  intros c rest Hc Hs. destruct (chunk_true_sp c Hc) as [r [E Hr]]. subst c.
  cbn [app] in Hs. destruct (single_spaced_sp_next _ Hs) as [d [r' [E Hd]]].
  destruct r as [|y r].
  - split; [reflexivity|]. cbn [app] in E. rewrite E. discriminate.
  - exfalso. cbn [app] in E. injection E as E _. subst d. cbn [forallb] in Hr.
    apply andb_true_iff in Hr. destruct Hr as [Hy _]. apply ascii_eqb_eq in Hy. subst y. discriminate.
Qed.

Lemma word_chunk_chars : forall c x, chunk_ok false c -> In x c -> x <> sp.
Proof.
  intros c x [_ H] Hin E. subst x. rewrite forallb_forall in H. specialize (H sp Hin).
  apply andb_true_iff in H. destruct H as [H _]. apply eqb_prop in H. discriminate.
Qed.

Lemma good_app_last : forall a b k, good k (a ++ b) -> a <> [] -> last_is_word a -> good true b.
Proof.
  induction a as [|x a IH]; intros b k H Hne Hl; [contradiction|].
  cbn [app good] in H. destruct H as [Hx Hr].
  destruct a as [|y a'].
  - unfold last_is_word in Hl. cbn [rev app] in Hl. rewrite (chunk_ok_kind _ _ Hx) in Hl. subst k. exact Hr.
  - apply (IH b (negb k) Hr); [discriminate|].
    unfold last_is_word in *. cbn [rev] in *. destruct (rev a' ++ [y]) as [|z zs] eqn:E.
    + destruct (rev a'); discriminate.
    + cbn [app] in Hl. exact Hl.
Qed.

Lemma good_In : forall cs k c, good k cs -> In c cs -> exists k', chunk_ok k' c.
Proof.
  induction cs as [|x cs IH]; intros k c H Hin; [destruct Hin|].
  cbn [good] in H. destruct H as [Hx Hr]. destruct Hin as [E|Hin]; [subst; exists k; exact Hx|].
  apply (IH (negb k) c Hr Hin).
Qed.

Lemma concat_In_chars : forall (cs : list str) c x, In c cs -> In x c -> In x (concat cs).
Proof.
  induction cs as [|y cs IH]; intros c x Hc Hx; [destruct Hc|].
  cbn [concat]. apply in_or_app. destruct Hc as [E|Hc]; [subst; left; exact Hx|right; apply (IH c x Hc Hx)].
Qed.

(* the concatenation of a group that starts and ends with a word chunk is a good line *)
Lemma group_line_ok : forall line k rest,
    good k (line ++ rest) -> single_spaced (concat (line ++ rest)) = true ->
    line <> [] -> first_is_word line -> last_is_word line -> line_ok (concat line).
Proof.
  intros line k rest Hg Hs Hne Hf Hl.
  assert (Hchars : forall c x, In c line -> In x c -> isspace x = true -> x = sp).
  { intros c x Hc Hx Hsx. apply (single_spaced_chars _ x Hs); [|exact Hsx].
    apply (concat_In_chars _ c); [apply in_or_app; left; exact Hc|exact Hx]. }
  assert (Hword : forall c, In c line -> is_space_chunk c = false ->
                            c <> [] /\ forall x, In x c -> isspace x = false).
  { intros c Hc Hk. destruct (good_In _ k c Hg (in_or_app _ _ _ (or_introl Hc))) as [k' Hk'].
    rewrite (chunk_ok_kind _ _ Hk') in Hk. subst k'. split; [apply Hk'|].
    intros x Hx. destruct (isspace x) eqn:E; [|reflexivity]. exfalso.
    apply (word_chunk_chars c x Hk' Hx). apply (Hchars c x Hc Hx E). }
  split; [split|].
  - destruct line as [|c0 lr]; [contradiction|]. cbn [first_is_word] in Hf.
    destruct (Hword c0 (or_introl eq_refl) Hf) as [Hc0 Hall].
    destruct c0 as [|x c0']; [contradiction|]. exists x, (c0' ++ concat lr). split; [reflexivity|].
    apply Hall. left. reflexivity.
  - destruct (rev_case line) as [E|[l' [c E]]]; [contradiction|]. subst line.
    unfold last_is_word in Hl. rewrite rev_app_distr in Hl. cbn [rev app] in Hl.
    assert (Hcin : In c (l' ++ [c])) by (apply in_or_app; right; left; reflexivity).
    destruct (Hword c Hcin Hl) as [Hc Hall].
    destruct (rev_case c) as [E|[c' [x E]]]; [contradiction|]. subst c.
    exists x. split.
    + rewrite concat_app. cbn [concat]. rewrite app_nil_r, app_assoc. apply last_c_app_single.
    + apply Hall. apply in_or_app. right. left. reflexivity.
  - destruct (mem_c nl (concat line)) eqn:E; [|reflexivity]. exfalso. apply mem_c_In in E.
    apply (good_no_nl _ k Hg). rewrite concat_app. apply in_or_app. left. exact E.
Qed.

Lemma seg_repr : forall w hl cs ls, seg w hl cs ls ->
    forall k, good k cs -> single_spaced (concat cs) = true -> (hl = true \/ k = false) ->
    Forall line_ok ls
    /\ (cs = [] -> ls = [])
    /\ (cs <> [] -> ls <> [] /\ concat cs = (if k then [sp] else []) ++ join [sp] ls).
Proof.
  intros w hl cs ls H. induction H as [hl|hl c r ls Hc Hs IH|hl line r ls Hne Hlen Hf Hl Hs IH];
    intros k Hg Hss Hor.
  - split; [constructor|]. split; [reflexivity|]. intros E. contradiction.
  - cbn [good] in Hg. destruct Hg as [Hck Hgr].
    rewrite (chunk_ok_kind _ _ Hck) in Hc. subst k.
    cbn [concat] in Hss. destruct (space_chunk_single c (concat r) Hck Hss) as [Ec Hrne]. subst c.
    assert (Hrne' : r <> []) by (intros E; subst r; apply Hrne; reflexivity).
    destruct (IH false Hgr (single_spaced_suffix _ _ Hss) (or_intror eq_refl)) as [F [_ Hcat]].
    destruct (Hcat Hrne') as [Hlne Ecat].
    split; [exact F|]. split; [discriminate|]. intros _. split; [exact Hlne|].
    cbn [concat negb]. rewrite Ecat. reflexivity.
  - assert (Hk : k = false).
    { destruct Hor as [Eh|Ek]; [|exact Ek]. specialize (Hf Eh).
      destruct line as [|c0 lr]; [contradiction|]. cbn [app good] in Hg. destruct Hg as [Hc0 _].
      cbn [first_is_word] in Hf. rewrite (chunk_ok_kind _ _ Hc0) in Hf. exact Hf. }
    subst k.
    assert (Hfw : first_is_word line).
    { destruct line as [|c0 lr]; [contradiction|]. cbn [app good] in Hg. destruct Hg as [Hc0 _].
      cbn [first_is_word]. apply (chunk_ok_kind _ _ Hc0). }
    pose proof (group_line_ok line false r Hg Hss Hne Hfw Hl) as Hlok.
    pose proof (good_app_last line r false Hg Hne Hl) as Hgr.
    rewrite concat_app in Hss.
    destruct (IH true Hgr (single_spaced_suffix _ _ Hss) (or_introl eq_refl)) as [F [Hnil Hcat]].
    split; [constructor; assumption|]. split.
    + intros E. apply app_eq_nil in E. destruct E as [E _]. contradiction.
    + intros _. split; [discriminate|]. rewrite concat_app. cbn [app].
      destruct r as [|c1 r'].
      * rewrite (Hnil eq_refl). cbn [concat join]. rewrite app_nil_r. reflexivity.
      * destruct (Hcat ltac:(discriminate)) as [Hlne Ecat]. rewrite Ecat.
        destruct ls as [|l1 ls']; [contradiction|]. reflexivity.
Qed.

(* the line representation *)
Theorem fill_tidy_repr : forall w s r,
    tidy s = true -> fill w s = Ok r ->
    exists ls, ls <> [] /\ s = join [sp] ls /\ r = join [nl] ls /\ Forall line_ok ls.
Proof.
  intros w s r Ht Hf. destruct (tidy_inv s Ht) as [Hss [c0 [r0 [Es Hc0]]]].
  destruct (fill_seg w s r Hf) as [ls [Hr [Hseg [Hwf Hcat]]]].
  rewrite (single_spaced_replace_ws s Hss) in *.
  destruct Hwf as [k Hg].
  assert (Hk : k = false).
  { destruct (chunks s) as [|c cs] eqn:Ec; [cbn in Hcat; rewrite <- Hcat in Es; discriminate|].
    cbn [good] in Hg. destruct Hg as [Hc _]. destruct k; [|reflexivity]. exfalso.
    destruct (chunk_true_sp c Hc) as [rr [E _]]. subst c. cbn [concat app] in Hcat.
    rewrite Es in Hcat. injection Hcat as Hcat _. subst c0. discriminate. }
  subst k.
  assert (Hss' : single_spaced (concat (chunks s)) = true) by (rewrite Hcat; exact Hss).
  destruct (seg_repr w false (chunks s) ls Hseg false Hg Hss' (or_intror eq_refl)) as [F [_ Hc]].
  assert (Hne : chunks s <> []).
  { intros E. rewrite E in Hcat. cbn in Hcat. rewrite <- Hcat in Es. discriminate. }
  destruct (Hc Hne) as [Hlne Ecat]. exists ls. split; [exact Hlne|]. split; [|split; [exact Hr|exact F]].
  rewrite <- Hcat. exact Ecat.
Qed.

(* ------------------------------------------------------------------ the first line is greedy *)

Lemma take_fit_prefix : forall w p q n,
    n + List.length (concat p) <= w ->
    exists t rest, take_fit w n (p ++ q) = (p ++ t, rest).
Proof.
  intros w p. induction p as [|c p IH]; intros q n H.
  - cbn [app]. destruct (take_fit w n q) as [t rest]. exists t, rest. reflexivity.
  - cbn [concat] in H. rewrite app_length in H. cbn [app take_fit].
    assert (E : Nat.leb (n + List.length c) w = true) by (apply Nat.leb_le; lia). rewrite E.
    destruct (IH q (n + List.length c)) as [t [rest Ht]]; [lia|]. rewrite Ht. exists t, rest. reflexivity.
Qed.

Lemma drop_last_space_keep : forall p t, p <> [] -> last_is_word p ->
    exists t', drop_last_space (p ++ t) = p ++ t'.
Proof.
  intros p t Hne Hl. destruct (rev_case t) as [E|[t0 [c E]]]; subst t.
  - exists []. rewrite app_nil_r. unfold drop_last_space. unfold last_is_word in Hl.
    destruct (rev p) as [|c r] eqn:Er; [reflexivity|]. rewrite Hl. reflexivity.
  - rewrite app_assoc, drop_last_space_snoc. destruct (is_space_chunk c).
    + exists t0. reflexivity.
    + exists (t0 ++ [c]). rewrite app_assoc. reflexivity.
Qed.

Lemma wrap_first_prefix : forall f w p q,
    p <> [] -> List.length (concat p) <= w -> last_is_word p ->
    exists x more, wrap_chunks (S f) w (p ++ q) false = (concat p ++ x) :: more.
Proof.
  intros f w p q Hne Hlen Hl. destruct (take_fit_prefix w p q 0) as [t [rest Ht]]; [lia|].
  destruct (drop_last_space_keep p t Hne Hl) as [t' Hd].
  destruct p as [|c0 p']; [contradiction|].
  cbn [app] in *. cbn [wrap_chunks]. rewrite andb_false_r. rewrite Ht.
  cbv iota beta.
  exists (concat t'), (wrap_chunks f w rest true).
  match goal with |- context [drop_last_space ?x] =>
    replace (drop_last_space x) with ((c0 :: p') ++ t') by (symmetry; exact Hd) end.
  cbn [app]. change (c0 :: p' ++ t') with ((c0 :: p') ++ t'). rewrite concat_app. reflexivity.
Qed.

(* the chunk boundaries respect a prefix that ends in a non-blank and is followed by a blank *)
Lemma chunk_split : forall cs k h D,
    good k cs -> concat cs = h ++ sp :: D ->
    (h = [] \/ exists l, last_c h = Some l /\ l <> sp) ->
    exists p q, cs = p ++ q /\ concat p = h.
Proof.
  induction cs as [|c cs IH]; intros k h D Hg Hcat Hh.
  - destruct h; discriminate.
  - destruct Hh as [E|[l [Hl Hlsp]]]; [subst h; exists [], (c :: cs); split; reflexivity|].
    cbn [good] in Hg. destruct Hg as [Hc Hgr]. cbn [concat] in Hcat.
    destruct (app_eq_app_cases _ _ _ _ _ Hcat) as [[m [Eh Em]]|[m [Hm [Ec Em]]]].
    + (* h = c ++ m *)
      assert (Hm : m = [] \/ exists l', last_c m = Some l' /\ l' <> sp).
      { destruct m as [|y m']; [left; reflexivity|right]. exists l. split; [|exact Hlsp].
        rewrite Eh in Hl. rewrite last_c_app_nonnil in Hl by discriminate. exact Hl. }
      destruct (IH (negb k) m D Hgr Em Hm) as [p [q [E1 E2]]].
      exists (c :: p), q. split; [cbn [app]; rewrite E1; reflexivity|]. cbn [concat]. rewrite E2, Eh. reflexivity.
    + (* c = h ++ m, m non-empty and begins with the blank *)
      exfalso. destruct m as [|y m']; [contradiction|]. cbn [app] in Em. injection Em as Ey _. subst y.
      assert (Hin : In sp c) by (rewrite Ec; apply in_or_app; right; left; reflexivity).
      destruct k.
      * destruct (chunk_true_sp c Hc) as [r [E Hr]].
        assert (Hall : forall x, In x c -> x = sp).
        { intros x Hx. rewrite E in Hx. destruct Hx as [Hx|Hx]; [symmetry; exact Hx|].
          rewrite forallb_forall in Hr. apply ascii_eqb_eq. apply Hr. exact Hx. }
        apply Hlsp. apply Hall. rewrite Ec. apply in_or_app. left. apply last_c_In. exact Hl.
      * exact (word_chunk_chars c sp Hc Hin eq_refl).
Qed.

Lemma last_chunk_word : forall cs k p q h l,
    good k cs -> cs = p ++ q -> concat p = h -> last_c h = Some l -> l <> sp -> last_is_word p /\ p <> [].
Proof.
  intros cs k p q h l Hg Ecs Ep Hl Hlsp.
  destruct (rev_case p) as [E|[p0 [c E]]].
  - subst p. cbn in Ep. subst h. discriminate.
  - split; [|rewrite E; destruct p0; discriminate]. subst p. unfold last_is_word. rewrite rev_app_distr. cbn [rev app].
    assert (Hin : In c cs) by (rewrite Ecs; apply in_or_app; left; apply in_or_app; right; left; reflexivity).
    destruct (good_In cs k c Hg Hin) as [k' Hk']. rewrite (chunk_ok_kind _ _ Hk').
    destruct k'; [|reflexivity]. exfalso.
    destruct (chunk_true_sp c Hk') as [r [E Hr]].
    rewrite concat_app in Ep. cbn [concat] in Ep. rewrite app_nil_r in Ep.
    assert (Hlc : last_c c = Some l).
    { rewrite <- Ep in Hl. rewrite last_c_app_nonnil in Hl; [exact Hl|rewrite E; discriminate]. }
    apply Hlsp. apply last_c_In in Hlc. rewrite E in Hlc. destruct Hlc as [Hx|Hx]; [symmetry; exact Hx|].
    rewrite forallb_forall in Hr. apply ascii_eqb_eq. apply Hr. exact Hx.
Qed.

(* greedy first line: a header that fits stays on the first line *)
Theorem fill_first_line : forall w h D r l,
    single_spaced (h ++ sp :: D) = true -> last_c h = Some l -> l <> sp ->
    List.length h <= w -> fill w (h ++ sp :: D) = Ok r -> startswith h r = true.
Proof.
  intros w h D r l Hss Hl Hlsp Hlen Hf.
  destruct (fill_inv w _ r Hf) as [_ [_ Er]].
  rewrite (single_spaced_replace_ws _ Hss) in Er.
  destruct (chunks_spec _ (single_spaced_normal _ Hss)) as [[k Hg] Hcat].
  destruct (chunk_split _ k h D Hg Hcat (or_intror (ex_intro _ l (conj Hl Hlsp)))) as [p [q [Ecs Ep]]].
  destruct (last_chunk_word _ k p q h l Hg Ecs Ep Hl Hlsp) as [Hlw Hpne].
  subst r. rewrite Ecs.
  match goal with |- context [wrap_chunks (S ?f) w ?cs false] =>
    destruct (wrap_first_prefix f w p q Hpne) as [x [more Hw]];
      [rewrite Ep; exact Hlen|exact Hlw|];
    replace (wrap_chunks (S f) w cs false) with ((concat p ++ x) :: more) by (symmetry; exact Hw) end.
  rewrite Ep.
  destruct more as [|m1 more']; cbn [join]; rewrite <- ?app_assoc; apply startswith_app.
Qed.

(* ------------------------------------------------------------------ lines joined by a blank / by a line break and blanks *)

Definition allsp_pad (pad : str) : Prop := forallb (fun c => ascii_eqb c sp) pad = true.

Lemma allsp_pad_isspace : forall pad, allsp_pad pad -> forallb isspace pad = true.
Proof.
  intros pad H. unfold allsp_pad in H. rewrite forallb_forall in *. intros c Hc.
  specialize (H c Hc). apply ascii_eqb_eq in H. subst c. reflexivity.
Qed.

Lemma join_as_concat : forall sep (x : str) l, join sep (x :: l) = x ++ concat (map (fun y => sep ++ y) l).
Proof.
  intros sep x l. revert x. induction l as [|y l IH]; intros x.
  - cbn [join map concat]. rewrite app_nil_r. reflexivity.
  - change (join sep (x :: y :: l)) with (x ++ sep ++ join sep (y :: l)). rewrite IH.
    cbn [map concat]. rewrite <- !app_assoc. reflexivity.
Qed.

Lemma join_pad_lines : forall pad (l0 : str) ls,
    join (nl :: pad) (l0 :: ls) = join [nl] (l0 :: map (fun l => pad ++ l) ls).
Proof.
  intros pad l0 ls. rewrite !join_as_concat, map_map. reflexivity.
Qed.

Lemma line_ok_not_blank : forall l, line_ok l -> forallb isspace l = false.
Proof. intros l [[[c [r [E Hc]]] _] _]. rewrite E. cbn [forallb]. rewrite Hc. reflexivity. Qed.

Lemma line_ok_no_nl : forall l, line_ok l -> ~ In nl l.
Proof. intros l [_ H]. apply mem_c_false_notin. exact H. Qed.

Lemma indent_lines_nonblank : forall prefix ls,
    Forall line_ok ls -> indent_lines prefix ls = map (fun l => prefix ++ l) ls.
Proof.
  intros prefix ls H. induction H as [|l ls Hl _ IH]; [reflexivity|].
  cbn [indent_lines map]. rewrite (line_ok_not_blank l Hl), IH. reflexivity.
Qed.

Definition P1 : str := repeat_str tab 1.

Lemma P1_allsp : allsp_pad P1.
Proof. reflexivity. Qed.

Lemma pad_line_no_nl : forall pad l, allsp_pad pad -> line_ok l -> ~ In nl (pad ++ l).
Proof.
  intros pad l Hp Hl Hin. apply in_app_or in Hin. destruct Hin as [Hin|Hin]; [|exact (line_ok_no_nl l Hl Hin)].
  unfold allsp_pad in Hp. rewrite forallb_forall in Hp. specialize (Hp nl Hin). discriminate.
Qed.

Lemma lstrip_pad_line : forall pad l, allsp_pad pad -> line_ok l -> lstrip (pad ++ l) = l.
Proof.
  intros pad l Hp [[[c [r [E Hc]]] _] _]. rewrite (lstrip_pad pad l (allsp_pad_isspace pad Hp)).
  unfold lstrip. apply lstrip_by_id. intros c' Hc'. rewrite E in Hc'. injection Hc' as Hc'. subst c'. exact Hc.
Qed.

Lemma strip_pad_line : forall pad l, allsp_pad pad -> line_ok l -> strip (pad ++ l) = l.
Proof.
  intros pad l Hp [He _]. rewrite <- (app_nil_r l) at 1.
  apply (strip_pad pad l [] (allsp_pad_isspace pad Hp) eq_refl He).
Qed.

(* indent_all_but_first on the lines of a filled text *)
Lemma iabf_join : forall l0 ls,
    Forall line_ok (l0 :: ls) ->
    indent_all_but_first (join [nl] (l0 :: ls)) 1 false = join (nl :: P1) (l0 :: ls).
Proof.
  intros l0 ls H. unfold indent_all_but_first, indent. fold P1.
  assert (Hnn : Forall (fun l => ~ In nl l) (l0 :: ls)).
  { apply Forall_forall. intros l Hl. apply line_ok_no_nl. rewrite Forall_forall in H. apply H. exact Hl. }
  rewrite (split_nl_join_lines _ Hnn). rewrite (indent_lines_nonblank P1 _ H). cbn [map].
  assert (Hnn' : Forall (fun l => ~ In nl l) ((P1 ++ l0) :: map (fun l => P1 ++ l) ls)).
  { inversion H as [|a b Ha Hb]; subst. constructor; [apply pad_line_no_nl; [exact P1_allsp|exact Ha]|].
    apply Forall_forall. intros l Hl. apply in_map_iff in Hl. destruct Hl as [l' [E Hl']]. subst l.
    apply pad_line_no_nl; [exact P1_allsp|]. rewrite Forall_forall in Hb. apply Hb. exact Hl'. }
  rewrite (split_nl_join_lines _ Hnn').
  inversion H as [|a b Ha Hb]; subst.
  rewrite (lstrip_pad_line P1 l0 P1_allsp Ha). symmetry. apply join_pad_lines.
Qed.

Lemma join_edge_ok : forall sep ls, ls <> [] -> Forall line_ok ls -> edge_ok (join sep ls).
Proof.
  intros sep ls Hne H. induction H as [|l ls Hl Hls IH]; [contradiction|].
  destruct ls as [|l2 ls'].
  - cbn [join]. apply Hl.
  - change (join sep (l :: l2 :: ls')) with (l ++ sep ++ join sep (l2 :: ls')).
    specialize (IH ltac:(discriminate)). destruct Hl as [[[c [r [E Hc]]] _] _]. destruct IH as [_ [z [Hz Hzs]]]. split.
    + exists c, (r ++ sep ++ join sep (l2 :: ls')). rewrite E. split; [reflexivity|exact Hc].
    + exists z. split; [|exact Hzs]. rewrite app_assoc. rewrite last_c_app_nonnil; [exact Hz|].
      intros E0. rewrite E0 in Hz. discriminate.
Qed.

Lemma rejoin_wrapped : forall pad ls, allsp_pad pad -> ls <> [] -> Forall line_ok ls ->
    rejoin (join (nl :: pad) ls) = join [sp] ls.
Proof.
  intros pad ls Hp Hne H. destruct ls as [|l0 ls']; [contradiction|].
  unfold rejoin. rewrite join_pad_lines.
  assert (Hnn : Forall (fun l => ~ In nl l) (l0 :: map (fun l => pad ++ l) ls')).
  { inversion H as [|a b Ha Hb]; subst. constructor; [apply line_ok_no_nl; exact Ha|].
    apply Forall_forall. intros l Hl. apply in_map_iff in Hl. destruct Hl as [l' [E Hl']]. subst l.
    apply pad_line_no_nl; [exact Hp|]. rewrite Forall_forall in Hb. apply Hb. exact Hl'. }
  rewrite (split_nl_join_lines _ Hnn). cbn [map]. inversion H as [|a b Ha Hb]; subst.
  rewrite (strip_edge_ok l0 (proj1 Ha)). f_equal. f_equal. rewrite map_map.
  clear -Hp Hb. induction Hb as [|l ls Hl _ IH]; [reflexivity|].
  cbn [map]. rewrite (strip_pad_line pad l Hp Hl), IH. reflexivity.
Qed.

Lemma rejoin_single_line : forall d, edge_ok d -> mem_c nl d = false -> rejoin d = d.
Proof.
  intros d He Hnl. unfold rejoin. rewrite (split_nl_single d Hnl). cbn [map join]. apply strip_edge_ok. exact He.
Qed.

Lemma join_sp_line_ok : forall ls, ls <> [] -> Forall line_ok ls -> line_ok (join [sp] ls).
Proof.
  intros ls Hne H. split; [apply join_edge_ok; assumption|].
  clear Hne. induction H as [|l ls Hl _ IH]; [reflexivity|].
  destruct ls as [|l2 ls']; [cbn [join]; apply Hl|].
  change (join [sp] (l :: l2 :: ls')) with (l ++ [sp] ++ join [sp] (l2 :: ls')).
  rewrite !mem_c_app, (proj2 Hl), IH. reflexivity.
Qed.

Lemma words_wrapped : forall pad ls, allsp_pad pad -> words (join (nl :: pad) ls) = words (join [sp] ls).
Proof.
  intros pad ls Hp. induction ls as [|l ls IH]; [reflexivity|].
  destruct ls as [|l2 ls']; [reflexivity|].
  change (join (nl :: pad) (l :: l2 :: ls')) with (l ++ nl :: (pad ++ join (nl :: pad) (l2 :: ls'))).
  change (join [sp] (l :: l2 :: ls')) with (l ++ sp :: join [sp] (l2 :: ls')).
  rewrite !words_app_sp_mid by reflexivity. rewrite words_app_allsp_l, IH; [reflexivity|].
  unfold allsp, allsp_pad in *. rewrite forallb_forall in *. intros c Hc. specialize (Hp c Hc).
  apply ascii_eqb_eq in Hp. subst c. reflexivity.
Qed.

(* ---- token-freeness ---- *)
Lemma no_rest_token_app_inv : forall a b, no_rest_token (a ++ b) = true ->
    no_rest_token a = true /\ no_rest_token b = true.
Proof.
  intros a b H. rewrite no_rest_token_spec in H. split; apply no_rest_token_spec; intros t Ht;
    specialize (H t Ht).
  - destruct (contains t a) eqn:E; [|reflexivity]. rewrite (contains_app_l t a b E) in H. discriminate.
  - destruct (contains t b) eqn:E; [|reflexivity]. rewrite (contains_app_r t b a E) in H. discriminate.
Qed.

Lemma no_rest_token_wrapped : forall pad ls, allsp_pad pad ->
    no_rest_token (join [sp] ls) = true -> no_rest_token (join (nl :: pad) ls) = true.
Proof.
  intros pad ls Hp. induction ls as [|l ls IH]; intros H; [exact H|].
  destruct ls as [|l2 ls']; [exact H|].
  change (join [sp] (l :: l2 :: ls')) with (l ++ [sp] ++ join [sp] (l2 :: ls')) in H.
  change (join (nl :: pad) (l :: l2 :: ls')) with (l ++ (nl :: pad) ++ join (nl :: pad) (l2 :: ls')).
  destruct (no_rest_token_app_inv _ _ H) as [Hl H2]. destruct (no_rest_token_app_inv _ _ H2) as [_ H3].
  apply no_rest_token_app_r; [exact Hl| |].
  - apply no_rest_token_pad; [|apply IH; exact H3].
    cbn [forallb]. rewrite (allsp_pad_isspace pad Hp). reflexivity.
  - intros c Hc. cbn [app head_c] in Hc. injection Hc as Hc. subst c. reflexivity.
Qed.

(* ---- announcements ---- *)
Definition anns_cf : list str := map casefold default_announces.

Definition ann_free (x : str) : Prop := forall t, In t anns_cf -> contains t x = false.

Lemma no_announce_spec : forall x, no_announce x = true <-> ann_free (casefold x).
Proof.
  intros x. unfold no_announce, ann_free, anns_cf. rewrite forallb_forall. split; intros H.
  - intros t Ht. apply in_map_iff in Ht. destruct Ht as [a [E Ha]]. subst t.
    apply negb_true_iff. apply H. exact Ha.
  - intros a Ha. apply negb_true_iff. apply H. apply in_map. exact Ha.
Qed.

Lemma ann_shape : forall t, In t anns_cf ->
    (exists c r, t = c :: r /\ c <> nl /\ c <> sp)
    /\ (~ In nl t \/ exists X, t = X ++ [nl] /\ ~ In nl X /\ In (X ++ [sp]) anns_cf).
Proof.
  intros t H. vm_compute in H. destruct H as [H|[H|[H|[H|[]]]]]; subst t.
  - split; [eexists; eexists; split; [reflexivity|split; discriminate]|].
    left. intros Hin. apply mem_c_In in Hin. vm_compute in Hin. discriminate.
  - split; [eexists; eexists; split; [reflexivity|split; discriminate]|].
    right. exists (L "defaults to"). split; [reflexivity|]. split.
    + intros Hin. apply mem_c_In in Hin. vm_compute in Hin. discriminate.
    + left. reflexivity.
  - split; [eexists; eexists; split; [reflexivity|split; discriminate]|].
    left. intros Hin. apply mem_c_In in Hin. vm_compute in Hin. discriminate.
  - split; [eexists; eexists; split; [reflexivity|split; discriminate]|].
    left. intros Hin. apply mem_c_In in Hin. vm_compute in Hin. discriminate.
Qed.

Lemma ann_free_app_inv : forall a b, ann_free (a ++ b) -> ann_free a /\ ann_free b.
Proof.
  intros a b H. split; intros t Ht; specialize (H t Ht).
  - destruct (contains t a) eqn:E; [|reflexivity]. rewrite (contains_app_l t a b E) in H. discriminate.
  - destruct (contains t b) eqn:E; [|reflexivity]. rewrite (contains_app_r t b a E) in H. discriminate.
Qed.

Lemma split_last_nl : forall X m m', ~ In nl X -> m ++ nl :: m' = X ++ [nl] -> m = X /\ m' = [].
Proof.
  induction X as [|x X IH]; intros m m' Hn E.
  - destruct m as [|c m1]; [cbn in E; injection E as E; subst; split; reflexivity|].
    cbn [app] in E. injection E as _ E. destruct m1; discriminate.
  - destruct m as [|c m1].
    + cbn [app] in E. injection E as Ex _. exfalso. apply Hn. left. symmetry. exact Ex.
    + cbn [app] in E. injection E as Ec E. subst c.
      destruct (IH m1 m' (fun Hin => Hn (or_intror Hin)) E) as [E1 E2]. subst. split; reflexivity.
Qed.

Lemma contains_blanks_false : forall t ws, (exists c r, t = c :: r /\ c <> nl /\ c <> sp) ->
    (forall x, In x ws -> x = nl \/ x = sp) -> contains t ws = false.
Proof.
  intros t ws [c [r [E [H1 H2]]]] Hws. destruct (contains t ws) eqn:Ec; [|reflexivity]. exfalso.
  apply contains_true_iff in Ec. destruct Ec as [a [b Eab]]. subst t.
  assert (Hin : In c ws) by (rewrite Eab; apply in_or_app; right; left; reflexivity).
  destruct (Hws c Hin); contradiction.
Qed.

Lemma ann_free_wrapped : forall pad ls, allsp_pad pad ->
    ann_free (join [sp] ls) -> ann_free (join (nl :: pad) ls).
Proof.
  intros pad ls Hp. induction ls as [|l ls IH]; intros H; [exact H|].
  destruct ls as [|l2 ls']; [exact H|].
  change (join [sp] (l :: l2 :: ls')) with (l ++ [sp] ++ join [sp] (l2 :: ls')) in H.
  change (join (nl :: pad) (l :: l2 :: ls')) with (l ++ (nl :: pad) ++ join (nl :: pad) (l2 :: ls')).
  destruct (ann_free_app_inv _ _ H) as [Hl H2]. destruct (ann_free_app_inv _ _ H2) as [_ H3].
  specialize (IH H3). set (W' := join (nl :: pad) (l2 :: ls')) in *.
  assert (Hpadch : forall x, In x (nl :: pad) -> x = nl \/ x = sp).
  { intros x [E|Hx]; [left; symmetry; exact E|right].
    unfold allsp_pad in Hp. rewrite forallb_forall in Hp. apply ascii_eqb_eq. apply Hp. exact Hx. }
  intros t Ht. destruct (ann_shape t Ht) as [Hfirst Hnl].
  (* no occurrence in the break and what follows *)
  assert (HB : contains t ((nl :: pad) ++ W') = false).
  { destruct (contains t ((nl :: pad) ++ W')) eqn:E; [|reflexivity]. exfalso.
    destruct (contains_straddle t (nl :: pad) W' (contains_blanks_false t _ Hfirst Hpadch) (IH t Ht) E)
      as [m [m' [Hm [_ [Et [Hew _]]]]]].
    destruct Hfirst as [c [r [Ec [Hc1 Hc2]]]]. destruct m as [|y m1]; [contradiction|].
    rewrite Et in Ec. cbn [app] in Ec. injection Ec as Ey _. subst y.
    apply endswith_iff in Hew. destruct Hew as [u Eu].
    assert (Hin : In c (nl :: pad)) by (rewrite Eu; apply in_or_app; right; left; reflexivity).
    destruct (Hpadch c Hin); contradiction. }
  destruct (contains t (l ++ (nl :: pad) ++ W')) eqn:E; [|reflexivity]. exfalso.
  destruct (contains_straddle t l _ (Hl t Ht) HB E) as [m [m' [Hm [Hm' [Et [Hew Hsw]]]]]].
  destruct m' as [|y m'']; [contradiction|]. cbn [app startswith] in Hsw.
  apply andb_true_iff in Hsw. destruct Hsw as [Hy _]. apply ascii_eqb_eq in Hy. subst y.
  destruct Hnl as [Hno|[X [EX [HnX HXsp]]]].
  - apply Hno. rewrite Et. apply in_or_app. right. left. reflexivity.
  - rewrite EX in Et. symmetry in Et. destruct (split_last_nl X m m'' HnX Et) as [Em _]. subst m.
    apply endswith_iff in Hew. destruct Hew as [u Eu].
    assert (Hc : contains (X ++ [sp]) (l ++ [sp] ++ join [sp] (l2 :: ls')) = true).
    { apply contains_true_iff. exists u, (join [sp] (l2 :: ls')). rewrite Eu. rewrite <- !app_assoc. reflexivity. }
    rewrite (H _ HXsp) in Hc. discriminate.
Qed.

Lemma casefold_join : forall sep l, casefold (join sep l) = join (casefold sep) (map casefold l).
Proof.
  intros sep l. induction l as [|x l IH]; [reflexivity|].
  destruct l as [|y l']; [reflexivity|].
  change (join sep (x :: y :: l')) with (x ++ sep ++ join sep (y :: l')).
  rewrite !casefold_app, IH. reflexivity.
Qed.

Lemma casefold_pad : forall pad, allsp_pad pad -> casefold (nl :: pad) = nl :: pad /\ allsp_pad pad.
Proof.
  intros pad Hp. split; [|exact Hp]. rewrite casefold_cons. f_equal.
  unfold allsp_pad in Hp. induction pad as [|c pad IH]; [reflexivity|].
  cbn [forallb] in Hp. apply andb_true_iff in Hp. destruct Hp as [Hc Hp]. apply ascii_eqb_eq in Hc. subst c.
  rewrite casefold_cons, (IH Hp). reflexivity.
Qed.

Lemma no_announce_wrapped : forall pad ls, allsp_pad pad ->
    no_announce (join [sp] ls) = true -> no_announce (join (nl :: pad) ls) = true.
Proof.
  intros pad ls Hp H. apply no_announce_spec. apply no_announce_spec in H.
  rewrite casefold_join in *. rewrite (proj1 (casefold_pad pad Hp)).
  change (casefold [sp]) with [sp] in H. apply ann_free_wrapped; assumption.
Qed.

(* ------------------------------------------------------------------ a wrapped  header value  line *)

Lemma takewhile_app_all : forall (p : ascii -> bool) a s, forallb p a = true -> takewhile p (a ++ s) = a ++ takewhile p s.
Proof.
  intros p a s. induction a as [|x a IH]; intros H; [reflexivity|].
  cbn [forallb] in H. apply andb_true_iff in H. destruct H as [Hx Ha].
  cbn [app takewhile]. rewrite Hx, (IH Ha). reflexivity.
Qed.

Lemma value_after_pad : forall hdr pad v,
    forallb isspace pad = true -> (exists c r, v = c :: r /\ isspace c = false) ->
    value_after hdr (hdr ++ pad ++ v) = Some (pad, v).
Proof.
  intros hdr pad v Hp [c [r [E Hc]]]. unfold value_after. rewrite startswith_app, skipn_app_exact.
  rewrite (takewhile_app_all isspace pad v Hp), (dropwhile_app_all isspace pad v Hp). subst v.
  cbn [takewhile dropwhile]. rewrite Hc, app_nil_r. reflexivity.
Qed.

Lemma edge_okb_of : forall x, edge_ok x -> edge_okb x = true.
Proof.
  intros x [[c [r [E Hc]]] [l [Hl Hls]]]. unfold edge_okb. rewrite Hl, E, Hc, Hls. reflexivity.
Qed.

Lemma wrapped_value : forall w hdr D r l,
    tidy D = true -> tidy (hdr ++ sp :: D) = true -> last_c hdr = Some l -> isspace l = false ->
    List.length hdr <= w -> fill w (hdr ++ sp :: D) = Ok r ->
    exists pad lsV, lsV <> [] /\ Forall line_ok lsV /\ D = join [sp] lsV
      /\ indent_all_but_first r 1 false = hdr ++ pad ++ join (nl :: P1) lsV
      /\ (pad = [sp] \/ pad = nl :: P1).
Proof.
  intros w hdr D r l HtD Hts Hl Hls Hlen Hf.
  destruct (tidy_inv _ Hts) as [Hss _]. destruct (tidy_inv _ HtD) as [_ [d0 [dr [ED Hd0]]]].
  assert (Hlsp : l <> sp) by (intros E; subst l; discriminate).
  pose proof (fill_first_line w hdr D r l Hss Hl Hlsp Hlen Hf) as Hsw.
  destruct (fill_tidy_repr w _ r Hts Hf) as [ls [Hne [Es [Er F]]]].
  destruct ls as [|l0 ls']; [contradiction|].
  assert (Hnlh : ~ In nl hdr).
  { intros Hin. assert (Hm : mem_c nl (hdr ++ sp :: D) = false) by (apply single_spaced_no; [exact Hss|reflexivity|discriminate]).
    rewrite mem_c_app in Hm. apply orb_false_iff in Hm. apply mem_c_In in Hin. destruct Hm. congruence. }
  (* the header lies within the first line *)
  assert (Hl0 : exists x, l0 = hdr ++ x).
  { rewrite Er, join_as_concat in Hsw.
    destruct (startswith_app_cases _ _ _ Hsw) as [H|[q [Eq [Hq Hsq]]]]; [apply startswith_iff; exact H|]. exfalso.
    destruct ls' as [|l1 ls'']; [cbn [map concat] in Hsq; destruct q; [contradiction|discriminate]|].
    cbn [map concat app] in Hsq. destruct q as [|y q']; [contradiction|]. cbn [startswith] in Hsq.
    apply andb_true_iff in Hsq. destruct Hsq as [Hy _]. apply ascii_eqb_eq in Hy. subst y.
    apply Hnlh. rewrite Eq. apply in_or_app. right. left. reflexivity. }
  destruct Hl0 as [x Ex].
  rewrite Er, (iabf_join l0 ls' F). rewrite join_as_concat in Es. rewrite join_as_concat.
  rewrite Ex in Es. rewrite <- app_assoc in Es. apply app_inv_head in Es.
  inversion F as [|a b Hl0ok Hrest]; subst a b.
  destruct x as [|y x'].
  - (* the break comes right after the header *)
    cbn [app] in Es. destruct ls' as [|l1 ls'']; [discriminate|]. cbn [map concat app] in Es. injection Es as Es.
    exists (nl :: P1), (l1 :: ls''). split; [discriminate|]. split; [exact Hrest|]. split.
    + rewrite join_as_concat. exact Es.
    + split; [|right; reflexivity]. rewrite Ex, app_nil_r. cbn [map concat]. rewrite join_as_concat.
      rewrite <- !app_assoc. reflexivity.
  - cbn [app] in Es. injection Es as Ey Es. subst y.
    assert (Hx' : line_ok x').
    { destruct Hl0ok as [[_ [z [Hz Hzs]]] Hnl0]. rewrite Ex in *.
      assert (Hx'ne : x' <> []).
      { intros E. subst x'. rewrite last_c_app_nonnil in Hz by discriminate. cbn in Hz. injection Hz as Hz. subst z. discriminate. }
      split; [split|].
      - destruct x' as [|c0 x'']; [contradiction|]. exists c0, x''. split; [reflexivity|].
        rewrite ED in Es. cbn [app] in Es. injection Es as E0 _. subst c0. exact Hd0.
      - exists z. split; [|exact Hzs]. rewrite last_c_app_nonnil in Hz by discriminate.
        rewrite last_c_cons_ne in Hz by exact Hx'ne. exact Hz.
      - rewrite mem_c_app, mem_c_cons in Hnl0. apply orb_false_iff in Hnl0. destruct Hnl0 as [_ Hn].
        apply orb_false_iff in Hn. apply Hn. }
    exists [sp], (x' :: ls'). split; [discriminate|]. split; [constructor; assumption|]. split.
    + rewrite join_as_concat. exact Es.
    + split; [|left; reflexivity]. rewrite Ex, join_as_concat. rewrite <- !app_assoc. reflexivity.
Qed.

Lemma line_ok_first : forall ls sep, ls <> [] -> Forall line_ok ls ->
    exists c r, join sep ls = c :: r /\ isspace c = false.
Proof.
  intros ls sep Hne F. destruct (join_edge_ok sep ls Hne F) as [H _]. exact H.
Qed.

Lemma fill_ok_tidy : forall w s, 0 < w -> single_spaced s = true -> exists r, fill w s = Ok r.
Proof.
  intros w s Hw Hs. apply fill_guard_ok. unfold fill_guard.
  rewrite (single_spaced_no s tabch Hs eq_refl ltac:(discriminate)).
  assert (E : Nat.ltb 0 w = true) by (apply Nat.ltb_lt; exact Hw). rewrite E. reflexivity.
Qed.

Lemma norm_doc_wrapped : forall lsV, lsV <> [] -> Forall line_ok lsV ->
    norm_doc (join (nl :: P1) lsV) = norm_doc (join [sp] lsV).
Proof.
  intros lsV Hne F. unfold norm_doc. rewrite (rejoin_wrapped P1 lsV P1_allsp Hne F).
  destruct (join_sp_line_ok lsV Hne F) as [He Hnl]. rewrite (rejoin_single_line _ He Hnl). reflexivity.
Qed.

Lemma tidy_prose_line_ok : forall D, tidy D = true -> no_announce D = true -> prose_line_ok D = true.
Proof.
  intros D Ht Ha. unfold prose_line_ok. rewrite (edge_okb_of D (tidy_edge_ok D Ht)), Ha.
  destruct (tidy_inv D Ht) as [Hs _]. rewrite (single_spaced_no D nl Hs eq_refl ltac:(discriminate)). reflexivity.
Qed.

Lemma ident_nospace : forall n, is_ident n = true -> nospace n /\ exists c r, n = c :: r.
Proof.
  intros n H. unfold is_ident in H. destruct n as [|c r]; [discriminate|].
  apply andb_true_iff in H. destruct H as [_ Hall]. split; [|exists c, r; reflexivity].
  unfold nospace. rewrite forallb_forall in *. intros x Hx. apply negb_true_iff. apply id_char_not_space.
  apply Hall. exact Hx.
Qed.

Lemma doc_piece_tidy : forall w n D,
    0 < w -> is_ident n = true -> is_return n = false ->
    tidy D = true -> no_rest_token D = true -> no_announce D = true ->
    List.length (L ":" ++ rest_key n ++ L ":") <= w -> doc_piece_ok w n D = true.
Proof.
  intros w n D Hw Hid Hret Ht Htok Ha Hlen.
  destruct (ident_nospace n Hid) as [Hn [c0 [n' En]]].
  destruct (tidy_inv D Ht) as [HsD [d0 [dr [ED Hd0]]]].
  set (hdr := L ":param " ++ n ++ L ":").
  assert (Ehdr : L ":" ++ rest_key n ++ L ":" = hdr).
  { unfold rest_key, hdr. rewrite Hret. rewrite <- !app_assoc. reflexivity. }
  rewrite Ehdr in Hlen.
  assert (Eline : rest_doc_line n D = hdr ++ sp :: D).
  { unfold rest_doc_line. change (L ": " ++ D) with (L ":" ++ sp :: D). rewrite !app_assoc.
    rewrite <- (app_assoc (L ":")). rewrite Ehdr. reflexivity. }
  assert (Hts : tidy (hdr ++ sp :: D) = true).
  { unfold tidy. unfold hdr at 1. cbn [app]. cbn [negb andb isspace].
    change (single_spaced (hdr ++ sp :: D) = true). unfold hdr.
    change (L ":param " ++ n ++ L ":") with (L ":param" ++ sp :: n ++ L ":"). rewrite <- app_assoc.
    apply single_spaced_nospace_app; [reflexivity|].
    replace ((sp :: n ++ L ":") ++ sp :: D) with (sp :: c0 :: (n' ++ L ":" ++ sp :: D))
      by (rewrite En; cbn [app]; rewrite <- app_assoc; reflexivity).
    apply single_spaced_sp_cons.
    - unfold nospace in Hn. rewrite En in Hn. cbn [forallb] in Hn. apply andb_true_iff in Hn. apply negb_true_iff. apply Hn.
    - change (c0 :: n' ++ L ":" ++ sp :: D) with ((c0 :: n') ++ L ":" ++ sp :: D). rewrite <- En.
      apply single_spaced_nospace_app; [exact Hn|]. apply single_spaced_nospace_app; [reflexivity|].
      rewrite ED. apply single_spaced_sp_cons; [exact Hd0|]. rewrite <- ED. exact HsD. }
  destruct (tidy_inv _ Hts) as [Hss _].
  destruct (fill_ok_tidy w _ Hw Hss) as [r Hf].
  assert (Hl : last_c hdr = Some colon) by (unfold hdr; rewrite app_assoc; apply last_c_app_single).
  destruct (wrapped_value w hdr D r colon Ht Hts Hl eq_refl Hlen Hf) as [pad [lsV [Hne [F [EDj [Ei Hpad]]]]]].
  unfold doc_piece_ok. rewrite (tidy_prose_line_ok D Ht Ha). cbn [andb].
  unfold wrapped_line. rewrite Eline, Hf. cbn [bind]. rewrite Ei.
  assert (Hpsp : forallb isspace pad = true) by (destruct Hpad; subst pad; reflexivity).
  rewrite (value_after_pad hdr pad _ Hpsp (line_ok_first lsV _ Hne F)).
  assert (Hpne : nonempty pad = true) by (destruct Hpad; subst pad; reflexivity).
  rewrite Hpne, (edge_okb_of _ (join_edge_ok (nl :: P1) lsV Hne F)).
  rewrite (no_rest_token_wrapped P1 lsV P1_allsp) by (rewrite <- EDj; exact Htok).
  rewrite (no_announce_wrapped P1 lsV P1_allsp) by (rewrite <- EDj; exact Ha).
  rewrite (norm_doc_wrapped lsV Hne F), <- EDj, str_eqb_refl. reflexivity.
Qed.

Lemma ret_piece_tidy : forall w D,
    0 < w -> tidy D = true -> no_rest_token D = true -> no_announce D = true ->
    List.length (L ":" ++ rest_key (L "return_type") ++ L ":") <= w -> ret_piece_ok w D = true.
Proof.
  intros w D Hw Ht Htok Ha Hlen.
  destruct (tidy_inv D Ht) as [HsD [d0 [dr [ED Hd0]]]].
  set (hdr := L ":returns:").
  change (L ":" ++ rest_key (L "return_type") ++ L ":") with hdr in Hlen.
  assert (Eline : rest_doc_line (L "return_type") D = hdr ++ sp :: D) by reflexivity.
  assert (Hts : tidy (hdr ++ sp :: D) = true).
  { unfold tidy. unfold hdr at 1. cbn [app]. cbn [negb andb isspace].
    change (single_spaced (hdr ++ sp :: D) = true).
    apply single_spaced_nospace_app; [reflexivity|].
    rewrite ED. apply single_spaced_sp_cons; [exact Hd0|]. rewrite <- ED. exact HsD. }
  destruct (tidy_inv _ Hts) as [Hss _].
  destruct (fill_ok_tidy w _ Hw Hss) as [r Hf].
  destruct (wrapped_value w hdr D r colon Ht Hts eq_refl eq_refl Hlen Hf) as [pad [lsV [Hne [F [EDj [Ei Hpad]]]]]].
  unfold ret_piece_ok. rewrite (tidy_prose_line_ok D Ht Ha). cbn [andb].
  unfold wrapped_line. rewrite Eline, Hf. cbn [bind]. rewrite Ei.
  assert (Hpsp : forallb isspace pad = true) by (destruct Hpad; subst pad; reflexivity).
  rewrite (value_after_pad hdr pad _ Hpsp (line_ok_first lsV _ Hne F)).
  assert (Hpne : nonempty pad = true) by (destruct Hpad; subst pad; reflexivity).
  rewrite Hpne, (edge_okb_of _ (join_edge_ok (nl :: P1) lsV Hne F)).
  rewrite (no_rest_token_wrapped P1 lsV P1_allsp) by (rewrite <- EDj; exact Htok).
  rewrite (no_announce_wrapped P1 lsV P1_allsp) by (rewrite <- EDj; exact Ha).
  rewrite EDj. rewrite (ws_eqb_of_words _ _ (words_wrapped P1 lsV P1_allsp)). reflexivity.
Qed.

Lemma summary_piece_tidy : forall w d,
    0 < w -> tidy d = true -> no_rest_token d = true -> summary_piece_ok w d = true.
Proof.
  intros w d Hw Ht Htok. destruct (tidy_inv d Ht) as [Hs _].
  destruct (fill_ok_tidy w d Hw Hs) as [r Hf].
  destruct (fill_tidy_repr w d r Ht Hf) as [ls [Hne [Ed [Er F]]]].
  unfold summary_piece_ok. rewrite Htok, (strip_edge_ok d (tidy_edge_ok d Ht)), str_eqb_refl, Hf. cbn [andb].
  assert (Hp0 : allsp_pad []) by reflexivity.
  rewrite Er. change [nl] with (nl :: []).
  rewrite (edge_okb_of _ (join_edge_ok (nl :: []) ls Hne F)).
  rewrite (no_rest_token_wrapped [] ls Hp0) by (rewrite <- Ed; exact Htok).
  rewrite Ed. rewrite (ws_eqb_of_words _ _ (words_wrapped [] ls Hp0)). reflexivity.
Qed.

(* ------------------------------------------------------------------ the closed-form guard implies the piece-wise one *)

Lemma entry_tidy_pieces : forall w np,
    0 < w -> (is_return (fst np) = true \/ is_ident (fst np) = true) ->
    entry_tidy_ok w np = true -> entry_pieces_ok w np = true.
Proof.
  intros w [n p] Hw Hn H. unfold entry_tidy_ok in H. unfold entry_pieces_ok. cbn [fst snd] in *.
  destruct (rest_block_of true n p) as [[b p']|e]; [|discriminate].
  apply andb_true_iff in H. destruct H as [H Htyp]. apply andb_true_iff in H. destruct H as [Hsome Hdoc].
  rewrite Hsome, Htyp. cbn [andb]. rewrite andb_true_r.
  destruct (rb_doc b) as [D|]; [|reflexivity].
  apply andb_true_iff in Hdoc. destruct Hdoc as [Hdoc Hlen]. apply andb_true_iff in Hdoc. destruct Hdoc as [Hdoc Ha].
  apply andb_true_iff in Hdoc. destruct Hdoc as [Ht Htok]. apply Nat.leb_le in Hlen.
  rewrite Htok. cbn [andb].
  destruct (is_return n) eqn:Er.
  - unfold is_return in Er. apply str_eqb_eq in Er. subst n. apply ret_piece_tidy; assumption.
  - destruct Hn as [Hn|Hn]; [discriminate|]. apply doc_piece_tidy; assumption.
Qed.

Theorem C18_tidy_pieces_lemma : forall w i,
    guard_C18_rest_tidy w i = true -> guard_C18_rest_pieces w i = true.
Proof.
  intros w i H. unfold guard_C18_rest_tidy in H. apply andb_true_iff in H. destruct H as [Hw H].
  apply Nat.ltb_lt in Hw. unfold guard_C18_rest_pieces.
  destruct (ir_doc i) as [| |d]; try discriminate. destruct (params_of (ir_params i)) as [ps|]; [|discriminate].
  apply andb_true_iff in H. destruct H as [H Hret]. apply andb_true_iff in H. destruct H as [H Hentries].
  apply andb_true_iff in H. destruct H as [Hsum Hnames]. apply andb_true_iff in Hsum. destruct Hsum as [Htd Htok].
  rewrite (summary_piece_tidy w d Hw Htd Htok), Hnames. cbn [andb].
  assert (Hps : forallb (entry_pieces_ok w) ps = true).
  { clear Hret. induction ps as [|np ps IH]; [reflexivity|].
    cbn [forallb] in *. apply andb_true_iff in Hnames. destruct Hnames as [Hn1 Hn2].
    apply andb_true_iff in Hentries. destruct Hentries as [He1 He2].
    rewrite (IH Hn2 He2), andb_true_r. apply entry_tidy_pieces; [exact Hw| |exact He1].
    right. unfold param_name_ok in Hn1. apply andb_true_iff in Hn1. apply Hn1. }
  rewrite Hps. cbn [andb].
  destruct (ir_returns i) as [| |g]; try exact Hret.
  destruct (param_of_gparam g) as [p|]; [|discriminate].
  apply entry_tidy_pieces; [exact Hw|left; reflexivity|exact Hret].
Qed.

(* the parse-level theorem under a closed-form condition on the IR *)
Theorem C18_rest_parse_tidy_lemma : forall w edd i,
    guard_C01_rest edd i = true -> guard_C18_rest_tidy w i = true ->
    exists tw tu dw du,
      emit_docstring w DocEmit.Rest true true i = Ok (tw, i)
      /\ emit_docstring w DocEmit.Rest false true i = Ok (tu, i)
      /\ parse_dot_docstring ng_unmodelled tw false true edd = Ok dw
      /\ parse_dot_docstring ng_unmodelled tu false true edd = Ok du
      /\ ir_params dw = ir_params du
      /\ same_interface_ws false du dw = true
      /\ same_interface edd i du = true
      /\ same_interface_ws edd i dw = true.
Proof.
  intros w edd i H01 Ht. apply C18_rest_parse_lemma. unfold guard_C18_rest_parse.
  rewrite H01, (C18_tidy_pieces_lemma w i Ht).
  unfold guard_C18_rest_tidy in Ht. apply andb_true_iff in Ht. destruct Ht as [Hw _]. rewrite Hw. reflexivity.
Qed.

Lemma C18_rest_parse_tidy_nonvacuous_lemma :
  guard_C18_rest_tidy 22 c18_long_ir = true /\ guard_C18_rest_tidy 30 c18_long_ir = true
  /\ guard_C01_rest true c18_long_ir = true /\ guard_C01_rest false c18_long_ir = true
  /\ guard_nowrap 30 DocEmit.Rest true c18_long_ir = false
  /\ guard_C18_rest_tidy 21 c18_long_ir = false.
Proof. vm_compute. repeat split. Qed.
