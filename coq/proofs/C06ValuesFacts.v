(* C06ValuesFacts: value-level agreement of the class and argparse emitters with the IR (extension of C06Facts).
   Part 1  class: inside guard_C06_class the annotated assignments of the emitted class are exactly
           spec_class_attrs (name, annotation = the parse of the type text, value = the constant of the default),
           for any number of parameters, any parse table, every option combination; refuted outside; one witness
           per excluded class.
   Part 2  argparse: inside guard_C06_argparse the add_argument calls of the emitted function are exactly
           spec_argparse_table (option string, type, choices, action, help, required, default), word_wrap on or off.
   Part 3  function: annotations of types inside TyExpr's canonical fragment are well formed, so wf_python of the
           emitted function follows from conditions on the IR alone.
   Proofs only. *)
From Coq Require Import List Ascii Bool Arith ZArith Lia.
From Coq Require String.
Import String.StringSyntax.
From DT Require Import PyStr Sexp PyVal TyExpr Extracted PureUtils Defaults C17Spec PyAst IR Fill EmitAst ParseAst.
From DT Require Import C02Spec C02Codec C04Spec C04Codec C06Spec C06Values.
From DT Require Import PyStrFacts PureUtilsFacts DefaultsFacts ParseAstFacts EmitAstFacts C06Facts C02Compose C04Compose.
Import ListNotations.

(* ================================================================== *)
(* Part 1: class                                                        *)
(* ================================================================== *)

(* closed facts about the four scalar names, computed from the live constants, for any parse table *)
Lemma simple_type_facts : forall pt t,
    in_simple_types t = true -> str_eqb t (L "complex") = false ->
    parse_expr_src pt t = Ok (EName t) /\ exists z, zero_of t = Ok z /\ set_value z = EConst z.
Proof.
  intros pt t H Hc.
  destruct (simple_cases t H Hc) as [E|[E|[E|E]]]; subst t;
    (split; [vm_compute; reflexivity | eexists; split; vm_compute; reflexivity]).
Qed.

Lemma neutral_value_zero : forall t z, zero_of t = Ok z -> neutral_value t = z.
Proof. intros t z H. unfold neutral_value. rewrite H. reflexivity. Qed.

Lemma neutral_value_generic : forall t, in_simple_types t = false -> neutral_value t = VNone.
Proof. intros t H. apply neutral_value_zero. apply zero_of_generic. exact H. Qed.

Lemma plain_str_inv : forall s,
    plain_str s = true ->
    code_quoted s = false /\ in_none_types (VStr s) = false
    /\ set_value (VStr s) = EConst (VStr s) /\ set_value (VStr (quote s)) = EConst (VStr s).
Proof.
  intros s H. unfold plain_str in H.
  apply andb_true_iff in H. destruct H as [H H4]. apply andb_true_iff in H. destruct H as [H H3].
  apply andb_true_iff in H. destruct H as [H1 H2].
  apply negb_true_iff in H1. apply negb_true_iff in H2. apply str_eqb_eq in H3. apply str_eqb_eq in H4.
  unfold set_value. rewrite H3, H4. repeat split; assumption.
Qed.

Lemma not_NoneStr : forall v, is_none_default v = false -> pyval_eqb v (VStr NoneStr) = false.
Proof. intros [|b|z|r|s] H; try reflexivity. exact H. Qed.

Lemma is_none_default_in_none : forall v, is_none_default v = true -> in_none_types v = true.
Proof. intros v H. destruct (is_none_default_cases v H); subst v; reflexivity. Qed.

(* the annotation of a typed attribute is the parse of the type text *)
Lemma class_annotation : forall pt t (nq : bool) ann,
    str_eqb t (L "complex") = false ->
    (if in_simple_types t then Ok (EName t) else parse_expr_src pt t) = Ok ann ->
    parse_expr_src pt t = Ok ann.
Proof.
  intros pt t nq ann Hcx H. destruct (in_simple_types t) eqn:Es; [|exact H].
  destruct (simple_type_facts pt t Es Hcx) as [Hp _]. rewrite Hp. exact H.
Qed.

(* the generic branch (_generic_param2ast) for a default that is not a str *)
Lemma generic_param2ast_plain : forall pt n t gd d s,
    bracket_fix t = t ->
    match d with None => True | Some (DV (VStr _)) => False | Some (DV _) => True | Some _ => False end ->
    generic_param2ast pt n t (mkG gd (Has t) d) = Ok s ->
    exists ann, parse_expr_src pt t = Ok ann
                /\ s = ann_assign n ann (match d with Some (DV v) => EConst v | _ => EConst VNone end).
Proof.
  intros pt n t gd d s Hbf Hd H. unfold generic_param2ast, ast_parse_fix in H. rewrite Hbf in H.
  binv H. rename a into ann. exists ann. split; [exact Ha|]. cbn [g_default] in H.
  destruct d as [[v|e|o]|]; try contradiction.
  - destruct v as [|b|z|r|s0]; try contradiction; cbn [bind set_value] in H; inversion H; reflexivity.
  - cbn [bind set_value] in H. inversion H. reflexivity.
Qed.

(* one attribute *)
Lemma param2ast_guarded : forall pt n gd t d s g2,
    class_typ_ok t = true -> class_default_ok t d = true ->
    param2ast pt n (mkG gd (Has t) d) = Ok (s, g2) ->
    exists ann, parse_expr_src pt t = Ok ann
                /\ s = SAnnAssign (EName n) ann (Some (class_plain_value t d)).
Proof.
  intros pt n gd t d s g2 Ht Hd H.
  unfold class_typ_ok in Ht.
  apply andb_true_iff in Ht. destruct Ht as [Ht Hcx]. apply andb_true_iff in Ht. destruct Ht as [Ht Hstar].
  apply andb_true_iff in Ht. destruct Ht as [Ht Hdict]. apply andb_true_iff in Ht. destruct Ht as [Hq Hbf].
  destruct (needs_quoting (Some t)) as [nq|er] eqn:Hnq; [|discriminate Hq]. clear Hq.
  apply str_eqb_eq in Hbf. apply negb_true_iff in Hcx. apply negb_true_iff in Hstar. apply negb_true_iff in Hdict.
  unfold class_default_ok in Hd. rewrite Hnq in Hd. cbn [Ok_true] in Hd.
  (* the tail of param2ast on a typed entry whose default is None / a scalar *)
  assert (Tail : forall (dv : option pyval) g3,
             g3 = mkG gd (Has t) (option_map DV dv) ->
             (do nq0 <- needs_quoting (Some t);
              if nq0 then
                do annotation <- (if in_simple_types t then Ok (EName t) else parse_expr_src pt t);
                do value <- match dv with
                            | Some v => if truthy v then quote_val v else zero_of t
                            | None => zero_of t
                            end;
                Ok (ann_assign n annotation (set_value value), g3)
              else if in_simple_types t then
                do z <- zero_of t;
                let value := match dv with
                             | Some v => if pyval_eqb v (VStr NoneStr) then VNone else if truthy v then v else z
                             | None => z
                             end in
                Ok (ann_assign n (EName t) (set_value value), g3)
              else if str_eqb t (L "dict") || startswith [ch 42] t then
                match g_default g3 with
                | None => Ok (ann_assign n (set_slice (EName (L "dict"))) (EDict [] []), g3)
                | Some _ => Err Unmodelled
                end
              else
                do s0 <- generic_param2ast pt n t g3; Ok (s0, g3)) = Ok (s, g2) ->
             (match dv with
              | None => True
              | Some v =>
                pyval_eqb v (VStr NoneStr) = false
                /\ (if truthy v then
                      match v with VStr s0 => (nq || in_simple_types t) && plain_str s0 | _ => negb nq end
                    else if nq || in_simple_types t then pyval_eqb v (neutral_value t)
                         else match v with VStr _ => false | _ => true end) = true
              end) ->
             exists ann, parse_expr_src pt t = Ok ann
                         /\ s = SAnnAssign (EName n) ann
                                           (Some (EConst (match dv with Some v => v | None => neutral_value t end)))).
  { intros dv g3 Eg3 HT Hdv. rewrite Hnq in HT. cbn [bind] in HT. destruct nq.
    - (* a type that needs quoting *)
      binv HT. rename a into ann. binv HT. rename a into value. inversion HT; subst s g2. clear HT.
      exists ann. split; [apply (class_annotation pt t true ann Hcx Ha)|]. unfold ann_assign. f_equal. f_equal.
      assert (Hz : forall z, zero_of t = Ok z -> set_value z = EConst (neutral_value t)).
      { intros z Hz. rewrite (neutral_value_zero t z Hz).
        destruct (in_simple_types t) eqn:Es.
        - destruct (simple_type_facts pt t Es Hcx) as [_ [z' [Hz' Hs']]]. rewrite Hz in Hz'. inversion Hz'; subst z'. exact Hs'.
        - rewrite (zero_of_generic t Es) in Hz. inversion Hz. reflexivity. }
      destruct dv as [v|]; [|apply Hz; exact Ha0].
      destruct Hdv as [_ Hdv]. destruct (truthy v) eqn:Etr.
      + destruct v as [|b|z|r|s0]; try discriminate Hdv. apply andb_true_iff in Hdv. destruct Hdv as [_ Hp].
        destruct (plain_str_inv s0 Hp) as [_ [_ [_ Hq]]]. cbn [quote_val] in Ha0. inversion Ha0; subst value. exact Hq.
      + cbn [orb] in Hdv. apply pyval_eqb_eq in Hdv. rewrite Hdv. apply Hz. exact Ha0.
    - destruct (in_simple_types t) eqn:Es.
      + (* int / float / bool *)
        binv HT. rename a into z. inversion HT; subst s g2. clear HT.
        destruct (simple_type_facts pt t Es Hcx) as [Hp [z' [Hz' Hs']]]. rewrite Ha in Hz'. inversion Hz'; subst z'.
        exists (EName t). split; [exact Hp|]. unfold ann_assign. f_equal. f_equal.
        destruct dv as [v|]; [|rewrite (neutral_value_zero t z Ha); exact Hs'].
        destruct Hdv as [Hnn Hdv]. rewrite Hnn. destruct (truthy v) eqn:Etr.
        * destruct v as [|b|z0|r|s0]; try reflexivity. cbn [orb] in Hdv.
          destruct (plain_str_inv s0 Hdv) as [_ [_ [Hq _]]]. exact Hq.
        * cbn [orb] in Hdv. apply pyval_eqb_eq in Hdv. rewrite Hdv, (neutral_value_zero t z Ha). exact Hs'.
      + (* a generic type that needs no quoting *)
        rewrite Hdict, Hstar in HT. cbn [orb] in HT. binv HT. rename a into s0. inversion HT; subst s0 g2. clear HT.
        subst g3.
        assert (Hplain : match option_map DV dv with
                         | None => True | Some (DV (VStr _)) => False | Some (DV _) => True | Some _ => False end).
        { destruct dv as [v|]; [|exact I]. cbn [option_map]. destruct Hdv as [_ Hdv].
          destruct v as [|b|z|r|s0]; try exact I. cbn [orb] in Hdv.
          destruct (truthy (VStr s0)); discriminate Hdv. }
        destruct (generic_param2ast_plain pt n t gd (option_map DV dv) s Hbf Hplain Ha) as [ann [Hp Hs]].
        exists ann. split; [exact Hp|]. rewrite Hs. unfold ann_assign. f_equal. f_equal.
        destruct dv as [v|]; [reflexivity|]. cbn [option_map]. rewrite (neutral_value_generic t Es). reflexivity. }
  unfold param2ast in H. cbn [typ_is_none g_typ bind] in H.
  destruct d as [[v|e|o]|]; try discriminate Hd.
  - cbn [g_default g_doc g_typ bind] in H.
    destruct (is_none_default v) eqn:En.
    + (* None / NoneStr: the entry's default becomes None *)
      apply negb_true_iff in Hd.
      destruct (is_none_default_cases v En) as [Ev|Ev]; subst v.
      * cbn [pyval_eqb bind g_typ g_default fget] in H.
        destruct (Tail (Some VNone) _ eq_refl H) as [ann [Hp Hs]].
        { split; [reflexivity|]. cbn [truthy]. rewrite Hd, orb_false_r.
          destruct nq; [rewrite (neutral_value_generic t Hd)|]; reflexivity. }
        exists ann. split; [exact Hp|]. exact Hs.
      * cbn [pyval_eqb] in H. rewrite str_eqb_refl in H. cbn [bind g_typ g_default g_doc fget] in H.
        destruct (Tail (Some VNone) _ eq_refl H) as [ann [Hp Hs]].
        { split; [reflexivity|]. cbn [truthy]. rewrite Hd, orb_false_r.
          destruct nq; [rewrite (neutral_value_generic t Hd)|]; reflexivity. }
        exists ann. split; [exact Hp|]. exact Hs.
    + destruct (in_none_types v) eqn:Enn; [discriminate Hd|].
      rewrite (not_NoneStr v En) in H. cbn [bind g_typ g_default fget] in H.
      destruct (Tail (Some v) _ eq_refl H) as [ann [Hp Hs]].
      { split; [apply not_NoneStr; exact En|exact Hd]. }
      exists ann. split; [exact Hp|]. rewrite Hs. unfold class_plain_value, ir_value. rewrite Enn. reflexivity.
  - cbn [g_default g_doc g_typ bind fget] in H.
    destruct (Tail None _ eq_refl H I) as [ann [Hp Hs]].
    exists ann. split; [exact Hp|exact Hs].
Qed.

(* inside the guard the spec value is the plain constant (no parse of a code text is involved) *)
Lemma class_spec_value_plain : forall pt t d,
    class_default_ok t d = true -> class_spec_value pt t d = Ok (class_plain_value t d).
Proof.
  intros pt t d H. unfold class_default_ok in H. destruct d as [[v|e|o]|]; try discriminate H; [|reflexivity].
  unfold class_spec_value, class_plain_value, ir_value.
  destruct (is_none_default v) eqn:En.
  - rewrite (is_none_default_in_none v En). reflexivity.
  - destruct (in_none_types v) eqn:Enn; [discriminate H|].
    destruct v as [|b|z|r|s]; try reflexivity.
    destruct (truthy (VStr s)) eqn:Etr.
    + apply andb_true_iff in H. destruct H as [_ Hp]. destruct (plain_str_inv s Hp) as [Hcq _]. rewrite Hcq. reflexivity.
    + destruct s as [|c s]; [reflexivity|discriminate Etr].
Qed.

Definition attr_of_stmt (x : stmt) : list (str * expr * option expr) :=
  match x with
  | SAnnAssign (EName n) a v => [(n, a, v)]
  | _ => []
  end.

Lemma class_attrs_of_body : forall cn bs b ds, class_attrs_of (SClass cn bs b ds) = flat_map attr_of_stmt b.
Proof. reflexivity. Qed.

Lemma class_attrs_guarded : forall pt (l : list (str * gparam)) attrs,
    forallb class_param_ok l = true ->
    map_outcome (fun kv => do r <- param2ast pt (fst kv) (snd kv); Ok (fst r)) l = Ok attrs ->
    map_outcome (spec_class_attr pt) l = Ok (flat_map attr_of_stmt attrs).
Proof.
  intros pt l. induction l as [|[n g] l IH]; intros attrs G H; cbn [map_outcome] in H.
  - inversion H; subst attrs. reflexivity.
  - cbn [forallb] in G. apply andb_true_iff in G. destruct G as [Gp Gl].
    binv H. rename a into y. binv H. rename a into ys. inversion H; subst attrs. clear H.
    cbn [fst snd] in Ha. binv Ha. destruct a as [s g2]. inversion Ha; subst y. clear Ha.
    unfold class_param_ok in Gp. cbn [fst snd] in Gp. apply andb_true_iff in Gp. destruct Gp as [_ Gp].
    destruct g as [gd gt d]. cbn [g_typ g_default] in Gp. destruct gt as [| |t]; try discriminate Gp.
    apply andb_true_iff in Gp. destruct Gp as [Gt Gd].
    destruct (param2ast_guarded pt n gd t d s g2 Gt Gd Ha1) as [ann [Hp Hs]].
    cbn [map_outcome]. unfold spec_class_attr at 1. cbn [fst snd g_typ g_default].
    rewrite Hp. cbn [bind]. rewrite (class_spec_value_plain pt t d Gd). cbn [bind].
    rewrite (IH ys Gl Ha0). cbn [bind]. subst s. reflexivity.
Qed.

Lemma not_assign_no_attrs : forall meth, forallb not_assign meth = true -> flat_map attr_of_stmt meth = [].
Proof.
  induction meth as [|x meth IH]; intros H; [reflexivity|]. cbn [forallb] in H.
  apply andb_true_iff in H. destruct H as [Hx Hm]. cbn [flat_map]. rewrite (IH Hm), app_nil_r.
  destruct x; try reflexivity. discriminate Hx.
Qed.

(* inside the guard the annotated assignments of the emitted class are exactly what the IR says *)
Theorem C06_class_partial_lemma : forall pt i ec cn bs ds ww tds s i',
    guard_C06_class i = true ->
    emit_class pt i ec cn bs ds ww tds = Ok (s, i') ->
    spec_class_attrs pt i = Ok (class_attrs_of s).
Proof.
  intros pt i ec cn bs ds ww tds s i' G H.
  destruct (emit_class_inv _ _ _ _ _ _ _ _ _ _ H) as [text [attrs [meth [_ [Ha [Hs [Hm _]]]]]]].
  subst s. rewrite class_attrs_of_body. cbn [flat_map attr_of_stmt app].
  rewrite flat_map_app, (not_assign_no_attrs meth Hm), app_nil_r.
  unfold spec_class_attrs. apply class_attrs_guarded; assumption.
Qed.

(* the same read attribute by attribute: name, annotation and value of every parameter, in order *)
Corollary C06_class_attr_values_lemma : forall pt i ec cn bs ds ww tds s i',
    guard_C06_class i = true ->
    emit_class pt i ec cn bs ds ww tds = Ok (s, i') ->
    Forall2 (fun kv a =>
               fst (fst a) = fst kv
               /\ (exists t, g_typ (snd kv) = Has t /\ parse_expr_src pt t = Ok (snd (fst a)))
               /\ match g_default (snd kv) with
                  | Some (DV v) => snd a = Some (EConst (ir_value v))
                  | _ => exists c, snd a = Some (EConst c)
                  end)
            (ir_params (class_fold_returns i)) (class_attrs_of s).
Proof.
  intros pt i ec cn bs ds ww tds s i' G H.
  pose proof (C06_class_partial_lemma _ _ _ _ _ _ _ _ _ _ G H) as Hsp. unfold spec_class_attrs in Hsp.
  unfold guard_C06_class in G. revert G Hsp. generalize (class_attrs_of s) as sp.
  generalize (ir_params (class_fold_returns i)) as l. clear.
  induction l as [|[n g] l IH]; intros sp G Hsp; cbn [map_outcome] in Hsp.
  - inversion Hsp. constructor.
  - cbn [forallb] in G. apply andb_true_iff in G. destruct G as [Gp Gl].
    binv Hsp. rename a into y. binv Hsp. rename a into ys. inversion Hsp; subst sp. clear Hsp.
    constructor; [|apply IH; assumption].
    unfold class_param_ok in Gp. cbn [fst snd] in Gp. apply andb_true_iff in Gp. destruct Gp as [_ Gp].
    unfold spec_class_attr in Ha. cbn [fst snd] in Ha.
    destruct (g_typ g) as [| |t] eqn:Et; try discriminate Gp.
    apply andb_true_iff in Gp. destruct Gp as [_ Gd].
    binv Ha. rename a into ann. rewrite (class_spec_value_plain pt t _ Gd) in Ha. cbn [bind] in Ha.
    inversion Ha; subst y. cbn [fst snd]. split; [reflexivity|]. split; [exists t; split; [exact Et|exact Ha1]|].
    unfold class_plain_value. destruct (g_default g) as [[v|e|o]|]; try discriminate Gd.
    + reflexivity.
    + eexists. reflexivity.
Qed.

(* when the type text lies in TyExpr's canonical fragment the annotation is decided without the parse table and
   ast.unparse prints it as the IR's text *)
Lemma class_annotation_canonical : forall pt t e,
    typ_ast t = Some e -> parse_expr_src pt t = Ok e /\ code_of e = Ok t.
Proof. intros pt t e H. split; [apply typ_ast_parse; exact H | apply typ_ast_code; exact H]. Qed.

(* ---- the statement at full strength is false of the faithful model; one witness per excluded class ---- *)
Definition c6_P (doc t : str) (d : option dval) : gparam := mkG (Has doc) (Has t) d.
Definition c6_one (n : str) (g : gparam) : ir :=
  mkIR (Has (L "f")) (Has (L "static")) (Has (L "Summary.")) [(n, g)] FNone None.

Definition c6_falsy := c6_one (L "x") (c6_P (L "the x.") (L "float") (Some (DV (VInt 0)))).

Theorem C06_class_refuted_lemma : ~ C06_class_statement.
Proof.
  intros H.
  specialize (H [] c6_falsy false (L "C") [] [] true (Ok (L "doc"))).
  destruct (emit_class [] c6_falsy false (L "C") [] [] true (Ok (L "doc"))) as [[s i']|e] eqn:E;
    [|vm_compute in E; discriminate E].
  specialize (H s i' eq_refl). vm_compute in E. inversion E; subst s. vm_compute in H. discriminate H.
Qed.

(* (description, IR, parse table): outside the guard, and the emitted attributes differ from the spec (or the
   emitter raises / the IR declares no type) *)
Definition c6_class_witnesses : list (ir * ptable) :=
  [ (c6_falsy, []);                                                                              (* falsy-default-becomes-zero: 0 under float is 0.0 *)
    (c6_one (L "x") (c6_P (L "the x.") (L "int") (Some (DV VNone))), []);                        (* None under int is 0 *)
    (c6_one (L "x") (c6_P (L "the x.") (L "str") (Some (DV (VStr NoneStr)))), []);               (* None under str is the empty str *)
    (c6_one (L "x") (c6_P (L "the x.") (L "Optional[str]") (Some (DV (VStr [])))), []);          (* empty str under Optional[str] is None *)
    (c6_one (L "x") (c6_P (L "the x.") (L "Optional[int]") (Some (DV (VStr (L "adam"))))),
     [(L "adam", Some (EName (L "adam")))]);                                                     (* str-default-parsed-as-code *)
    (c6_one (L "x") (c6_P (L "the x.") (L "Union[str, int]") (Some (DV (VInt 5)))), []);         (* quote-of-non-str-default: raises *)
    (c6_one (L "x") (c6_P (L "the x.") (L "str") (Some (DV (VStr (L "'q'"))))), []);             (* str-default-requoted *)
    (c6_one (L "x") (c6_P (L "the x.") (L "str") (Some (DV (VStr (L "None"))))), []);            (* the str None stays a str *)
    (c6_one (L "x") (c6_P (L "the x.") (L "str") (Some (DV (VStr (L "```[1, 2]```"))))),
     [(L "[1, 2]", Some (EList [EConst (VInt 1); EConst (VInt 2)]))]);                           (* code-default-emitted-as-string *)
    (c6_one (L "x") (mkG (Has (L "the x.")) Missing (Some (DV (VInt 5)))), []);                  (* annotation-from-default *)
    (c6_one (L "x") (mkG (Has (L "the x.")) Missing (Some (DV VNone))), []) ].                   (* NoneType-annotation *)

Theorem C06_class_witnesses_lemma :
  forallb (fun w => negb (guard_C06_class (fst w)) && negb (C06_class_holds_b (snd w) (fst w) false true (L "doc")))
          c6_class_witnesses = true.
Proof. vm_compute. reflexivity. Qed.

(* a private name is excluded although the syntax tree agrees: the mangling is CPython's *)
Lemma C06_class_private_name_witness :
  guard_C06_class (c6_one (L "__x") (c6_P (L "the x.") (L "int") (Some (DV (VInt 5))))) = false
  /\ C06_class_holds_b [] (c6_one (L "__x") (c6_P (L "the x.") (L "int") (Some (DV (VInt 5))))) false true (L "doc") = true.
Proof. split; vm_compute; reflexivity. Qed.

(* ---- non-vacuity: ten parameters (int, float, str, bool, Optional, Literal, dotted name; defaults of every scalar
   type, None, absent) and a return entry ---- *)
Definition c6_ir_ok : ir :=
  mkIR (Has (L "f")) (Has (L "static")) (Has (L "Summary."))
   [(L "n", c6_P (L "the n.") (L "int") (Some (DV (VInt 5))));
    (L "rate", c6_P (L "the rate.") (L "float") (Some (DV (VFloat (L "0.5")))));
    (L "name", c6_P (L "the name.") (L "str") (Some (DV (VStr (L "mnist")))));
    (L "flag", c6_P (L "the flag.") (L "bool") (Some (DV (VBool true))));
    (L "opt", c6_P (L "the opt.") (L "Optional[int]") (Some (DV (VStr NoneStr))));
    (L "kind", c6_P (L "the kind.") (L "Literal['a', 'b']") (Some (DV (VStr (L "a")))));
    (L "arr", c6_P (L "the arr.") (L "np.ndarray") None);
    (L "z", c6_P (L "the z.") (L "int") (Some (DV (VInt 0))));
    (L "os", c6_P (L "the os.") (L "Optional[str]") (Some (DV VNone)));
    (L "nodef", c6_P (L "no def.") (L "float") None)]
   (Has (mkG (Has (L "result.")) (Has (L "List[int]")) None)) None.

Theorem C06_class_nonvacuous_lemma :
  guard_C06_class c6_ir_ok = true
  /\ exists s i', emit_class [] c6_ir_ok false (L "C") [L "object"] [] true (Ok (L "doc")) = Ok (s, i')
                  /\ List.length (class_attrs_of s) = 11
                  /\ wf_python s = true.
Proof. split; [vm_compute; reflexivity|]. eexists. eexists. split; [vm_compute; reflexivity|]. split; vm_compute; reflexivity. Qed.

(* ================================================================== *)
(* Part 2: argparse                                                     *)
(* ================================================================== *)

(* param2argparse_param in closed form for either value of word_wrap (C04Compose.p2a_core is the case word_wrap = false;
   the tactics are its own, made insensitive to whether the help text could be wrapped) *)
Ltac q_fin T app :=
  try rewrite C06Facts.set_value_option; unfold call_stmt, option_arg, kws_of, argparser;
  cbn [fst snd prose_of g_doc dflt_of andb bind];
  destruct (str_eqb T (L "str")), app; cbn [andb negb bind]; reflexivity.

Ltac q_default T app Htn Hv Fsimple Fpickle :=
  match goal with
  | |- context [infer_type_and_default _ _ _ (OV ?v) _ _] =>
    destruct v as [|b|zz|fr|s];
    [ rewrite <- Htn in Fsimple; vm_compute in Fsimple; discriminate Fsimple
    | cbn [infer_type_and_default bind it_typ it_action it_default]; rewrite Htn, Fpickle, action1_id; q_fin T app
    | cbn [infer_type_and_default bind it_typ it_action it_default]; rewrite Htn, Fpickle, action1_id; q_fin T app
    | cbn [infer_type_and_default bind it_typ it_action it_default]; rewrite Htn, Fpickle, action1_id; q_fin T app
    | destruct Hv as [Hsv [Hcq Hnn]]; cbn [infer_type_and_default]; rewrite Hcq;
      cbn [bind it_typ it_action it_default]; cbn [type_name] in Htn; subst T; rewrite Fpickle, action1_id;
      rewrite (none_types_str_C04 s Hnn); q_fin (L "str") app ]
  end.

Ltac q_nodefault T app Fkeep Fpickle :=
  cbn [bind]; unfold infer_fuel, o_none; cbn [infer_type_and_default]; rewrite Fkeep;
  cbn [bind it_typ it_action it_default]; rewrite Fpickle, action1_id; q_fin T app.

Ltac q_cases T app Hd Fsimple Fpickle Fkeep :=
  match goal with
  | |- context [g_default {| g_doc := _; g_typ := _; g_default := ?d |}] =>
    destruct d as [[v|ex|o]|]; try contradiction;
    [ let Htn := fresh "Htn" in let Hv := fresh "Hv" in
      destruct Hd as [Htn Hv]; cbn [pyobj_of_dval bind g_default]; unfold infer_fuel;
      q_default T app Htn Hv Fsimple Fpickle
    | cbn [g_default]; q_nodefault T app Fkeep Fpickle ]
  end.

Lemma p2a_core_ww : forall pt ww edd n docf t d T (app : bool) ch required,
    scalar_facts T ->
    resolve_arg None None n (mkG docf (Has t) d) (required0_of d) (Some (L "str"))
    = Ok ((if app then Some (L "append") else None), ch, required, Some T, mkG docf (Has t) d) ->
    match docf with Has (c :: r) => no_announce (c :: r) = true | _ => True end ->
    dflt_cond T d ->
    param2argparse_param pt ww edd n (mkG docf (Has t) d)
    = (do help <- match docf with Has (c :: r) => do h <- fill_if ww (c :: r); Ok (Some h) | _ => Ok None end;
       Ok (call_stmt (option_arg n,
                      kws_of (if str_eqb T (L "str") && negb app then None else Some T) ch
                             (if app then Some (L "append") else None) help required (dflt_of d)))).
Proof.
  intros pt ww edd n docf t d T app ch required [Fsimple Freq Fkeep Fpickle Fglobals Floads Fos Foi Fol [z Fz]] Hres Hdoc Hd.
  unfold param2argparse_param. cbn [g_typ g_default g_doc]. fold (required0_of d). rewrite Hres. cbn [bind g_doc g_typ g_default].
  destruct docf as [| |[|c r]].
  - cbn [g_doc extract_default_fld]. rewrite (extract_default_no_announce [] true None edd no_announce_nil).
    cbn [bind fst snd]. q_cases T app Hd Fsimple Fpickle Fkeep.
  - cbn [g_doc extract_default_fld]. cbn [bind fst snd]. q_cases T app Hd Fsimple Fpickle Fkeep.
  - cbn [g_doc extract_default_fld]. rewrite (extract_default_no_announce [] true None edd no_announce_nil).
    cbn [bind fst snd]. q_cases T app Hd Fsimple Fpickle Fkeep.
  - cbn [g_doc extract_default_fld]. rewrite (extract_default_no_announce (c :: r) true None edd Hdoc).
    cbn [bind fst snd]. destruct (fill_if ww (c :: r)) as [h|e].
    + q_cases T app Hd Fsimple Fpickle Fkeep.
    + q_cases T app Hd Fsimple Fpickle Fkeep.
Qed.

Lemma map_set_value_stable : forall cs,
    forallb sv_stable cs = true -> map set_value (map VStr cs) = map (fun c => EConst (VStr c)) cs.
Proof.
  induction cs as [|c cs IH]; intros H; [reflexivity|]. cbn [forallb] in H. apply andb_true_iff in H. destruct H as [Hc Hcs].
  cbn [map]. rewrite (sv_stable_set_value c Hc), (IH Hcs). reflexivity.
Qed.

(* the keywords as the emitter writes them (through set_value) are the plain constants of the spec *)
Lemma kws_of_ap_kws : forall T (app : bool) cs help req dflt,
    scalar_facts T ->
    match help with Some h => sv_stable h = true | None => True end ->
    match dflt with Some v => set_value v = EConst v | None => True end ->
    match cs with Some l => forallb sv_stable l = true | None => True end ->
    kws_of (if str_eqb T (L "str") && negb app then None else Some T) (option_map (map VStr) cs)
           (if app then Some (L "append") else None) help req dflt
    = ap_kws (if str_eqb T (L "str") && negb app then None else Some T) cs
             (if app then Some (L "append") else None) help req dflt.
Proof.
  intros T app cs help req dflt F Hh Hd Hc. unfold kws_of, ap_kws. f_equal; [|f_equal; [|f_equal; [|f_equal; [|f_equal]]]].
  - destruct (str_eqb T (L "str") && negb app); [reflexivity|]. rewrite (sf_globals _ F). reflexivity.
  - destruct cs as [l|]; [|reflexivity]. cbn [option_map]. rewrite (map_set_value_stable l Hc). reflexivity.
  - destruct app; reflexivity.
  - destruct help as [h|]; [|reflexivity]. rewrite (sv_stable_set_value h Hh). reflexivity.
  - destruct dflt as [v|]; [|reflexivity]. rewrite Hd. reflexivity.
Qed.

Ltac q_none T app Fkeep Fpickle :=
  cbn [g_default pyobj_of_dval bind]; unfold infer_fuel; cbn [infer_type_and_default]; rewrite Fkeep;
  cbn [bind it_typ it_action it_default]; rewrite Fpickle, action1_id; q_fin T app.

(* the same for a default that is None: nothing is written for it *)
Lemma p2a_core_none : forall pt ww edd n docf t T (app : bool) ch required,
    scalar_facts T ->
    resolve_arg None None n (mkG docf (Has t) (Some (DV VNone))) false (Some (L "str"))
    = Ok ((if app then Some (L "append") else None), ch, required, Some T, mkG docf (Has t) (Some (DV VNone))) ->
    match docf with Has (c :: r) => no_announce (c :: r) = true | _ => True end ->
    param2argparse_param pt ww edd n (mkG docf (Has t) (Some (DV VNone)))
    = (do help <- match docf with Has (c :: r) => do h <- fill_if ww (c :: r); Ok (Some h) | _ => Ok None end;
       Ok (call_stmt (option_arg n,
                      kws_of (if str_eqb T (L "str") && negb app then None else Some T) ch
                             (if app then Some (L "append") else None) help required None))).
Proof.
  intros pt ww edd n docf t T app ch required [Fsimple Freq Fkeep Fpickle Fglobals Floads Fos Foi Fol [z Fz]] Hres Hdoc.
  unfold param2argparse_param. cbn [g_typ g_default g_doc]. rewrite Hres. cbn [bind g_doc g_typ g_default].
  destruct docf as [| |[|c r]].
  - cbn [g_doc extract_default_fld]. rewrite (extract_default_no_announce [] true None edd no_announce_nil).
    cbn [bind fst snd]. q_none T app Fkeep Fpickle.
  - cbn [g_doc extract_default_fld]. cbn [bind fst snd]. q_none T app Fkeep Fpickle.
  - cbn [g_doc extract_default_fld]. rewrite (extract_default_no_announce [] true None edd no_announce_nil).
    cbn [bind fst snd]. q_none T app Fkeep Fpickle.
  - cbn [g_doc extract_default_fld]. rewrite (extract_default_no_announce (c :: r) true None edd Hdoc).
    cbn [bind fst snd]. destruct (fill_if ww (c :: r)) as [h|e].
    + q_none T app Fkeep Fpickle.
    + q_none T app Fkeep Fpickle.
Qed.

Lemma ap_default_ok_inv : forall T d,
    ap_default_ok T d = true ->
    d = Some (DV VNone)
    \/ (dflt_cond T d /\ ap_default_of d = dflt_of d
        /\ match dflt_of d with Some v => set_value v = EConst v | None => True end).
Proof.
  intros T d H. unfold ap_default_ok in H. destruct d as [[v|e|o]|]; try discriminate H; [|right; repeat split; exact I].
  destruct v as [|b|z|r|s]; [left; reflexivity| | | |]; right; cbn [dflt_cond dflt_of ap_default_of].
  - apply andb_true_iff in H. destruct H as [Ht _]. apply str_eqb_eq in Ht. repeat split; exact Ht.
  - apply andb_true_iff in H. destruct H as [Ht _]. apply str_eqb_eq in Ht. repeat split; exact Ht.
  - apply andb_true_iff in H. destruct H as [Ht _]. apply str_eqb_eq in Ht. repeat split; exact Ht.
  - apply andb_true_iff in H. destruct H as [Ht Hv]. apply str_eqb_eq in Ht.
    apply andb_true_iff in Hv. destruct Hv as [Hv H3]. apply andb_true_iff in Hv. destruct Hv as [H1 H2].
    apply negb_true_iff in H2. apply negb_true_iff in H3.
    split; [split; [exact Ht|repeat split; assumption]|]. split; [reflexivity|]. apply sv_stable_set_value. exact H1.
Qed.

(* what is needed of the help text: no announcement; when it is there and can be written, set_value leaves it alone *)
Lemma ap_help_ok_inv : forall ww docf gt d,
    ap_help_ok ww (mkG docf gt d) = true ->
    match docf with
    | Has (c :: r) => no_announce (c :: r) = true /\ forall h, fill_if ww (c :: r) = Ok h -> sv_stable h = true
    | _ => True
    end.
Proof.
  intros ww docf gt d H. unfold ap_help_ok, prose_of in H. cbn [g_doc] in H.
  destruct docf as [| |[|c r]]; try exact I. apply andb_true_iff in H. destruct H as [H1 H2].
  split; [exact H1|]. intros h Hh. rewrite Hh in H2. exact H2.
Qed.

(* one option, any shape the plan of _resolve_arg gives a scalar type for *)
Lemma ap_row_core : forall pt ww edd n docf t d T (app : bool) cs required pl s,
    scalar_facts T ->
    resolve_plan t = Some pl -> endswith (L "kwargs") n = false ->
    rs_action pl = (if app then Some (L "append") else None) ->
    rs_choices pl = option_map (map VStr) cs -> rs_typ pl = Some T ->
    req_of_plan pl (required0_of d) = required ->
    match cs with Some l => forallb sv_stable l = true | None => True end ->
    ap_help_ok ww (mkG docf (Has t) d) = true -> ap_default_ok T d = true ->
    param2argparse_param pt ww edd n (mkG docf (Has t) d) = Ok s ->
    s = call_stmt (spec_option n,
                   ap_kws (if str_eqb T (L "str") && negb app then None else Some T) cs
                          (if app then Some (L "append") else None) (ap_help_of ww (mkG docf (Has t) d))
                          required (ap_default_of d)).
Proof.
  intros pt ww edd n docf t d T app cs required pl s F Hplan Hn Hact Hch HT Hreq Hcs Hhelp Hd H.
  pose proof (ap_help_ok_inv ww docf (Has t) d Hhelp) as Hdoc.
  assert (Hna : match docf with Has (c :: r) => no_announce (c :: r) = true | _ => True end).
  { destruct docf as [| |[|c r]]; try exact I. destruct Hdoc as [Hna _]. exact Hna. }
  assert (Hcore : (do help <- match docf with Has (c :: r) => do h <- fill_if ww (c :: r); Ok (Some h) | _ => Ok None end;
                   Ok (call_stmt (option_arg n,
                                  kws_of (if str_eqb T (L "str") && negb app then None else Some T) (option_map (map VStr) cs)
                                         (if app then Some (L "append") else None) help required (ap_default_of d)))) = Ok s
                  /\ match ap_default_of d with Some v => set_value v = EConst v | None => True end).
  { destruct (ap_default_ok_inv T d Hd) as [Ed|[Hdc [Heq Hdv]]].
    - subst d. cbn [required0_of] in Hreq. split; [|exact I].
      rewrite <- H. symmetry. apply (p2a_core_none pt ww edd n docf t T app (option_map (map VStr) cs) required F); [|exact Hna].
      rewrite (resolve_arg_plan n docf t _ _ pl Hplan Hn), Hact, Hch, HT, Hreq. reflexivity.
    - rewrite Heq. split; [|exact Hdv].
      rewrite <- H. symmetry. apply (p2a_core_ww pt ww edd n docf t d T app (option_map (map VStr) cs) required F); [|exact Hna|exact Hdc].
      rewrite (resolve_arg_plan n docf t d _ pl Hplan Hn), Hact, Hch, HT, Hreq. reflexivity. }
  destruct Hcore as [Hcore Hdv]. clear H. rename Hcore into H.
  unfold ap_help_of, prose_of. cbn [g_doc].
  destruct docf as [| |[|c r]].
  + cbn [bind] in H. injection H as H. subst s. exact (f_equal (fun k => call_stmt (spec_option n, k)) (kws_of_ap_kws T app cs None required (ap_default_of d) F I Hdv Hcs)).
  + cbn [bind] in H. injection H as H. subst s. exact (f_equal (fun k => call_stmt (spec_option n, k)) (kws_of_ap_kws T app cs None required (ap_default_of d) F I Hdv Hcs)).
  + cbn [bind] in H. injection H as H. subst s. exact (f_equal (fun k => call_stmt (spec_option n, k)) (kws_of_ap_kws T app cs None required (ap_default_of d) F I Hdv Hcs)).
  + destruct Hdoc as [_ Hsv]. destruct (fill_if ww (c :: r)) as [h|e]; [|discriminate H]. cbn [bind] in H.
    injection H as H. subst s. exact (f_equal (fun k => call_stmt (spec_option n, k)) (kws_of_ap_kws T app cs (Some h) required (ap_default_of d) F (Hsv h eq_refl) Hdv Hcs)).
Qed.

Lemma ap_row_guarded : forall pt ww edd n g s,
    ap_param_ok ww (n, g) = true ->
    param2argparse_param pt ww edd n g = Ok s ->
    exists row, spec_argparse_row ww (n, g) = Some row /\ s = call_stmt row.
Proof.
  intros pt ww edd n [docf gt d] s G H. unfold ap_param_ok in G. cbn [fst snd g_typ g_default] in G.
  apply andb_true_iff in G. destruct G as [Hn G]. unfold plain_name_C04 in Hn. apply negb_true_iff in Hn.
  destruct gt as [| |t]; try discriminate G.
  unfold spec_argparse_row. cbn [fst snd g_typ g_default].
  destruct (shape_of_typ t) as [sh|] eqn:Esh.
  - apply andb_true_iff in G. destruct G as [Hhelp Hd].
    destruct (shape_of_typ_inv t sh Esh) as [pl [Hplan [HT [Hch [Hact [Hreq [Hsc [Hao Htyp]]]]]]]].
    pose proof (scalar4_facts _ Hsc) as F.
    eexists. split; [reflexivity|].
    apply (ap_row_core pt ww edd n docf t d (sh_T sh) (sh_append sh) None _ pl s F Hplan Hn Hact Hch HT); try assumption; [|exact I].
    rewrite (req_of_plan_shape pl sh (required0_of d) HT Hreq F). reflexivity.
  - destruct (literal_of_typ t) as [cs|] eqn:El; [|discriminate G].
    apply andb_true_iff in G. destruct G as [Hhelp Hd].
    destruct (literal_of_typ_inv t cs El) as [pl [Hplan [HT [Hch [Hact [Hreq [Hcs Htext]]]]]]].
    eexists. split; [reflexivity|].
    apply (ap_row_core pt ww edd n docf t d (L "str") false (Some cs) true pl s scalar_facts_str Hplan Hn Hact Hch HT); try assumption.
    unfold req_of_plan. rewrite Hreq, HT. reflexivity.
Qed.

Lemma ap_rows_guarded : forall pt ww edd (l : list (str * gparam)) ps,
    forallb (ap_param_ok ww) l = true ->
    map_outcome (fun kv => param2argparse_param pt ww edd (fst kv) (snd kv)) l = Ok ps ->
    exists rows, sequence_opt (map (spec_argparse_row ww) l) = Some rows /\ ps = map call_stmt rows.
Proof.
  intros pt ww edd l. induction l as [|[n g] l IH]; intros ps G H; cbn [map_outcome] in H.
  - inversion H; subst ps. exists []. split; reflexivity.
  - cbn [forallb] in G. apply andb_true_iff in G. destruct G as [Gp Gl].
    binv H. rename a into y. binv H. rename a into ys. inversion H; subst ps. clear H. cbn [fst snd] in Ha.
    destruct (ap_row_guarded pt ww edd n g y Gp Ha) as [row [Hrow Hy]].
    destruct (IH ys Gl Ha0) as [rows [Hrows Hys]].
    exists (row :: rows). cbn [map sequence_opt]. rewrite Hrow, Hrows. split; [reflexivity|]. subst y ys. reflexivity.
Qed.

Definition row_of_stmt (x : stmt) : list (list expr * list (option str * expr)) :=
  match is_add_argument x with Some r => [r] | None => [] end.

Lemma rows_of_calls : forall rows, flat_map row_of_stmt (map call_stmt rows) = rows.
Proof.
  induction rows as [|[a k] rows IH]; [reflexivity|]. cbn [map flat_map]. rewrite IH. reflexivity.
Qed.

(* inside the guard the add_argument calls of the emitted function are exactly what the IR says *)
Theorem C06_argparse_partial_lemma : forall pt i edd fn ft wd ww ds s i2,
    guard_C06_argparse ww i = true ->
    emit_argparse pt i edd fn ft wd ww ds = Ok (s, i2) ->
    spec_argparse_table ww i = Some (argparse_table_of s).
Proof.
  intros pt i edd fn ft wd ww ds s i2 G H. unfold guard_C06_argparse in G.
  apply andb_true_iff in G. destruct G as [Gp Gb].
  destruct (emit_argparse_inv _ _ _ _ _ _ _ _ _ _ H)
    as [n [dtext [desc [ps [ib [spliced [ret [Hs [_ [Hps [_ [Hskip [Hret Hib]]]]]]]]]]]]].
  specialize (Hib Gb). subst ib. cbn [argparse_body_skip] in Hskip. inversion Hskip; subst spliced.
  change (last_is_return []) with false in Hret. cbv iota in Hret. destruct Hret as [r [Hr Hret]]. subst ret.
  destruct (argparse_return_shape _ _ _ Hr) as [e He]. subst r.
  destruct (ap_rows_guarded pt ww edd _ ps Gp Hps) as [rows [Hrows Hcalls]].
  unfold spec_argparse_table. rewrite Hrows. subst s ps.
  unfold argparse_table_of. fold row_of_stmt. cbn [flat_map app]. rewrite flat_map_app, rows_of_calls.
  cbn [flat_map row_of_stmt is_add_argument description_assign app]. rewrite app_nil_r. reflexivity.
Qed.

(* ---- the statement at full strength is false of the faithful model; witnesses ---- *)
Definition c6_ap_inferred := c6_one (L "x") (c6_P (L "the x.") (L "float") (Some (DV (VInt 0)))).

Theorem C06_argparse_refuted_lemma : ~ C06_argparse_statement.
Proof.
  intros H.
  specialize (H [] c6_ap_inferred false (Some (L "f")) (Some (L "static")) false false (Ok (L "Doc."))).
  destruct (emit_argparse [] c6_ap_inferred false (Some (L "f")) (Some (L "static")) false false (Ok (L "Doc.")))
    as [[s i2]|e] eqn:E; [|vm_compute in E; discriminate E].
  destruct (spec_argparse_table false c6_ap_inferred) as [tb|] eqn:Et; [|vm_compute in Et; discriminate Et].
  specialize (H s i2 eq_refl tb eq_refl). subst tb. vm_compute in E. inversion E; subst s.
  vm_compute in Et. discriminate Et.
Qed.

(* outside the guard, and the emitted table differs from the spec table (or the declared type is none of the forms
   the spec covers) *)
Definition c6_ap_pt : ptable :=
  [(L "(1, 2)", Some (ETuple [EConst (VInt 1); EConst (VInt 2)])); (L "(None)", Some (EConst VNone))].

Definition c6_argparse_witnesses : list ir :=
  [ c6_ap_inferred;                                                                        (* argparse-inference: float, default 0: type=int *)
    c6_one (L "x") (c6_P (L "the x.") (L "int") (Some (DV (VStr (L "abc")))));            (* int, default a str: no type= *)
    c6_one (L "x") (c6_P (L "the x.") (L "str") (Some (DV (VStr (L "```(1, 2)```")))));   (* code default: type=loads *)
    c6_one (L "x") (c6_P (L "the x.") (L "str") (Some (DV (VStr (L "'q'")))));            (* str default unquoted *)
    c6_one (L "x") (c6_P (L "'the x.'") (L "str") None);                                  (* help text unquoted *)
    c6_one (L "x") (c6_P (L "the x. Defaults to 5") (L "int") None);                      (* announced default moved out of the help *)
    c6_one (L "x") (c6_P (L "the x.") (L "Literal['a']") (Some (DV (VStr (L "a"))))) ].   (* argparse-single-literal-no-choices *)

Theorem C06_argparse_witnesses_lemma :
  forallb (fun w => negb (guard_C06_argparse false w) && negb (C06_argparse_holds_b c6_ap_pt w false false false))
          c6_argparse_witnesses = true.
Proof. vm_compute. reflexivity. Qed.

(* the single-member Literal: the emitted call states no choices *)
Lemma C06_argparse_single_literal_witness :
  exists s i2 kws,
    emit_argparse [] (c6_one (L "x") (c6_P (L "the x.") (L "Literal['a']") (Some (DV (VStr (L "a"))))))
                  false (Some (L "f")) (Some (L "static")) false false (Ok (L "Doc.")) = Ok (s, i2)
    /\ argparse_table_of s = [(spec_option (L "x"), kws)]
    /\ existsb (fun k => option_eqb str_eqb (fst k) (Some (L "choices"))) kws = false.
Proof. eexists. eexists. eexists. split; [vm_compute; reflexivity|]. split; vm_compute; reflexivity. Qed.

(* ---- non-vacuity: nine options (int, float, str, bool with defaults; Optional[int], Literal of two, List[int],
   Optional[str] with default None, an undocumented float), word_wrap on and off ---- *)
Definition c6_ap_ir_ok : ir :=
  mkIR (Has (L "f")) (Has (L "static")) (Has (L "Summary."))
   [(L "n", c6_P (L "the n.") (L "int") (Some (DV (VInt 5))));
    (L "rate", c6_P (L "the rate.") (L "float") (Some (DV (VFloat (L "0.5")))));
    (L "name", c6_P (L "the name.") (L "str") (Some (DV (VStr (L "mnist")))));
    (L "flag", c6_P (L "the flag.") (L "bool") (Some (DV (VBool true))));
    (L "opt", c6_P (L "the opt.") (L "Optional[int]") None);
    (L "kind", c6_P (L "the kind.") (L "Literal['a', 'b']") (Some (DV (VStr (L "a")))));
    (L "ls", c6_P (L "the list.") (L "List[int]") None);
    (L "maybe", c6_P (L "the maybe.") (L "Optional[str]") (Some (DV VNone)));
    (L "nodef", mkG Missing (Has (L "float")) None)]
   (Has (mkG (Has (L "result.")) (Has (L "List[int]")) None)) None.

Theorem C06_argparse_nonvacuous_lemma :
  guard_C06_argparse true c6_ap_ir_ok = true /\ guard_C06_argparse false c6_ap_ir_ok = true
  /\ exists s i2, emit_argparse [] c6_ap_ir_ok true (Some (L "f")) (Some (L "static")) true true (Ok (L "Doc.")) = Ok (s, i2)
                  /\ List.length (argparse_table_of s) = 9
                  /\ wf_python s = true.
Proof.
  split; [vm_compute; reflexivity|]. split; [vm_compute; reflexivity|].
  eexists. eexists. split; [vm_compute; reflexivity|]. split; vm_compute; reflexivity.
Qed.

(* ================================================================== *)
(* Part 3: function annotations inside TyExpr's canonical fragment      *)
(* ================================================================== *)

Lemma fold_attr_not_name_none : forall r e,
    is_name_none e = false -> is_name_none (fold_left (fun e a => EAttr e a) r e) = false.
Proof. induction r as [|a r IH]; intros e H; [exact H|]. cbn [fold_left]. apply IH. reflexivity. Qed.

Lemma chain_expr_not_name_none : forall parts e, chain_expr parts = Some e -> is_name_none e = false.
Proof.
  intros parts e H. unfold chain_expr in H. destruct parts as [|h r]; [discriminate H|].
  destruct (existsb is_const_word (h :: r)); [discriminate H|]. inversion H. apply fold_attr_not_name_none. reflexivity.
Qed.

(* the tree the model builds for a type text is never Name(None) *)
Lemma ty2expr_not_name_none : forall t e, ty2expr t = Some e -> is_name_none e = false.
Proof.
  intros t e H. destruct t as [parts|head args|s|z|v|elts].
  - cbn [ty2expr] in H. eapply chain_expr_not_name_none. exact H.
  - rewrite ty2expr_sub in H. destruct (chain_expr head) as [h|]; [|discriminate H].
    destruct (tys2exprs args) as [[|a [|b r]]|]; try discriminate H; inversion H; reflexivity.
  - inversion H. reflexivity.
  - cbn [ty2expr] in H. destruct (z <? 0)%Z; inversion H; reflexivity.
  - inversion H. reflexivity.
  - rewrite ty2expr_list in H. destruct (tys2exprs elts); [|discriminate H]. inversion H. reflexivity.
Qed.

Lemma typ_ast_ann_ok : forall pt t e e',
    typ_ast t = Some e' -> parse_expr_src pt t = Ok e -> ann_ok (Some e) = true.
Proof.
  intros pt t e e' Ht Hp. rewrite (typ_ast_parse pt t e' Ht) in Hp. inversion Hp; subst e'.
  destruct (typ_ast_inv t e Ht) as [_ [ty [_ [_ [_ He]]]]].
  unfold ann_ok. rewrite (ty2expr_not_name_none ty e He). reflexivity.
Qed.

Lemma arg_of_param_ann_ok : forall pt it kv a,
    fn_param_typ_ok kv = true -> arg_of_param pt it kv = Ok a -> ann_ok (a_ann a) = true.
Proof.
  intros pt it [n g] a G H. unfold arg_of_param in H. unfold fn_param_typ_ok in G. cbn [snd] in G.
  destruct it; [|inversion H; reflexivity].
  destruct (g_typ g) as [| |t]; [inversion H; reflexivity|discriminate G|].
  unfold fn_typ_ok in G. destruct (in_simple_types t); [inversion H; reflexivity|]. cbn [orb] in G.
  binv H. inversion H; subst a. cbn [set_arg a_ann]. unfold ast_parse_fix in Ha.
  destruct (typ_ast (bracket_fix t)) as [e'|] eqn:Et; [|discriminate G].
  eapply typ_ast_ann_ok; eassumption.
Qed.

Lemma args_of_params_ann_ok : forall pt it l afp,
    forallb fn_param_typ_ok l = true -> map_outcome (arg_of_param pt it) l = Ok afp ->
    forallb (fun x => ann_ok (a_ann x)) afp = true.
Proof.
  intros pt it l. induction l as [|kv l IH]; intros afp G H; cbn [map_outcome] in H.
  - inversion H. reflexivity.
  - cbn [forallb] in G. apply andb_true_iff in G. destruct G as [Gk Gl].
    binv H. binv H. inversion H; subst afp. cbn [forallb].
    rewrite (arg_of_param_ann_ok pt it kv a Gk Ha), (IH a0 Gl Ha0). reflexivity.
Qed.

Lemma forallb_and_map : forall {A B} (p : B -> bool) (q : A -> bool) (f : A -> B) l,
    forallb p (map f l) = true -> forallb q l = true -> forallb (fun x => p (f x) && q x) l = true.
Proof.
  intros A B p q f l. induction l as [|x l IH]; intros Hp Hq; [reflexivity|]. cbn [map forallb] in *.
  apply andb_true_iff in Hp. destruct Hp as [Hp1 Hp2]. apply andb_true_iff in Hq. destruct Hq as [Hq1 Hq2].
  rewrite Hp1, Hq1, (IH Hp2 Hq2). reflexivity.
Qed.

Lemma emit_function_returns : forall pt i fn ft it kw tds n a body d r i2,
    emit_function pt i fn ft it kw tds = Ok (SFunc n a body d r, i2) ->
    (if it then
       match returns_param i with
       | Some p => match fget (g_typ p) with
                   | Some (c :: t) => do e <- parse_expr_src pt (c :: t); Ok (Some e)
                   | _ => Ok None
                   end
       | None => Ok None
       end
     else Ok None) = Ok r
    /\ body <> [].
Proof.
  intros pt i fn ft it kw tds n args body d r i2 H. unfold emit_function in H.
  binv H. rename a into fname. binv H. binv H. binv H. binv H. binv H. binv H. binv H. rename a5 into rets.
  destruct fname as [nm|]; [|discriminate H]. inversion H; subst. split; [exact Ha6|discriminate].
Qed.

(* wf_python of the emitted function from conditions on the IR alone: the names are distinct identifiers and every
   declared type is a scalar name or lies in TyExpr's canonical fragment (discharges the annotation hypothesis of
   C06_function_wf) *)
Theorem C06_function_wf_types_lemma : forall pt i fn ft it kw tds n a body d r i2 ftype,
    emit_function pt i fn ft it kw tds = Ok (SFunc n a body d r, i2) ->
    py_or ft (ir_type i) = Ok ftype ->
    guard_C06_function_types i = true ->
    guard_C06_function_names ftype i = true ->
    is_identifier n = true ->
    wf_python (SFunc n a body d r) = true.
Proof.
  intros pt i fn ft it kw tds n a body d r i2 ftype H Hft Gt Gn Hid.
  destruct (emit_function_arguments _ _ _ _ _ _ _ _ _ _ _ _ _ H) as [ftype' [afp [dfp [Hft' [Ha [Hd Hargs]]]]]].
  rewrite Hft in Hft'. inversion Hft'; subst ftype'. clear Hft'.
  destruct (emit_function_returns _ _ _ _ _ _ _ _ _ _ _ _ _ H) as [Hr Hbody].
  unfold guard_C06_function_types in Gt. apply andb_true_iff in Gt. destruct Gt as [Gp Gr].
  unfold guard_C06_function_names in Gn. apply andb_true_iff in Gn. destruct Gn as [Gid Gnd].
  pose proof (map_outcome_arg_names _ _ _ _ Ha) as Hnames.
  pose proof (args_of_params_ann_ok pt it _ afp Gp Ha) as Hann.
  assert (Hall : map a_name (all_args a) = fn_all_names ftype i
                 /\ forallb (fun x => ann_ok (a_ann x)) (all_args a) = true).
  { assert (H0 : forallb (fun x => ann_ok (a_ann x)) (fn_args0 ftype) = true).
    { unfold fn_args0. destruct ftype as [t0|]; [destruct (str_eqb t0 (L "static"))|]; reflexivity. }
    assert (N0 : map a_name (fn_args0 ftype)
                 = match ftype with None => [] | Some t0 => if str_eqb t0 (L "static") then [] else [t0] end).
    { unfold fn_args0. destruct ftype as [t0|]; [destruct (str_eqb t0 (L "static"))|]; reflexivity. }
    assert (Hk : forallb (fun x => ann_ok (a_ann x)) (match fn_kwarg i with Some x => [x] | None => [] end) = true).
    { unfold fn_kwarg. destruct (filter (fun kv => negb (no_kwargs kv)) (ir_params i)); reflexivity. }
    assert (Nk : map a_name (match fn_kwarg i with Some x => [x] | None => [] end)
                 = match filter (fun kv => negb (no_kwargs kv)) (ir_params i) with kv :: _ => [fst kv] | [] => [] end).
    { unfold fn_kwarg. destruct (filter (fun kv => negb (no_kwargs kv)) (ir_params i)); reflexivity. }
    subst a. unfold all_args, fn_all_names.
    destruct kw; cbn [ar_args ar_kwonly ar_vararg ar_kwarg app];
      rewrite ?map_app, ?forallb_app, ?N0, ?Nk, ?Hnames, ?H0, ?Hann, ?Hk, ?app_nil_r, <- ?app_assoc; split; reflexivity. }
  destruct Hall as [Hn Hall].
  assert (Hwf : wf_arguments a = true).
  { eapply emit_function_wf; [exact H| |rewrite Hn; exact Gnd].
    apply forallb_and_map; [rewrite Hn; exact Gid|exact Hall]. }
  assert (Hrok : ann_ok r = true).
  { destruct it; [|inversion Hr; reflexivity].
    unfold returns_param in Hr. unfold fn_return_typ_ok in Gr.
    destruct (ir_returns i) as [| |p]; try (inversion Hr; reflexivity). cbn [fget] in Hr.
    destruct (g_typ p) as [| |[|c t]]; try (inversion Hr; reflexivity). cbn [fget] in Hr.
    binv Hr. inversion Hr; subst r.
    destruct (typ_ast (c :: t)) as [e'|] eqn:Et; [|discriminate Gr]. eapply typ_ast_ann_ok; eassumption. }
  unfold wf_python. rewrite Hid, Hwf, Hrok. destruct body; [contradiction|reflexivity].
Qed.

Definition c6_fn_ir_ok : ir :=
  mkIR (Has (L "f")) (Has (L "static")) (Has (L "Summary."))
   [(L "n", c6_P (L "the n.") (L "int") (Some (DV (VInt 5))));
    (L "rate", c6_P (L "the rate.") (L "Optional[float]") (Some (DV (VFloat (L "0.5")))));
    (L "kind", c6_P (L "the kind.") (L "Literal['a', 'b']") (Some (DV (VStr (L "a")))));
    (L "arr", c6_P (L "the arr.") (L "np.ndarray") None);
    (L "kwargs", c6_P (L "more.") (L "Optional[dict]") (Some (DV (VStr NoneStr))))]
   (Has (mkG (Has (L "result.")) (Has (L "Tuple[int, str]")) None)) None.

Theorem C06_function_wf_nonvacuous_lemma :
  guard_C06_function_types c6_fn_ir_ok = true
  /\ guard_C06_function_names (Some (L "self")) c6_fn_ir_ok = true
  /\ exists s i2, emit_function [] c6_fn_ir_ok (Some (L "f")) (Some (L "self")) true false (Ok []) = Ok (s, i2).
Proof. split; [vm_compute; reflexivity|]. split; [vm_compute; reflexivity|]. eexists. eexists. vm_compute. reflexivity. Qed.

(* excluded: typ present but None with inline types gives Name(None) (name-none-annotation) *)
Lemma C06_function_name_none_witness :
  let i := c6_one (L "x") (mkG (Has (L "the x.")) FNone None) in
  guard_C06_function_types i = false
  /\ exists s i2, emit_function [] i (Some (L "f")) (Some (L "static")) true false (Ok []) = Ok (s, i2)
                  /\ wf_python s = false.
Proof. split; [vm_compute; reflexivity|]. eexists. eexists. split; vm_compute; reflexivity. Qed.
