(* C15Facts: refutation of the full C15 statements by witnesses, non-vacuity, the replacement half tied to
   resolve, and class-free corollaries. *)
From Coq Require Import List Ascii Bool Arith ZArith Lia.
From Coq Require String.
Import String.StringSyntax.
From DT Require Import PyStr Sexp PyVal PureUtils PyAst Locate C15Spec PyStrFacts LocateFacts RewriteFacts.
Import ListNotations.

(* ------------------------------------------------------------------ witnesses *)
Definition w_pass : stmt := SOther (L "Pass") (L "pass") [].
Definition w_args (names : list str) (kw : list str) : arguments :=
  mkArguments (map (fun n => mkArg n None) names) [] (map (fun n => mkArg n None) kw)
              (map (fun _ => Some (EConst (VInt 1))) kw) None None.

(* def helper(a, b): pass *)
Definition w_helper : stmt := SFunc (L "helper") (w_args [L "a"; L "b"] []) [w_pass] [] None.
(* class C:  attr: int = 5 ;  def method(self, a, *, k=1): pass ;  class D:  z = 1 *)
Definition w_C : stmt :=
  SClass (L "C") []
         [SAnnAssign (EName (L "attr")) (EName (L "int")) (Some (EConst (VInt 5)));
          SFunc (L "method") (w_args [L "self"; L "a"] [L "k"]) [w_pass] [] None;
          SClass (L "D") [] [SAssign [EName (L "z")] (EConst (VInt 1))] []] [].

(* paths through a nested class do not exist for find_in_ast: _location is parent + child only *)
Lemma C15_refuted_lemma : ~ C15_statement.
Proof.
  intros H. specialize (H [w_C] [L "C"; L "D"; L "z"] eq_refl).
  unfold C15_find_at in H. vm_compute in H. discriminate.
Qed.

Lemma C15_refuted_depth3 :
  find_view [L "C"; L "D"; L "z"] [w_C] = Ok None
  /\ option_map fst (resolve [L "C"; L "D"; L "z"] [w_C]) = Some [0; 2; 0].
Proof. split; vm_compute; reflexivity. Qed.

(* x.y where x is an annotated assignment returns x *)
Lemma C15_refuted_annassign_prefix :
  find_view [L "attr"; L "y"] [SAnnAssign (EName (L "attr")) (EName (L "int")) None]
  = Ok (Some ([0], PStmt (SAnnAssign (EName (L "attr")) (EName (L "int")) None)))
  /\ resolve [L "attr"; L "y"] [SAnnAssign (EName (L "attr")) (EName (L "int")) None] = None.
Proof. split; vm_compute; reflexivity. Qed.

(* regressions of /repo 6d00342 (they were refutation witnesses before it): a function defined before the class
   no longer swallows a segment, and keyword-only arguments are found *)
Lemma C15_regression_function_before_class :
  find_view [L "C"; L "method"] [w_helper; w_C] = Ok (resolve [L "C"; L "method"] [w_helper; w_C])
  /\ find_view [L "C"; L "method"; L "a"] [w_helper; w_C] = Ok (resolve [L "C"; L "method"; L "a"] [w_helper; w_C])
  /\ option_map fst (resolve [L "C"; L "method"; L "a"] [w_helper; w_C]) = Some [1; 1; 0; 1].
Proof. repeat split; vm_compute; reflexivity. Qed.

Lemma C15_regression_kwonly :
  find_view [L "C"; L "method"; L "k"] [w_C] = Ok (resolve [L "C"; L "method"; L "k"] [w_C])
  /\ option_map fst (resolve [L "C"; L "method"; L "k"] [w_C]) = Some [0; 1; 1; 0].
Proof. split; vm_compute; reflexivity. Qed.

(* the replacement half: D.z does not exist, yet RewriteAtQuery replaces C.D.z (its _location is [D; z]);
   and a FunctionDef is never replaced *)
Definition C15_rewrite_statement : Prop := forall m q, supported m = true -> C15_rewrite_at m q.

Lemma C15_rewrite_refuted_lemma : ~ C15_rewrite_statement.
Proof.
  intros H. specialize (H [w_C] [L "D"; L "z"] eq_refl).
  unfold C15_rewrite_at in H. vm_compute in H. discriminate.
Qed.

Lemma C15_rewrite_refuted_function :
  first_hit_list [L "helper"] (annotate [w_helper; w_C]) = None
  /\ option_map fst (resolve [L "helper"] [w_helper; w_C]) = Some [0].
Proof. split; vm_compute; reflexivity. Qed.

(* same-named members of different scopes collide: with class E: z = 0 after C, E... *)
Definition w_D2 : stmt := SClass (L "D") [] [SAssign [EName (L "z")] (EConst (VInt 2))] [].
Lemma C15_rewrite_refuted_collision :
  first_hit_list [L "D"; L "z"] (annotate [w_C; w_D2]) = Some [0; 2; 0]
  /\ option_map fst (resolve [L "D"; L "z"] [w_C; w_D2]) = Some [1; 0].
Proof. split; vm_compute; reflexivity. Qed.

(* ------------------------------------------------------------------ non-vacuity *)
Lemma C15_nonvacuous_lemma :
  guard_C15 [w_helper; w_C] [L "C"; L "method"; L "a"] = true
  /\ guard_C15 [w_helper; w_C] [L "C"; L "method"; L "k"] = true
  /\ guard_C15 [w_helper; w_C] [L "helper"; L "nope"] = true
  /\ guard_C15 [w_C; w_helper] [L "C"; L "method"; L "a"] = true
  /\ guard_C15 [w_C; w_helper] [L "C"; L "attr"] = true
  /\ guard_C15 [w_C; w_helper] [L "C"] = true
  /\ guard_C15 [w_C; w_helper] [L "C"; L "nope"] = true
  /\ rw_guard_C15 [w_C; w_helper] [L "C"; L "method"; L "k"] = true
  /\ resolve [L "C"; L "method"; L "a"] [w_C; w_helper] = Some ([0; 1; 0; 1], PArg (mkArg (L "a") None)).
Proof. repeat split; vm_compute; reflexivity. Qed.

(* ------------------------------------------------------------------ the replacement half, tied to resolve *)
Lemma opath_eqb_eq : forall a b, opath_eqb a b = true -> a = b.
Proof.
  intros a b H. destruct a as [x|], b as [y|]; simpl in H; try discriminate; [|reflexivity].
  apply path_eqb_eq in H. subst. reflexivity.
Qed.

Lemma rw_guard_at : forall m q, rw_guard_C15 m q = true -> C15_rewrite_at m q.
Proof.
  intros m q H. unfold rw_guard_C15 in H. apply andb_true_iff in H. destruct H as [_ H].
  apply opath_eqb_eq. assumption.
Qed.

(* inside the guard, replacing at q on the freshly annotated module replaces the node at the position of
   resolve q m (by the visitor's final replacement_node) and nothing else; when q does not resolve nothing is
   replaced *)
Theorem C15_rewrite_partial_lemma : forall m q repl m' st,
    q <> [] -> rw_guard_C15 m q = true ->
    rewrite_visit q repl (annotate m) = Ok (NMod m', st) ->
    match resolve q m with
    | Some (p, _) => rw_replaced st = true /\ replaced_first q (rw_node st) p (annotate m) m'
    | None => rw_replaced st = false /\ Forall2 (same_mod_defaults q) (annotate m) m'
    end.
Proof.
  intros m q repl m' st Hq Hg Hv. pose proof (rw_guard_at m q Hg) as Hat. unfold C15_rewrite_at in Hat.
  destruct (C15_rewrite_frame_lemma q repl (annotate m) m' st Hq Hv) as [[H1 [H2 H3]]|[H1 [p [H2 H3]]]].
  - rewrite H2 in Hat. destruct (resolve q m) as [[p n]|]; simpl in Hat; [discriminate|]. split; assumption.
  - rewrite H2 in Hat. destruct (resolve q m) as [[p' n]|]; simpl in Hat; [|discriminate].
    inversion Hat; subst. split; assumption.
Qed.

(* ------------------------------------------------------------------ class-free corollaries of the lookup half *)
(* single-target assignments at top level: every name resolves correctly, whatever functions there are *)
Theorem C15_toplevel : forall m x,
    supported m = true -> forallb assign_ok m = true -> C15_find_at m [x].
Proof.
  intros m x Hs Hok. apply C15_partial_lemma. unfold guard_C15. rewrite Hs. simpl.
  unfold leaf_lookup_class. rewrite Hok. reflexivity.
Qed.

(* function.arg: always right (positional or keyword-only, existing or not), whatever precedes the function *)
Theorem C15_function_arg : forall m x y pre args body d r post,
    supported m = true -> split_member x m = Some (pre, SFunc x args body d r, post) ->
    C15_find_at m [x; y].
Proof.
  intros m x y pre args body d r post Hs H1.
  apply C15_partial_lemma. unfold guard_C15. rewrite Hs. simpl. rewrite H1. reflexivity.
Qed.

(* Class.method.arg: always right, whatever precedes the class and the method *)
Theorem C15_class_method_arg : forall m x y z pre bs body d post pre' args body' d' r' post',
    supported m = true ->
    split_member x m = Some (pre, SClass x bs body d, post) ->
    split_member y body = Some (pre', SFunc y args body' d' r', post') ->
    C15_find_at m [x; y; z].
Proof.
  intros m x y z pre bs body d post pre' args body' d' r' post' Hs H1 H2.
  apply C15_partial_lemma. unfold guard_C15. rewrite Hs. simpl. rewrite H1, H2. reflexivity.
Qed.
