(* PureUtilsFacts: lemmas about model/PureUtils.v (quote, unquote).  Proofs only.
   (The idempotence of set_default_doc lives in DefaultsFacts.set_default_doc_idem.) *)
From Coq Require Import List Ascii Bool Arith ZArith Lia.
From Coq Require String.
Import String.StringSyntax.
From DT Require Import PyStr Sexp PyVal PureUtils PyStrFacts.
Import ListNotations.

(* ---- multiline: the continuation appended after the last line is cut off by length ---- *)

Lemma drop_last3_app : forall (s : str) a b c, drop_last3 (s ++ [a; b; c]) = s.
Proof.
  intros s a b c. unfold drop_last3. rewrite app_length. cbn [List.length].
  replace (List.length s + 3 - 3) with (List.length s) by lia.
  rewrite firstn_app, Nat.sub_diag, firstn_all. cbn [firstn]. apply app_nil_r.
Qed.

(* one line of text that does not end in a blank comes back as it is - also when it ends in a backslash (the old
   rstrip ate it) *)
Lemma rstrip_by_last_false : forall p (s : str) l, last_c s = Some l -> p l = false -> rstrip_by p s = s.
Proof.
  intros p s l Hl Hp. apply last_c_spec in Hl. destruct Hl as [r E]. subst s.
  unfold rstrip_by. rewrite rev_app_distr. cbn [rev app dropwhile]. rewrite Hp.
  change (l :: rev r) with (rev [l] ++ rev r). rewrite <- rev_app_distr. apply rev_involutive.
Qed.

Lemma multiline_noquote_line : forall c r l, splitlines (c :: r) = [c :: r] ->
    last_c (c :: r) = Some l -> mem_c l (L " " ++ [nl]) = false ->
    multiline_noquote (c :: r) = c :: r.
Proof.
  intros c r l Hs Hl Hm. unfold multiline_noquote. rewrite Hs. cbn [map join].
  change (L " \" ++ [nl]) with [sp; ch 92; nl]. rewrite drop_last3_app.
  unfold rstrip_chars. apply (rstrip_by_last_false _ _ l Hl). exact Hm.
Qed.

(* ---- quote ---- *)

Lemma quote_nil : quote [] = [].
Proof. reflexivity. Qed.

Lemma quote_eq : forall c r d,
    last_c (c :: r) = Some d ->
    quote (c :: r) = if ascii_eqb c d && (ascii_eqb c sq || ascii_eqb c dq)
                     then c :: r else dq :: (c :: r) ++ [dq].
Proof. intros c r d H. unfold quote. rewrite H. reflexivity. Qed.

(* text already wrapped in one kind of quote mark is left alone *)
Lemma quote_quoted : forall q s, q = sq \/ q = dq -> quote (q :: s ++ [q]) = q :: s ++ [q].
Proof.
  intros q s Hq. rewrite (quote_eq q (s ++ [q]) q).
  - rewrite ascii_eqb_refl. destruct Hq as [Hq|Hq]; subst q; reflexivity.
  - apply (last_c_app_single (q :: s) q).
Qed.

Lemma quote_cases : forall s,
    quote s = s \/ (s <> [] /\ quote s = dq :: s ++ [dq]).
Proof.
  intros [|c r]; [left; reflexivity|].
  destruct (last_c (c :: r)) as [d|] eqn:Hl.
  - rewrite (quote_eq c r d Hl).
    destruct (ascii_eqb c d && (ascii_eqb c sq || ascii_eqb c dq)).
    + left. reflexivity.
    + right. split; [discriminate|reflexivity].
  - apply last_c_nil_iff in Hl. discriminate.
Qed.

(* quote is idempotent *)
Lemma quote_idem : forall s, quote (quote s) = quote s.
Proof.
  intros s. destruct (quote_cases s) as [H|[_ H]]; rewrite H.
  - exact H.
  - apply (quote_quoted dq s). right. reflexivity.
Qed.

Lemma quote_val_idem : forall v v1, quote_val v = Ok v1 -> quote_val v1 = Ok v1.
Proof.
  intros [|b|z|r|s] v1 H; cbn [quote_val] in H; try discriminate H;
    injection H as H; subst v1; cbn [quote_val]; [reflexivity|].
  rewrite quote_idem. reflexivity.
Qed.

(* ---- unquote ---- *)

(* identity on strings that do not both start and end with the same quote mark *)
Lemma unquote_id : forall s,
    (startswith [dq] s && endswith [dq] s) || (startswith [sq] s && endswith [sq] s) = false ->
    unquote s = s.
Proof. intros s H. unfold unquote. rewrite H, andb_false_r. reflexivity. Qed.

Lemma unquote_id_marks : forall s,
    (forall q, q = dq \/ q = sq -> ~ (head_c s = Some q /\ last_c s = Some q)) ->
    unquote s = s.
Proof.
  intros s H. apply unquote_id. apply orb_false_iff. split.
  - destruct (startswith [dq] s) eqn:E1; [|reflexivity].
    destruct (endswith [dq] s) eqn:E2; [|reflexivity].
    exfalso. apply (H dq (or_introl eq_refl)). split.
    + apply startswith_single. exact E1.
    + apply endswith_single. exact E2.
  - destruct (startswith [sq] s) eqn:E1; [|reflexivity].
    destruct (endswith [sq] s) eqn:E2; [|reflexivity].
    exfalso. apply (H sq (or_intror eq_refl)). split.
    + apply startswith_single. exact E1.
    + apply endswith_single. exact E2.
Qed.

Lemma unquote_short : forall s, List.length s <= 1 -> unquote s = s.
Proof.
  intros s H. unfold unquote.
  assert (E : Nat.ltb 1 (List.length s) = false) by (apply Nat.ltb_ge; exact H).
  rewrite E. reflexivity.
Qed.

(* one layer of matching quote marks is removed *)
Lemma unquote_quoted : forall q s, q = dq \/ q = sq -> unquote (q :: s ++ [q]) = s.
Proof.
  intros q s Hq. unfold unquote.
  assert (Hlen : List.length (q :: s ++ [q]) = S (S (List.length s))).
  { cbn [List.length]. rewrite app_length. cbn [List.length]. lia. }
  assert (Hs : startswith [q] (q :: s ++ [q]) = true).
  { apply startswith_single. reflexivity. }
  assert (He : endswith [q] (q :: s ++ [q]) = true).
  { apply (endswith_app (q :: s) [q]). }
  assert (Hcond : (startswith [dq] (q :: s ++ [q]) && endswith [dq] (q :: s ++ [q]))
                  || (startswith [sq] (q :: s ++ [q]) && endswith [sq] (q :: s ++ [q])) = true).
  { destruct Hq as [Hq|Hq]; subst q; rewrite Hs, He; cbn [andb orb]; [reflexivity|apply orb_true_r]. }
  rewrite Hcond, Hlen. cbn [Nat.ltb Nat.leb andb].
  unfold slice. cbn [skipn].
  replace (S (S (List.length s)) - 1 - 1) with (List.length s) by lia.
  apply firstn_app_exact.
Qed.

(* unquote undoes quote on text that unquote leaves alone *)
Lemma unquote_quote : forall s, unquote s = s -> unquote (quote s) = s.
Proof.
  intros s Hs. destruct (quote_cases s) as [H|[_ H]]; rewrite H.
  - exact Hs.
  - apply (unquote_quoted dq s). left. reflexivity.
Qed.
