(* C17More: further class-free corollaries of C17_partial: plain str values (declared str: written
   quoted and read back through literal_eval; undeclared: bare words that do not read as another
   type) and plain decimal floats lie inside the guard, for all prose with prose_ok and all four
   announcement phrases.  Proofs only. *)
From Coq Require Import List Ascii Bool Arith ZArith NArith Lia.
From Coq Require String.
Import String.StringSyntax.
From DT Require Import PyStr Sexp PyVal Extracted TyExpr PureUtils Defaults C17Spec
     PyStrFacts PureUtilsFacts DefaultsFacts.
Import ListNotations.

(* ------------------------------------------------------------------ *)
(* value text that contains no announcement phrase never moves the search *)
(* ------------------------------------------------------------------ *)

(* p and t differ at a position both have *)
Fixpoint mismatch (p t : str) : bool :=
  match p, t with
  | x :: p', y :: t' => negb (ascii_eqb x y) || mismatch p' t'
  | _, _ => false
  end.

Lemma mismatch_startswith : forall p t x, mismatch p t = true -> startswith p (t ++ x) = false.
Proof.
  induction p as [|a p IHp]; intros t x H; destruct t as [|b t]; cbn [mismatch] in H;
    try discriminate H.
  cbn [app startswith]. apply orb_true_iff in H. destruct H as [H|H].
  - apply negb_true_iff in H. rewrite H. reflexivity.
  - rewrite (IHp t x H). apply andb_false_r.
Qed.

(* no occurrence of p can begin inside A, whatever follows A *)
Definition no_inner_start (p A : str) : bool :=
  forallb (fun j => mismatch p (skipn j A)) (seq 0 (List.length A)).

Lemma find_app_mismatch : forall p A x,
    no_inner_start p A = true -> find p x = None -> find p (A ++ x) = None.
Proof.
  intros p A x HA Hx. apply find_None_iff. intros j Hj. rewrite skipn_app.
  destruct (Nat.lt_ge_cases j (List.length A)) as [Hlt|Hge].
  - apply mismatch_startswith. unfold no_inner_start in HA. rewrite forallb_forall in HA.
    apply HA. apply in_seq. lia.
  - rewrite (skipn_all2 A) by lia. cbn [app].
    apply (proj1 (find_None_iff p x) Hx). rewrite app_length in Hj. lia.
Qed.

Lemma location_within_first_match : forall (container : str) (pre : list str) (e : str)
                                           (post : list str) (i : nat),
    (forall e', In e' pre -> find (casefold e') (casefold container) = None) ->
    List.length e <= List.length container ->
    find (casefold e) (casefold container) = Some i ->
    location_within casefold container (pre ++ e :: post) = Some (i, i + List.length e, e).
Proof.
  intros container pre e post i. induction pre as [|a pre IHpre]; intros Hpre Hlen Hfind.
  - cbn [app location_within].
    rewrite (proj2 (Nat.ltb_ge (List.length container) (List.length e)) Hlen), Hfind. reflexivity.
  - cbn [app location_within]. rewrite (Hpre a (or_introl eq_refl)).
    assert (IH : location_within casefold container (pre ++ e :: post)
                 = Some (i, i + List.length e, e)).
    { apply IHpre; [|exact Hlen|exact Hfind]. intros e' He'. apply Hpre. right. exact He'. }
    destruct (Nat.ltb (List.length container) (List.length a)); exact IH.
Qed.

(* default_announces split at the phrase a documentation author used *)
Definition announce_pre (a : announce) : list str :=
  match a with
  | ADefaultsTo => []
  | ADefaultsToNl => [L "defaults to "]
  | ADefaultValueIs => [L "defaults to "; L "defaults to" ++ [nl]]
  | ADefaultColon => [L "defaults to "; L "defaults to" ++ [nl]; L "Default value is "]
  end.

Definition announce_elem (a : announce) : str :=
  match a with
  | ADefaultsTo => L "defaults to "
  | ADefaultsToNl => L "defaults to" ++ [nl]
  | ADefaultValueIs => L "Default value is "
  | ADefaultColon => L "Default:"
  end.

Definition announce_post (a : announce) : list str :=
  match a with
  | ADefaultsTo => [L "defaults to" ++ [nl]; L "Default value is "; L "Default:"]
  | ADefaultsToNl => [L "Default value is "; L "Default:"]
  | ADefaultValueIs => [L "Default:"]
  | ADefaultColon => []
  end.

Lemma default_announces_split : forall a,
    default_announces = announce_pre a ++ announce_elem a :: announce_post a.
Proof. intros []; reflexivity. Qed.

Lemma announce_elem_casefold : forall a, casefold (announce_elem a) = casefold (announce_text a).
Proof. intros []; reflexivity. Qed.

Lemma announce_elem_length : forall a,
    List.length (announce_elem a) = List.length (announce_text a).
Proof. intros []; reflexivity. Qed.

Lemma announce_pre_In : forall a e, In e (announce_pre a) -> In e default_announces.
Proof.
  intros a e H. rewrite (default_announces_split a). apply in_or_app. left. exact H.
Qed.

Lemma announce_pre_no_inner : forall a e,
    In e (announce_pre a) ->
    no_inner_start (casefold e) (casefold (announce_text a)) = true.
Proof.
  intros a e H.
  assert (Hall : forallb (fun e' => no_inner_start (casefold e') (casefold (announce_text a)))
                         (announce_pre a) = true) by (destruct a; vm_compute; reflexivity).
  rewrite forallb_forall in Hall. apply Hall. exact H.
Qed.

(* whatever the value text, if it contains no announcement phrase the search lands on the phrase *)
Lemma value_announce_ok_no_announce : forall a x,
    no_announce x = true -> value_announce_ok a x = true.
Proof.
  intros a x Hx. unfold value_announce_ok. rewrite (default_announces_split a).
  rewrite (location_within_first_match (announce_text a ++ x)
             (announce_pre a) (announce_elem a) (announce_post a) 0).
  - cbn [Nat.add]. rewrite announce_elem_length. apply Nat.eqb_refl.
  - intros e' He'. rewrite casefold_app. apply find_app_mismatch.
    + apply announce_pre_no_inner. exact He'.
    + apply no_announce_In; [exact Hx|]. apply (announce_pre_In a). exact He'.
  - rewrite app_length, announce_elem_length. lia.
  - rewrite casefold_app, announce_elem_casefold. apply find_startswith. apply startswith_app.
Qed.

(* ------------------------------------------------------------------ *)
(* plain characters                                                     *)
(* ------------------------------------------------------------------ *)

(* printable ASCII other than quote marks, backslash, full stop, back-tick and brackets *)
Definition special_chars : str :=
  [ch 34; ch 39; ch 92; ch 46; ch 96; ch 40; ch 41; ch 91; ch 93; ch 123; ch 125].

Definition plain_char (c : ascii) : bool :=
  Nat.leb 32 (code c) && Nat.leb (code c) 126 && negb (mem_c c special_chars).

Definition word_start (c : ascii) : bool := isalpha_c c || ascii_eqb c (ch 95).

Lemma plain_char_facts : forall c,
    plain_char c = true ->
    not_dot c = true
    /\ ascii_eqb c dq = false /\ ascii_eqb c sq = false /\ ascii_eqb c (ch 92) = false
    /\ ascii_eqb c nl = false /\ ascii_eqb c (ch 96) = false /\ ascii_eqb c tabch = false.
Proof.
  intros c. destruct c as [[] [] [] [] [] [] [] []]; vm_compute; intros H;
    try discriminate H; repeat split; reflexivity.
Qed.

Lemma plain_char_nonblank : forall c,
    plain_char c = true -> ascii_eqb c sp = false ->
    isspace c = false /\ mem_c c strip_set = false.
Proof.
  intros c. destruct c as [[] [] [] [] [] [] [] []]; vm_compute; intros H H';
    try discriminate H; try discriminate H'; split; reflexivity.
Qed.

Lemma word_start_facts : forall c,
    word_start c = true ->
    isdigit c = false /\ ascii_eqb c (ch 45) = false /\ ascii_eqb c (ch 43) = false
    /\ ascii_eqb c (ch 46) = false /\ isspace c = false /\ mem_c c strip_set = false.
Proof.
  intros c. destruct c as [[] [] [] [] [] [] [] []]; vm_compute; intros H;
    try discriminate H; repeat split; reflexivity.
Qed.

Lemma mem_c_forallb_false : forall (P : ascii -> bool) q s,
    forallb P s = true -> P q = false -> mem_c q s = false.
Proof.
  intros P q s Hs Hq. destruct (mem_c q s) eqn:E; [|reflexivity].
  apply mem_c_In in E. rewrite forallb_forall in Hs. rewrite (Hs q E) in Hq. discriminate Hq.
Qed.

Lemma str_eqb_head_false : forall c r w, startswith [c] w = false -> str_eqb (c :: r) w = false.
Proof.
  intros c r [|y w] H; [reflexivity|]. cbn [startswith] in H. rewrite andb_true_r in H.
  cbn [str_eqb]. rewrite H. reflexivity.
Qed.

Lemma existsb_str_eqb_head : forall c r l,
    forallb (fun y => negb (startswith [c] y)) l = true -> existsb (str_eqb (c :: r)) l = false.
Proof.
  intros c r l. induction l as [|y l IHl]; intros H; [reflexivity|].
  cbn [forallb] in H. apply andb_true_iff in H. destruct H as [Hy Hl].
  apply negb_true_iff in Hy. cbn [existsb]. rewrite (str_eqb_head_false c r y Hy).
  cbn [orb]. apply IHl. exact Hl.
Qed.

(* unquote leaves plain text alone *)
Lemma unquote_plain : forall s, forallb plain_char s = true -> unquote s = s.
Proof.
  intros s Hs. apply unquote_id_marks. intros q Hq [Hh _].
  destruct s as [|c r]; [discriminate Hh|]. injection Hh as Hh. subst c.
  cbn [forallb] in Hs. apply andb_true_iff in Hs. destruct Hs as [Hc _].
  destruct Hq as [Hq|Hq]; subst q; vm_compute in Hc; discriminate Hc.
Qed.

Lemma same_default_plain_str : forall s,
    forallb plain_char s = true -> same_default (VStr s) (VStr s) = true.
Proof.
  intros s Hs. unfold same_default. cbn [unquote_val pyval_eqb].
  rewrite (unquote_plain s Hs), str_eqb_refl. reflexivity.
Qed.

(* ------------------------------------------------------------------ *)
(* (1) str values under a declared str type                             *)
(* ------------------------------------------------------------------ *)

(* non-empty, plain characters only (blanks allowed anywhere), no announcement phrase inside *)
Definition plain_word (s : str) : bool :=
  negb (match s with [] => true | _ => false end) && forallb plain_char s && no_announce s.

Lemma plain_word_inv : forall s,
    plain_word s = true ->
    (exists c r, s = c :: r /\ plain_char c = true)
    /\ forallb plain_char s = true /\ no_announce s = true.
Proof.
  intros s H. unfold plain_word in H.
  apply andb_true_iff in H. destruct H as [H Hno].
  apply andb_true_iff in H. destruct H as [Hne Hpc].
  split; [|split; assumption].
  destruct s as [|c r]; [discriminate Hne|]. exists c, r. split; [reflexivity|].
  cbn [forallb] in Hpc. apply andb_true_iff in Hpc. apply Hpc.
Qed.

Lemma quote_plain : forall s,
    s <> [] -> forallb plain_char s = true -> quote s = dq :: s ++ [dq].
Proof.
  intros [|c r] Hne Hs; [contradiction|].
  cbn [forallb] in Hs. apply andb_true_iff in Hs. destruct Hs as [Hc _].
  destruct (plain_char_facts c Hc) as [_ [Hdq [Hsq _]]].
  destruct (last_c (c :: r)) as [d|] eqn:Hl.
  - rewrite (quote_eq c r d Hl), Hsq, Hdq. cbn [orb]. rewrite andb_false_r. reflexivity.
  - apply last_c_nil_iff in Hl. discriminate Hl.
Qed.

Lemma needs_quoting_str : needs_quoting (Some (L "str")) = Ok true.
Proof. vm_compute. reflexivity. Qed.

Lemma shown_value_str_typed : forall s,
    plain_word s = true -> shown_value (VStr s) (Some (L "str")) = Ok (dq :: s ++ [dq]).
Proof.
  intros s H. destruct (plain_word_inv s H) as [[c [r [Es Hc]]] [Hpc Hno]].
  unfold shown_value. cbv zeta. cbn [pyval_eqb].
  rewrite (str_eqb_forallb_false plain_char s NoneStr Hpc eq_refl).
  unfold shown_default. rewrite needs_quoting_str. cbn [bind quote_val].
  rewrite (quote_plain s) by (subst s; discriminate || exact Hpc). reflexivity.
Qed.

Definition quote_safe (e : str) : bool :=
  negb (match casefold e with [] => true | _ => false end)
  && no_inner_start (casefold e) [dq]
  && forallb (fun c => negb (mem_c c (casefold e))) [dq].

Lemma default_announces_quote_safe : forallb quote_safe default_announces = true.
Proof. vm_compute. reflexivity. Qed.

Lemma no_announce_quoted : forall s, no_announce s = true -> no_announce (dq :: s ++ [dq]) = true.
Proof.
  intros s Hs. unfold no_announce. rewrite forallb_forall. intros e He.
  apply negb_true_iff. apply contains_false_iff.
  pose proof default_announces_quote_safe as Hq. rewrite forallb_forall in Hq.
  specialize (Hq e He). unfold quote_safe in Hq.
  apply andb_true_iff in Hq. destruct Hq as [Hq Hdis].
  apply andb_true_iff in Hq. destruct Hq as [Hne Hin].
  rewrite casefold_cons, casefold_app. change (lower_c dq) with dq.
  change (casefold [dq]) with [dq].
  change (dq :: casefold s ++ [dq]) with ([dq] ++ (casefold s ++ [dq])).
  apply find_app_mismatch; [exact Hin|].
  rewrite find_app_disjoint; [apply no_announce_In; assumption| |exact Hdis].
  intros E. rewrite E in Hne. discriminate Hne.
Qed.

Lemma in_simple_types_str : in_simple_types (L "str") = true.
Proof. vm_compute. reflexivity. Qed.

Lemma none_types_not_quoted :
  forallb (fun y => negb (startswith [dq] y)) Extracted.none_types_strs = true.
Proof. vm_compute. reflexivity. Qed.

Lemma last_c_quoted : forall s : str, last_c (dq :: s ++ [dq]) = Some dq.
Proof. intros s. apply (last_c_app_single (dq :: s) dq). Qed.

Lemma quoted_simple_dq : forall s,
    forallb plain_char s = true -> quoted_simple (dq :: s ++ [dq]) = Some s.
Proof.
  intros s Hs. unfold quoted_simple.
  change (ascii_eqb dq (ch 34) || ascii_eqb dq (ch 39)) with true. cbv iota.
  rewrite rev_app_distr. cbn [rev app]. rewrite rev_involutive.
  rewrite (mem_c_forallb_false plain_char dq s Hs eq_refl).
  rewrite (mem_c_forallb_false plain_char (ch 92) s Hs eq_refl).
  rewrite (mem_c_forallb_false plain_char nl s Hs eq_refl).
  rewrite ascii_eqb_refl. reflexivity.
Qed.

Lemma literal_eval_scalar_quoted : forall s,
    forallb plain_char s = true -> literal_eval_scalar (dq :: s ++ [dq]) = Ok (VStr s).
Proof.
  intros s Hs. unfold literal_eval_scalar.
  rewrite (strip_by_id _ (dq :: s ++ [dq])).
  - rewrite (str_eqb_head_false dq (s ++ [dq]) (L "None") eq_refl).
    rewrite (str_eqb_head_false dq (s ++ [dq]) (L "True") eq_refl).
    rewrite (str_eqb_head_false dq (s ++ [dq]) (L "False") eq_refl).
    change (is_bare_word (dq :: s ++ [dq])) with false. cbv iota.
    rewrite (quoted_simple_dq s Hs). reflexivity.
  - intros c Hc. injection Hc as Hc. subst c. reflexivity.
  - intros c Hc. rewrite (last_c_quoted s) in Hc. injection Hc as Hc. subst c.
    reflexivity.
Qed.

Lemma coerce_default_str_typed : forall s,
    forallb plain_char s = true ->
    coerce_default (Some (L "str")) (dq :: s ++ [dq]) = Ok (VStr s).
Proof.
  intros s Hs. rewrite coerce_default_typed_eq.
  - rewrite (literal_eval_scalar_quoted s Hs). reflexivity.
  - exact in_simple_types_str.
  - unfold in_none_types. apply existsb_str_eqb_head. exact none_types_not_quoted.
Qed.

Lemma plain_char_dq_not_dot : forall s,
    forallb plain_char s = true -> forallb not_dot (dq :: s ++ [dq]) = true.
Proof.
  intros s Hs. cbn [forallb]. rewrite forallb_app. cbn [forallb].
  rewrite (forallb_impl plain_char not_dot s); [reflexivity| |exact Hs].
  intros c Hc. apply (plain_char_facts c Hc).
Qed.

Lemma value_ok_str_typed : forall a s,
    plain_word s = true -> value_ok a (VStr s) (Some (L "str")) = true.
Proof.
  intros a s H. destruct (plain_word_inv s H) as [_ [Hpc Hno]].
  pose proof (plain_char_dq_not_dot s Hpc) as Hnd.
  unfold value_ok. rewrite (shown_value_str_typed s H), (coerce_default_str_typed s Hpc).
  rewrite (same_default_plain_str s Hpc).
  rewrite (value_announce_ok_no_announce a _ (no_announce_quoted s Hno)).
  rewrite (scan_default_no_dot _ 0 Hnd).
  rewrite (strip_chars_id strip_set (dq :: s ++ [dq])).
  - rewrite !str_eqb_refl.
    destruct (endswith (L ").") (dq :: s ++ [dq])) eqn:He.
    + apply (endswith_forallb not_dot) in He; [|exact Hnd]. discriminate He.
    + rewrite andb_false_r. reflexivity.
  - intros c Hc. injection Hc as Hc. subst c. reflexivity.
  - intros c Hc. rewrite (last_c_quoted s) in Hc. injection Hc as Hc. subst c.
    reflexivity.
Qed.

Lemma C17_str_typed_lemma : forall a d s,
    prose_ok d = true -> plain_word s = true -> C17_at a d (VStr s) (Some (L "str")).
Proof.
  intros a d s Hp Hs. apply C17_of_prose_value; [exact Hp|apply value_ok_str_typed; exact Hs].
Qed.

(* ------------------------------------------------------------------ *)
(* (2) str values without a declared type                               *)
(* ------------------------------------------------------------------ *)

Definition float_word (w : str) : bool :=
  str_eqb w (L "inf") || str_eqb w (L "infinity") || str_eqb w (L "nan").

(* a plain word that begins with a letter or underscore, does not end with a blank, and is not
   one of the words that read as bool or float *)
Definition bare_word (s : str) : bool :=
  plain_word s
  && match s with c :: _ => word_start c | [] => false end
  && negb (endswith [sp] s)
  && negb (str_eqb s (L "True")) && negb (str_eqb s (L "False"))
  && negb (float_word (casefold s)).

Lemma shown_value_str_untyped : forall s,
    forallb plain_char s = true -> shown_value (VStr s) None = Ok s.
Proof.
  intros s Hpc. unfold shown_value. cbv zeta. cbn [pyval_eqb].
  rewrite (str_eqb_forallb_false plain_char s NoneStr Hpc eq_refl). reflexivity.
Qed.

Lemma float_syntax_word : forall c r,
    word_start c = true ->
    (forall l, last_c (c :: r) = Some l -> isspace l = false) ->
    float_word (casefold (c :: r)) = false ->
    float_syntax (c :: r) = false.
Proof.
  intros c r Hc Hlast Hfw.
  destruct (word_start_facts c Hc) as [Hdig [Hm [Hp [Hdot [Hsp _]]]]].
  unfold float_syntax.
  assert (Hstrip : strip (c :: r) = c :: r).
  { unfold strip. apply strip_by_id; [|exact Hlast].
    intros c0 Hc0. injection Hc0 as Hc0. subst c0. exact Hsp. }
  rewrite Hstrip. cbv zeta. rewrite Hp, Hm. cbn [orb].
  unfold unsigned_float_syntax. cbv zeta. unfold float_word in Hfw. rewrite Hfw, Hdot.
  cbn [digitpart_rest]. rewrite Hdig.
  destruct (ascii_eqb c (ch 95)); reflexivity.
Qed.

Lemma coerce_default_bare_word : forall s,
    bare_word s = true -> coerce_default None s = Ok (VStr s).
Proof.
  intros s H. unfold bare_word in H.
  apply andb_true_iff in H. destruct H as [H Hfw]. apply negb_true_iff in Hfw.
  apply andb_true_iff in H. destruct H as [H HF]. apply negb_true_iff in HF.
  apply andb_true_iff in H. destruct H as [H HT]. apply negb_true_iff in HT.
  apply andb_true_iff in H. destruct H as [H Hend]. apply negb_true_iff in Hend.
  apply andb_true_iff in H. destruct H as [Hpw Hws].
  destruct (plain_word_inv s Hpw) as [_ [Hpc _]].
  destruct s as [|c r]; [discriminate Hws|].
  destruct (word_start_facts c Hws) as [Hdig [Hm [Hp _]]].
  assert (Hlast : forall l, last_c (c :: r) = Some l -> isspace l = false).
  { intros l Hl.
    assert (Hlp : plain_char l = true).
    { rewrite forallb_forall in Hpc. apply Hpc. apply last_c_In. exact Hl. }
    assert (Hlsp : ascii_eqb l sp = false).
    { destruct (ascii_eqb l sp) eqn:E; [|reflexivity]. apply ascii_eqb_eq in E. subst l.
      apply endswith_single in Hl. rewrite Hl in Hend. discriminate Hend. }
    apply (plain_char_nonblank l Hlp Hlsp). }
  rewrite coerce_default_None_eq.
  assert (Hdec : isdecimal (c :: r) = false).
  { unfold isdecimal. cbn [forallb]. rewrite Hdig. reflexivity. }
  assert (Hsd : signed_decimal (c :: r) = false).
  { unfold signed_decimal. rewrite Hm, Hp. reflexivity. }
  rewrite Hdec, Hsd, HT, HF.
  unfold float_of_str. rewrite (float_syntax_word c r Hws Hlast Hfw). reflexivity.
Qed.

Lemma value_ok_str_untyped : forall a s, bare_word s = true -> value_ok a (VStr s) None = true.
Proof.
  intros a s H. pose proof (coerce_default_bare_word s H) as Hco.
  unfold bare_word in H.
  apply andb_true_iff in H. destruct H as [H _].
  apply andb_true_iff in H. destruct H as [H _].
  apply andb_true_iff in H. destruct H as [H _].
  apply andb_true_iff in H. destruct H as [H Hend]. apply negb_true_iff in Hend.
  apply andb_true_iff in H. destruct H as [Hpw Hws].
  destruct (plain_word_inv s Hpw) as [_ [Hpc Hno]].
  assert (Hnd : forallb not_dot s = true).
  { apply (forallb_impl plain_char); [|exact Hpc]. intros c Hc. apply (plain_char_facts c Hc). }
  unfold value_ok. rewrite (shown_value_str_untyped s Hpc), Hco, (same_default_plain_str s Hpc).
  rewrite (value_announce_ok_no_announce a s Hno), (scan_default_no_dot s 0 Hnd).
  rewrite (strip_chars_id strip_set s).
  - rewrite !str_eqb_refl.
    destruct (endswith (L ").") s) eqn:He.
    + apply (endswith_forallb not_dot) in He; [|exact Hnd]. discriminate He.
    + rewrite andb_false_r. reflexivity.
  - intros c Hc. destruct s as [|c0 r]; [discriminate Hc|]. injection Hc as Hc. subst c0.
    apply (word_start_facts c Hws).
  - intros l Hl.
    assert (Hlp : plain_char l = true).
    { rewrite forallb_forall in Hpc. apply Hpc. apply last_c_In. exact Hl. }
    assert (Hlsp : ascii_eqb l sp = false).
    { destruct (ascii_eqb l sp) eqn:E; [|reflexivity]. apply ascii_eqb_eq in E. subst l.
      apply endswith_single in Hl. rewrite Hl in Hend. discriminate Hend. }
    apply (plain_char_nonblank l Hlp Hlsp).
Qed.

Lemma C17_str_untyped_lemma : forall a d s,
    prose_ok d = true -> bare_word s = true -> C17_at a d (VStr s) None.
Proof.
  intros a d s Hp Hs. apply C17_of_prose_value; [exact Hp|apply value_ok_str_untyped; exact Hs].
Qed.

(* ------------------------------------------------------------------ *)
(* (3) plain decimal floats                                             *)
(* ------------------------------------------------------------------ *)

Definition floatchar (c : ascii) : bool :=
  isdigit c || ascii_eqb c (ch 45) || ascii_eqb c (ch 46).

(* every full stop is followed by a digit *)
Fixpoint dot_digit_ok (s : str) : bool :=
  match s with
  | [] => true
  | c :: r =>
    (if ascii_eqb c (ch 46) then match r with d :: _ => isdigit d | [] => false end else true)
    && dot_digit_ok r
  end.

(* text of the shape [-]digits.digits that float() maps to itself *)
Definition canonical_plain_float (r : str) : bool :=
  forallb floatchar r && mem_c (ch 46) r && dot_digit_ok r
  && match float_of_str r with Ok r' => str_eqb r' r | Err _ => false end.

Lemma scan_default_dot_digit_ok : forall s depth,
    dot_digit_ok s = true -> scan_default s depth = s.
Proof.
  induction s as [|c r IHr]; intros depth H; [reflexivity|].
  cbn [dot_digit_ok] in H. apply andb_true_iff in H. destruct H as [Hc Hr].
  cbn [scan_default].
  assert (Hstop : ascii_eqb c (ch 46)
                  && match r with [] => true | d :: _ => negb (isdigit d) end
                  && Nat.eqb depth 0 = false).
  { destruct (ascii_eqb c (ch 46)); [|reflexivity].
    destruct r as [|d r']; [discriminate Hc|]. rewrite Hc. reflexivity. }
  rewrite Hstop, (IHr _ Hr). reflexivity.
Qed.

Lemma floatchar_facts : forall c,
    floatchar c = true ->
    announce_safe c = true
    /\ negb (mem_c c strip_set) = true
    /\ negb (ascii_eqb c sp || ascii_eqb c tabch) = true
    /\ isalpha_c c || ascii_eqb c (ch 95) = false
    /\ ascii_eqb c (ch 34) || ascii_eqb c (ch 39) = false
    /\ ascii_eqb c (ch 43) = false
    /\ isdigit c || ascii_eqb c (ch 46) || ascii_eqb c (ch 45) || ascii_eqb c (ch 43) = true.
Proof.
  intros c. destruct c as [[] [] [] [] [] [] [] []]; vm_compute; intros H;
    try discriminate H; repeat split; reflexivity.
Qed.

Lemma not_decimal_with_dot : forall s, mem_c (ch 46) s = true -> forallb isdigit s = false.
Proof.
  intros s H. destruct (forallb isdigit s) eqn:E; [|reflexivity].
  rewrite (mem_c_forallb_false isdigit (ch 46) s E eq_refl) in H. discriminate H.
Qed.

Lemma isdecimal_with_dot : forall s, mem_c (ch 46) s = true -> isdecimal s = false.
Proof.
  intros [|c r] H; [reflexivity|]. unfold isdecimal. apply not_decimal_with_dot. exact H.
Qed.

Record float_text_facts (r : str) : Prop := {
  ftf_chars : forallb floatchar r = true;
  ftf_dot : mem_c (ch 46) r = true;
  ftf_scan : dot_digit_ok r = true;
  ftf_float : float_of_str r = Ok r
}.

Lemma canonical_plain_float_inv : forall r, canonical_plain_float r = true -> float_text_facts r.
Proof.
  intros r H. unfold canonical_plain_float in H.
  apply andb_true_iff in H. destruct H as [H Hf].
  apply andb_true_iff in H. destruct H as [H Hscan].
  apply andb_true_iff in H. destruct H as [Hch Hdot].
  destruct (float_of_str r) as [r'|e] eqn:E; [|discriminate Hf].
  apply str_eqb_eq in Hf. subst r'. constructor; assumption.
Qed.

Lemma float_text_head : forall r, float_text_facts r ->
    exists c r', r = c :: r' /\ floatchar c = true
                 /\ (ascii_eqb c (ch 46) = false -> mem_c (ch 46) r' = true).
Proof.
  intros r [Hch Hdot _ _]. destruct r as [|c r']; [discriminate Hdot|].
  exists c, r'. split; [reflexivity|]. split.
  - cbn [forallb] in Hch. apply andb_true_iff in Hch. apply Hch.
  - intros Hc. rewrite mem_c_cons in Hdot. rewrite ascii_eqb_sym, Hc in Hdot. exact Hdot.
Qed.

Lemma signed_forms_with_dot : forall r, float_text_facts r ->
    isdecimal r = false /\ signed_decimal r = false /\ Z_of_dec_signed r = None.
Proof.
  intros r F. pose proof (ftf_dot r F) as Hdot.
  pose proof (isdecimal_with_dot r Hdot) as Hdec.
  destruct (float_text_head r F) as [c [r' [Er [Hc Hrest]]]]. subst r.
  destruct (floatchar_facts c Hc) as [_ [_ [_ [_ [_ [Hplus _]]]]]].
  split; [exact Hdec|].
  unfold signed_decimal, Z_of_dec_signed. rewrite Hplus.
  destruct (ascii_eqb c (ch 45)) eqn:Hm.
  - assert (Hnd : ascii_eqb c (ch 46) = false).
    { apply ascii_eqb_eq in Hm. subst c. reflexivity. }
    rewrite (isdecimal_with_dot r' (Hrest Hnd)). split; reflexivity.
  - rewrite Hdec. split; reflexivity.
Qed.

Lemma coerce_default_float_untyped : forall r,
    float_text_facts r -> coerce_default None r = Ok (VFloat r).
Proof.
  intros r F. destruct (signed_forms_with_dot r F) as [Hdec [Hsd _]].
  rewrite coerce_default_None_eq, Hdec, Hsd.
  rewrite (str_eqb_forallb_false floatchar r (L "True") (ftf_chars r F) eq_refl).
  rewrite (str_eqb_forallb_false floatchar r (L "False") (ftf_chars r F) eq_refl).
  rewrite (ftf_float r F). reflexivity.
Qed.

Lemma float_syntax_of_float : forall r r', float_of_str r = Ok r' -> float_syntax r = true.
Proof.
  intros r r' H. unfold float_of_str in H.
  destruct (float_syntax r); [reflexivity|discriminate H].
Qed.

Lemma literal_eval_scalar_float : forall r,
    float_text_facts r -> literal_eval_scalar r = Ok (VFloat r).
Proof.
  intros r F. pose proof (ftf_chars r F) as Hch.
  destruct (signed_forms_with_dot r F) as [_ [_ Hz]].
  destruct (float_text_head r F) as [c [r' [Er [Hc _]]]].
  destruct (floatchar_facts c Hc) as [_ [_ [_ [Hws [Hq _]]]]].
  unfold literal_eval_scalar.
  rewrite (strip_by_forallb _ r)
    by (apply (forallb_impl floatchar); [intros x Hx; apply (floatchar_facts x Hx)|exact Hch]).
  cbv zeta.
  rewrite (str_eqb_forallb_false floatchar r (L "None") Hch eq_refl).
  rewrite (str_eqb_forallb_false floatchar r (L "True") Hch eq_refl).
  rewrite (str_eqb_forallb_false floatchar r (L "False") Hch eq_refl).
  assert (Hbw : is_bare_word r = false).
  { rewrite Er. unfold is_bare_word. rewrite Hws. reflexivity. }
  assert (Hqs : quoted_simple r = None).
  { rewrite Er. unfold quoted_simple. rewrite Hq. reflexivity. }
  assert (Hall : forallb (fun x => isdigit x || ascii_eqb x (ch 46) || ascii_eqb x (ch 45)
                                   || ascii_eqb x (ch 43)) r = true).
  { apply (forallb_impl floatchar); [intros x Hx; apply (floatchar_facts x Hx)|exact Hch]. }
  rewrite Hbw, Hqs, Hz, Hall, (float_syntax_of_float r r (ftf_float r F)).
  rewrite andb_false_r. cbn [negb andb]. rewrite (ftf_float r F). reflexivity.
Qed.

Lemma in_simple_types_float : in_simple_types (L "float") = true.
Proof. vm_compute. reflexivity. Qed.

Lemma none_types_not_floatchars :
  forallb (fun x => negb (forallb floatchar x)) Extracted.none_types_strs = true.
Proof. vm_compute. reflexivity. Qed.

Lemma coerce_default_float_typed : forall r,
    float_text_facts r -> coerce_default (Some (L "float")) r = Ok (VFloat r).
Proof.
  intros r F. rewrite coerce_default_typed_eq.
  - rewrite (literal_eval_scalar_float r F). reflexivity.
  - exact in_simple_types_float.
  - unfold in_none_types.
    apply (existsb_str_eqb_forallb floatchar); [exact (ftf_chars r F)|].
    exact none_types_not_floatchars.
Qed.

Lemma value_ok_float : forall a r t,
    float_text_facts r -> coerce_default t r = Ok (VFloat r) -> value_ok a (VFloat r) t = true.
Proof.
  intros a r t F Hco. pose proof (ftf_chars r F) as Hch.
  unfold value_ok.
  change (shown_value (VFloat r) t) with (Ok (A:=str) r). cbv iota.
  rewrite Hco.
  assert (Hsame : same_default (VFloat r) (VFloat r) = true).
  { unfold same_default. cbn [unquote_val pyval_eqb]. rewrite str_eqb_refl. reflexivity. }
  rewrite Hsame.
  rewrite (value_announce_ok_safe a r)
    by (apply (forallb_impl floatchar); [intros x Hx; apply (floatchar_facts x Hx)|exact Hch]).
  rewrite (scan_default_dot_digit_ok r 0 (ftf_scan r F)).
  rewrite (strip_chars_forallb strip_set r)
    by (apply (forallb_impl floatchar); [intros x Hx; apply (floatchar_facts x Hx)|exact Hch]).
  rewrite !str_eqb_refl.
  destruct (endswith (L ").") r) eqn:He.
  - apply (endswith_forallb floatchar) in He; [|exact Hch]. discriminate He.
  - rewrite andb_false_r. reflexivity.
Qed.

Lemma C17_float_plain_lemma : forall a d r,
    prose_ok d = true -> canonical_plain_float r = true ->
    C17_at a d (VFloat r) None /\ C17_at a d (VFloat r) (Some (L "float")).
Proof.
  intros a d r Hp Hr. pose proof (canonical_plain_float_inv r Hr) as F.
  split; apply C17_of_prose_value; try exact Hp; apply value_ok_float; try exact F.
  - apply coerce_default_float_untyped. exact F.
  - apply coerce_default_float_typed. exact F.
Qed.

(* ------------------------------------------------------------------ *)
(* (4) the classes are inhabited                                        *)
(* ------------------------------------------------------------------ *)

Lemma C17_more_nonvacuous_lemma :
  plain_word (L "mnist") = true
  /\ plain_word (L "~/tensorflow datasets") = true
  /\ bare_word (L "mnist") = true
  /\ bare_word (L "tensorflow_datasets") = true
  /\ canonical_plain_float (L "0.5") = true
  /\ canonical_plain_float (L "123456.789") = true
  /\ canonical_plain_float (L "-0.001") = true.
Proof. repeat split; vm_compute; reflexivity. Qed.
