(* DocParseNGFacts: lemmas about the numpydoc / google docstring path (model/DocParseNG.v) and the
   specification of C01 for these two styles (model/C01SpecNG.v).  Proofs only. *)
From Coq Require Import List Ascii Bool Arith ZArith Lia.
From Coq Require String.
Import String.StringSyntax.
From DT Require Import PyStr Sexp PyVal TyExpr PureUtils Defaults PyAst IR Extracted Run C17Spec
     DocParseNG C01SpecNG PyStrFacts.
Import ListNotations.

(* ------------------------------------------------------------------ *)
(* 1. occurrences across a separator                                    *)
(* ------------------------------------------------------------------ *)

Lemma contains_nil_l : forall s, contains [] s = true.
Proof. intros s. unfold contains. rewrite find_startswith; [reflexivity|apply startswith_nil]. Qed.

(* a character that does not occur in the pattern separates occurrences *)
Lemma contains_sep : forall tok a x b,
    mem_c x tok = false -> contains tok a = false -> contains tok b = false ->
    contains tok (a ++ x :: b) = false.
Proof.
  intros tok a x b Hx Ha Hb.
  destruct tok as [|y tok]; [rewrite contains_nil_l in Ha; discriminate|].
  apply contains_false_iff. apply contains_false_iff in Hb.
  induction a as [|c a IHa].
  - cbn [app]. rewrite find_cons. cbn [startswith].
    rewrite mem_c_cons in Hx. apply orb_false_iff in Hx. destruct Hx as [Hxy _].
    rewrite ascii_eqb_sym, Hxy. cbn [andb]. rewrite Hb. reflexivity.
  - apply contains_false_iff in Ha. rewrite find_cons in Ha.
    destruct (startswith (y :: tok) (c :: a)) eqn:Hsw; [discriminate|].
    destruct (find (y :: tok) a) as [k|] eqn:Hk; [discriminate|].
    change ((c :: a) ++ x :: b) with (c :: (a ++ x :: b)). rewrite find_cons.
    change (c :: (a ++ x :: b)) with ((c :: a) ++ x :: b).
    destruct (startswith (y :: tok) ((c :: a) ++ x :: b)) eqn:E.
    + exfalso. apply startswith_app_cases in E.
      destruct E as [E | [q [Hq1 [Hq2 Hq3]]]]; [congruence|].
      destruct q as [|z q]; [contradiction|].
      cbn [startswith] in Hq3. apply andb_true_iff in Hq3. destruct Hq3 as [Hz _].
      apply ascii_eqb_eq in Hz. subst z.
      assert (Hin : mem_c x (y :: tok) = true).
      { rewrite Hq1. rewrite mem_c_app. rewrite (mem_c_cons x x q), ascii_eqb_refl.
        cbn [orb]. apply orb_true_r. }
      congruence.
    + rewrite IHa; [reflexivity|]. apply contains_false_iff. exact Hk.
Qed.

Lemma contains_cons_notin : forall tok x b,
    mem_c x tok = false -> contains tok b = false -> contains tok (x :: b) = false.
Proof.
  intros tok x b Hx Hb.
  destruct tok as [|y tok]; [rewrite contains_nil_l in Hb; discriminate|].
  change (x :: b) with ([] ++ x :: b). apply contains_sep; [exact Hx| |exact Hb].
  reflexivity.
Qed.

Lemma contains_app_notin_l : forall tok a b,
    forallb (fun c => negb (mem_c c tok)) a = true -> contains tok b = false ->
    contains tok (a ++ b) = false.
Proof.
  intros tok a b Ha Hb. induction a as [|c a IHa]; [exact Hb|].
  cbn [forallb] in Ha. apply andb_true_iff in Ha. destruct Ha as [Hc Ha].
  apply negb_true_iff in Hc. cbn [app]. apply contains_cons_notin; [exact Hc|]. apply IHa. exact Ha.
Qed.

Lemma contains_short : forall tok s, List.length s < List.length tok -> contains tok s = false.
Proof. intros tok s H. apply contains_false_iff. apply find_None_too_long. exact H. Qed.

(* ------------------------------------------------------------------ *)
(* 2. require_default only ever goes from False to True                 *)
(* ------------------------------------------------------------------ *)

Lemma bind_Ok_inv' : forall {A B} (x : outcome A) (f : A -> outcome B) b,
    bind x f = Ok b -> exists a, x = Ok a /\ f a = Ok b.
Proof. intros A B [a|e] f b H; [exists a; split; [reflexivity|exact H]|discriminate]. Qed.

Lemma interpolate_force_monotone : forall p req emit p' req',
    interpolate_force p req emit = Ok (p', req') -> req = true -> req' = true.
Proof.
  intros p req emit p' req' H Hreq. unfold interpolate_force in H.
  apply bind_Ok_inv' in H. destruct H as [p1 [_ H]]. cbv zeta in H.
  injection H as _ H. subst req' req. reflexivity.
Qed.

(* once a default has been seen, the flag stays set through the rest of the parameter list and is
   what the return entry is interpolated with *)
Lemma params_loop_monotone : forall style fl units req acc acc' req',
    params_loop style fl units req acc = Ok (acc', req') -> req = true -> req' = true.
Proof.
  intros style fl units. induction units as [|u r IH]; intros req acc acc' req' H Hreq.
  - cbn [params_loop] in H. injection H as _ H. congruence.
  - cbn [params_loop] in H. destruct (parse_unit style u) as [name p| | |e].
    + apply bind_Ok_inv' in H. destruct H as [[p1 req1] [H1 H]].
      apply bind_Ok_inv' in H. destruct H as [np [_ H]].
      apply (IH _ _ _ _ H). apply (interpolate_force_monotone _ _ _ _ _ H1 Hreq).
    + apply (IH _ _ _ _ H Hreq).
    + injection H as _ H. congruence.
    + discriminate.
Qed.

(* the flag is set by the first parameter that comes out of interpolation with a default *)
Lemma interpolate_force_sets : forall p req emit p' req',
    interpolate_force p req emit = Ok (p', req') ->
    req' = req || match p_default p' with None | Some VNone => false | Some _ => true end.
Proof.
  intros p req emit p' req' H. unfold interpolate_force in H.
  apply bind_Ok_inv' in H. destruct H as [p1 [_ H]]. cbv zeta in H.
  injection H as H1 H2. subst p' req'. reflexivity.
Qed.

(* ------------------------------------------------------------------ *)
(* 3. the stacker                                                       *)
(* ------------------------------------------------------------------ *)

Lemma append_last_snoc : forall st u line, append_last (st ++ [u]) line = Some (st ++ [u ++ [line]]).
Proof.
  induction st as [|v st IH]; intros u line; [reflexivity|].
  cbn [app append_last]. destruct (st ++ [u]) as [|w r] eqn:E.
  - destruct st; discriminate.
  - rewrite <- E, IH. reflexivity.
Qed.

(* a line at first_indent starts a unit *)
Lemma stack_lines_start : forall rt fi line tail st,
    indent_of line = fi ->
    stack_lines rt fi (line :: tail) st = stack_lines rt fi tail (st ++ [[line]]).
Proof. intros rt fi line tail st H. cbn [stack_lines]. rewrite H, Nat.eqb_refl. reflexivity. Qed.

(* a deeper line continues the last unit *)
Lemma stack_lines_cont : forall rt fi line tail st u,
    fi < indent_of line ->
    stack_lines rt fi (line :: tail) (st ++ [u]) = stack_lines rt fi tail (st ++ [u ++ [line]]).
Proof.
  intros rt fi line tail st u H. cbn [stack_lines].
  destruct (Nat.eqb_spec (indent_of line) fi) as [E|_]; [lia|].
  destruct (Nat.ltb_spec (indent_of line) fi) as [E|_]; [lia|].
  rewrite append_last_snoc. reflexivity.
Qed.

(* a deeper line with nothing on the stack: IndexError *)
Lemma stack_lines_cont_empty : forall rt fi line tail,
    fi < indent_of line -> stack_lines rt fi (line :: tail) [] = Err IndexError.
Proof.
  intros rt fi line tail H. cbn [stack_lines].
  destruct (Nat.eqb_spec (indent_of line) fi) as [E|_]; [lia|].
  destruct (Nat.ltb_spec (indent_of line) fi) as [E|_]; [lia|]. reflexivity.
Qed.

(* a shallower line ends the scan: the stack goes to scanned[namespace], the rest to the look-aheads *)
Lemma stack_lines_break : forall rt fi line tail st,
    indent_of line < fi ->
    stack_lines rt fi (line :: tail) st = Ok ([], Some (st, lookahead rt tail)).
Proof.
  intros rt fi line tail st H. cbn [stack_lines].
  destruct (Nat.eqb_spec (indent_of line) fi) as [E|_]; [lia|].
  destruct (Nat.ltb_spec (indent_of line) fi) as [_|E]; [reflexivity|lia].
Qed.

(* continuation lines of one unit *)
Lemma stack_lines_conts : forall rt fi cs tail st u,
    Forall (fun l => fi < indent_of l) cs ->
    stack_lines rt fi (cs ++ tail) (st ++ [u]) = stack_lines rt fi tail (st ++ [u ++ cs]).
Proof.
  intros rt fi cs. induction cs as [|c cs IH]; intros tail st u H.
  - rewrite app_nil_r. reflexivity.
  - inversion H as [|c' cs' Hc Hcs]; subst. cbn [app].
    rewrite stack_lines_cont; [|exact Hc]. rewrite IH; [|exact Hcs].
    rewrite <- app_assoc. reflexivity.
Qed.

(* a unit: a head line at first_indent followed by deeper lines *)
Definition is_unit (fi : nat) (u : list str) : Prop :=
  match u with
  | [] => False
  | h :: cs => indent_of h = fi /\ Forall (fun l => fi < indent_of l) cs
  end.

(* THE STACKER LEMMA: text that is a sequence of units is stacked into exactly those units, for any
   number of units, whatever follows *)
Lemma stack_lines_units : forall rt fi us tail st,
    Forall (is_unit fi) us ->
    stack_lines rt fi (concat us ++ tail) st = stack_lines rt fi tail (st ++ us).
Proof.
  intros rt fi us. induction us as [|u us IH]; intros tail st H.
  - rewrite app_nil_r. reflexivity.
  - inversion H as [|u' us' Hu Hus]; subst.
    destruct u as [|h cs]; [contradiction|]. destruct Hu as [Hh Hcs].
    cbn [concat]. rewrite <- !app_assoc. cbn [app].
    rewrite stack_lines_start; [|exact Hh].
    rewrite stack_lines_conts; [|exact Hcs]. cbn [app].
    rewrite IH; [|exact Hus]. rewrite <- app_assoc. reflexivity.
Qed.

Corollary stack_lines_units_end : forall rt fi us,
    Forall (is_unit fi) us -> stack_lines rt fi (concat us) [] = Ok (us, None).
Proof.
  intros rt fi us H. rewrite <- (app_nil_r (concat us)). rewrite stack_lines_units; [|exact H].
  reflexivity.
Qed.

Corollary stack_lines_units_break : forall rt fi us line tail,
    Forall (is_unit fi) us -> indent_of line < fi ->
    stack_lines rt fi (concat us ++ line :: tail) [] = Ok ([], Some (us, lookahead rt tail)).
Proof.
  intros rt fi us line tail H Hl. rewrite stack_lines_units; [|exact H].
  apply stack_lines_break. exact Hl.
Qed.

(* ------------------------------------------------------------------ *)
(* 4. the two _parse closures on one well-formed unit                   *)
(* ------------------------------------------------------------------ *)

Lemma find_char : forall c a b, mem_c c a = false -> find [c] (a ++ c :: b) = Some (List.length a).
Proof.
  intros c a b. induction a as [|x a IH]; intros H.
  - cbn [app List.length]. rewrite find_cons. cbn [startswith]. rewrite ascii_eqb_refl. reflexivity.
  - rewrite mem_c_cons in H. apply orb_false_iff in H. destruct H as [Hx Ha].
    change ((x :: a) ++ c :: b) with (x :: (a ++ c :: b)). rewrite find_cons.
    cbn [startswith]. rewrite Hx. cbn [andb]. rewrite (IH Ha). reflexivity.
Qed.

Lemma skipn_app_succ : forall (a : str) c b, skipn (List.length a + 1) (a ++ c :: b) = b.
Proof.
  intros a c b. rewrite <- skipn_add. rewrite skipn_app_exact. reflexivity.
Qed.

Lemma partition_char : forall c a b, mem_c c a = false -> partition [c] (a ++ c :: b) = (a, [c], b).
Proof.
  intros c a b H. unfold partition. rewrite (find_char c a b H).
  rewrite firstn_app_exact. cbn [List.length]. rewrite skipn_app_succ. reflexivity.
Qed.

Lemma rstrip_snoc_space : forall s, rstrip (s ++ [sp]) = rstrip s.
Proof.
  intros s. unfold rstrip, rstrip_by. rewrite rev_app_distr. cbn [rev app dropwhile].
  change (isspace sp) with true. cbn iota. reflexivity.
Qed.

Lemma lstrip_cons_space : forall s, lstrip (sp :: s) = lstrip s.
Proof. intros s. unfold lstrip, lstrip_by. cbn [dropwhile]. change (isspace sp) with true. reflexivity. Qed.

Lemma rstrip_snoc_nonspace : forall s c, isspace c = false -> rstrip (s ++ [c]) = s ++ [c].
Proof.
  intros s c H. unfold rstrip, rstrip_by. rewrite rev_app_distr. cbn [rev app dropwhile].
  rewrite H. cbn [rev]. rewrite rev_involutive. reflexivity.
Qed.

Lemma is_empty_false : forall {A} (l : list A), l <> [] -> is_empty l = false.
Proof. intros A [|x l] H; [contradiction|reflexivity]. Qed.

Lemma is_empty_app_r : forall {A} (a b : list A), b <> [] -> is_empty (a ++ b) = false.
Proof. intros A a b H. apply is_empty_false. intros E. apply app_eq_nil in E. tauto. Qed.

Lemma lstrip_tab_app : forall d, lstrip (tab ++ d) = lstrip d.
Proof. intros d. reflexivity. Qed.

(* numpydoc: the unit  [name : typ ; <tab>doc]  *)
Lemma parse_numpydoc_param : forall name typ doc,
    name <> [] -> mem_c (ch 58) name = false -> rstrip name = name ->
    typ <> [] -> lstrip typ = typ -> lstrip doc = doc ->
    parse_numpydoc [name ++ L " : " ++ typ; tab ++ doc]
    = PSome name (mkParam (Has doc) (Has typ) None).
Proof.
  intros name typ doc Hne Hcolon Hrs Htne Hls Hld.
  unfold parse_numpydoc.
  change (name ++ L " : " ++ typ) with (name ++ [sp] ++ ch 58 :: sp :: typ).
  rewrite app_assoc. rewrite partition_char.
  2:{ rewrite mem_c_app, Hcolon. reflexivity. }
  rewrite is_empty_app_r; [|discriminate]. cbn [is_empty].
  rewrite rstrip_snoc_space, Hrs. rewrite lstrip_cons_space, Hls.
  cbn [map join]. rewrite lstrip_tab_app, Hld. reflexivity.
Qed.

(* numpydoc: a unit without prose line *)
Lemma parse_numpydoc_param_nodoc : forall name typ,
    name <> [] -> mem_c (ch 58) name = false -> rstrip name = name ->
    typ <> [] -> lstrip typ = typ ->
    parse_numpydoc [name ++ L " : " ++ typ] = PSome name (mkParam (Has []) (Has typ) None).
Proof.
  intros name typ Hne Hcolon Hrs Htne Hls.
  unfold parse_numpydoc.
  change (name ++ L " : " ++ typ) with (name ++ [sp] ++ ch 58 :: sp :: typ).
  rewrite app_assoc. rewrite partition_char.
  2:{ rewrite mem_c_app, Hcolon. reflexivity. }
  rewrite is_empty_app_r; [|discriminate]. cbn [is_empty].
  rewrite rstrip_snoc_space, Hrs. rewrite lstrip_cons_space, Hls. reflexivity.
Qed.

(* numpydoc: the blank units that the emitter's trailing newlines produce are dropped *)
Lemma parse_numpydoc_blank : parse_numpydoc [[]] = PNone.
Proof. reflexivity. Qed.

Definition head_nonspace (s : str) : Prop := forall c, head_c s = Some c -> isspace c = false.
Definition last_nonspace (s : str) : Prop := forall c, last_c s = Some c -> isspace c = false.

Lemma lstrip_app_head : forall a b, a <> [] -> head_nonspace a -> lstrip (a ++ b) = a ++ b.
Proof.
  intros a b Hne Hh. unfold lstrip. apply lstrip_by_id. intros c Hc. apply Hh.
  destruct a as [|x a]; [contradiction|exact Hc].
Qed.

Lemma lstrip_id_head : forall a, head_nonspace a -> lstrip a = a.
Proof. intros a Hh. unfold lstrip. apply lstrip_by_id. exact Hh. Qed.

Lemma rstrip_id_last : forall a, last_nonspace a -> rstrip a = a.
Proof. intros a Hl. unfold rstrip. apply rstrip_by_id. exact Hl. Qed.

Lemma strip_id : forall a, head_nonspace a -> last_nonspace a -> strip a = a.
Proof. intros a Hh Hl. unfold strip. apply strip_by_id; assumption. Qed.

Lemma slice_inner : forall (t : str) a b,
    slice (a :: t ++ [b]) 1 (List.length (a :: t ++ [b]) - 1) = t.
Proof.
  intros t a b. unfold slice. cbn [List.length skipn]. rewrite app_length. cbn [List.length].
  replace (S (List.length t + 1) - 1 - 1) with (List.length t) by lia.
  apply firstn_app_exact.
Qed.

(* google: the unit  [  name (typ): doc]  *)
Lemma parse_google_param : forall name typ doc,
    name <> [] -> head_nonspace name -> last_nonspace name ->
    mem_c (ch 58) name = false -> mem_c (ch 40) name = false ->
    typ <> [] -> mem_c (ch 58) typ = false -> contains (L " or ") typ = false ->
    head_nonspace doc -> last_nonspace doc ->
    Nat.ltb 3 (List.length doc) && startswith [ch 123] doc && endswith [ch 125] doc = false ->
    parse_google [L "  " ++ name ++ L " (" ++ typ ++ L "): " ++ doc]
    = PSome name (mkParam (Has doc) (Has typ) None).
Proof.
  intros name typ doc Hne Hh Hl Hc58 Hc40 Htne Ht58 Hor Hdh Hdl Hbrace.
  set (pre := L "  " ++ name ++ [sp] ++ ch 40 :: typ ++ [ch 41]).
  assert (El0 : L "  " ++ name ++ L " (" ++ typ ++ L "): " ++ doc = pre ++ ch 58 :: sp :: doc).
  { unfold pre. cbn [L String.list_ascii_of_string app]. repeat rewrite <- app_assoc.
    cbn [app]. repeat rewrite <- app_assoc. reflexivity. }
  rewrite El0. unfold parse_google.
  assert (Hpre58 : mem_c (ch 58) pre = false).
  { unfold pre. rewrite !mem_c_app, Hc58. rewrite (mem_c_cons (ch 58) (ch 40) (typ ++ [ch 41])), mem_c_app, Ht58. reflexivity. }
  rewrite (find_char (ch 58) pre (sp :: doc) Hpre58).
  rewrite firstn_app_exact. rewrite skipn_app_succ.
  assert (Els : lstrip pre = (name ++ [sp]) ++ ch 40 :: typ ++ [ch 41]).
  { unfold pre. cbn [L String.list_ascii_of_string app]. rewrite !lstrip_cons_space.
    rewrite lstrip_app_head; [|exact Hne|exact Hh]. rewrite <- app_assoc. reflexivity. }
  rewrite Els. rewrite partition_char.
  2:{ rewrite mem_c_app, Hc40. reflexivity. }
  rewrite rstrip_snoc_space. rewrite (rstrip_id_last name Hl).
  change ([ch 40] ++ typ ++ [ch 41]) with ((ch 40 :: typ) ++ [ch 41]).
  rewrite rstrip_snoc_nonspace; [|reflexivity].
  rewrite is_empty_app_r; [|discriminate].
  assert (Hsw : startswith [ch 40] ((ch 40 :: typ) ++ [ch 41]) = true) by reflexivity.
  rewrite Hsw. rewrite endswith_app. cbn [andb negb].
  change ((ch 40 :: typ) ++ [ch 41]) with (ch 40 :: typ ++ [ch 41]).
  rewrite slice_inner. rewrite Hor.
  rewrite lstrip_cons_space. rewrite (lstrip_id_head doc Hdh). rewrite Hbrace.
  cbn [join]. rewrite (strip_id doc Hdh Hdl). reflexivity.
Qed.

(* ------------------------------------------------------------------ *)
(* 5. what the guard says about one entry                               *)
(* ------------------------------------------------------------------ *)

Definition entry_text_ok (style : ngstyle) (name : str) (g : gparam) : bool :=
  gparam_token_free g &&
  match fget (g_typ g) with
  | None => false
  | Some t =>
    type_shape_ok style t &&
    match fget (g_doc g) with
    | None => negb (writes_default name g)
    | Some d =>
      prose_shape_ok style d && no_announce d
      && negb (optional_prefix d && negb (startswith (L "Optional[") t))
      && match written_doc name g with Some d' => written_shape_ok style d' | None => false end
    end
  end.

Lemma entry_class_text_ok : forall style name g,
    entry_class style name g = None -> entry_text_ok style name g = true.
Proof.
  intros style name g H. unfold entry_class in H. unfold entry_text_ok.
  destruct (gparam_token_free g); cbn [negb andb] in *; [|discriminate].
  destruct (fget (g_typ g)) as [t|]; [|discriminate].
  destruct (type_shape_ok style t); cbn [negb andb] in *; [|discriminate].
  destruct (fget (g_doc g)) as [d|].
  - destruct (prose_shape_ok style d); cbn [negb andb] in *; [|discriminate].
    destruct (no_announce d); cbn [negb andb] in *; [|discriminate].
    destruct (optional_prefix d && negb (startswith (L "Optional[") t)); cbn [negb andb] in *;
      [discriminate|].
    destruct (written_doc name g) as [d'|].
    + destruct (written_shape_ok style d'); [reflexivity|].
      destruct (writes_default name g); [|discriminate].
      destruct (sdefault g) as [v|]; [|discriminate].
      destruct (match needs_quoting_ng (Some t) with Ok _ => false | Err _ => true end); [discriminate|].
      destruct (finding_class_C17 ADefaultsTo d v (Some t)); [discriminate|].
      destruct v; try discriminate.
      destruct (negb (str_eqb (unquote s) s) && negb (null_default (VStr s))); [discriminate|].
      destruct (negb (str_eqb name return_type_name) && negb (kwargs_name name) && code_quoted s
                && negb (null_default (VStr s)) && negb (mem_c (ch 91) t)); discriminate.
    + destruct (writes_default name g); [|discriminate].
      destruct (sdefault g) as [v|]; [|discriminate].
      destruct (match needs_quoting_ng (Some t) with Ok _ => false | Err _ => true end); [discriminate|].
      destruct (finding_class_C17 ADefaultsTo d v (Some t)); [discriminate|].
      destruct v; try discriminate.
      destruct (negb (str_eqb (unquote s) s) && negb (null_default (VStr s))); [discriminate|].
      destruct (negb (str_eqb name return_type_name) && negb (kwargs_name name) && code_quoted s
                && negb (null_default (VStr s)) && negb (mem_c (ch 91) t)); discriminate.
  - destruct (writes_default name g); [discriminate|reflexivity].
Qed.

Lemma first_class_None : forall {A} (f : A -> option c01ng_class) l,
    first_class f l = None -> Forall (fun x => f x = None) l.
Proof.
  intros A f l. induction l as [|x r IH]; intros H; [constructor|].
  cbn [first_class] in H. destruct (f x) eqn:E; [discriminate|].
  constructor; [exact E|apply IH; exact H].
Qed.

(* ------------------------------------------------------------------ *)
(* 6. token freeness of emitted lines                                   *)
(* ------------------------------------------------------------------ *)

Definition free (t s : str) : Prop := contains t s = false.

(* what the proofs need of a ReST token / a google token; discharged by computation from the live tuples *)
Definition tok_props_rest (t : str) : bool :=
  negb (mem_c sp t) && negb (mem_c nl t) && negb (mem_c (ch 40) t) && negb (mem_c (ch 41) t)
  && mem_c (ch 58) t && Nat.ltb 1 (List.length t) && negb (endswith [ch 58] t).

Definition tok_props_google (t : str) : bool :=
  negb (mem_c sp t) && negb (mem_c nl t) && mem_c (ch 58) t && Nat.ltb 1 (List.length t).

Lemma rest_tokens_props : forallb tok_props_rest Extracted.rest_tokens = true.
Proof. vm_compute. reflexivity. Qed.

Lemma google_tokens_props : forallb tok_props_google Extracted.google_tokens = true.
Proof. vm_compute. reflexivity. Qed.

Lemma tok_props_rest_google : forall t, tok_props_rest t = true -> tok_props_google t = true.
Proof.
  intros t H. unfold tok_props_rest in H. unfold tok_props_google.
  repeat (apply andb_true_iff in H; destruct H as [H ?]).
  repeat (apply andb_true_iff; split); assumption.
Qed.

(* a string lacking a character of the pattern cannot contain the pattern *)
Lemma free_missing_char : forall t s c, mem_c c t = true -> mem_c c s = false -> free t s.
Proof.
  intros t s c Ht Hs. unfold free. destruct (contains t s) eqn:E; [|reflexivity].
  apply contains_true_iff in E. destruct E as [a [b E]]. subst s.
  rewrite !mem_c_app, Ht in Hs. rewrite orb_true_l, orb_true_r in Hs. discriminate.
Qed.

Lemma free_snoc : forall t a c, free t a -> last_c t <> Some c -> t <> [] -> free t (a ++ [c]).
Proof.
  intros t a c Ha Hl Hne. unfold free in *. apply contains_false_iff.
  apply find_None_no_occurrence. intros u v E.
  apply contains_false_iff in Ha. rewrite find_None_no_occurrence in Ha.
  destruct (last_c v) as [z|] eqn:Hv.
  - apply last_c_spec in Hv. destruct Hv as [v' Hv']. subst v.
    rewrite !app_assoc in E. apply app_inj_tail in E. destruct E as [E _].
    apply (Ha u v'). rewrite E. rewrite <- app_assoc. reflexivity.
  - apply last_c_nil_iff in Hv. subst v. rewrite app_nil_r in E.
    destruct (last_c t) as [z|] eqn:Ht.
    + apply last_c_spec in Ht. destruct Ht as [t' Ht']. subst t.
      rewrite app_assoc in E. apply app_inj_tail in E. destruct E as [_ E]. subst z.
      apply Hl. reflexivity.
    + apply last_c_nil_iff in Ht. contradiction.
Qed.

Lemma free_nil : forall t, t <> [] -> free t [].
Proof. intros [|x t] H; [contradiction|reflexivity]. Qed.

Lemma free_single : forall t c, 1 < List.length t -> free t [c].
Proof. intros t c H. apply contains_short. exact H. Qed.

Lemma free_join_nl : forall t ls, mem_c nl t = false -> t <> [] ->
    Forall (free t) ls -> free t (join [nl] ls).
Proof.
  intros t ls Hnl Hne H. induction H as [|x r Hx Hr IH]; [apply free_nil; exact Hne|].
  destruct r as [|y r]; [exact Hx|].
  change (join [nl] (x :: y :: r)) with (x ++ nl :: join [nl] (y :: r)).
  apply contains_sep; [exact Hnl|exact Hx|exact IH].
Qed.

Lemma split_aux_no_nl : forall s cur fuel,
    mem_c nl s = false -> List.length s < fuel -> split_aux fuel [nl] s cur = [rev cur ++ s].
Proof.
  induction s as [|c r IH]; intros cur fuel Hs Hf.
  - destruct fuel as [|f]; [cbn in Hf; lia|]. cbn [split_aux]. rewrite app_nil_r. reflexivity.
  - destruct fuel as [|f]; [cbn in Hf; lia|].
    rewrite mem_c_cons in Hs. apply orb_false_iff in Hs. destruct Hs as [Hc Hr].
    cbn [split_aux startswith]. rewrite Hc. cbn [andb].
    rewrite IH; [|exact Hr|cbn [List.length] in Hf; lia].
    cbn [rev]. rewrite <- app_assoc. reflexivity.
Qed.

Lemma split_nl_no_nl : forall s, mem_c nl s = false -> split_nl s = [s].
Proof. intros s H. unfold split_nl, split. rewrite split_aux_no_nl; [reflexivity|exact H|lia]. Qed.

Lemma forallb_isspace_head : forall d, d <> [] -> head_nonspace d -> forallb isspace d = false.
Proof.
  intros [|c d] Hne Hh; [contradiction|]. cbn [forallb]. rewrite (Hh c eq_refl). reflexivity.
Qed.

Lemma indent_single_line : forall d, mem_c nl d = false -> d <> [] -> head_nonspace d ->
    indent tab d = tab ++ d.
Proof.
  intros d Hnl Hne Hh. unfold indent. rewrite (split_nl_no_nl d Hnl). cbn [indent_lines].
  rewrite (forallb_isspace_head d Hne Hh). reflexivity.
Qed.

Section RestLikeToken.
  Variable t : str.
  Hypothesis Hsp : mem_c sp t = false.
  Hypothesis Hnl : mem_c nl t = false.
  Hypothesis Hlen : 1 < List.length t.

  Lemma t_nonnil : t <> [].
  Proof. intros E. rewrite E in Hlen. cbn in Hlen. lia. Qed.

  Lemma free_sp : forall a b, free t a -> free t b -> free t (a ++ sp :: b).
  Proof. intros a b Ha Hb. apply contains_sep; assumption. Qed.

  Lemma free_nl : forall a b, free t a -> free t b -> free t (a ++ nl :: b).
  Proof. intros a b Ha Hb. apply contains_sep; assumption. Qed.

  Lemma free_cons_sp : forall b, free t b -> free t (sp :: b).
  Proof. intros b Hb. apply contains_cons_notin; assumption. Qed.

  Lemma free_tab_app : forall b, free t b -> free t (tab ++ b).
  Proof. intros b Hb. unfold tab, Extracted.tab. cbn [L String.list_ascii_of_string app].
         repeat apply free_cons_sp. exact Hb. Qed.

  (* numpydoc:  name : typ  *)
  Lemma free_numpydoc_head : forall name typ, free t name -> free t typ ->
      free t (name ++ L " : " ++ typ).
  Proof.
    intros name typ Hn Ht.
    change (name ++ L " : " ++ typ) with (name ++ sp :: ([ch 58] ++ sp :: typ)).
    apply free_sp; [exact Hn|]. apply free_sp; [apply free_single; exact Hlen|exact Ht].
  Qed.

  Lemma free_numpydoc_param : forall name typ d, free t name -> free t typ -> free t d ->
      free t ((name ++ L " : " ++ typ) ++ nl :: tab ++ d).
  Proof.
    intros name typ d Hn Ht Hd. apply free_nl; [apply free_numpydoc_head; assumption|].
    apply free_tab_app. exact Hd.
  Qed.

  Lemma free_numpydoc_return : forall typ d, free t typ -> free t d -> free t (typ ++ nl :: tab ++ d).
  Proof. intros typ d Ht Hd. apply free_nl; [exact Ht|]. apply free_tab_app. exact Hd. Qed.

  Hypothesis H40 : mem_c (ch 40) t = false.
  Hypothesis H41 : mem_c (ch 41) t = false.
  Hypothesis Hlast : last_c t <> Some (ch 58).

  (* google:   name (typ): doc  *)
  Lemma free_google_param : forall name typ d, free t name -> free t typ -> free t d ->
      free t (L "  " ++ name ++ L " (" ++ typ ++ L "): " ++ d).
  Proof.
    intros name typ d Hn Ht Hd.
    assert (E : L "  " ++ name ++ L " (" ++ typ ++ L "): " ++ d
                = sp :: sp :: (name ++ sp :: (ch 40 :: (typ ++ ch 41 :: ([ch 58] ++ sp :: d))))).
    { cbn [L String.list_ascii_of_string app]. repeat rewrite <- app_assoc. reflexivity. }
    rewrite E. apply free_cons_sp, free_cons_sp. apply free_sp; [exact Hn|].
    apply contains_cons_notin; [exact H40|].
    apply contains_sep; [exact H41|exact Ht|].
    apply free_sp; [apply free_single; exact Hlen|exact Hd].
  Qed.

  (* google return:   typ: <newline>   doc  *)
  Lemma free_google_return : forall typ d, free t typ -> free t d ->
      free t ((L "  " ++ typ ++ L ":") ++ nl :: L "   " ++ d).
  Proof.
    intros typ d Ht Hd. apply free_nl.
    - cbn [L String.list_ascii_of_string app]. apply free_cons_sp, free_cons_sp.
      apply free_snoc; [exact Ht|exact Hlast|exact t_nonnil].
    - cbn [L String.list_ascii_of_string app]. repeat apply free_cons_sp. exact Hd.
  Qed.
End RestLikeToken.

(* ------------------------------------------------------------------ *)
(* 7. the lines emit_param writes                                       *)
(* ------------------------------------------------------------------ *)

Lemma set_default_doc_prefix : forall name p p' d,
    set_default_doc name p true = Ok p' -> p_doc p = Has d ->
    exists x, p_doc p' = Has (d ++ x) /\ p_typ p' = p_typ p.
Proof.
  intros name p p' d H Hd. unfold set_default_doc in H. rewrite Hd in H. cbv zeta in H.
  rewrite andb_false_r in H.
  assert (Hsame : Ok p = Ok p' -> exists x, p_doc p' = Has (d ++ x) /\ p_typ p' = p_typ p).
  { intros E. injection E as E. subst p'. exists []. rewrite app_nil_r. split; [exact Hd|reflexivity]. }
  destruct (p_default p) as [dflt|]; [|apply Hsame; exact H].
  destruct (negb (contains (L "Defaults") d || contains (L "defaults") d) && true); [|apply Hsame; exact H].
  set (dflt' := if pyval_eqb dflt (VStr NoneStr) then VNone else dflt) in *.
  destruct (negb (pyval_eqb dflt' VNone) || negb (endswith (L "kwargs") name)).
  - destruct (last_c d) as [c|]; [|discriminate].
    apply bind_Ok_inv' in H. destruct H as [shown [_ H]]. injection H as H. subst p'.
    cbn [p_doc p_typ].
    destruct (ascii_eqb c (ch 46) || ascii_eqb c (ch 44)).
    + eexists. split; [reflexivity|reflexivity].
    + eexists. rewrite <- app_assoc. split; [reflexivity|reflexivity].
  - injection H as H. subst p'. cbn [p_doc p_typ]. exists []. rewrite app_nil_r. split; reflexivity.
Qed.

Lemma doc_with_default_prefix : forall name p d d',
    doc_with_default name p = Ok d' -> p_doc p = Has d -> exists x, d' = d ++ x.
Proof.
  intros name p d d' H Hd. unfold doc_with_default in H.
  apply bind_Ok_inv' in H. destruct H as [p' [Hp' H]].
  destruct (set_default_doc_prefix name p p' d Hp' Hd) as [x [Hx _]].
  rewrite Hx in H. injection H as H. exists x. symmetry. exact H.
Qed.

Lemma filter_join_two : forall sep (a b : str), a <> [] -> b <> [] ->
    filter_join sep [Some a; Some b] = a ++ sep ++ b.
Proof.
  intros sep [|x a] [|y b] Ha Hb; try contradiction. reflexivity.
Qed.

Lemma filter_join_one : forall sep (a : str), a <> [] -> filter_join sep [Some a; None] = a.
Proof. intros sep [|x a] Ha; [contradiction|reflexivity]. Qed.

Lemma truthy_Has : forall (t : str), t <> [] -> truthy_fld (Has t) = Some t.
Proof. intros [|c t] H; [contradiction|reflexivity]. Qed.

Lemma app_nonnil_l : forall (a b : str), a <> [] -> a ++ b <> [].
Proof. intros [|x a] b H; [contradiction|discriminate]. Qed.

Lemma clean_ends_inv : forall s, clean_ends s = true -> head_nonspace s /\ last_nonspace s.
Proof.
  intros s H. unfold clean_ends in H. apply andb_true_iff in H. destruct H as [Hh Hl]. split.
  - intros c Hc. rewrite Hc in Hh. apply negb_true_iff. exact Hh.
  - intros c Hc. rewrite Hc in Hl. apply negb_true_iff. exact Hl.
Qed.

Lemma head_nonspace_app : forall a b, a <> [] -> head_nonspace a -> head_nonspace (a ++ b).
Proof. intros [|x a] b Hne H c Hc; [contradiction|]. apply H. exact Hc. Qed.

(* a parameter with type and prose *)
Lemma emit_param_doc : forall style name p t d d',
    str_eqb name return_type_name = false ->
    p_typ p = Has t -> t <> [] -> p_doc p = Has d -> d <> [] -> doc_with_default name p = Ok d' ->
    head_nonspace d -> mem_c nl d' = false ->
    emit_param style name p
    = Ok (match style with
          | SGoogle => L "  " ++ name ++ L " (" ++ t ++ L "): " ++ d'
          | SNumpydoc => (name ++ L " : " ++ t) ++ nl :: tab ++ d'
          end).
Proof.
  intros style name p t d d' Hn Ht Htne Hd Hdne Hdd Hdh Hdnl.
  destruct (doc_with_default_prefix name p d d' Hdd Hd) as [x Hx].
  assert (Hd'ne : d' <> []). { subst d'. apply app_nonnil_l. exact Hdne. }
  assert (Hd'h : head_nonspace d'). { subst d'. apply head_nonspace_app; assumption. }
  unfold emit_param. rewrite Hn, Ht, Hd, (truthy_Has t Htne), (truthy_Has d Hdne), Hdd.
  cbn [bind]. destruct style.
  - rewrite filter_join_two; [|cbn; discriminate|exact Hd'ne].
    cbn [app]. repeat rewrite <- app_assoc. reflexivity.
  - rewrite (indent_single_line d' Hdnl Hd'ne Hd'h). rewrite filter_join_two.
    + reflexivity.
    + intros E. apply app_eq_nil in E. destruct E as [_ E]. discriminate.
    + cbn. discriminate.
Qed.

(* a parameter with type and no prose *)
Lemma emit_param_nodoc : forall style name p t,
    str_eqb name return_type_name = false ->
    p_typ p = Has t -> t <> [] -> p_doc p = Missing ->
    emit_param style name p
    = Ok (match style with
          | SGoogle => L "  " ++ name ++ L " (" ++ t ++ L "): "
          | SNumpydoc => name ++ L " : " ++ t
          end).
Proof.
  intros style name p t Hn Ht Htne Hd.
  unfold emit_param. rewrite Hn, Ht, Hd, (truthy_Has t Htne). cbn [truthy_fld bind]. destruct style.
  - rewrite filter_join_one; [reflexivity|cbn; discriminate].
  - rewrite filter_join_one; [reflexivity|].
    intros E. apply app_eq_nil in E. destruct E as [_ E]. discriminate.
Qed.

(* the return entry with type and prose *)
Lemma emit_param_return : forall style p t d d',
    p_typ p = Has t -> t <> [] -> p_doc p = Has d -> d <> [] ->
    doc_with_default return_type_name p = Ok d' -> head_nonspace d -> mem_c nl d' = false ->
    emit_param style return_type_name p
    = Ok (match style with
          | SGoogle => (L "  " ++ t ++ L ":") ++ nl :: L "   " ++ d'
          | SNumpydoc => t ++ nl :: tab ++ d'
          end).
Proof.
  intros style p t d d' Ht Htne Hd Hdne Hdd Hdh Hdnl.
  destruct (doc_with_default_prefix _ p d d' Hdd Hd) as [x Hx].
  assert (Hd'ne : d' <> []). { subst d'. apply app_nonnil_l. exact Hdne. }
  assert (Hd'h : head_nonspace d'). { subst d'. apply head_nonspace_app; assumption. }
  unfold emit_param. rewrite str_eqb_refl, Ht, Hd, (truthy_Has t Htne), (truthy_Has d Hdne), Hdd.
  cbn [bind]. destruct style.
  - rewrite filter_join_two; [|cbn; discriminate|discriminate].
    cbn [app]. repeat rewrite <- app_assoc. reflexivity.
  - rewrite (indent_single_line d' Hdnl Hd'ne Hd'h). rewrite filter_join_two.
    + reflexivity.
    + exact Htne.
    + cbn. discriminate.
Qed.

(* ------------------------------------------------------------------ *)
(* 8. the facts the guard gives about one entry, in usable form         *)
(* ------------------------------------------------------------------ *)

Lemma fld_in_alphabet_inv : forall f, fld_in_alphabet f = true ->
    f = Missing \/ exists s, f = Has s /\ s <> [] /\ forallb in_alphabet s = true.
Proof.
  intros [| |s] H; [left; reflexivity|discriminate|].
  right. exists s. cbn [fld_in_alphabet] in H. apply andb_true_iff in H. destruct H as [Ha Hne].
  split; [reflexivity|]. split; [|exact Ha]. destruct s; [discriminate|discriminate].
Qed.

Lemma gparam_in_domain_param : forall g, gparam_in_domain g = true ->
    exists p, param_of_gparam g = Some p /\ p_doc p = g_doc g /\ p_typ p = g_typ g
              /\ p_default p = sdefault g.
Proof.
  intros g H. unfold gparam_in_domain in H. apply andb_true_iff in H. destruct H as [_ Hd].
  unfold param_of_gparam, sdefault. destruct (g_default g) as [[v|e|r]|]; try discriminate.
  - eexists. split; [reflexivity|]. cbn. repeat split.
  - eexists. split; [reflexivity|]. cbn. repeat split.
Qed.

Definition entry_facts (style : ngstyle) (name : str) (g : gparam) (p : param) (t : str) : Prop :=
  param_of_gparam g = Some p /\ p_typ p = Has t /\ t <> [] /\ token_free t = true
  /\ type_shape_ok style t = true /\ p_default p = sdefault g
  /\ ((p_doc p = Missing /\ writes_default name g = false)
      \/ exists d d', p_doc p = Has d /\ d <> [] /\ clean_ends d = true /\ mem_c nl d = false
                      /\ no_announce d = true /\ token_free d = true
                      /\ optional_prefix d && negb (startswith (L "Optional[") t) = false
                      /\ doc_with_default name p = Ok d' /\ written_shape_ok style d' = true).

Lemma entry_facts_of_guard : forall style name g,
    gparam_in_domain g = true -> entry_class style name g = None ->
    exists p t, entry_facts style name g p t.
Proof.
  intros style name g Hdom Hcls.
  destruct (gparam_in_domain_param g Hdom) as [p [Hp [Hpd [Hpt Hpdef]]]].
  apply entry_class_text_ok in Hcls. unfold entry_text_ok in Hcls.
  apply andb_true_iff in Hcls. destruct Hcls as [Htf Hcls].
  unfold gparam_token_free in Htf. apply andb_true_iff in Htf. destruct Htf as [Htfd Htft].
  unfold gparam_in_domain in Hdom. apply andb_true_iff in Hdom. destruct Hdom as [Hdom _].
  apply andb_true_iff in Hdom. destruct Hdom as [Had Hat].
  destruct (fld_in_alphabet_inv _ Hat) as [Et | [t [Et [Htne _]]]].
  { rewrite Et in Hcls. discriminate. }
  rewrite Et in Hcls. cbn [fget] in Hcls. rewrite Et in Htft. cbn [fld_all] in Htft.
  apply andb_true_iff in Hcls. destruct Hcls as [Hts Hcls].
  exists p, t. unfold entry_facts. split; [exact Hp|]. split; [congruence|]. split; [exact Htne|].
  split; [exact Htft|]. split; [exact Hts|]. split; [exact Hpdef|].
  destruct (fld_in_alphabet_inv _ Had) as [Ed | [d [Ed [Hdne _]]]].
  - left. rewrite Ed in Hcls. cbn [fget] in Hcls. apply negb_true_iff in Hcls.
    split; [congruence|exact Hcls].
  - right. rewrite Ed in Hcls. cbn [fget] in Hcls. rewrite Ed in Htfd. cbn [fld_all] in Htfd.
    apply andb_true_iff in Hcls. destruct Hcls as [Hcls Hw].
    apply andb_true_iff in Hcls. destruct Hcls as [Hcls Hopt].
    apply andb_true_iff in Hcls. destruct Hcls as [Hps Hna].
    unfold prose_shape_ok in Hps. apply andb_true_iff in Hps. destruct Hps as [Hce Hnl].
    apply negb_true_iff in Hnl. apply negb_true_iff in Hopt.
    unfold written_doc in Hw. rewrite Hp in Hw. rewrite Hpd, Ed in Hw.
    rewrite (truthy_Has d Hdne) in Hw.
    destruct (doc_with_default name p) as [d'|e] eqn:Hdd; [|discriminate].
    exists d, d'. repeat split; try assumption. congruence.
Qed.

Lemma is_ident_no_char : forall s c, is_ident s = true -> is_id_char c = false -> mem_c c s = false.
Proof.
  intros s c H Hc. unfold is_ident in H. destruct s as [|x s]; [discriminate|].
  apply andb_true_iff in H. destruct H as [_ H].
  destruct (mem_c c (x :: s)) eqn:E; [|reflexivity].
  apply mem_c_In in E. rewrite forallb_forall in H. specialize (H c E). congruence.
Qed.

Lemma is_ident_nonnil : forall s, is_ident s = true -> s <> [].
Proof. intros [|x s] H; [discriminate|discriminate]. Qed.

Lemma token_free_In : forall s t, token_free s = true -> In t all_tokens -> free t s.
Proof.
  intros s t H Hin. unfold token_free in H. rewrite forallb_forall in H.
  specialize (H t Hin). apply negb_true_iff in H. exact H.
Qed.

(* tokens foreign to a style: their presence would make the text be read as another style *)
Definition foreign_tokens (style : ngstyle) : list str :=
  match style with
  | SGoogle => Extracted.rest_tokens
  | SNumpydoc => Extracted.rest_tokens ++ Extracted.google_tokens
  end.

Lemma foreign_in_all : forall style t, In t (foreign_tokens style) -> In t all_tokens.
Proof.
  intros style t H. unfold all_tokens. destruct style; cbn [foreign_tokens] in H.
  - apply in_or_app. left. exact H.
  - apply in_app_or in H. destruct H as [H|H].
    + apply in_or_app. left. exact H.
    + apply in_or_app. right. apply in_or_app. left. exact H.
Qed.

Lemma foreign_props_google : forall style t, In t (foreign_tokens style) -> tok_props_google t = true.
Proof.
  intros style t H. pose proof rest_tokens_props as Hr. pose proof google_tokens_props as Hg.
  rewrite forallb_forall in Hr, Hg. destruct style; cbn [foreign_tokens] in H.
  - apply tok_props_rest_google. apply Hr. exact H.
  - apply in_app_or in H. destruct H as [H|H].
    + apply tok_props_rest_google. apply Hr. exact H.
    + apply Hg. exact H.
Qed.

Lemma foreign_props_rest : forall t, In t (foreign_tokens SGoogle) -> tok_props_rest t = true.
Proof.
  intros t H. pose proof rest_tokens_props as Hr. rewrite forallb_forall in Hr. apply Hr. exact H.
Qed.

Lemma written_shape_inv : forall style d', written_shape_ok style d' = true ->
    token_free d' = true /\ mem_c nl d' = false.
Proof.
  intros style d' H. unfold written_shape_ok in H.
  apply andb_true_iff in H. destruct H as [H _].
  apply andb_true_iff in H. destruct H as [Ht Hn]. apply negb_true_iff in Hn. split; assumption.
Qed.

Lemma colon_not_id_char : is_id_char (ch 58) = false.
Proof. reflexivity. Qed.

(* THE LINE LEMMA: under the guard, emit_param writes a line of the expected form that contains no token foreign
   to the style *)
Lemma emit_param_line_free : forall style name g p t tok,
    str_eqb name return_type_name = false -> is_ident name = true ->
    entry_facts style name g p t -> In tok (foreign_tokens style) ->
    exists line, emit_param style name p = Ok line /\ free tok line.
Proof.
  intros style name g p t tok Hnr Hid [Hp [Ht [Htne [Httf [Hts [Hpdef Hdoc]]]]]] Hin.
  pose proof (foreign_props_google style tok Hin) as Hpg.
  unfold tok_props_google in Hpg.
  apply andb_true_iff in Hpg. destruct Hpg as [Hpg Hlen].
  apply andb_true_iff in Hpg. destruct Hpg as [Hpg H58].
  apply andb_true_iff in Hpg. destruct Hpg as [Hsp Hnl].
  apply negb_true_iff in Hsp. apply negb_true_iff in Hnl. apply Nat.ltb_lt in Hlen.
  assert (Hfn : free tok name).
  { apply (free_missing_char tok name (ch 58) H58).
    apply is_ident_no_char; [exact Hid|exact colon_not_id_char]. }
  assert (Hft : free tok t) by (apply token_free_In; [exact Httf|apply (foreign_in_all style); exact Hin]).
  destruct Hdoc as [[Hd Hw] | [d [d' [Hd [Hdne [Hce [Hdnl [Hna [Hdtf [Hopt [Hdd Hws]]]]]]]]]]].
  - rewrite (emit_param_nodoc style name p t Hnr Ht Htne Hd). eexists. split; [reflexivity|].
    destruct style.
    + pose proof (foreign_props_rest tok Hin) as Hpr. unfold tok_props_rest in Hpr.
      repeat (apply andb_true_iff in Hpr; destruct Hpr as [Hpr ?]).
      replace (L "  " ++ name ++ L " (" ++ t ++ L "): ") with (L "  " ++ name ++ L " (" ++ t ++ L "): " ++ [])
        by (rewrite app_nil_r; reflexivity).
      apply free_google_param; try assumption.
      * apply negb_true_iff. assumption.
      * apply negb_true_iff. assumption.
      * apply free_nil. intros E. subst tok. cbn in Hlen. lia.
    + apply free_numpydoc_head; assumption.
  - destruct (written_shape_inv style d' Hws) as [Hd'tf Hd'nl].
    destruct (clean_ends_inv d Hce) as [Hdh _].
    rewrite (emit_param_doc style name p t d d' Hnr Ht Htne Hd Hdne Hdd Hdh Hd'nl).
    eexists. split; [reflexivity|].
    assert (Hfd : free tok d') by (apply token_free_In; [exact Hd'tf|apply (foreign_in_all style); exact Hin]).
    destruct style.
    + pose proof (foreign_props_rest tok Hin) as Hpr. unfold tok_props_rest in Hpr.
      repeat (apply andb_true_iff in Hpr; destruct Hpr as [Hpr ?]).
      apply free_google_param; try assumption.
      * apply negb_true_iff. assumption.
      * apply negb_true_iff. assumption.
    + apply free_numpydoc_param; assumption.
Qed.

(* ------------------------------------------------------------------ *)
(* 9. the guard, unpacked                                               *)
(* ------------------------------------------------------------------ *)

Definition returns_ok (style : ngstyle) (ps : list (str * gparam)) (r : fld gparam) : Prop :=
  match r with
  | Has g => gparam_token_free g = true
             /\ (exists t d, fget (g_typ g) = Some t /\ fget (g_doc g) = Some d)
             /\ entry_class style return_type_name g = None
             /\ existsb (fun np => writes_default (fst np) (snd np)) ps
                && negb (writes_default return_type_name g) = false
  | _ => True
  end.

Lemma finding_class_None_inv : forall style i,
    finding_class_C01_ng style i = None ->
    fld_all token_free (ir_doc i) = true /\ fld_all clean_ends (ir_doc i) = true
    /\ (style = SGoogle -> ir_params i <> [])
    /\ Forall (fun np => entry_class style (fst np) (snd np) = None
                         /\ kwargs_class (fst np) (snd np) = None) (ir_params i)
    /\ defaults_monotone false (ir_params i) = true
    /\ returns_ok style (ir_params i) (ir_returns i).
Proof.
  intros style i H. unfold finding_class_C01_ng in H. cbv zeta in H.
  destruct (fld_all token_free (ir_doc i)); cbn [negb] in H; [|discriminate].
  destruct (fld_all clean_ends (ir_doc i)); cbn [negb] in H; [|discriminate].
  split; [reflexivity|]. split; [reflexivity|].
  assert (Hmain :
            match first_class (fun np => match entry_class style (fst np) (snd np) with
                                         | Some k => Some k
                                         | None => kwargs_class (fst np) (snd np)
                                         end) (ir_params i) with
            | Some k => Some k
            | None =>
              if negb (defaults_monotone false (ir_params i)) then Some N_default_then_none
              else match ir_returns i with
                   | Has r =>
                     if negb (gparam_token_free r) then Some N_text_token
                     else match fget (g_typ r), fget (g_doc r) with
                          | Some _, Some _ =>
                            match entry_class style return_type_name r with
                            | Some k => Some k
                            | None => if existsb (fun np => writes_default (fst np) (snd np)) (ir_params i)
                                         && negb (writes_default return_type_name r)
                                      then Some N_return_after_default else None
                            end
                          | _, _ => Some N_return_partial
                          end
                   | _ => None
                   end
            end = None
            /\ (style = SGoogle -> ir_params i <> [])).
  { destruct style; [|split; [exact H|discriminate]].
    destruct (ir_params i) as [|np ps]; [destruct (ir_returns i); discriminate|].
    split; [exact H|]. intros _. discriminate. }
  clear H. destruct Hmain as [H Hne]. split; [exact Hne|].
  destruct (first_class _ (ir_params i)) eqn:Hfc; [discriminate|].
  apply first_class_None in Hfc.
  split.
  { eapply Forall_impl; [|exact Hfc]. intros np Hnp. cbv beta in Hnp.
    destruct (entry_class style (fst np) (snd np)); [discriminate|]. split; [reflexivity|exact Hnp]. }
  destruct (defaults_monotone false (ir_params i)); cbn [negb] in H; [|discriminate].
  split; [reflexivity|].
  unfold returns_ok. destruct (ir_returns i) as [| |r]; [exact I|exact I|].
  destruct (gparam_token_free r); cbn [negb] in H; [|discriminate].
  split; [reflexivity|].
  destruct (fget (g_typ r)) as [t|]; [|discriminate].
  destruct (fget (g_doc r)) as [d|]; [|discriminate].
  split; [exists t, d; split; reflexivity|].
  destruct (entry_class style return_type_name r); [discriminate|]. split; [reflexivity|].
  destruct (existsb _ (ir_params i) && negb (writes_default return_type_name r)); [discriminate|reflexivity].
Qed.

(* ------------------------------------------------------------------ *)
(* 10. the whole text: no token foreign to the style                    *)
(* ------------------------------------------------------------------ *)

Lemma emit_return_line_free : forall style g p t tok,
    entry_facts style return_type_name g p t -> (exists d, p_doc p = Has d) ->
    In tok (foreign_tokens style) ->
    exists line, emit_param style return_type_name p = Ok line /\ free tok line.
Proof.
  intros style g p t tok [Hp [Ht [Htne [Httf [Hts [Hpdef Hdoc]]]]]] [d0 Hd0] Hin.
  pose proof (foreign_props_google style tok Hin) as Hpg.
  unfold tok_props_google in Hpg.
  apply andb_true_iff in Hpg. destruct Hpg as [Hpg Hlen].
  apply andb_true_iff in Hpg. destruct Hpg as [Hpg H58].
  apply andb_true_iff in Hpg. destruct Hpg as [Hsp Hnl].
  apply negb_true_iff in Hsp. apply negb_true_iff in Hnl. apply Nat.ltb_lt in Hlen.
  assert (Hft : free tok t) by (apply token_free_In; [exact Httf|apply (foreign_in_all style); exact Hin]).
  destruct Hdoc as [[Hd Hw] | [d [d' [Hd [Hdne [Hce [Hdnl [Hna [Hdtf [Hopt [Hdd Hws]]]]]]]]]]];
    [congruence|].
  destruct (written_shape_inv style d' Hws) as [Hd'tf Hd'nl].
  destruct (clean_ends_inv d Hce) as [Hdh _].
  rewrite (emit_param_return style p t d d' Ht Htne Hd Hdne Hdd Hdh Hd'nl).
  eexists. split; [reflexivity|].
  assert (Hfd : free tok d') by (apply token_free_In; [exact Hd'tf|apply (foreign_in_all style); exact Hin]).
  destruct style.
  - pose proof (foreign_props_rest tok Hin) as Hpr. unfold tok_props_rest in Hpr.
    apply andb_true_iff in Hpr. destruct Hpr as [Hpr Hlast].
    apply negb_true_iff in Hlast.
    apply free_google_return; try assumption.
    intros E. apply endswith_single in E. congruence.
  - apply free_numpydoc_return; assumption.
Qed.

Lemma map_o_exists : forall {A B} (f : A -> outcome B) (Q : B -> Prop) l,
    Forall (fun x => exists y, f x = Ok y /\ Q y) l ->
    exists l', map_o f l = Ok l' /\ Forall Q l' /\ List.length l' = List.length l.
Proof.
  intros A B f Q l H. induction H as [|x r [y [Hy Qy]] Hr [l' [Hl' [HQ Hlen]]]].
  - exists []. repeat split. constructor.
  - exists (y :: l'). cbn [map_o]. rewrite Hy. cbn [bind]. rewrite Hl'. cbn [bind].
    split; [reflexivity|]. split; [constructor; assumption|cbn; lia].
Qed.

Lemma section_tokens_foreign_free : forall style,
    forallb (fun tok => negb (contains tok (nth 0 (arg_tokens_of style) []))
                        && negb (contains tok (nth 0 (return_tokens_of style) [])))
            (foreign_tokens style) = true.
Proof. intros []; vm_compute; reflexivity. Qed.

Lemma in_domain_ng_inv : forall i, in_domain_ng i = true ->
    (exists d, ir_doc i = Has d)
    /\ Forall (fun np => is_ident (fst np) = true /\ str_eqb (fst np) return_type_name = false
                         /\ gparam_in_domain (snd np) = true) (ir_params i)
    /\ uniq (map fst (ir_params i)) = true
    /\ (forall g, ir_returns i = Has g -> gparam_in_domain g = true).
Proof.
  intros i H. unfold in_domain_ng in H.
  apply andb_true_iff in H. destruct H as [H Hr].
  apply andb_true_iff in H. destruct H as [H Hu].
  apply andb_true_iff in H. destruct H as [Hd Hp].
  split. { destruct (ir_doc i) as [| |d]; try discriminate. exists d. reflexivity. }
  split.
  { apply Forall_forall. intros np Hin. rewrite forallb_forall in Hp. specialize (Hp np Hin).
    apply andb_true_iff in Hp. destruct Hp as [Hp Hg].
    apply andb_true_iff in Hp. destruct Hp as [Hid Hn]. apply negb_true_iff in Hn.
    repeat split; assumption. }
  split; [exact Hu|].
  intros g Hg. rewrite Hg in Hr. exact Hr.
Qed.

(* THE TEXT THEOREM: for an IR inside the guard the specification printer produces a text, and that text contains
   no section token of a style that takes precedence over (or competes with) the style it was written in:
   no ReST token in google text; no ReST and no google token in numpydoc text.  Any number of parameters. *)
Theorem text_foreign_free : forall style i,
    guard_C01_ng style i = true ->
    exists text, text_of_o style i = Ok text
                 /\ (forall tok, In tok (foreign_tokens style) -> free tok text)
                 /\ (ir_params i <> [] -> contains (nth 0 (arg_tokens_of style) []) text = true).
Proof.
  intros style i Hg. unfold guard_C01_ng in Hg. apply andb_true_iff in Hg. destruct Hg as [Hdom Hcls].
  destruct (finding_class_C01_ng style i) eqn:Hfc; [discriminate|]. clear Hcls.
  destruct (finding_class_None_inv style i Hfc) as [Hdtf [_ [_ [Hps [_ Hret]]]]].
  destruct (in_domain_ng_inv i Hdom) as [[doc Hdoc] [Hpd [_ Hrd]]].
  rewrite Hdoc in Hdtf. cbn [fld_all] in Hdtf.
  (* every parameter line *)
  assert (Hlines : Forall (fun np => exists line,
                               (do p <- scalar_param (snd np); emit_param style (fst np) p) = Ok line
                               /\ forall tok, In tok (foreign_tokens style) -> free tok line)
                          (ir_params i)).
  { apply Forall_forall. intros [name g] Hin.
    rewrite Forall_forall in Hps, Hpd.
    destruct (Hps _ Hin) as [Hec _]. destruct (Hpd _ Hin) as [Hid [Hnr Hgd]].
    cbn [fst snd] in *.
    destruct (entry_facts_of_guard style name g Hgd Hec) as [p [t Hef]].
    assert (Hsp : scalar_param g = Ok p).
    { unfold scalar_param. destruct Hef as [Hp _]. rewrite Hp. reflexivity. }
    rewrite Hsp. cbn [bind].
    destruct (foreign_tokens style) as [|tok0 toks] eqn:Eft.
    - destruct Hef as [Hp [Ht [Htne [Httf [Hts [Hpdef Hdc]]]]]].
      destruct Hdc as [[Hd Hw] | [d [d' [Hd [Hdne [Hce [Hdnl [Hna [Hdtf' [Hopt [Hdd Hws]]]]]]]]]]].
      + rewrite (emit_param_nodoc style name p t Hnr Ht Htne Hd). eexists. split; [reflexivity|].
        intros tok [].
      + destruct (written_shape_inv style d' Hws) as [_ Hd'nl].
        destruct (clean_ends_inv d Hce) as [Hdh _].
        rewrite (emit_param_doc style name p t d d' Hnr Ht Htne Hd Hdne Hdd Hdh Hd'nl).
        eexists. split; [reflexivity|]. intros tok [].
    - assert (Hin0 : In tok0 (foreign_tokens style)) by (rewrite Eft; left; reflexivity).
      destruct (emit_param_line_free style name g p t tok0 Hnr Hid Hef Hin0) as [line [Hline _]].
      exists line. split; [exact Hline|]. intros tok Htok. rewrite <- Eft in Htok.
      destruct (emit_param_line_free style name g p t tok Hnr Hid Hef Htok) as [line' [Hline' Hfree]].
      rewrite Hline in Hline'. injection Hline' as E. subst line'. exact Hfree. }
  destruct (map_o_exists _ _ _ Hlines) as [lines [Hmap [Hfree Hlen_lines]]].
  (* the return entry *)
  assert (Hretl : exists ret,
             match ir_returns i with
             | Has g => do p <- scalar_param g;
                        do l <- emit_param style return_type_name p;
                        Ok (nl :: nth 0 (return_tokens_of style) [] ++ nl :: l)
             | _ => Ok []
             end = Ok ret
             /\ forall tok, In tok (foreign_tokens style) -> free tok ret).
  { destruct (ir_returns i) as [| |g] eqn:Er.
    - exists []. split; [reflexivity|]. intros tok Hin. apply free_nil.
      pose proof (foreign_props_google style tok Hin) as Hp. intros E. subst tok. discriminate.
    - exists []. split; [reflexivity|]. intros tok Hin. apply free_nil.
      pose proof (foreign_props_google style tok Hin) as Hp. intros E. subst tok. discriminate.
    - cbn [returns_ok] in Hret. destruct Hret as [_ [[t0 [d0 [Ht0 Hd0]]] [Hec _]]].
      pose proof (Hrd g eq_refl) as Hgd.
      destruct (entry_facts_of_guard style return_type_name g Hgd Hec) as [p [t Hef]].
      assert (Hsp : scalar_param g = Ok p).
      { unfold scalar_param. destruct Hef as [Hp _]. rewrite Hp. reflexivity. }
      assert (Hpdoc : exists d, p_doc p = Has d).
      { destruct (gparam_in_domain_param g Hgd) as [p' [Hp' [Hpd' _]]].
        destruct Hef as [Hp _]. rewrite Hp in Hp'. injection Hp' as E. subst p'.
        rewrite Hpd'. destruct (g_doc g) as [| |d]; try discriminate. exists d. reflexivity. }
      rewrite Hsp. cbn [bind].
      assert (Hone : forall tok, In tok (foreign_tokens style) ->
                                 exists line, emit_param style return_type_name p = Ok line /\ free tok line).
      { intros tok Hin. apply (emit_return_line_free style g p t tok Hef Hpdoc Hin). }
      destruct (foreign_tokens style) as [|tok0 toks] eqn:Eft.
      + exfalso. destruct style; discriminate Eft.
      + destruct (Hone tok0 (or_introl eq_refl)) as [line [Hline _]].
        rewrite Hline. cbn [bind]. eexists. split; [reflexivity|].
        intros tok Hin. destruct (Hone tok Hin) as [line' [Hline' Hfl]].
        rewrite Hline in Hline'. injection Hline' as E. subst line'.
        rewrite <- Eft in Hin.
        pose proof (foreign_props_google style tok Hin) as Hpg. unfold tok_props_google in Hpg.
        apply andb_true_iff in Hpg. destruct Hpg as [Hpg Hlen].
        apply andb_true_iff in Hpg. destruct Hpg as [Hpg H58].
        apply andb_true_iff in Hpg. destruct Hpg as [Hsp' Hnl].
        apply negb_true_iff in Hnl.
        pose proof (section_tokens_foreign_free style) as Hsec. rewrite forallb_forall in Hsec.
        specialize (Hsec tok Hin). apply andb_true_iff in Hsec. destruct Hsec as [_ Hrt].
        apply negb_true_iff in Hrt.
        apply contains_cons_notin; [exact Hnl|]. apply contains_sep; [exact Hnl|exact Hrt|exact Hfl]. }
  destruct Hretl as [ret [Hret' Hretfree]].
  unfold text_of_o. rewrite Hdoc. cbn [bind]. rewrite Hmap. cbn [bind]. rewrite Hret'. cbn [bind].
  eexists. split; [reflexivity|]. split.
  2:{ intros Hpne. destruct lines as [|l ls].
      - destruct (ir_params i); [contradiction|discriminate Hlen_lines].
      - set (A := nth 0 (arg_tokens_of style) []).
        assert (Ej : exists rest, join [nl] (A :: l :: ls) = A ++ rest).
        { eexists. cbn [join]. reflexivity. }
        destruct Ej as [rest Ej]. rewrite Ej.
        change (nl :: doc ++ [nl; nl; nl] ++ (A ++ rest) ++ [nl] ++ ret ++ [nl]
                   ++ match style with SGoogle => [] | SNumpydoc => [nl] end)
          with ((nl :: doc) ++ [nl; nl; nl] ++ (A ++ rest) ++ [nl] ++ ret ++ [nl]
                   ++ match style with SGoogle => [] | SNumpydoc => [nl] end).
        rewrite (app_assoc (nl :: doc) [nl; nl; nl]). rewrite <- (app_assoc A rest).
        apply contains_app_mid. }
  intros tok Hin.
  pose proof (foreign_props_google style tok Hin) as Hpg. unfold tok_props_google in Hpg.
  apply andb_true_iff in Hpg. destruct Hpg as [Hpg Hlen].
  apply andb_true_iff in Hpg. destruct Hpg as [Hpg H58].
  apply andb_true_iff in Hpg. destruct Hpg as [Hsp' Hnl].
  apply negb_true_iff in Hnl. apply Nat.ltb_lt in Hlen.
  assert (Hne : tok <> []) by (intros E; subst tok; cbn in Hlen; lia).
  pose proof (section_tokens_foreign_free style) as Hsec. rewrite forallb_forall in Hsec.
  specialize (Hsec tok Hin). apply andb_true_iff in Hsec. destruct Hsec as [Hat _].
  apply negb_true_iff in Hat.
  assert (Hdocfree : free tok doc) by (apply token_free_In; [exact Hdtf|apply (foreign_in_all style); exact Hin]).
  assert (Hpl : free tok (join [nl] match lines with [] => [] | _ => nth 0 (arg_tokens_of style) [] :: lines end)).
  { apply free_join_nl; [exact Hnl|exact Hne|].
    destruct lines as [|l ls]; [constructor|]. constructor; [exact Hat|].
    eapply Forall_impl; [|exact Hfree]. intros a Ha. apply Ha. exact Hin. }
  assert (Htail : free tok (match style with SNumpydoc => [nl] | SGoogle => [] end)).
  { destruct style; [apply free_nil; exact Hne|apply free_single; exact Hlen]. }
  apply contains_cons_notin; [exact Hnl|].
  cbn [app].
  apply contains_sep; [exact Hnl|exact Hdocfree|].
  apply contains_cons_notin; [exact Hnl|]. apply contains_cons_notin; [exact Hnl|].
  apply contains_sep; [exact Hnl|exact Hpl|].
  apply contains_sep; [exact Hnl|apply Hretfree; exact Hin|exact Htail].
Qed.

Lemma existsb_false : forall {A} (f : A -> bool) l, (forall x, In x l -> f x = false) -> existsb f l = false.
Proof.
  intros A f l H. induction l as [|x r IH]; [reflexivity|].
  cbn [existsb]. rewrite (H x (or_introl eq_refl)). cbn [orb]. apply IH.
  intros y Hy. apply H. right. exact Hy.
Qed.

Lemma arg_token_google_is_google_token : In (nth 0 (arg_tokens_of SGoogle) []) Extracted.google_tokens.
Proof. vm_compute. left. reflexivity. Qed.

(* STYLE DETECTION IS CORRECT on the texts of guard IRs: text written in google style is read as google, text
   written in numpydoc style as numpydoc, never as ReST; any number of parameters *)
Theorem detect_style_guard : forall style i,
    guard_C01_ng style i = true ->
    exists text, text_of_o style i = Ok text /\ detect_style text = style3_of style.
Proof.
  intros style i Hg.
  destruct (text_foreign_free style i Hg) as [text [Htext [Hfree Hargs]]].
  exists text. split; [exact Htext|].
  unfold detect_style.
  assert (Hrest : existsb (fun t => contains t text) Extracted.rest_tokens = false).
  { apply existsb_false. intros t Ht. apply Hfree. destruct style; cbn [foreign_tokens].
    - exact Ht.
    - apply in_or_app. left. exact Ht. }
  rewrite Hrest. destruct style; cbn [style3_of].
  - assert (Hg' : existsb (fun t => contains t text) Extracted.google_tokens = true).
    { apply existsb_exists. exists (nth 0 (arg_tokens_of SGoogle) []).
      split; [exact arg_token_google_is_google_token|]. apply Hargs.
      unfold guard_C01_ng in Hg. apply andb_true_iff in Hg. destruct Hg as [_ Hcls].
      destruct (finding_class_C01_ng SGoogle i) eqn:Hfc; [discriminate|].
      destruct (finding_class_None_inv SGoogle i Hfc) as [_ [_ [Hne _]]]. apply Hne. reflexivity. }
    rewrite Hg'. reflexivity.
  - assert (Hg' : existsb (fun t => contains t text) Extracted.google_tokens = false).
    { apply existsb_false. intros t Ht. apply Hfree. cbn [foreign_tokens]. apply in_or_app. right. exact Ht. }
    rewrite Hg'. reflexivity.
Qed.

(* ------------------------------------------------------------------ *)
(* 11. blocks to IR: one entry through _parse, interpolate_defaults,    *)
(*     _set_name_and_type                                               *)
(* ------------------------------------------------------------------ *)
From DT Require Import DefaultsFacts.

Lemma coerce_not_None : forall t v w, coerce t v = Ok w -> w <> VNone.
Proof.
  intros t v w H. unfold coerce in H.
  destruct (str_eqb t (L "bool")); [injection H as H; subst; discriminate|].
  destruct (str_eqb t (L "str")); [injection H as H; subst; discriminate|].
  destruct (str_eqb t (L "int")).
  { destruct v as [|b|z|r|s]; try discriminate.
    - injection H as H; subst; discriminate.
    - injection H as H; subst; discriminate.
    - apply bind_Ok_inv' in H. destruct H as [z [_ H]]. injection H as H; subst; discriminate.
    - destruct (Z_of_dec_signed (strip s)); [injection H as H; subst; discriminate|discriminate]. }
  destruct (str_eqb t (L "float")); [|discriminate].
  destruct v as [|b|z|r|s]; try discriminate.
  - injection H as H; subst; discriminate.
  - apply bind_Ok_inv' in H. destruct H as [z' [_ H]]. injection H as H; subst; discriminate.
  - injection H as H; subst; discriminate.
  - apply bind_Ok_inv' in H. destruct H as [z' [_ H]]. injection H as H; subst; discriminate.
Qed.

Lemma coerce_default_not_None : forall typ s w, coerce_default typ s = Ok w -> w <> VNone.
Proof.
  intros typ s w H. unfold coerce_default in H. cbv zeta in H.
  destruct (match typ with Some t => in_simple_types t && negb (in_none_types (VStr s)) | None => false end).
  - destruct typ as [t|]; [|discriminate].
    apply bind_Ok_inv' in H. destruct H as [lit [_ H]]. apply (coerce_not_None _ _ _ H).
  - destruct (isdecimal s); [injection H as H; subst; discriminate|].
    destruct (signed_decimal s).
    { destruct (Z_of_dec_signed s); [injection H as H; subst; discriminate|discriminate]. }
    destruct (str_eqb s (L "True")); [injection H as H; subst; discriminate|].
    destruct (str_eqb s (L "False")); [injection H as H; subst; discriminate|].
    destruct (float_of_str s) as [r|e].
    + injection H as H; subst; discriminate.
    + destruct e; try discriminate. injection H as H; subst; discriminate.
Qed.

Lemma extract_default_not_None : forall line rs ann typ emit l w,
    extract_default line rs ann typ emit = Ok (l, Some w) -> w <> VNone.
Proof.
  intros line rs ann typ emit l w H. unfold extract_default in H.
  destruct (location_within casefold line ann) as [[[s e] f]|]; [|discriminate].
  cbv zeta in H. apply bind_Ok_inv' in H. destruct H as [v [Hv H]].
  apply coerce_default_not_None in Hv.
  destruct emit; injection H as _ H; subst; exact Hv.
Qed.

Lemma unquote_val_not_None : forall v, v <> VNone -> unquote_val v <> VNone.
Proof. intros [|b|z|r|s] H; try discriminate; contradiction. Qed.

(* the writing branch of set_default_doc does not look at the name *)
Lemma set_default_doc_name_indep : forall name p v,
    p_default p = Some v ->
    negb (null_default v) || negb (endswith (L "kwargs") name) = true ->
    set_default_doc name p true = set_default_doc (L "x") p true.
Proof.
  intros name p v Hv Hw. unfold set_default_doc. destruct (p_doc p) as [| |doc]; try reflexivity.
  cbv zeta. rewrite Hv. rewrite !andb_false_r.
  destruct (negb (contains (L "Defaults") doc || contains (L "defaults") doc) && true); [|reflexivity].
  assert (Hn : negb (pyval_eqb (if pyval_eqb v (VStr NoneStr) then VNone else v) VNone) = negb (null_default v)).
  { unfold null_default. destruct (pyval_eqb v (VStr NoneStr)) eqn:E.
    - rewrite orb_true_r. reflexivity.
    - rewrite orb_false_r. reflexivity. }
  rewrite Hn. rewrite Hw. rewrite endswith_kwargs_x. cbn [negb]. rewrite orb_true_r. reflexivity.
Qed.

(* the C17 theorem, read for the line the emitter writes for a parameter called [name] *)
Lemma extract_written_default : forall name p d t v d',
    p_doc p = Has d -> p_typ p = Has t -> p_default p = Some v ->
    negb (null_default v) || negb (endswith (L "kwargs") name) = true ->
    guard_C17 ADefaultsTo d v (Some t) = true ->
    doc_with_default name p = Ok d' ->
    exists v', extract_default d' true default_announces (Some t) false = Ok (d, Some v')
               /\ same_default v v' = true.
Proof.
  intros name p d t v d' Hd Ht Hv Hw Hg Hdd.
  destruct (C17_partial_lemma _ _ _ _ Hg) as [line [Hr [_ [v' [He Hs]]]]].
  exists v'. split; [|exact Hs].
  assert (El : line = d').
  { unfold render in Hr. apply bind_Ok_inv' in Hr. destruct Hr as [p' [Hp' Hr]].
    unfold doc_with_default in Hdd. rewrite (set_default_doc_name_indep name p v Hv Hw) in Hdd.
    assert (Ep : mkParam (Has d) (fld_of_opt (Some t)) (Some v) = p).
    { cbn [fld_of_opt]. rewrite <- Hd, <- Ht, <- Hv. apply param_eta. }
    rewrite Ep in Hp'. rewrite Hp' in Hdd. cbn [bind] in Hdd.
    destruct (p_doc p') as [| |ln]; try discriminate.
    destruct (startswith (d ++ L " Defaults to ") ln); [|discriminate].
    injection Hr as Hr. injection Hdd as Hdd. congruence. }
  rewrite <- El. exact He.
Qed.

Lemma interpolate_written : forall name p d t v d' req,
    p_doc p = Has d -> p_typ p = Has t -> p_default p = Some v ->
    negb (null_default v) || negb (endswith (L "kwargs") name) = true ->
    guard_C17 ADefaultsTo d v (Some t) = true ->
    doc_with_default name p = Ok d' ->
    exists v', interpolate_force (mkParam (Has d') (Has t) None) req false
               = Ok (mkParam (Has d) (Has t) (Some (unquote_val v')), true)
               /\ same_default v v' = true /\ v' <> VNone.
Proof.
  intros name p d t v d' req Hd Ht Hv Hw Hg Hdd.
  destruct (extract_written_default name p d t v d' Hd Ht Hv Hw Hg Hdd) as [v' [He Hs]].
  pose proof (extract_default_not_None _ _ _ _ _ _ _ He) as Hnn.
  exists v'. split; [|split; [exact Hs|exact Hnn]].
  unfold interpolate_force, interpolate_defaults. cbn [p_doc p_typ p_default fget extract_default_fld].
  rewrite He. cbn [bind fst snd].
  destruct v' as [|b|z|r|s]; [contradiction| | | |];
    cbn [unquote_val p_default p_doc p_typ andb]; rewrite andb_false_r; cbn [bind];
      rewrite orb_true_r; reflexivity.
Qed.
