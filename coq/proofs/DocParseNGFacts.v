(* DocParseNGFacts: lemmas about the numpydoc / google docstring path (model/DocParseNG.v) and the
   specification of C01 for these two styles (model/C01SpecNG.v).  Proofs only. *)
From Coq Require Import List Ascii Bool Arith ZArith Lia.
From Coq Require String.
Import String.StringSyntax.
From DT Require Import PyStr Sexp PyVal TyExpr PureUtils Defaults PyAst IR Extracted Run C17Spec
     DocParseNG C01SpecNG PyStrFacts.
Import ListNotations.

(* ------------------------------------------------------------------ *)
(* 1. occurrences across a separator                                    *)
(* ------------------------------------------------------------------ *)

Lemma contains_nil_l : forall s, contains [] s = true.
Proof. intros s. unfold contains. rewrite find_startswith; [reflexivity|apply startswith_nil]. Qed.

(* a character that does not occur in the pattern separates occurrences *)
Lemma contains_sep : forall tok a x b,
    mem_c x tok = false -> contains tok a = false -> contains tok b = false ->
    contains tok (a ++ x :: b) = false.
Proof.
  intros tok a x b Hx Ha Hb.
  destruct tok as [|y tok]; [rewrite contains_nil_l in Ha; discriminate|].
  apply contains_false_iff. apply contains_false_iff in Hb.
  induction a as [|c a IHa].
  - cbn [app]. rewrite find_cons. cbn [startswith].
    rewrite mem_c_cons in Hx. apply orb_false_iff in Hx. destruct Hx as [Hxy _].
    rewrite ascii_eqb_sym, Hxy. cbn [andb]. rewrite Hb. reflexivity.
  - apply contains_false_iff in Ha. rewrite find_cons in Ha.
    destruct (startswith (y :: tok) (c :: a)) eqn:Hsw; [discriminate|].
    destruct (find (y :: tok) a) as [k|] eqn:Hk; [discriminate|].
    change ((c :: a) ++ x :: b) with (c :: (a ++ x :: b)). rewrite find_cons.
    change (c :: (a ++ x :: b)) with ((c :: a) ++ x :: b).
    destruct (startswith (y :: tok) ((c :: a) ++ x :: b)) eqn:E.
    + exfalso. apply startswith_app_cases in E.
      destruct E as [E | [q [Hq1 [Hq2 Hq3]]]]; [congruence|].
      destruct q as [|z q]; [contradiction|].
      cbn [startswith] in Hq3. apply andb_true_iff in Hq3. destruct Hq3 as [Hz _].
      apply ascii_eqb_eq in Hz. subst z.
      assert (Hin : mem_c x (y :: tok) = true).
      { rewrite Hq1. rewrite mem_c_app. rewrite (mem_c_cons x x q), ascii_eqb_refl.
        cbn [orb]. apply orb_true_r. }
      congruence.
    + rewrite IHa; [reflexivity|]. apply contains_false_iff. exact Hk.
Qed.

Lemma contains_cons_notin : forall tok x b,
    mem_c x tok = false -> contains tok b = false -> contains tok (x :: b) = false.
Proof.
  intros tok x b Hx Hb.
  destruct tok as [|y tok]; [rewrite contains_nil_l in Hb; discriminate|].
  change (x :: b) with ([] ++ x :: b). apply contains_sep; [exact Hx| |exact Hb].
  reflexivity.
Qed.

Lemma contains_app_notin_l : forall tok a b,
    forallb (fun c => negb (mem_c c tok)) a = true -> contains tok b = false ->
    contains tok (a ++ b) = false.
Proof.
  intros tok a b Ha Hb. induction a as [|c a IHa]; [exact Hb|].
  cbn [forallb] in Ha. apply andb_true_iff in Ha. destruct Ha as [Hc Ha].
  apply negb_true_iff in Hc. cbn [app]. apply contains_cons_notin; [exact Hc|]. apply IHa. exact Ha.
Qed.

Lemma contains_short : forall tok s, List.length s < List.length tok -> contains tok s = false.
Proof. intros tok s H. apply contains_false_iff. apply find_None_too_long. exact H. Qed.

(* ------------------------------------------------------------------ *)
(* 2. require_default only ever goes from False to True                 *)
(* ------------------------------------------------------------------ *)

Lemma bind_Ok_inv' : forall {A B} (x : outcome A) (f : A -> outcome B) b,
    bind x f = Ok b -> exists a, x = Ok a /\ f a = Ok b.
Proof. intros A B [a|e] f b H; [exists a; split; [reflexivity|exact H]|discriminate]. Qed.

Lemma interpolate_force_monotone : forall p req emit p' req',
    interpolate_force p req emit = Ok (p', req') -> req = true -> req' = true.
Proof.
  intros p req emit p' req' H Hreq. unfold interpolate_force in H.
  apply bind_Ok_inv' in H. destruct H as [p1 [_ H]]. cbv zeta in H.
  injection H as _ H. subst req' req. reflexivity.
Qed.

(* once a default has been seen, the flag stays set through the rest of the parameter list and is
   what the return entry is interpolated with *)
Lemma params_loop_monotone : forall style fl units req acc acc' req',
    params_loop style fl units req acc = Ok (acc', req') -> req = true -> req' = true.
Proof.
  intros style fl units. induction units as [|u r IH]; intros req acc acc' req' H Hreq.
  - cbn [params_loop] in H. injection H as _ H. congruence.
  - cbn [params_loop] in H. destruct (parse_unit style u) as [name p| | |e].
    + apply bind_Ok_inv' in H. destruct H as [[p1 req1] [H1 H]].
      apply bind_Ok_inv' in H. destruct H as [np [_ H]].
      apply (IH _ _ _ _ H). apply (interpolate_force_monotone _ _ _ _ _ H1 Hreq).
    + apply (IH _ _ _ _ H Hreq).
    + injection H as _ H. congruence.
    + discriminate.
Qed.

(* the flag is set by the first parameter that comes out of interpolation with a default *)
Lemma interpolate_force_sets : forall p req emit p' req',
    interpolate_force p req emit = Ok (p', req') ->
    req' = req || match p_default p' with None | Some VNone => false | Some _ => true end.
Proof.
  intros p req emit p' req' H. unfold interpolate_force in H.
  apply bind_Ok_inv' in H. destruct H as [p1 [_ H]]. cbv zeta in H.
  injection H as H1 H2. subst p' req'. reflexivity.
Qed.

(* ------------------------------------------------------------------ *)
(* 3. the stacker                                                       *)
(* ------------------------------------------------------------------ *)

Lemma append_last_snoc : forall st u line, append_last (st ++ [u]) line = Some (st ++ [u ++ [line]]).
Proof.
  induction st as [|v st IH]; intros u line; [reflexivity|].
  cbn [app append_last]. destruct (st ++ [u]) as [|w r] eqn:E.
  - destruct st; discriminate.
  - rewrite <- E, IH. reflexivity.
Qed.

(* a line at first_indent starts a unit *)
Lemma stack_lines_start : forall rt fi line tail st,
    indent_of line = fi ->
    stack_lines rt fi (line :: tail) st = stack_lines rt fi tail (st ++ [[line]]).
Proof. intros rt fi line tail st H. cbn [stack_lines]. rewrite H, Nat.eqb_refl. reflexivity. Qed.

(* a deeper line continues the last unit *)
Lemma stack_lines_cont : forall rt fi line tail st u,
    fi < indent_of line ->
    stack_lines rt fi (line :: tail) (st ++ [u]) = stack_lines rt fi tail (st ++ [u ++ [line]]).
Proof.
  intros rt fi line tail st u H. cbn [stack_lines].
  destruct (Nat.eqb_spec (indent_of line) fi) as [E|_]; [lia|].
  destruct (Nat.ltb_spec (indent_of line) fi) as [E|_]; [lia|].
  rewrite append_last_snoc. reflexivity.
Qed.

(* a deeper line with nothing on the stack: IndexError *)
Lemma stack_lines_cont_empty : forall rt fi line tail,
    fi < indent_of line -> stack_lines rt fi (line :: tail) [] = Err IndexError.
Proof.
  intros rt fi line tail H. cbn [stack_lines].
  destruct (Nat.eqb_spec (indent_of line) fi) as [E|_]; [lia|].
  destruct (Nat.ltb_spec (indent_of line) fi) as [E|_]; [lia|]. reflexivity.
Qed.

(* a shallower line ends the scan: the stack goes to scanned[namespace], the rest to the look-aheads *)
Lemma stack_lines_break : forall rt fi line tail st,
    indent_of line < fi ->
    stack_lines rt fi (line :: tail) st = Ok ([], Some (st, lookahead rt tail)).
Proof.
  intros rt fi line tail st H. cbn [stack_lines].
  destruct (Nat.eqb_spec (indent_of line) fi) as [E|_]; [lia|].
  destruct (Nat.ltb_spec (indent_of line) fi) as [_|E]; [reflexivity|lia].
Qed.

(* continuation lines of one unit *)
Lemma stack_lines_conts : forall rt fi cs tail st u,
    Forall (fun l => fi < indent_of l) cs ->
    stack_lines rt fi (cs ++ tail) (st ++ [u]) = stack_lines rt fi tail (st ++ [u ++ cs]).
Proof.
  intros rt fi cs. induction cs as [|c cs IH]; intros tail st u H.
  - rewrite app_nil_r. reflexivity.
  - inversion H as [|c' cs' Hc Hcs]; subst. cbn [app].
    rewrite stack_lines_cont; [|exact Hc]. rewrite IH; [|exact Hcs].
    rewrite <- app_assoc. reflexivity.
Qed.

(* a unit: a head line at first_indent followed by deeper lines *)
Definition is_unit (fi : nat) (u : list str) : Prop :=
  match u with
  | [] => False
  | h :: cs => indent_of h = fi /\ Forall (fun l => fi < indent_of l) cs
  end.

(* THE STACKER LEMMA: text that is a sequence of units is stacked into exactly those units, for any
   number of units, whatever follows *)
Lemma stack_lines_units : forall rt fi us tail st,
    Forall (is_unit fi) us ->
    stack_lines rt fi (concat us ++ tail) st = stack_lines rt fi tail (st ++ us).
Proof.
  intros rt fi us. induction us as [|u us IH]; intros tail st H.
  - rewrite app_nil_r. reflexivity.
  - inversion H as [|u' us' Hu Hus]; subst.
    destruct u as [|h cs]; [contradiction|]. destruct Hu as [Hh Hcs].
    cbn [concat]. rewrite <- !app_assoc. cbn [app].
    rewrite stack_lines_start; [|exact Hh].
    rewrite stack_lines_conts; [|exact Hcs]. cbn [app].
    rewrite IH; [|exact Hus]. rewrite <- app_assoc. reflexivity.
Qed.

Corollary stack_lines_units_end : forall rt fi us,
    Forall (is_unit fi) us -> stack_lines rt fi (concat us) [] = Ok (us, None).
Proof.
  intros rt fi us H. rewrite <- (app_nil_r (concat us)). rewrite stack_lines_units; [|exact H].
  reflexivity.
Qed.

Corollary stack_lines_units_break : forall rt fi us line tail,
    Forall (is_unit fi) us -> indent_of line < fi ->
    stack_lines rt fi (concat us ++ line :: tail) [] = Ok ([], Some (us, lookahead rt tail)).
Proof.
  intros rt fi us line tail H Hl. rewrite stack_lines_units; [|exact H].
  apply stack_lines_break. exact Hl.
Qed.

(* ------------------------------------------------------------------ *)
(* 4. the two _parse closures on one well-formed unit                   *)
(* ------------------------------------------------------------------ *)

Lemma find_char : forall c a b, mem_c c a = false -> find [c] (a ++ c :: b) = Some (List.length a).
Proof.
  intros c a b. induction a as [|x a IH]; intros H.
  - cbn [app List.length]. rewrite find_cons. cbn [startswith]. rewrite ascii_eqb_refl. reflexivity.
  - rewrite mem_c_cons in H. apply orb_false_iff in H. destruct H as [Hx Ha].
    change ((x :: a) ++ c :: b) with (x :: (a ++ c :: b)). rewrite find_cons.
    cbn [startswith]. rewrite Hx. cbn [andb]. rewrite (IH Ha). reflexivity.
Qed.

Lemma skipn_app_succ : forall (a : str) c b, skipn (List.length a + 1) (a ++ c :: b) = b.
Proof.
  intros a c b. rewrite <- skipn_add. rewrite skipn_app_exact. reflexivity.
Qed.

Lemma partition_char : forall c a b, mem_c c a = false -> partition [c] (a ++ c :: b) = (a, [c], b).
Proof.
  intros c a b H. unfold partition. rewrite (find_char c a b H).
  rewrite firstn_app_exact. cbn [List.length]. rewrite skipn_app_succ. reflexivity.
Qed.

Lemma rstrip_snoc_space : forall s, rstrip (s ++ [sp]) = rstrip s.
Proof.
  intros s. unfold rstrip, rstrip_by. rewrite rev_app_distr. cbn [rev app dropwhile].
  change (isspace sp) with true. cbn iota. reflexivity.
Qed.

Lemma lstrip_cons_space : forall s, lstrip (sp :: s) = lstrip s.
Proof. intros s. unfold lstrip, lstrip_by. cbn [dropwhile]. change (isspace sp) with true. reflexivity. Qed.

Lemma rstrip_snoc_nonspace : forall s c, isspace c = false -> rstrip (s ++ [c]) = s ++ [c].
Proof.
  intros s c H. unfold rstrip, rstrip_by. rewrite rev_app_distr. cbn [rev app dropwhile].
  rewrite H. cbn [rev]. rewrite rev_involutive. reflexivity.
Qed.

Lemma is_empty_false : forall {A} (l : list A), l <> [] -> is_empty l = false.
Proof. intros A [|x l] H; [contradiction|reflexivity]. Qed.

Lemma is_empty_app_r : forall {A} (a b : list A), b <> [] -> is_empty (a ++ b) = false.
Proof. intros A a b H. apply is_empty_false. intros E. apply app_eq_nil in E. tauto. Qed.

Lemma lstrip_tab_app : forall d, lstrip (tab ++ d) = lstrip d.
Proof. intros d. reflexivity. Qed.

(* numpydoc: the unit  [name : typ ; <tab>doc]  *)
Lemma parse_numpydoc_param : forall name typ doc,
    name <> [] -> mem_c (ch 58) name = false -> rstrip name = name ->
    typ <> [] -> lstrip typ = typ -> lstrip doc = doc ->
    parse_numpydoc [name ++ L " : " ++ typ; tab ++ doc]
    = PSome name (mkParam (Has doc) (Has typ) None).
Proof.
  intros name typ doc Hne Hcolon Hrs Htne Hls Hld.
  unfold parse_numpydoc.
  change (name ++ L " : " ++ typ) with (name ++ [sp] ++ ch 58 :: sp :: typ).
  rewrite app_assoc. rewrite partition_char.
  2:{ rewrite mem_c_app, Hcolon. reflexivity. }
  rewrite is_empty_app_r; [|discriminate]. cbn [is_empty].
  rewrite rstrip_snoc_space, Hrs. rewrite lstrip_cons_space, Hls.
  cbn [map join]. rewrite lstrip_tab_app, Hld. reflexivity.
Qed.

(* numpydoc: a unit without prose line *)
Lemma parse_numpydoc_param_nodoc : forall name typ,
    name <> [] -> mem_c (ch 58) name = false -> rstrip name = name ->
    typ <> [] -> lstrip typ = typ ->
    parse_numpydoc [name ++ L " : " ++ typ] = PSome name (mkParam (Has []) (Has typ) None).
Proof.
  intros name typ Hne Hcolon Hrs Htne Hls.
  unfold parse_numpydoc.
  change (name ++ L " : " ++ typ) with (name ++ [sp] ++ ch 58 :: sp :: typ).
  rewrite app_assoc. rewrite partition_char.
  2:{ rewrite mem_c_app, Hcolon. reflexivity. }
  rewrite is_empty_app_r; [|discriminate]. cbn [is_empty].
  rewrite rstrip_snoc_space, Hrs. rewrite lstrip_cons_space, Hls. reflexivity.
Qed.

(* numpydoc: the blank units that the emitter's trailing newlines produce are dropped *)
Lemma parse_numpydoc_blank : parse_numpydoc [[]] = PNone.
Proof. reflexivity. Qed.

Definition head_nonspace (s : str) : Prop := forall c, head_c s = Some c -> isspace c = false.
Definition last_nonspace (s : str) : Prop := forall c, last_c s = Some c -> isspace c = false.

Lemma lstrip_app_head : forall a b, a <> [] -> head_nonspace a -> lstrip (a ++ b) = a ++ b.
Proof.
  intros a b Hne Hh. unfold lstrip. apply lstrip_by_id. intros c Hc. apply Hh.
  destruct a as [|x a]; [contradiction|exact Hc].
Qed.

Lemma lstrip_id_head : forall a, head_nonspace a -> lstrip a = a.
Proof. intros a Hh. unfold lstrip. apply lstrip_by_id. exact Hh. Qed.

Lemma rstrip_id_last : forall a, last_nonspace a -> rstrip a = a.
Proof. intros a Hl. unfold rstrip. apply rstrip_by_id. exact Hl. Qed.

Lemma strip_id : forall a, head_nonspace a -> last_nonspace a -> strip a = a.
Proof. intros a Hh Hl. unfold strip. apply strip_by_id; assumption. Qed.

Lemma slice_inner : forall (t : str) a b,
    slice (a :: t ++ [b]) 1 (List.length (a :: t ++ [b]) - 1) = t.
Proof.
  intros t a b. unfold slice. cbn [List.length skipn]. rewrite app_length. cbn [List.length].
  replace (S (List.length t + 1) - 1 - 1) with (List.length t) by lia.
  apply firstn_app_exact.
Qed.

(* google: the unit  [  name (typ): doc]  *)
Lemma parse_google_param : forall name typ doc,
    name <> [] -> head_nonspace name -> last_nonspace name ->
    mem_c (ch 58) name = false -> mem_c (ch 40) name = false ->
    typ <> [] -> mem_c (ch 58) typ = false -> contains (L " or ") typ = false ->
    head_nonspace doc -> last_nonspace doc ->
    Nat.ltb 3 (List.length doc) && startswith [ch 123] doc && endswith [ch 125] doc = false ->
    parse_google [L "  " ++ name ++ L " (" ++ typ ++ L "): " ++ doc]
    = PSome name (mkParam (Has doc) (Has typ) None).
Proof.
  intros name typ doc Hne Hh Hl Hc58 Hc40 Htne Ht58 Hor Hdh Hdl Hbrace.
  set (pre := L "  " ++ name ++ [sp] ++ ch 40 :: typ ++ [ch 41]).
  assert (El0 : L "  " ++ name ++ L " (" ++ typ ++ L "): " ++ doc = pre ++ ch 58 :: sp :: doc).
  { unfold pre. cbn [L String.list_ascii_of_string app]. repeat rewrite <- app_assoc.
    cbn [app]. repeat rewrite <- app_assoc. reflexivity. }
  rewrite El0. unfold parse_google.
  assert (Hpre58 : mem_c (ch 58) pre = false).
  { unfold pre. rewrite !mem_c_app, Hc58. rewrite (mem_c_cons (ch 58) (ch 40) (typ ++ [ch 41])), mem_c_app, Ht58. reflexivity. }
  rewrite (find_char (ch 58) pre (sp :: doc) Hpre58).
  rewrite firstn_app_exact. rewrite skipn_app_succ.
  assert (Els : lstrip pre = (name ++ [sp]) ++ ch 40 :: typ ++ [ch 41]).
  { unfold pre. cbn [L String.list_ascii_of_string app]. rewrite !lstrip_cons_space.
    rewrite lstrip_app_head; [|exact Hne|exact Hh]. rewrite <- app_assoc. reflexivity. }
  rewrite Els. rewrite partition_char.
  2:{ rewrite mem_c_app, Hc40. reflexivity. }
  rewrite rstrip_snoc_space. rewrite (rstrip_id_last name Hl).
  change ([ch 40] ++ typ ++ [ch 41]) with ((ch 40 :: typ) ++ [ch 41]).
  rewrite rstrip_snoc_nonspace; [|reflexivity].
  rewrite is_empty_app_r; [|discriminate].
  assert (Hsw : startswith [ch 40] ((ch 40 :: typ) ++ [ch 41]) = true) by reflexivity.
  rewrite Hsw. rewrite endswith_app. cbn [andb negb].
  change ((ch 40 :: typ) ++ [ch 41]) with (ch 40 :: typ ++ [ch 41]).
  rewrite slice_inner. rewrite Hor.
  rewrite lstrip_cons_space. rewrite (lstrip_id_head doc Hdh). rewrite Hbrace.
  cbn [join]. rewrite (strip_id doc Hdh Hdl). reflexivity.
Qed.

(* ------------------------------------------------------------------ *)
(* 5. what the guard says about one entry                               *)
(* ------------------------------------------------------------------ *)

Definition entry_text_ok (style : ngstyle) (name : str) (g : gparam) : bool :=
  gparam_token_free g &&
  match fget (g_typ g) with
  | None => false
  | Some t =>
    type_shape_ok style t &&
    match fget (g_doc g) with
    | None => negb (writes_default name g)
    | Some d =>
      prose_shape_ok style d && no_announce d
      && negb (optional_prefix d && negb (startswith (L "Optional[") t))
      && match written_doc name g with
         | Some d' => written_shape_ok style d' && negb (optional_prefix d' && negb (startswith (L "Optional[") t))
         | None => false
         end
    end
  end.

Lemma entry_class_text_ok : forall style name g,
    entry_class style name g = None -> entry_text_ok style name g = true.
Proof.
  intros style name g H. unfold entry_class in H. unfold entry_text_ok.
  destruct (gparam_token_free g); cbn [negb andb] in *; [|discriminate].
  destruct (fget (g_typ g)) as [t|]; [|discriminate].
  destruct (type_shape_ok style t); cbn [negb andb] in *; [|discriminate].
  destruct (fget (g_doc g)) as [d|].
  - destruct (prose_shape_ok style d); cbn [negb andb] in *; [|discriminate].
    destruct (no_announce d); cbn [negb andb] in *; [|discriminate].
    destruct (optional_prefix d && negb (startswith (L "Optional[") t)); cbn [negb andb] in *;
      [discriminate|].
    destruct (written_doc name g) as [d'|].
    + destruct (written_shape_ok style d'); cbn [negb andb] in *;
        [destruct (optional_prefix d' && negb (startswith (L "Optional[") t)); [|reflexivity]|].
      * destruct (writes_default name g); [|discriminate].
        destruct (sdefault g) as [v|]; [|discriminate].
        destruct (match needs_quoting_ng (Some t) with Ok _ => false | Err _ => true end); [discriminate|].
        destruct (finding_class_C17 ADefaultsTo d v (Some t)); [discriminate|].
        destruct v; try discriminate.
        destruct (negb (str_eqb (unquote s) s) && negb (null_default (VStr s))); [discriminate|].
        destruct (negb (str_eqb name return_type_name) && negb (kwargs_name name) && code_quoted s
                  && negb (null_default (VStr s)) && negb (contains [ch 91] t)); discriminate.
      *
      destruct (writes_default name g); [|discriminate].
      destruct (sdefault g) as [v|]; [|discriminate].
      destruct (match needs_quoting_ng (Some t) with Ok _ => false | Err _ => true end); [discriminate|].
      destruct (finding_class_C17 ADefaultsTo d v (Some t)); [discriminate|].
      destruct v; try discriminate.
      destruct (negb (str_eqb (unquote s) s) && negb (null_default (VStr s))); [discriminate|].
      destruct (negb (str_eqb name return_type_name) && negb (kwargs_name name) && code_quoted s
                && negb (null_default (VStr s)) && negb (contains [ch 91] t)); discriminate.
    + destruct (writes_default name g); [|discriminate].
      destruct (sdefault g) as [v|]; [|discriminate].
      destruct (match needs_quoting_ng (Some t) with Ok _ => false | Err _ => true end); [discriminate|].
      destruct (finding_class_C17 ADefaultsTo d v (Some t)); [discriminate|].
      destruct v; try discriminate.
      destruct (negb (str_eqb (unquote s) s) && negb (null_default (VStr s))); [discriminate|].
      destruct (negb (str_eqb name return_type_name) && negb (kwargs_name name) && code_quoted s
                && negb (null_default (VStr s)) && negb (contains [ch 91] t)); discriminate.
  - destruct (writes_default name g); [discriminate|reflexivity].
Qed.

Lemma first_class_None : forall {A} (f : A -> option c01ng_class) l,
    first_class f l = None -> Forall (fun x => f x = None) l.
Proof.
  intros A f l. induction l as [|x r IH]; intros H; [constructor|].
  cbn [first_class] in H. destruct (f x) eqn:E; [discriminate|].
  constructor; [exact E|apply IH; exact H].
Qed.

(* ------------------------------------------------------------------ *)
(* 6. token freeness of emitted lines                                   *)
(* ------------------------------------------------------------------ *)

Definition free (t s : str) : Prop := contains t s = false.

(* what the proofs need of a ReST token / a google token; discharged by computation from the live tuples *)
Definition tok_props_rest (t : str) : bool :=
  negb (mem_c sp t) && negb (mem_c nl t) && negb (mem_c (ch 40) t) && negb (mem_c (ch 41) t)
  && mem_c (ch 58) t && Nat.ltb 1 (List.length t) && negb (endswith [ch 58] t).

Definition tok_props_google (t : str) : bool :=
  negb (mem_c sp t) && negb (mem_c nl t) && mem_c (ch 58) t && Nat.ltb 1 (List.length t).

Lemma rest_tokens_props : forallb tok_props_rest Extracted.rest_tokens = true.
Proof. vm_compute. reflexivity. Qed.

Lemma google_tokens_props : forallb tok_props_google Extracted.google_tokens = true.
Proof. vm_compute. reflexivity. Qed.

Lemma tok_props_rest_google : forall t, tok_props_rest t = true -> tok_props_google t = true.
Proof.
  intros t H. unfold tok_props_rest in H. unfold tok_props_google.
  repeat (apply andb_true_iff in H; destruct H as [H ?]).
  repeat (apply andb_true_iff; split); assumption.
Qed.

(* a string lacking a character of the pattern cannot contain the pattern *)
Lemma free_missing_char : forall t s c, mem_c c t = true -> mem_c c s = false -> free t s.
Proof.
  intros t s c Ht Hs. unfold free. destruct (contains t s) eqn:E; [|reflexivity].
  apply contains_true_iff in E. destruct E as [a [b E]]. subst s.
  rewrite !mem_c_app, Ht in Hs. rewrite orb_true_l, orb_true_r in Hs. discriminate.
Qed.

Lemma free_snoc : forall t a c, free t a -> last_c t <> Some c -> t <> [] -> free t (a ++ [c]).
Proof.
  intros t a c Ha Hl Hne. unfold free in *. apply contains_false_iff.
  apply find_None_no_occurrence. intros u v E.
  apply contains_false_iff in Ha. rewrite find_None_no_occurrence in Ha.
  destruct (last_c v) as [z|] eqn:Hv.
  - apply last_c_spec in Hv. destruct Hv as [v' Hv']. subst v.
    rewrite !app_assoc in E. apply app_inj_tail in E. destruct E as [E _].
    apply (Ha u v'). rewrite E. rewrite <- app_assoc. reflexivity.
  - apply last_c_nil_iff in Hv. subst v. rewrite app_nil_r in E.
    destruct (last_c t) as [z|] eqn:Ht.
    + apply last_c_spec in Ht. destruct Ht as [t' Ht']. subst t.
      rewrite app_assoc in E. apply app_inj_tail in E. destruct E as [_ E]. subst z.
      apply Hl. reflexivity.
    + apply last_c_nil_iff in Ht. contradiction.
Qed.

Lemma free_nil : forall t, t <> [] -> free t [].
Proof. intros [|x t] H; [contradiction|reflexivity]. Qed.

Lemma free_single : forall t c, 1 < List.length t -> free t [c].
Proof. intros t c H. apply contains_short. exact H. Qed.

Lemma free_join_nl : forall t ls, mem_c nl t = false -> t <> [] ->
    Forall (free t) ls -> free t (join [nl] ls).
Proof.
  intros t ls Hnl Hne H. induction H as [|x r Hx Hr IH]; [apply free_nil; exact Hne|].
  destruct r as [|y r]; [exact Hx|].
  change (join [nl] (x :: y :: r)) with (x ++ nl :: join [nl] (y :: r)).
  apply contains_sep; [exact Hnl|exact Hx|exact IH].
Qed.

Lemma split_aux_no_nl : forall s cur fuel,
    mem_c nl s = false -> List.length s < fuel -> split_aux fuel [nl] s cur = [rev cur ++ s].
Proof.
  induction s as [|c r IH]; intros cur fuel Hs Hf.
  - destruct fuel as [|f]; [cbn in Hf; lia|]. cbn [split_aux]. rewrite app_nil_r. reflexivity.
  - destruct fuel as [|f]; [cbn in Hf; lia|].
    rewrite mem_c_cons in Hs. apply orb_false_iff in Hs. destruct Hs as [Hc Hr].
    cbn [split_aux startswith]. rewrite Hc. cbn [andb].
    rewrite IH; [|exact Hr|cbn [List.length] in Hf; lia].
    cbn [rev]. rewrite <- app_assoc. reflexivity.
Qed.

Lemma split_nl_no_nl : forall s, mem_c nl s = false -> split_nl s = [s].
Proof. intros s H. unfold split_nl, split. rewrite split_aux_no_nl; [reflexivity|exact H|lia]. Qed.

Lemma forallb_isspace_head : forall d, d <> [] -> head_nonspace d -> forallb isspace d = false.
Proof.
  intros [|c d] Hne Hh; [contradiction|]. cbn [forallb]. rewrite (Hh c eq_refl). reflexivity.
Qed.

Lemma indent_single_line : forall d, mem_c nl d = false -> d <> [] -> head_nonspace d ->
    indent tab d = tab ++ d.
Proof.
  intros d Hnl Hne Hh. unfold indent. rewrite (split_nl_no_nl d Hnl). cbn [indent_lines].
  rewrite (forallb_isspace_head d Hne Hh). reflexivity.
Qed.

Section RestLikeToken.
  Variable t : str.
  Hypothesis Hsp : mem_c sp t = false.
  Hypothesis Hnl : mem_c nl t = false.
  Hypothesis Hlen : 1 < List.length t.

  Lemma t_nonnil : t <> [].
  Proof. intros E. rewrite E in Hlen. cbn in Hlen. lia. Qed.

  Lemma free_sp : forall a b, free t a -> free t b -> free t (a ++ sp :: b).
  Proof. intros a b Ha Hb. apply contains_sep; assumption. Qed.

  Lemma free_nl : forall a b, free t a -> free t b -> free t (a ++ nl :: b).
  Proof. intros a b Ha Hb. apply contains_sep; assumption. Qed.

  Lemma free_cons_sp : forall b, free t b -> free t (sp :: b).
  Proof. intros b Hb. apply contains_cons_notin; assumption. Qed.

  Lemma free_tab_app : forall b, free t b -> free t (tab ++ b).
  Proof. intros b Hb. unfold tab, Extracted.tab. cbn [L String.list_ascii_of_string app].
         repeat apply free_cons_sp. exact Hb. Qed.

  (* numpydoc:  name : typ  *)
  Lemma free_numpydoc_head : forall name typ, free t name -> free t typ ->
      free t (name ++ L " : " ++ typ).
  Proof.
    intros name typ Hn Ht.
    change (name ++ L " : " ++ typ) with (name ++ sp :: ([ch 58] ++ sp :: typ)).
    apply free_sp; [exact Hn|]. apply free_sp; [apply free_single; exact Hlen|exact Ht].
  Qed.

  Lemma free_numpydoc_param : forall name typ d, free t name -> free t typ -> free t d ->
      free t ((name ++ L " : " ++ typ) ++ nl :: tab ++ d).
  Proof.
    intros name typ d Hn Ht Hd. apply free_nl; [apply free_numpydoc_head; assumption|].
    apply free_tab_app. exact Hd.
  Qed.

  Lemma free_numpydoc_return : forall typ d, free t typ -> free t d -> free t (typ ++ nl :: tab ++ d).
  Proof. intros typ d Ht Hd. apply free_nl; [exact Ht|]. apply free_tab_app. exact Hd. Qed.

  Hypothesis H40 : mem_c (ch 40) t = false.
  Hypothesis H41 : mem_c (ch 41) t = false.
  Hypothesis Hlast : last_c t <> Some (ch 58).

  (* google:   name (typ): doc  *)
  Lemma free_google_param : forall name typ d, free t name -> free t typ -> free t d ->
      free t (L "  " ++ name ++ L " (" ++ typ ++ L "): " ++ d).
  Proof.
    intros name typ d Hn Ht Hd.
    assert (E : L "  " ++ name ++ L " (" ++ typ ++ L "): " ++ d
                = sp :: sp :: (name ++ sp :: (ch 40 :: (typ ++ ch 41 :: ([ch 58] ++ sp :: d))))).
    { cbn [L String.list_ascii_of_string app]. repeat rewrite <- app_assoc. reflexivity. }
    rewrite E. apply free_cons_sp, free_cons_sp. apply free_sp; [exact Hn|].
    apply contains_cons_notin; [exact H40|].
    apply contains_sep; [exact H41|exact Ht|].
    apply free_sp; [apply free_single; exact Hlen|exact Hd].
  Qed.

  (* google return:   typ: <newline>   doc  *)
  Lemma free_google_return : forall typ d, free t typ -> free t d ->
      free t ((L "  " ++ typ ++ L ":") ++ nl :: L "   " ++ d).
  Proof.
    intros typ d Ht Hd. apply free_nl.
    - cbn [L String.list_ascii_of_string app]. apply free_cons_sp, free_cons_sp.
      apply free_snoc; [exact Ht|exact Hlast|exact t_nonnil].
    - cbn [L String.list_ascii_of_string app]. repeat apply free_cons_sp. exact Hd.
  Qed.
End RestLikeToken.

(* ------------------------------------------------------------------ *)
(* 7. the lines emit_param writes                                       *)
(* ------------------------------------------------------------------ *)

Lemma set_default_doc_prefix : forall name p p' d,
    set_default_doc name p true = Ok p' -> p_doc p = Has d ->
    exists x, p_doc p' = Has (d ++ x) /\ p_typ p' = p_typ p.
Proof.
  intros name p p' d H Hd. unfold set_default_doc in H. rewrite Hd in H. cbv zeta in H.
  rewrite andb_false_r in H.
  assert (Hsame : Ok p = Ok p' -> exists x, p_doc p' = Has (d ++ x) /\ p_typ p' = p_typ p).
  { intros E. injection E as E. subst p'. exists []. rewrite app_nil_r. split; [exact Hd|reflexivity]. }
  destruct (p_default p) as [dflt|]; [|apply Hsame; exact H].
  destruct (negb (contains (L "Defaults") d || contains (L "defaults") d) && true); [|apply Hsame; exact H].
  set (dflt' := if pyval_eqb dflt (VStr NoneStr) then VNone else dflt) in *.
  destruct (negb (pyval_eqb dflt' VNone) || negb (endswith (L "kwargs") name)).
  - destruct (last_c d) as [c|]; [|discriminate].
    apply bind_Ok_inv' in H. destruct H as [shown [_ H]]. injection H as H. subst p'.
    cbn [p_doc p_typ].
    destruct (ascii_eqb c (ch 46) || ascii_eqb c (ch 44)).
    + eexists. split; [reflexivity|reflexivity].
    + eexists. rewrite <- app_assoc. split; [reflexivity|reflexivity].
  - injection H as H. subst p'. cbn [p_doc p_typ]. exists []. rewrite app_nil_r. split; reflexivity.
Qed.

Lemma doc_with_default_prefix : forall name p d d',
    doc_with_default name p = Ok d' -> p_doc p = Has d -> exists x, d' = d ++ x.
Proof.
  intros name p d d' H Hd. unfold doc_with_default in H.
  apply bind_Ok_inv' in H. destruct H as [p' [Hp' H]].
  destruct (set_default_doc_prefix name p p' d Hp' Hd) as [x [Hx _]].
  rewrite Hx in H. injection H as H. exists x. symmetry. exact H.
Qed.

Lemma filter_join_two : forall sep (a b : str), a <> [] -> b <> [] ->
    filter_join sep [Some a; Some b] = a ++ sep ++ b.
Proof.
  intros sep [|x a] [|y b] Ha Hb; try contradiction. reflexivity.
Qed.

Lemma filter_join_one : forall sep (a : str), a <> [] -> filter_join sep [Some a; None] = a.
Proof. intros sep [|x a] Ha; [contradiction|reflexivity]. Qed.

Lemma truthy_Has : forall (t : str), t <> [] -> truthy_fld (Has t) = Some t.
Proof. intros [|c t] H; [contradiction|reflexivity]. Qed.

Lemma app_nonnil_l : forall (a b : str), a <> [] -> a ++ b <> [].
Proof. intros [|x a] b H; [contradiction|discriminate]. Qed.

Lemma clean_ends_inv : forall s, clean_ends s = true -> head_nonspace s /\ last_nonspace s.
Proof.
  intros s H. unfold clean_ends in H. apply andb_true_iff in H. destruct H as [Hh Hl]. split.
  - intros c Hc. rewrite Hc in Hh. apply negb_true_iff. exact Hh.
  - intros c Hc. rewrite Hc in Hl. apply negb_true_iff. exact Hl.
Qed.

Lemma head_nonspace_app : forall a b, a <> [] -> head_nonspace a -> head_nonspace (a ++ b).
Proof. intros [|x a] b Hne H c Hc; [contradiction|]. apply H. exact Hc. Qed.

(* a parameter with type and prose *)
Lemma emit_param_doc : forall style name p t d d',
    str_eqb name return_type_name = false ->
    p_typ p = Has t -> t <> [] -> p_doc p = Has d -> d <> [] -> doc_with_default name p = Ok d' ->
    head_nonspace d -> mem_c nl d' = false ->
    emit_param style name p
    = Ok (match style with
          | SGoogle => L "  " ++ name ++ L " (" ++ t ++ L "): " ++ d'
          | SNumpydoc => (name ++ L " : " ++ t) ++ nl :: tab ++ d'
          end).
Proof.
  intros style name p t d d' Hn Ht Htne Hd Hdne Hdd Hdh Hdnl.
  destruct (doc_with_default_prefix name p d d' Hdd Hd) as [x Hx].
  assert (Hd'ne : d' <> []). { subst d'. apply app_nonnil_l. exact Hdne. }
  assert (Hd'h : head_nonspace d'). { subst d'. apply head_nonspace_app; assumption. }
  unfold emit_param. rewrite Hn, Ht, Hd, (truthy_Has t Htne), (truthy_Has d Hdne), Hdd.
  cbn [bind]. destruct style.
  - rewrite filter_join_two; [|cbn; discriminate|exact Hd'ne].
    cbn [app]. repeat rewrite <- app_assoc. reflexivity.
  - rewrite (indent_single_line d' Hdnl Hd'ne Hd'h). rewrite filter_join_two.
    + reflexivity.
    + intros E. apply app_eq_nil in E. destruct E as [_ E]. discriminate.
    + cbn. discriminate.
Qed.

(* a parameter with type and no prose *)
Lemma emit_param_nodoc : forall style name p t,
    str_eqb name return_type_name = false ->
    p_typ p = Has t -> t <> [] -> p_doc p = Missing ->
    emit_param style name p
    = Ok (match style with
          | SGoogle => L "  " ++ name ++ L " (" ++ t ++ L "): "
          | SNumpydoc => name ++ L " : " ++ t
          end).
Proof.
  intros style name p t Hn Ht Htne Hd.
  unfold emit_param. rewrite Hn, Ht, Hd, (truthy_Has t Htne). cbn [truthy_fld bind]. destruct style.
  - rewrite filter_join_one; [reflexivity|cbn; discriminate].
  - rewrite filter_join_one; [reflexivity|].
    intros E. apply app_eq_nil in E. destruct E as [_ E]. discriminate.
Qed.

(* the return entry with type and prose *)
Lemma emit_param_return : forall style p t d d',
    p_typ p = Has t -> t <> [] -> p_doc p = Has d -> d <> [] ->
    doc_with_default return_type_name p = Ok d' -> head_nonspace d -> mem_c nl d' = false ->
    emit_param style return_type_name p
    = Ok (match style with
          | SGoogle => (L "  " ++ t ++ L ":") ++ nl :: L "   " ++ d'
          | SNumpydoc => t ++ nl :: tab ++ d'
          end).
Proof.
  intros style p t d d' Ht Htne Hd Hdne Hdd Hdh Hdnl.
  destruct (doc_with_default_prefix _ p d d' Hdd Hd) as [x Hx].
  assert (Hd'ne : d' <> []). { subst d'. apply app_nonnil_l. exact Hdne. }
  assert (Hd'h : head_nonspace d'). { subst d'. apply head_nonspace_app; assumption. }
  unfold emit_param. rewrite str_eqb_refl, Ht, Hd, (truthy_Has t Htne), (truthy_Has d Hdne), Hdd.
  cbn [bind]. destruct style.
  - rewrite filter_join_two; [|cbn; discriminate|discriminate].
    cbn [app]. repeat rewrite <- app_assoc. reflexivity.
  - rewrite (indent_single_line d' Hdnl Hd'ne Hd'h). rewrite filter_join_two.
    + reflexivity.
    + exact Htne.
    + cbn. discriminate.
Qed.

(* ------------------------------------------------------------------ *)
(* 8. the facts the guard gives about one entry, in usable form         *)
(* ------------------------------------------------------------------ *)

Lemma fld_in_alphabet_inv : forall f, fld_in_alphabet f = true ->
    f = Missing \/ exists s, f = Has s /\ s <> [] /\ forallb in_alphabet s = true.
Proof.
  intros [| |s] H; [left; reflexivity|discriminate|].
  right. exists s. cbn [fld_in_alphabet] in H. apply andb_true_iff in H. destruct H as [Ha Hne].
  split; [reflexivity|]. split; [|exact Ha]. destruct s; [discriminate|discriminate].
Qed.

Lemma gparam_in_domain_param : forall g, gparam_in_domain g = true ->
    exists p, param_of_gparam g = Some p /\ p_doc p = g_doc g /\ p_typ p = g_typ g
              /\ p_default p = sdefault g.
Proof.
  intros g H. unfold gparam_in_domain in H. apply andb_true_iff in H. destruct H as [_ Hd].
  unfold param_of_gparam, sdefault. destruct (g_default g) as [[v|e|r]|]; try discriminate.
  - eexists. split; [reflexivity|]. cbn. repeat split.
  - eexists. split; [reflexivity|]. cbn. repeat split.
Qed.

Definition entry_facts (style : ngstyle) (name : str) (g : gparam) (p : param) (t : str) : Prop :=
  param_of_gparam g = Some p /\ p_typ p = Has t /\ t <> [] /\ token_free t = true
  /\ type_shape_ok style t = true /\ p_default p = sdefault g
  /\ ((p_doc p = Missing /\ writes_default name g = false)
      \/ exists d d', p_doc p = Has d /\ d <> [] /\ clean_ends d = true /\ mem_c nl d = false
                      /\ no_announce d = true /\ token_free d = true
                      /\ optional_prefix d && negb (startswith (L "Optional[") t) = false
                      /\ doc_with_default name p = Ok d' /\ written_shape_ok style d' = true).

Lemma entry_facts_of_guard : forall style name g,
    gparam_in_domain g = true -> entry_class style name g = None ->
    exists p t, entry_facts style name g p t.
Proof.
  intros style name g Hdom Hcls.
  destruct (gparam_in_domain_param g Hdom) as [p [Hp [Hpd [Hpt Hpdef]]]].
  apply entry_class_text_ok in Hcls. unfold entry_text_ok in Hcls.
  apply andb_true_iff in Hcls. destruct Hcls as [Htf Hcls].
  unfold gparam_token_free in Htf. apply andb_true_iff in Htf. destruct Htf as [Htfd Htft].
  unfold gparam_in_domain in Hdom. apply andb_true_iff in Hdom. destruct Hdom as [Hdom _].
  apply andb_true_iff in Hdom. destruct Hdom as [Had Hat].
  destruct (fld_in_alphabet_inv _ Hat) as [Et | [t [Et [Htne _]]]].
  { rewrite Et in Hcls. discriminate. }
  rewrite Et in Hcls. cbn [fget] in Hcls. rewrite Et in Htft. cbn [fld_all] in Htft.
  apply andb_true_iff in Hcls. destruct Hcls as [Hts Hcls].
  exists p, t. unfold entry_facts. split; [exact Hp|]. split; [congruence|]. split; [exact Htne|].
  split; [exact Htft|]. split; [exact Hts|]. split; [exact Hpdef|].
  destruct (fld_in_alphabet_inv _ Had) as [Ed | [d [Ed [Hdne _]]]].
  - left. rewrite Ed in Hcls. cbn [fget] in Hcls. apply negb_true_iff in Hcls.
    split; [congruence|exact Hcls].
  - right. rewrite Ed in Hcls. cbn [fget] in Hcls. rewrite Ed in Htfd. cbn [fld_all] in Htfd.
    apply andb_true_iff in Hcls. destruct Hcls as [Hcls Hw].
    apply andb_true_iff in Hcls. destruct Hcls as [Hcls Hopt].
    apply andb_true_iff in Hcls. destruct Hcls as [Hps Hna].
    unfold prose_shape_ok in Hps. apply andb_true_iff in Hps. destruct Hps as [Hce Hnl].
    apply negb_true_iff in Hnl. apply negb_true_iff in Hopt.
    unfold written_doc in Hw. rewrite Hp in Hw. rewrite Hpd, Ed in Hw.
    rewrite (truthy_Has d Hdne) in Hw.
    destruct (doc_with_default name p) as [d'|e] eqn:Hdd; [|discriminate].
    apply andb_true_iff in Hw. destruct Hw as [Hw _].
    exists d, d'. repeat split; try assumption. congruence.
Qed.

Lemma is_ident_no_char : forall s c, is_ident s = true -> is_id_char c = false -> mem_c c s = false.
Proof.
  intros s c H Hc. unfold is_ident in H. destruct s as [|x s]; [discriminate|].
  apply andb_true_iff in H. destruct H as [_ H].
  destruct (mem_c c (x :: s)) eqn:E; [|reflexivity].
  apply mem_c_In in E. rewrite forallb_forall in H. specialize (H c E). congruence.
Qed.

Lemma is_ident_nonnil : forall s, is_ident s = true -> s <> [].
Proof. intros [|x s] H; [discriminate|discriminate]. Qed.

Lemma token_free_In : forall s t, token_free s = true -> In t all_tokens -> free t s.
Proof.
  intros s t H Hin. unfold token_free in H. rewrite forallb_forall in H.
  specialize (H t Hin). apply negb_true_iff in H. exact H.
Qed.

(* tokens foreign to a style: their presence would make the text be read as another style *)
Definition foreign_tokens (style : ngstyle) : list str :=
  match style with
  | SGoogle => Extracted.rest_tokens
  | SNumpydoc => Extracted.rest_tokens ++ Extracted.google_tokens
  end.

Lemma foreign_in_all : forall style t, In t (foreign_tokens style) -> In t all_tokens.
Proof.
  intros style t H. unfold all_tokens. destruct style; cbn [foreign_tokens] in H.
  - apply in_or_app. left. exact H.
  - apply in_app_or in H. destruct H as [H|H].
    + apply in_or_app. left. exact H.
    + apply in_or_app. right. apply in_or_app. left. exact H.
Qed.

Lemma foreign_props_google : forall style t, In t (foreign_tokens style) -> tok_props_google t = true.
Proof.
  intros style t H. pose proof rest_tokens_props as Hr. pose proof google_tokens_props as Hg.
  rewrite forallb_forall in Hr, Hg. destruct style; cbn [foreign_tokens] in H.
  - apply tok_props_rest_google. apply Hr. exact H.
  - apply in_app_or in H. destruct H as [H|H].
    + apply tok_props_rest_google. apply Hr. exact H.
    + apply Hg. exact H.
Qed.

Lemma foreign_props_rest : forall t, In t (foreign_tokens SGoogle) -> tok_props_rest t = true.
Proof.
  intros t H. pose proof rest_tokens_props as Hr. rewrite forallb_forall in Hr. apply Hr. exact H.
Qed.

Lemma written_shape_inv : forall style d', written_shape_ok style d' = true ->
    token_free d' = true /\ mem_c nl d' = false.
Proof.
  intros style d' H. unfold written_shape_ok in H.
  apply andb_true_iff in H. destruct H as [H _].
  apply andb_true_iff in H. destruct H as [H _].
  apply andb_true_iff in H. destruct H as [Ht Hn]. apply negb_true_iff in Hn. split; assumption.
Qed.

Lemma written_shape_clean : forall style d', written_shape_ok style d' = true -> clean_ends d' = true.
Proof.
  intros style d' H. unfold written_shape_ok in H.
  apply andb_true_iff in H. destruct H as [H _].
  apply andb_true_iff in H. destruct H as [_ H]. exact H.
Qed.

Lemma colon_not_id_char : is_id_char (ch 58) = false.
Proof. reflexivity. Qed.

(* THE LINE LEMMA: under the guard, emit_param writes a line of the expected form that contains no token foreign
   to the style *)
Lemma emit_param_line_free : forall style name g p t tok,
    str_eqb name return_type_name = false -> is_ident name = true ->
    entry_facts style name g p t -> In tok (foreign_tokens style) ->
    exists line, emit_param style name p = Ok line /\ free tok line.
Proof.
  intros style name g p t tok Hnr Hid [Hp [Ht [Htne [Httf [Hts [Hpdef Hdoc]]]]]] Hin.
  pose proof (foreign_props_google style tok Hin) as Hpg.
  unfold tok_props_google in Hpg.
  apply andb_true_iff in Hpg. destruct Hpg as [Hpg Hlen].
  apply andb_true_iff in Hpg. destruct Hpg as [Hpg H58].
  apply andb_true_iff in Hpg. destruct Hpg as [Hsp Hnl].
  apply negb_true_iff in Hsp. apply negb_true_iff in Hnl. apply Nat.ltb_lt in Hlen.
  assert (Hfn : free tok name).
  { apply (free_missing_char tok name (ch 58) H58).
    apply is_ident_no_char; [exact Hid|exact colon_not_id_char]. }
  assert (Hft : free tok t) by (apply token_free_In; [exact Httf|apply (foreign_in_all style); exact Hin]).
  destruct Hdoc as [[Hd Hw] | [d [d' [Hd [Hdne [Hce [Hdnl [Hna [Hdtf [Hopt [Hdd Hws]]]]]]]]]]].
  - rewrite (emit_param_nodoc style name p t Hnr Ht Htne Hd). eexists. split; [reflexivity|].
    destruct style.
    + pose proof (foreign_props_rest tok Hin) as Hpr. unfold tok_props_rest in Hpr.
      repeat (apply andb_true_iff in Hpr; destruct Hpr as [Hpr ?]).
      replace (L "  " ++ name ++ L " (" ++ t ++ L "): ") with (L "  " ++ name ++ L " (" ++ t ++ L "): " ++ [])
        by (rewrite app_nil_r; reflexivity).
      apply free_google_param; try assumption.
      * apply negb_true_iff. assumption.
      * apply negb_true_iff. assumption.
      * apply free_nil. intros E. subst tok. cbn in Hlen. lia.
    + apply free_numpydoc_head; assumption.
  - destruct (written_shape_inv style d' Hws) as [Hd'tf Hd'nl].
    destruct (clean_ends_inv d Hce) as [Hdh _].
    rewrite (emit_param_doc style name p t d d' Hnr Ht Htne Hd Hdne Hdd Hdh Hd'nl).
    eexists. split; [reflexivity|].
    assert (Hfd : free tok d') by (apply token_free_In; [exact Hd'tf|apply (foreign_in_all style); exact Hin]).
    destruct style.
    + pose proof (foreign_props_rest tok Hin) as Hpr. unfold tok_props_rest in Hpr.
      repeat (apply andb_true_iff in Hpr; destruct Hpr as [Hpr ?]).
      apply free_google_param; try assumption.
      * apply negb_true_iff. assumption.
      * apply negb_true_iff. assumption.
    + apply free_numpydoc_param; assumption.
Qed.

(* ------------------------------------------------------------------ *)
(* 9. the guard, unpacked                                               *)
(* ------------------------------------------------------------------ *)

Definition returns_ok (style : ngstyle) (ps : list (str * gparam)) (r : fld gparam) : Prop :=
  match r with
  | Has g => gparam_token_free g = true
             /\ (exists t d, fget (g_typ g) = Some t /\ fget (g_doc g) = Some d)
             /\ entry_class style return_type_name g = None
             /\ existsb (fun np => writes_default (fst np) (snd np)) ps
                && negb (writes_default return_type_name g) = false
  | _ => True
  end.

Lemma finding_class_None_inv : forall style i,
    finding_class_C01_ng style i = None ->
    fld_all token_free (ir_doc i) = true /\ fld_all clean_ends (ir_doc i) = true
    /\ (style = SGoogle -> ir_params i <> [])
    /\ Forall (fun np => entry_class style (fst np) (snd np) = None
                         /\ kwargs_class (fst np) (snd np) = None) (ir_params i)
    /\ defaults_monotone false (ir_params i) = true
    /\ returns_ok style (ir_params i) (ir_returns i).
Proof.
  intros style i H. unfold finding_class_C01_ng in H. cbv zeta in H.
  destruct (fld_all token_free (ir_doc i)); cbn [negb] in H; [|discriminate].
  destruct (fld_all clean_ends (ir_doc i)); cbn [negb] in H; [|discriminate].
  split; [reflexivity|]. split; [reflexivity|].
  assert (Hmain :
            match first_class (fun np => match entry_class style (fst np) (snd np) with
                                         | Some k => Some k
                                         | None => kwargs_class (fst np) (snd np)
                                         end) (ir_params i) with
            | Some k => Some k
            | None =>
              if negb (defaults_monotone false (ir_params i)) then Some N_default_then_none
              else match ir_returns i with
                   | Has r =>
                     if negb (gparam_token_free r) then Some N_text_token
                     else match fget (g_typ r), fget (g_doc r) with
                          | Some _, Some _ =>
                            match entry_class style return_type_name r with
                            | Some k => Some k
                            | None => if existsb (fun np => writes_default (fst np) (snd np)) (ir_params i)
                                         && negb (writes_default return_type_name r)
                                      then Some N_return_after_default else None
                            end
                          | _, _ => Some N_return_partial
                          end
                   | _ => None
                   end
            end = None
            /\ (style = SGoogle -> ir_params i <> [])).
  { destruct style; [|split; [exact H|discriminate]].
    destruct (ir_params i) as [|np ps]; [destruct (ir_returns i); discriminate|].
    split; [exact H|]. intros _. discriminate. }
  clear H. destruct Hmain as [H Hne]. split; [exact Hne|].
  destruct (first_class _ (ir_params i)) eqn:Hfc; [discriminate|].
  apply first_class_None in Hfc.
  split.
  { eapply Forall_impl; [|exact Hfc]. intros np Hnp. cbv beta in Hnp.
    destruct (entry_class style (fst np) (snd np)); [discriminate|]. split; [reflexivity|exact Hnp]. }
  destruct (defaults_monotone false (ir_params i)); cbn [negb] in H; [|discriminate].
  split; [reflexivity|].
  unfold returns_ok. destruct (ir_returns i) as [| |r]; [exact I|exact I|].
  destruct (gparam_token_free r); cbn [negb] in H; [|discriminate].
  split; [reflexivity|].
  destruct (fget (g_typ r)) as [t|]; [|discriminate].
  destruct (fget (g_doc r)) as [d|]; [|discriminate].
  split; [exists t, d; split; reflexivity|].
  destruct (entry_class style return_type_name r); [discriminate|]. split; [reflexivity|].
  destruct (existsb _ (ir_params i) && negb (writes_default return_type_name r)); [discriminate|reflexivity].
Qed.

(* ------------------------------------------------------------------ *)
(* 10. the whole text: no token foreign to the style                    *)
(* ------------------------------------------------------------------ *)

Lemma emit_return_line_free : forall style g p t tok,
    entry_facts style return_type_name g p t -> (exists d, p_doc p = Has d) ->
    In tok (foreign_tokens style) ->
    exists line, emit_param style return_type_name p = Ok line /\ free tok line.
Proof.
  intros style g p t tok [Hp [Ht [Htne [Httf [Hts [Hpdef Hdoc]]]]]] [d0 Hd0] Hin.
  pose proof (foreign_props_google style tok Hin) as Hpg.
  unfold tok_props_google in Hpg.
  apply andb_true_iff in Hpg. destruct Hpg as [Hpg Hlen].
  apply andb_true_iff in Hpg. destruct Hpg as [Hpg H58].
  apply andb_true_iff in Hpg. destruct Hpg as [Hsp Hnl].
  apply negb_true_iff in Hsp. apply negb_true_iff in Hnl. apply Nat.ltb_lt in Hlen.
  assert (Hft : free tok t) by (apply token_free_In; [exact Httf|apply (foreign_in_all style); exact Hin]).
  destruct Hdoc as [[Hd Hw] | [d [d' [Hd [Hdne [Hce [Hdnl [Hna [Hdtf [Hopt [Hdd Hws]]]]]]]]]]];
    [congruence|].
  destruct (written_shape_inv style d' Hws) as [Hd'tf Hd'nl].
  destruct (clean_ends_inv d Hce) as [Hdh _].
  rewrite (emit_param_return style p t d d' Ht Htne Hd Hdne Hdd Hdh Hd'nl).
  eexists. split; [reflexivity|].
  assert (Hfd : free tok d') by (apply token_free_In; [exact Hd'tf|apply (foreign_in_all style); exact Hin]).
  destruct style.
  - pose proof (foreign_props_rest tok Hin) as Hpr. unfold tok_props_rest in Hpr.
    apply andb_true_iff in Hpr. destruct Hpr as [Hpr Hlast].
    apply negb_true_iff in Hlast.
    apply free_google_return; try assumption.
    intros E. apply endswith_single in E. congruence.
  - apply free_numpydoc_return; assumption.
Qed.

Lemma map_o_exists : forall {A B} (f : A -> outcome B) (Q : B -> Prop) l,
    Forall (fun x => exists y, f x = Ok y /\ Q y) l ->
    exists l', map_o f l = Ok l' /\ Forall Q l' /\ List.length l' = List.length l.
Proof.
  intros A B f Q l H. induction H as [|x r [y [Hy Qy]] Hr [l' [Hl' [HQ Hlen]]]].
  - exists []. repeat split. constructor.
  - exists (y :: l'). cbn [map_o]. rewrite Hy. cbn [bind]. rewrite Hl'. cbn [bind].
    split; [reflexivity|]. split; [constructor; assumption|cbn; lia].
Qed.

Lemma section_tokens_foreign_free : forall style,
    forallb (fun tok => negb (contains tok (nth 0 (arg_tokens_of style) []))
                        && negb (contains tok (nth 0 (return_tokens_of style) [])))
            (foreign_tokens style) = true.
Proof. intros []; vm_compute; reflexivity. Qed.

Lemma in_domain_ng_inv : forall i, in_domain_ng i = true ->
    (exists d, ir_doc i = Has d)
    /\ Forall (fun np => is_ident (fst np) = true /\ str_eqb (fst np) return_type_name = false
                         /\ gparam_in_domain (snd np) = true) (ir_params i)
    /\ uniq (map fst (ir_params i)) = true
    /\ (forall g, ir_returns i = Has g -> gparam_in_domain g = true).
Proof.
  intros i H. unfold in_domain_ng in H.
  apply andb_true_iff in H. destruct H as [H Hr].
  apply andb_true_iff in H. destruct H as [H Hu].
  apply andb_true_iff in H. destruct H as [Hd Hp].
  split. { destruct (ir_doc i) as [| |d]; try discriminate. exists d. reflexivity. }
  split.
  { apply Forall_forall. intros np Hin. rewrite forallb_forall in Hp. specialize (Hp np Hin).
    apply andb_true_iff in Hp. destruct Hp as [Hp Hg].
    apply andb_true_iff in Hp. destruct Hp as [Hid Hn]. apply negb_true_iff in Hn.
    repeat split; assumption. }
  split; [exact Hu|].
  intros g Hg. rewrite Hg in Hr. exact Hr.
Qed.

(* THE TEXT THEOREM: for an IR inside the guard the specification printer produces a text, and that text contains
   no section token of a style that takes precedence over (or competes with) the style it was written in:
   no ReST token in google text; no ReST and no google token in numpydoc text.  Any number of parameters. *)
Theorem text_foreign_free : forall style i,
    guard_C01_ng style i = true ->
    exists text, text_of_o style i = Ok text
                 /\ (forall tok, In tok (foreign_tokens style) -> free tok text)
                 /\ (ir_params i <> [] -> contains (nth 0 (arg_tokens_of style) []) text = true).
Proof.
  intros style i Hg. unfold guard_C01_ng in Hg. apply andb_true_iff in Hg. destruct Hg as [Hdom Hcls].
  destruct (finding_class_C01_ng style i) eqn:Hfc; [discriminate|]. clear Hcls.
  destruct (finding_class_None_inv style i Hfc) as [Hdtf [_ [_ [Hps [_ Hret]]]]].
  destruct (in_domain_ng_inv i Hdom) as [[doc Hdoc] [Hpd [_ Hrd]]].
  rewrite Hdoc in Hdtf. cbn [fld_all] in Hdtf.
  (* every parameter line *)
  assert (Hlines : Forall (fun np => exists line,
                               (do p <- scalar_param (snd np); emit_param style (fst np) p) = Ok line
                               /\ forall tok, In tok (foreign_tokens style) -> free tok line)
                          (ir_params i)).
  { apply Forall_forall. intros [name g] Hin.
    rewrite Forall_forall in Hps, Hpd.
    destruct (Hps _ Hin) as [Hec _]. destruct (Hpd _ Hin) as [Hid [Hnr Hgd]].
    cbn [fst snd] in *.
    destruct (entry_facts_of_guard style name g Hgd Hec) as [p [t Hef]].
    assert (Hsp : scalar_param g = Ok p).
    { unfold scalar_param. destruct Hef as [Hp _]. rewrite Hp. reflexivity. }
    rewrite Hsp. cbn [bind].
    destruct (foreign_tokens style) as [|tok0 toks] eqn:Eft.
    - destruct Hef as [Hp [Ht [Htne [Httf [Hts [Hpdef Hdc]]]]]].
      destruct Hdc as [[Hd Hw] | [d [d' [Hd [Hdne [Hce [Hdnl [Hna [Hdtf' [Hopt [Hdd Hws]]]]]]]]]]].
      + rewrite (emit_param_nodoc style name p t Hnr Ht Htne Hd). eexists. split; [reflexivity|].
        intros tok [].
      + destruct (written_shape_inv style d' Hws) as [_ Hd'nl].
        destruct (clean_ends_inv d Hce) as [Hdh _].
        rewrite (emit_param_doc style name p t d d' Hnr Ht Htne Hd Hdne Hdd Hdh Hd'nl).
        eexists. split; [reflexivity|]. intros tok [].
    - assert (Hin0 : In tok0 (foreign_tokens style)) by (rewrite Eft; left; reflexivity).
      destruct (emit_param_line_free style name g p t tok0 Hnr Hid Hef Hin0) as [line [Hline _]].
      exists line. split; [exact Hline|]. intros tok Htok. rewrite <- Eft in Htok.
      destruct (emit_param_line_free style name g p t tok Hnr Hid Hef Htok) as [line' [Hline' Hfree]].
      rewrite Hline in Hline'. injection Hline' as E. subst line'. exact Hfree. }
  destruct (map_o_exists _ _ _ Hlines) as [lines [Hmap [Hfree Hlen_lines]]].
  (* the return entry *)
  assert (Hretl : exists ret,
             match ir_returns i with
             | Has g => do p <- scalar_param g;
                        do l <- emit_param style return_type_name p;
                        Ok (nl :: nth 0 (return_tokens_of style) [] ++ nl :: l)
             | _ => Ok []
             end = Ok ret
             /\ forall tok, In tok (foreign_tokens style) -> free tok ret).
  { destruct (ir_returns i) as [| |g] eqn:Er.
    - exists []. split; [reflexivity|]. intros tok Hin. apply free_nil.
      pose proof (foreign_props_google style tok Hin) as Hp. intros E. subst tok. discriminate.
    - exists []. split; [reflexivity|]. intros tok Hin. apply free_nil.
      pose proof (foreign_props_google style tok Hin) as Hp. intros E. subst tok. discriminate.
    - cbn [returns_ok] in Hret. destruct Hret as [_ [[t0 [d0 [Ht0 Hd0]]] [Hec _]]].
      pose proof (Hrd g eq_refl) as Hgd.
      destruct (entry_facts_of_guard style return_type_name g Hgd Hec) as [p [t Hef]].
      assert (Hsp : scalar_param g = Ok p).
      { unfold scalar_param. destruct Hef as [Hp _]. rewrite Hp. reflexivity. }
      assert (Hpdoc : exists d, p_doc p = Has d).
      { destruct (gparam_in_domain_param g Hgd) as [p' [Hp' [Hpd' _]]].
        destruct Hef as [Hp _]. rewrite Hp in Hp'. injection Hp' as E. subst p'.
        rewrite Hpd'. destruct (g_doc g) as [| |d]; try discriminate. exists d. reflexivity. }
      rewrite Hsp. cbn [bind].
      assert (Hone : forall tok, In tok (foreign_tokens style) ->
                                 exists line, emit_param style return_type_name p = Ok line /\ free tok line).
      { intros tok Hin. apply (emit_return_line_free style g p t tok Hef Hpdoc Hin). }
      destruct (foreign_tokens style) as [|tok0 toks] eqn:Eft.
      + exfalso. destruct style; discriminate Eft.
      + destruct (Hone tok0 (or_introl eq_refl)) as [line [Hline _]].
        rewrite Hline. cbn [bind]. eexists. split; [reflexivity|].
        intros tok Hin. destruct (Hone tok Hin) as [line' [Hline' Hfl]].
        rewrite Hline in Hline'. injection Hline' as E. subst line'.
        rewrite <- Eft in Hin.
        pose proof (foreign_props_google style tok Hin) as Hpg. unfold tok_props_google in Hpg.
        apply andb_true_iff in Hpg. destruct Hpg as [Hpg Hlen].
        apply andb_true_iff in Hpg. destruct Hpg as [Hpg H58].
        apply andb_true_iff in Hpg. destruct Hpg as [Hsp' Hnl].
        apply negb_true_iff in Hnl.
        pose proof (section_tokens_foreign_free style) as Hsec. rewrite forallb_forall in Hsec.
        specialize (Hsec tok Hin). apply andb_true_iff in Hsec. destruct Hsec as [_ Hrt].
        apply negb_true_iff in Hrt.
        apply contains_cons_notin; [exact Hnl|]. apply contains_sep; [exact Hnl|exact Hrt|exact Hfl]. }
  destruct Hretl as [ret [Hret' Hretfree]].
  unfold text_of_o. rewrite Hdoc. cbn [bind]. rewrite Hmap. cbn [bind]. rewrite Hret'. cbn [bind].
  eexists. split; [reflexivity|]. split.
  2:{ intros Hpne. destruct lines as [|l ls].
      - destruct (ir_params i); [contradiction|discriminate Hlen_lines].
      - set (A := nth 0 (arg_tokens_of style) []).
        assert (Ej : exists rest, join [nl] (A :: l :: ls) = A ++ rest).
        { eexists. cbn [join]. reflexivity. }
        destruct Ej as [rest Ej]. rewrite Ej.
        change (nl :: doc ++ [nl; nl; nl] ++ (A ++ rest) ++ [nl] ++ ret ++ [nl]
                   ++ match style with SGoogle => [] | SNumpydoc => [nl] end)
          with ((nl :: doc) ++ [nl; nl; nl] ++ (A ++ rest) ++ [nl] ++ ret ++ [nl]
                   ++ match style with SGoogle => [] | SNumpydoc => [nl] end).
        rewrite (app_assoc (nl :: doc) [nl; nl; nl]). rewrite <- (app_assoc A rest).
        apply contains_app_mid. }
  intros tok Hin.
  pose proof (foreign_props_google style tok Hin) as Hpg. unfold tok_props_google in Hpg.
  apply andb_true_iff in Hpg. destruct Hpg as [Hpg Hlen].
  apply andb_true_iff in Hpg. destruct Hpg as [Hpg H58].
  apply andb_true_iff in Hpg. destruct Hpg as [Hsp' Hnl].
  apply negb_true_iff in Hnl. apply Nat.ltb_lt in Hlen.
  assert (Hne : tok <> []) by (intros E; subst tok; cbn in Hlen; lia).
  pose proof (section_tokens_foreign_free style) as Hsec. rewrite forallb_forall in Hsec.
  specialize (Hsec tok Hin). apply andb_true_iff in Hsec. destruct Hsec as [Hat _].
  apply negb_true_iff in Hat.
  assert (Hdocfree : free tok doc) by (apply token_free_In; [exact Hdtf|apply (foreign_in_all style); exact Hin]).
  assert (Hpl : free tok (join [nl] match lines with [] => [] | _ => nth 0 (arg_tokens_of style) [] :: lines end)).
  { apply free_join_nl; [exact Hnl|exact Hne|].
    destruct lines as [|l ls]; [constructor|]. constructor; [exact Hat|].
    eapply Forall_impl; [|exact Hfree]. intros a Ha. apply Ha. exact Hin. }
  assert (Htail : free tok (match style with SNumpydoc => [nl] | SGoogle => [] end)).
  { destruct style; [apply free_nil; exact Hne|apply free_single; exact Hlen]. }
  apply contains_cons_notin; [exact Hnl|].
  cbn [app].
  apply contains_sep; [exact Hnl|exact Hdocfree|].
  apply contains_cons_notin; [exact Hnl|]. apply contains_cons_notin; [exact Hnl|].
  apply contains_sep; [exact Hnl|exact Hpl|].
  apply contains_sep; [exact Hnl|apply Hretfree; exact Hin|exact Htail].
Qed.

Lemma existsb_false : forall {A} (f : A -> bool) l, (forall x, In x l -> f x = false) -> existsb f l = false.
Proof.
  intros A f l H. induction l as [|x r IH]; [reflexivity|].
  cbn [existsb]. rewrite (H x (or_introl eq_refl)). cbn [orb]. apply IH.
  intros y Hy. apply H. right. exact Hy.
Qed.

Lemma arg_token_google_is_google_token : In (nth 0 (arg_tokens_of SGoogle) []) Extracted.google_tokens.
Proof. vm_compute. left. reflexivity. Qed.

(* STYLE DETECTION IS CORRECT on the texts of guard IRs: text written in google style is read as google, text
   written in numpydoc style as numpydoc, never as ReST; any number of parameters *)
Theorem detect_style_guard : forall style i,
    guard_C01_ng style i = true ->
    exists text, text_of_o style i = Ok text /\ detect_style text = style3_of style.
Proof.
  intros style i Hg.
  destruct (text_foreign_free style i Hg) as [text [Htext [Hfree Hargs]]].
  exists text. split; [exact Htext|].
  unfold detect_style.
  assert (Hrest : existsb (fun t => contains t text) Extracted.rest_tokens = false).
  { apply existsb_false. intros t Ht. apply Hfree. destruct style; cbn [foreign_tokens].
    - exact Ht.
    - apply in_or_app. left. exact Ht. }
  rewrite Hrest. destruct style; cbn [style3_of].
  - assert (Hg' : existsb (fun t => contains t text) Extracted.google_tokens = true).
    { apply existsb_exists. exists (nth 0 (arg_tokens_of SGoogle) []).
      split; [exact arg_token_google_is_google_token|]. apply Hargs.
      unfold guard_C01_ng in Hg. apply andb_true_iff in Hg. destruct Hg as [_ Hcls].
      destruct (finding_class_C01_ng SGoogle i) eqn:Hfc; [discriminate|].
      destruct (finding_class_None_inv SGoogle i Hfc) as [_ [_ [Hne _]]]. apply Hne. reflexivity. }
    rewrite Hg'. reflexivity.
  - assert (Hg' : existsb (fun t => contains t text) Extracted.google_tokens = false).
    { apply existsb_false. intros t Ht. apply Hfree. cbn [foreign_tokens]. apply in_or_app. right. exact Ht. }
    rewrite Hg'. reflexivity.
Qed.

(* ------------------------------------------------------------------ *)
(* 11. blocks to IR: one entry through _parse, interpolate_defaults,    *)
(*     _set_name_and_type                                               *)
(* ------------------------------------------------------------------ *)
From DT Require Import DefaultsFacts.

Lemma coerce_not_None : forall t v w, coerce t v = Ok w -> w <> VNone.
Proof.
  intros t v w H. unfold coerce in H.
  destruct (str_eqb t (L "bool")); [injection H as H; subst; discriminate|].
  destruct (str_eqb t (L "str")); [injection H as H; subst; discriminate|].
  destruct (str_eqb t (L "int")).
  { destruct v as [|b|z|r|s]; try discriminate.
    - injection H as H; subst; discriminate.
    - injection H as H; subst; discriminate.
    - apply bind_Ok_inv' in H. destruct H as [z [_ H]]. injection H as H; subst; discriminate.
    - destruct (Z_of_dec_signed (strip s)); [injection H as H; subst; discriminate|discriminate]. }
  destruct (str_eqb t (L "float")); [|discriminate].
  destruct v as [|b|z|r|s]; try discriminate.
  - injection H as H; subst; discriminate.
  - apply bind_Ok_inv' in H. destruct H as [z' [_ H]]. injection H as H; subst; discriminate.
  - injection H as H; subst; discriminate.
  - apply bind_Ok_inv' in H. destruct H as [z' [_ H]]. injection H as H; subst; discriminate.
Qed.

Lemma coerce_default_not_None : forall typ s w, coerce_default typ s = Ok w -> w <> VNone.
Proof.
  intros typ s w H. unfold coerce_default in H. cbv zeta in H.
  destruct (match typ with Some t => in_simple_types t && negb (in_none_types (VStr s)) | None => false end).
  - destruct typ as [t|]; [|discriminate].
    apply bind_Ok_inv' in H. destruct H as [lit [_ H]]. apply (coerce_not_None _ _ _ H).
  - destruct (isdecimal s); [injection H as H; subst; discriminate|].
    destruct (signed_decimal s).
    { destruct (Z_of_dec_signed s); [injection H as H; subst; discriminate|discriminate]. }
    destruct (str_eqb s (L "True")); [injection H as H; subst; discriminate|].
    destruct (str_eqb s (L "False")); [injection H as H; subst; discriminate|].
    destruct (float_of_str s) as [r|e].
    + injection H as H; subst; discriminate.
    + destruct e; try discriminate. injection H as H; subst; discriminate.
Qed.

Lemma extract_default_not_None : forall line rs ann typ emit l w,
    extract_default line rs ann typ emit = Ok (l, Some w) -> w <> VNone.
Proof.
  intros line rs ann typ emit l w H. unfold extract_default in H.
  destruct (location_within casefold line ann) as [[[s e] f]|]; [|discriminate].
  cbv zeta in H. apply bind_Ok_inv' in H. destruct H as [v [Hv H]].
  apply coerce_default_not_None in Hv.
  destruct emit; injection H as _ H; subst; exact Hv.
Qed.

Lemma unquote_val_not_None : forall v, v <> VNone -> unquote_val v <> VNone.
Proof. intros [|b|z|r|s] H; try discriminate; contradiction. Qed.

(* the writing branch of set_default_doc does not look at the name *)
Lemma set_default_doc_name_indep : forall name p v,
    p_default p = Some v ->
    negb (null_default v) || negb (endswith (L "kwargs") name) = true ->
    set_default_doc name p true = set_default_doc (L "x") p true.
Proof.
  intros name p v Hv Hw. unfold set_default_doc. destruct (p_doc p) as [| |doc]; try reflexivity.
  cbv zeta. rewrite Hv. rewrite !andb_false_r.
  destruct (negb (contains (L "Defaults") doc || contains (L "defaults") doc) && true); [|reflexivity].
  assert (Hn : negb (pyval_eqb (if pyval_eqb v (VStr NoneStr) then VNone else v) VNone) = negb (null_default v)).
  { unfold null_default. destruct (pyval_eqb v (VStr NoneStr)) eqn:E.
    - rewrite orb_true_r. reflexivity.
    - rewrite orb_false_r. reflexivity. }
  rewrite Hn. rewrite Hw. rewrite endswith_kwargs_x. cbn [negb]. rewrite orb_true_r. reflexivity.
Qed.

(* the C17 theorem, read for the line the emitter writes for a parameter called [name] *)
Lemma extract_written_default : forall name p d t v d',
    p_doc p = Has d -> p_typ p = Has t -> p_default p = Some v ->
    negb (null_default v) || negb (endswith (L "kwargs") name) = true ->
    guard_C17 ADefaultsTo d v (Some t) = true ->
    doc_with_default name p = Ok d' ->
    exists v', extract_default d' true default_announces (Some t) false = Ok (d, Some v')
               /\ same_default v v' = true.
Proof.
  intros name p d t v d' Hd Ht Hv Hw Hg Hdd.
  destruct (C17_partial_lemma _ _ _ _ Hg) as [line [Hr [_ [v' [He Hs]]]]].
  exists v'. split; [|exact Hs].
  assert (El : line = d').
  { unfold render in Hr. apply bind_Ok_inv' in Hr. destruct Hr as [p' [Hp' Hr]].
    unfold doc_with_default in Hdd. rewrite (set_default_doc_name_indep name p v Hv Hw) in Hdd.
    assert (Ep : mkParam (Has d) (fld_of_opt (Some t)) (Some v) = p).
    { cbn [fld_of_opt]. rewrite <- Hd, <- Ht, <- Hv. apply param_eta. }
    rewrite Ep in Hp'. rewrite Hp' in Hdd. cbn [bind] in Hdd.
    destruct (p_doc p') as [| |ln]; try discriminate.
    destruct (startswith (d ++ L " Defaults to ") ln); [|discriminate].
    injection Hr as Hr. injection Hdd as Hdd. congruence. }
  rewrite <- El. exact He.
Qed.

Lemma interpolate_written : forall name p d t v d' req,
    p_doc p = Has d -> p_typ p = Has t -> p_default p = Some v ->
    negb (null_default v) || negb (endswith (L "kwargs") name) = true ->
    guard_C17 ADefaultsTo d v (Some t) = true ->
    doc_with_default name p = Ok d' ->
    exists v', interpolate_force (mkParam (Has d') (Has t) None) req false
               = Ok (mkParam (Has d) (Has t) (Some (unquote_val v')), true)
               /\ same_default v v' = true /\ v' <> VNone.
Proof.
  intros name p d t v d' req Hd Ht Hv Hw Hg Hdd.
  destruct (extract_written_default name p d t v d' Hd Ht Hv Hw Hg Hdd) as [v' [He Hs]].
  pose proof (extract_default_not_None _ _ _ _ _ _ _ He) as Hnn.
  exists v'. split; [|split; [exact Hs|exact Hnn]].
  unfold interpolate_force, interpolate_defaults. cbn [p_doc p_typ p_default fget extract_default_fld].
  rewrite He. cbn [bind fst snd].
  destruct v' as [|b|z|r|s]; [contradiction| | | |];
    cbn [unquote_val p_default p_doc p_typ andb]; rewrite andb_false_r; cbn [bind];
      rewrite orb_true_r; reflexivity.
Qed.

Lemma no_announce_nil : no_announce [] = true.
Proof. reflexivity. Qed.

(* prose that announces nothing: interpolation leaves it alone; a forced default is the zero of the type *)
Lemma interpolate_plain : forall d t,
    no_announce d = true ->
    interpolate_force (mkParam (Has d) (Has t) None) false false = Ok (mkParam (Has d) (Has t) None, false)
    /\ (in_simple_types t = false ->
        interpolate_force (mkParam (Has d) (Has t) None) true false
        = Ok (mkParam (Has d) (Has t) (Some (VStr NoneStr)), true)).
Proof.
  intros d t Hna.
  pose proof (extract_default_no_announce d true (Some t) false Hna) as He.
  split.
  - unfold interpolate_force, interpolate_defaults. cbn [p_doc p_typ p_default fget extract_default_fld].
    rewrite He. cbn [bind fst snd p_default p_doc p_typ andb orb]. reflexivity.
  - intros Hsim. unfold interpolate_force, interpolate_defaults.
    cbn [p_doc p_typ p_default fget extract_default_fld].
    rewrite He. cbn [bind fst snd p_default p_doc p_typ andb orb]. rewrite Hsim.
    cbn [bind p_default orb]. reflexivity.
Qed.

(* word_wrap=True on one clean line is the identity *)
Lemma ww_norm_id : forall d, mem_c nl d = false -> clean_ends d = true ->
    rstrip (join [sp] (map strip (split [nl] d))) = d.
Proof.
  intros d Hnl Hce. destruct (clean_ends_inv d Hce) as [Hh Hl].
  change (split [nl] d) with (split_nl d). rewrite (split_nl_no_nl d Hnl). cbn [map join].
  rewrite (strip_id d Hh Hl). apply rstrip_id_last. exact Hl.
Qed.

(* the common tail of _set_name_and_type (google_opt rule, empty prose removal, word wrap, Optional rule) *)
Ltac snt_tail d t Htopt Hdnl Hdce Hopt :=
  cbn [bind fst snd p_typ p_doc p_default fget];
  rewrite Htopt;
  destruct d as [|c0 d0];
  [ reflexivity
  | cbv zeta; rewrite (ww_norm_id (c0 :: d0) Hdnl Hdce);
    unfold optional_prefix in Hopt;
    destruct (startswith (L "(Optional)") (c0 :: d0) || startswith (L "Optional") (c0 :: d0));
    [ cbn [andb] in Hopt; apply negb_false_iff in Hopt; rewrite Hopt; reflexivity
    | reflexivity ] ].

Definition doc_fld (d : str) : fld str := match d with [] => Missing | _ => Has d end.

(* _set_name_and_type on an ordinary name without default *)
Lemma snt_plain : forall name d t,
    kwargs_name name = false ->
    endswith google_opt t = false -> mem_c nl d = false -> clean_ends d = true ->
    optional_prefix d && negb (startswith (L "Optional[") t) = false ->
    set_name_and_type name (mkParam (Has d) (Has t) None) false false true
    = Ok (name, mkParam (doc_fld d) (Has t) None).
Proof.
  intros name d t Hkw Htopt Hdnl Hdce Hopt.
  unfold set_name_and_type. unfold kwargs_name in Hkw. rewrite Hkw.
  cbn [p_default]. snt_tail d t Htopt Hdnl Hdce Hopt.
Qed.

(* _set_name_and_type on a ...kwargs name: the default becomes NoneStr when there is none *)
Lemma snt_kwargs : forall name d t dflt,
    kwargs_name name = true -> startswith [ch 42] name = false -> str_eqb t (L "dict") = false ->
    (dflt = None \/ dflt = Some (VStr NoneStr)) ->
    endswith google_opt t = false -> mem_c nl d = false -> clean_ends d = true ->
    optional_prefix d && negb (startswith (L "Optional[") t) = false ->
    set_name_and_type name (mkParam (Has d) (Has t) dflt) false false true
    = Ok (name, mkParam (doc_fld d) (Has t) (Some (VStr NoneStr))).
Proof.
  intros name d t dflt Hkw Hstar Hdict Hdflt Htopt Hdnl Hdce Hopt.
  unfold set_name_and_type. unfold kwargs_name in Hkw. rewrite Hkw.
  cbn [p_default p_typ p_doc]. rewrite Hdict.
  assert (Hn : lstrip_chars [ch 42] name = name).
  { unfold lstrip_chars. apply lstrip_by_id. intros c Hc. destruct name as [|x name]; [discriminate|].
    injection Hc as Hc. subst x. cbn [startswith] in Hstar. rewrite andb_true_r in Hstar.
    cbn [mem_c existsb]. rewrite ascii_eqb_sym, Hstar. reflexivity. }
  rewrite Hn.
  destruct Hdflt as [E|E]; subst dflt; snt_tail d t Htopt Hdnl Hdce Hopt.
Qed.

Lemma none_strs_unquote : forall s, existsb (str_eqb s) Extracted.none_types_strs = true -> unquote s = s.
Proof.
  intros s H. apply existsb_exists in H. destruct H as [x [Hin Hx]]. apply str_eqb_eq in Hx. subst x.
  assert (Hall : forallb (fun s => str_eqb (unquote s) s) Extracted.none_types_strs = true)
    by (vm_compute; reflexivity).
  rewrite forallb_forall in Hall. apply str_eqb_eq. apply Hall. exact Hin.
Qed.

Lemma unquote_val_NoneStr : unquote_val (VStr NoneStr) = VStr NoneStr.
Proof. vm_compute. reflexivity. Qed.

Lemma in_none_types_NoneStr : in_none_types (VStr NoneStr) = true.
Proof. vm_compute. reflexivity. Qed.

(* the value _infer_default leaves in the IR, from the value extract_default found *)
Definition final_default (v' : pyval) : pyval :=
  let u := unquote_val v' in
  unquote_val (if in_none_types u then VStr NoneStr else u).

Lemma final_default_same : forall v v',
    same_default v v' = true -> v' <> VNone ->
    (forall s, v = VStr s -> null_default v = false -> unquote s = s) ->
    (pyval_eqb v (final_default v') || (in_none_types v && in_none_types (final_default v')) = true)
    /\ (in_none_types (unquote_val v') = false -> final_default v' = v)
    /\ (in_none_types (unquote_val v') = true -> final_default v' = VStr NoneStr).
Proof.
  intros v v' Hs Hnn Hq. unfold final_default. cbv zeta.
  split; [|split].
  - unfold same_default in Hs. apply orb_true_iff in Hs. destruct Hs as [Hs|Hs].
    + apply pyval_eqb_eq in Hs. rewrite <- Hs.
      destruct (in_none_types v) eqn:Hn.
      * rewrite unquote_val_NoneStr, in_none_types_NoneStr. cbn [andb]. apply orb_true_r.
      * assert (E : unquote_val v = v).
        { destruct v as [|b|z|r|s]; try reflexivity. cbn [unquote_val]. f_equal. apply (Hq s eq_refl).
          unfold null_default. apply orb_false_iff. split; [reflexivity|].
          destruct (pyval_eqb (VStr s) (VStr NoneStr)) eqn:E; [|reflexivity].
          apply pyval_eqb_eq in E. rewrite E in Hn. rewrite in_none_types_NoneStr in Hn. discriminate. }
        rewrite E, pyval_eqb_refl. reflexivity.
    + apply andb_true_iff in Hs. destruct Hs as [Hv Hv']. unfold none_like in *.
      assert (Eu : unquote_val v' = v').
      { destruct v' as [|b|z|r|s]; try reflexivity. cbn [unquote_val]. f_equal.
        apply none_strs_unquote. exact Hv'. }
      rewrite Eu, Hv'. rewrite unquote_val_NoneStr, in_none_types_NoneStr, Hv. apply orb_true_r.
  - intros Hn. rewrite Hn. unfold same_default in Hs. apply orb_true_iff in Hs. destruct Hs as [Hs|Hs].
    + apply pyval_eqb_eq in Hs. rewrite <- Hs. rewrite <- Hs in Hn.
      destruct v as [|b|z|r|s]; try reflexivity. cbn [unquote_val]. f_equal. apply (Hq s eq_refl).
      unfold null_default. apply orb_false_iff. split; [reflexivity|].
      destruct (pyval_eqb (VStr s) (VStr NoneStr)) eqn:E; [|reflexivity].
      apply pyval_eqb_eq in E. rewrite E in Hn. rewrite in_none_types_NoneStr in Hn. discriminate.
    + exfalso. apply andb_true_iff in Hs. destruct Hs as [_ Hv']. unfold none_like in Hv'.
      assert (Eu : unquote_val v' = v').
      { destruct v' as [|b|z|r|s]; try reflexivity. cbn [unquote_val]. f_equal.
        apply none_strs_unquote. exact Hv'. }
      rewrite Eu in Hn. congruence.
  - intros Hn. rewrite Hn. apply unquote_val_NoneStr.
Qed.

(* _set_name_and_type on an ordinary name carrying the default found by interpolation *)
Lemma snt_default : forall name d t u nq,
    kwargs_name name = false -> needs_quoting_ng (Some t) = Ok nq ->
    (let v2 := unquote_val (if in_none_types u then VStr NoneStr else u) in
     negb (pyval_eqb v2 (VStr NoneStr)) && code_quoted_val v2 = true -> contains [ch 91] t = true) ->
    endswith google_opt t = false -> mem_c nl d = false -> clean_ends d = true ->
    optional_prefix d && negb (startswith (L "Optional[") t) = false ->
    set_name_and_type name (mkParam (Has d) (Has t) (Some u)) false false true
    = Ok (name, mkParam (doc_fld d) (Has t)
                        (Some (unquote_val (if in_none_types u then VStr NoneStr else u)))).
Proof.
  intros name d t u nq Hkw Hnq Hcq Htopt Hdnl Hdce Hopt.
  unfold set_name_and_type. unfold kwargs_name in Hkw. rewrite Hkw.
  cbn [p_default]. unfold infer_default. cbn [p_typ p_doc fget andb]. cbv zeta. rewrite Hnq.
  cbn [bind]. cbv zeta in Hcq.
  destruct (negb (pyval_eqb (unquote_val (if in_none_types u then VStr NoneStr else u)) (VStr NoneStr))
            && code_quoted_val (unquote_val (if in_none_types u then VStr NoneStr else u))) eqn:Ec.
  - rewrite (Hcq eq_refl). snt_tail d t Htopt Hdnl Hdce Hopt.
  - snt_tail d t Htopt Hdnl Hdce Hopt.
Qed.

(* ------------------------------------------------------------------ *)
(* 12. one entry, end to end at the level of blocks                     *)
(* ------------------------------------------------------------------ *)

Lemma is_id_char_nonspace : forall c, is_id_char c = true -> isspace c = false.
Proof.
  intros [b0 b1 b2 b3 b4 b5 b6 b7].
  destruct b0, b1, b2, b3, b4, b5, b6, b7; vm_compute; intros H; try reflexivity; discriminate H.
Qed.

Lemma ident_facts : forall name, is_ident name = true ->
    name <> [] /\ head_nonspace name /\ last_nonspace name
    /\ mem_c (ch 58) name = false /\ mem_c (ch 40) name = false /\ startswith [ch 42] name = false.
Proof.
  intros name H. pose proof (is_ident_nonnil name H) as Hne.
  assert (Hall : forallb is_id_char name = true).
  { unfold is_ident in H. destruct name; [discriminate|]. apply andb_true_iff in H. apply H. }
  rewrite forallb_forall in Hall.
  split; [exact Hne|]. split.
  { intros c Hc. apply is_id_char_nonspace. apply Hall. destruct name as [|x r]; [discriminate|].
    injection Hc as Hc. subst. left. reflexivity. }
  split.
  { intros c Hc. apply is_id_char_nonspace. apply Hall. apply last_c_In. exact Hc. }
  split; [apply is_ident_no_char; [exact H|reflexivity]|].
  split; [apply is_ident_no_char; [exact H|reflexivity]|].
  destruct name as [|x r]; [reflexivity|]. cbn [startswith]. rewrite andb_true_r.
  destruct (ascii_eqb (ch 42) x) eqn:E; [|reflexivity].
  apply ascii_eqb_eq in E. subst x.
  assert (Hx : is_id_char (ch 42) = true) by (apply Hall; left; reflexivity). discriminate Hx.
Qed.

Lemma type_shape_inv : forall style t, type_shape_ok style t = true ->
    clean_ends t = true /\ endswith google_opt t = false
    /\ match style with
       | SGoogle => mem_c (ch 58) t = false /\ contains (L " or ") t = false
       | SNumpydoc => True
       end.
Proof.
  intros style t H. unfold type_shape_ok in H.
  apply andb_true_iff in H. destruct H as [H Hs].
  apply andb_true_iff in H. destruct H as [H Hopt].
  apply andb_true_iff in H. destruct H as [Hce _].
  apply negb_true_iff in Hopt. split; [exact Hce|]. split; [exact Hopt|].
  destruct style; [|exact I].
  apply andb_true_iff in Hs. destruct Hs as [H58 Hor].
  apply negb_true_iff in H58. apply negb_true_iff in Hor. split; assumption.
Qed.

Lemma written_shape_google_inv : forall d', written_shape_ok SGoogle d' = true ->
    clean_ends d' = true
    /\ Nat.ltb 3 (List.length d') && startswith [ch 123] d' && endswith [ch 125] d' = false
    /\ endswith [ch 58] d' = false.
Proof.
  intros d' H. pose proof (written_shape_clean SGoogle d' H) as Hce.
  unfold written_shape_ok in H. apply andb_true_iff in H. destruct H as [_ H].
  apply andb_true_iff in H. destruct H as [Hb Hc]. apply negb_true_iff in Hb. apply negb_true_iff in Hc.
  split; [exact Hce|]. split; assumption.
Qed.

(* _parse on the unit of a guard entry *)
Lemma parse_unit_entry : forall style name g p t,
    is_ident name = true -> entry_facts style name g p t ->
    exists dd, parse_unit style (unit_of_entry style name g) = PSome name (mkParam (Has dd) (Has t) None)
               /\ ((p_doc p = Missing /\ dd = [])
                   \/ (exists d, p_doc p = Has d /\ d <> [] /\ doc_with_default name p = Ok dd)).
Proof.
  intros style name g p t Hid [Hp [Ht [Htne [Httf [Hts [Hpdef Hdoc]]]]]].
  destruct (ident_facts name Hid) as [Hne [Hh [Hl [H58 [H40 _]]]]].
  destruct (type_shape_inv style t Hts) as [Htce [_ Hst]].
  destruct (clean_ends_inv t Htce) as [Hth _].
  assert (Egt : fget (g_typ g) = Some t).
  { unfold param_of_gparam in Hp. destruct (g_default g) as [[v|e|r]|]; try discriminate;
      injection Hp as Hp; subst p; cbn [p_typ] in Ht; rewrite Ht; reflexivity. }
  assert (Egd : p_doc p = g_doc g).
  { unfold param_of_gparam in Hp. destruct (g_default g) as [[v|e|r]|]; try discriminate;
      injection Hp as Hp; subst p; reflexivity. }
  unfold unit_of_entry. rewrite Egt. unfold written_doc. rewrite Hp.
  destruct Hdoc as [[Hd Hw] | [d [d' [Hd [Hdne [Hce [Hdnl [Hna [Hdtf [Hopt [Hdd Hws]]]]]]]]]]].
  - exists []. split; [|left; split; [exact Hd|reflexivity]].
    rewrite Hd. cbn [truthy_fld].
    destruct style; cbn [parse_unit].
    + destruct Hst as [Ht58 Hor].
      replace (L "  " ++ name ++ L " (" ++ t ++ L "): ") with (L "  " ++ name ++ L " (" ++ t ++ L "): " ++ [])
        by (rewrite app_nil_r; reflexivity).
      apply parse_google_param; try assumption.
      * intros c Hc. discriminate.
      * intros c Hc. discriminate.
      * reflexivity.
    + apply parse_numpydoc_param_nodoc; try assumption.
      * apply rstrip_id_last. exact Hl.
      * apply lstrip_id_head. exact Hth.
  - exists d'.
    split; [|right; exists d; repeat split; assumption].
    rewrite Hd, (truthy_Has d Hdne), Hdd.
    destruct (doc_with_default_prefix name p d d' Hdd Hd) as [x Hx].
    destruct (clean_ends_inv d Hce) as [Hdh _].
    assert (Hd'h : head_nonspace d') by (subst d'; apply head_nonspace_app; assumption).
    destruct style; cbn [parse_unit].
    + destruct Hst as [Ht58 Hor]. destruct (written_shape_google_inv d' Hws) as [Hd'ce [Hbrace _]].
      destruct (clean_ends_inv d' Hd'ce) as [_ Hd'l].
      apply parse_google_param; assumption.
    + apply parse_numpydoc_param; try assumption.
      * apply rstrip_id_last. exact Hl.
      * apply lstrip_id_head. exact Hth.
      * apply lstrip_id_head. exact Hd'h.
Qed.

(* what the guard says about a default that gets written *)
Lemma entry_class_default_facts : forall style name g t d,
    entry_class style name g = None ->
    fget (g_typ g) = Some t -> fget (g_doc g) = Some d -> writes_default name g = true ->
    exists v nq, sdefault g = Some v /\ needs_quoting_ng (Some t) = Ok nq
                 /\ finding_class_C17 ADefaultsTo d v (Some t) = None
                 /\ (forall s, v = VStr s -> null_default v = false ->
                               unquote s = s
                               /\ (str_eqb name return_type_name = false -> kwargs_name name = false ->
                                   code_quoted s = true -> contains [ch 91] t = true)).
Proof.
  intros style name g t d H Ht Hd Hw. unfold entry_class in H. rewrite Ht, Hd, Hw in H.
  destruct (negb (gparam_token_free g)); [discriminate|].
  destruct (negb (type_shape_ok style t)); [discriminate|].
  destruct (negb (prose_shape_ok style d)); [discriminate|].
  destruct (negb (no_announce d)); [discriminate|].
  destruct (optional_prefix d && negb (startswith (L "Optional[") t)); [discriminate|].
  destruct (sdefault g) as [v|] eqn:Hv.
  2:{ unfold writes_default in Hw. rewrite Hv in Hw. discriminate. }
  destruct (needs_quoting_ng (Some t)) as [nq|e] eqn:Hnq; [|discriminate].
  destruct (finding_class_C17 ADefaultsTo d v (Some t)) eqn:Hc; [discriminate|].
  exists v, nq. split; [reflexivity|]. split; [reflexivity|]. split; [exact Hc|].
  intros s Es Hnull. subst v. rewrite Hnull in H. cbn [negb] in H. rewrite !andb_true_r in H.
  destruct (str_eqb (unquote s) s) eqn:Eu; cbn [negb] in H; [|discriminate].
  split; [apply str_eqb_eq; exact Eu|].
  intros Hnr Hkw Hcq. rewrite Hnr, Hkw, Hcq in H. cbn [negb andb] in H.
  destruct (contains [ch 91] t); [reflexivity|discriminate].
Qed.

(* when no sentence is written the prose goes out as it is *)
Lemma doc_with_default_nowrite : forall name g p d,
    param_of_gparam g = Some p -> p_default p = sdefault g -> p_doc p = Has d ->
    writes_default name g = false -> doc_with_default name p = Ok d.
Proof.
  intros name g p d Hp Hpd Hd Hw. unfold doc_with_default, set_default_doc. rewrite Hd. cbv zeta.
  rewrite andb_false_r. rewrite Hpd. unfold writes_default in Hw.
  destruct (sdefault g) as [v|]; [|cbn [bind]; rewrite Hd; reflexivity].
  apply orb_false_iff in Hw. destruct Hw as [Hn Hk].
  apply negb_false_iff in Hn. apply negb_false_iff in Hk.
  destruct (negb (contains (L "Defaults") d || contains (L "defaults") d) && true);
    [|cbn [bind]; rewrite Hd; reflexivity].
  assert (E : (if pyval_eqb v (VStr NoneStr) then VNone else v) = VNone).
  { unfold null_default in Hn. apply orb_true_iff in Hn. destruct Hn as [Hn|Hn].
    - apply pyval_eqb_eq in Hn. subst v. reflexivity.
    - rewrite Hn. reflexivity. }
  rewrite E. change (pyval_eqb VNone VNone) with true. cbn [negb orb]. rewrite Hk. cbn [negb bind p_doc].
  reflexivity.
Qed.

Lemma null_default_none_like : forall v, null_default v = true -> in_none_types v = true.
Proof.
  intros v H. unfold null_default in H. apply orb_true_iff in H. destruct H as [H|H];
    apply pyval_eqb_eq in H; subst v; vm_compute; reflexivity.
Qed.

Lemma in_domain_default : forall g, gparam_in_domain g = true -> sdefault g = None -> g_default g = None.
Proof.
  intros g H Hs. unfold gparam_in_domain in H. apply andb_true_iff in H. destruct H as [_ H].
  unfold sdefault in Hs. destruct (g_default g) as [[v|e|r]|]; try discriminate; reflexivity.
Qed.

Lemma in_domain_default_some : forall g v, sdefault g = Some v -> g_default g = Some (DV v).
Proof.
  intros g v Hs. unfold sdefault in Hs. destruct (g_default g) as [[w|e|r]|]; try discriminate.
  injection Hs as Hs. subst. reflexivity.
Qed.

Lemma fld_eqb_refl : forall f, fld_eqb f f = true.
Proof. intros [| |s]; cbn; try reflexivity. apply str_eqb_refl. Qed.

(* the forced-default side condition carried through the parameter list (cf. defaults_monotone) *)
Definition forced_ok (req : bool) (name : str) (g : gparam) : Prop :=
  req = true ->
  writes_default name g = true
  \/ (kwargs_name name = true /\ (exists v, sdefault g = Some v /\ null_default v = true)
      /\ match fget (g_typ g) with Some t => in_simple_types t = false | None => True end).

(* ONE ENTRY, blocks to IR: the unit written for a guard entry is parsed, interpolated and named back into an entry
   that is the same (type, prose, default with its Python type) *)
Lemma entry_pipeline : forall style name g req,
    is_ident name = true -> str_eqb name return_type_name = false ->
    gparam_in_domain g = true -> entry_class style name g = None -> kwargs_class name g = None ->
    forced_ok req name g ->
    exists p0 p1 q,
      parse_unit style (unit_of_entry style name g) = PSome name p0
      /\ interpolate_force p0 req false = Ok (p1, req || writes_default name g)
      /\ set_name_and_type name p1 false false true = Ok (name, q)
      /\ gparam_same g (gparam_of_param q) = true.
Proof.
  intros style name g req Hid Hnr Hgd Hec Hkc Hforced.
  destruct (entry_facts_of_guard style name g Hgd Hec) as [p [t Hef]].
  destruct (parse_unit_entry style name g p t Hid Hef) as [dd [Hparse Hdd]].
  destruct Hef as [Hp [Ht [Htne [Httf [Hts [Hpdef Hdoc]]]]]].
  destruct (gparam_in_domain_param g Hgd) as [p' [Hp' [Hpd' [Hpt' _]]]].
  rewrite Hp in Hp'. injection Hp' as E. subst p'.
  destruct (type_shape_inv style t Hts) as [Htce [Htopt _]].
  destruct (ident_facts name Hid) as [_ [_ [_ [_ [_ Hstar]]]]].
  assert (Egt : fget (g_typ g) = Some t) by (rewrite <- Hpt', Ht; reflexivity).
  assert (Etyp : fld_eqb (g_typ g) (Has t) = true) by (rewrite <- Hpt', Ht; apply fld_eqb_refl).
  (* the kwargs side *)
  assert (Hkwfacts : kwargs_name name = true ->
                     (exists v, sdefault g = Some v /\ null_default v = true)
                     /\ str_eqb t (L "dict") = false /\ writes_default name g = false).
  { intros Hkw. unfold kwargs_class in Hkc. rewrite Hkw in Hkc.
    destruct (sdefault g) as [v|] eqn:Hv; [|discriminate].
    rewrite Egt in Hkc. cbn [opt_str_eqb] in Hkc.
    destruct (null_default v) eqn:Hnull; cbn [andb] in Hkc; [|discriminate].
    destruct (str_eqb t (L "dict")) eqn:Hdict; cbn [negb andb] in Hkc; [discriminate|].
    split; [exists v; split; reflexivity || exact Hnull|]. split; [reflexivity|].
    unfold writes_default. rewrite Hv, Hnull. cbn [negb orb].
    unfold kwargs_name in Hkw. apply orb_true_iff in Hkw. destruct Hkw as [Hkw|Hkw].
    - rewrite Hkw. reflexivity.
    - exfalso. destruct name as [|x r]; [discriminate|].
      cbn [L String.list_ascii_of_string startswith] in Hkw, Hstar.
      apply andb_true_iff in Hkw. destruct Hkw as [Hx _]. rewrite andb_true_r in Hstar.
      apply ascii_eqb_eq in Hx. subst x. vm_compute in Hstar. discriminate Hstar. }
  exists (mkParam (Has dd) (Has t) None).
  destruct (writes_default name g) eqn:Hw.
  - (* a default is written *)
    destruct Hdoc as [[Hd Hw'] | [d [d' [Hd [Hdne [Hce [Hdnl [Hna [Hdtf [Hopt [Hdd' Hws]]]]]]]]]]];
      [congruence|].
    destruct Hdd as [[Hd0 _] | [d0 [Hd0 [_ Hdd0]]]]; [congruence|].
    rewrite Hdd' in Hdd0. injection Hdd0 as E. subst dd.
    assert (Egd : fget (g_doc g) = Some d) by (rewrite <- Hpd', Hd; reflexivity).
    destruct (entry_class_default_facts style name g t d Hec Egt Egd Hw) as [v [nq [Hv [Hnq [Hc17 Hstr]]]]].
    assert (Hkwf : kwargs_name name = false).
    { destruct (kwargs_name name) eqn:Hkw; [|reflexivity].
      destruct (Hkwfacts eq_refl) as [_ [_ Hwf]]. discriminate. }
    assert (Hwcond : negb (null_default v) || negb (endswith (L "kwargs") name) = true).
    { unfold writes_default in Hw. rewrite Hv in Hw. exact Hw. }
    assert (Hg17 : guard_C17 ADefaultsTo d v (Some t) = true).
    { unfold guard_C17. rewrite Hc17. unfold C17_domain. rewrite Hna.
      destruct d; [contradiction|reflexivity]. }
    assert (Hpv : p_default p = Some v) by (rewrite Hpdef; exact Hv).
    destruct (interpolate_written name p d t v d' req Hd Ht Hpv Hwcond Hg17 Hdd') as [v' [Hint [Hsame Hnn]]].
    exists (mkParam (Has d) (Has t) (Some (unquote_val v'))).
    assert (Hq : forall s, v = VStr s -> null_default v = false -> unquote s = s).
    { intros s Es Hn. apply (Hstr s Es Hn). }
    destruct (final_default_same v v' Hsame Hnn Hq) as [Hfd [Hfd1 Hfd2]].
    exists (mkParam (doc_fld d) (Has t) (Some (final_default v'))).
    split; [exact Hparse|]. split; [rewrite orb_true_r; exact Hint|]. split.
    + apply (snt_default name d t (unquote_val v') nq Hkwf Hnq); try assumption.
      cbv zeta. intros Hcq.
      destruct (in_none_types (unquote_val v')) eqn:Hn.
      * rewrite unquote_val_NoneStr in Hcq. change (pyval_eqb (VStr NoneStr) (VStr NoneStr)) with
            (str_eqb NoneStr NoneStr) in Hcq. rewrite str_eqb_refl in Hcq. discriminate.
      * pose proof (Hfd1 eq_refl) as Efd. unfold final_default in Efd. cbv zeta in Efd. rewrite Hn in Efd.
        rewrite Efd in Hcq. apply andb_true_iff in Hcq. destruct Hcq as [Hns Hcode].
        destruct v as [|b|z|r|s]; try discriminate. cbn [code_quoted_val] in Hcode.
        assert (Hnull : null_default (VStr s) = false).
        { unfold null_default. apply negb_true_iff in Hns. rewrite Hns. reflexivity. }
        apply (Hstr s eq_refl Hnull); assumption.
    + unfold gparam_same, gparam_of_param. cbn [g_typ g_doc g_default p_typ p_doc p_default option_map].
      rewrite Etyp. rewrite <- Hpd', Hd.
      destruct d as [|c1 d1]; [contradiction|]. cbn [doc_fld]. rewrite fld_eqb_refl.
      rewrite (in_domain_default_some g v Hv). cbn [andb default_eqb]. exact Hfd.
  - (* no default is written *)
    assert (Hdd_eq : exists d, dd = d /\ p_doc p = (match d with [] => Missing | _ => Has d end)
                               /\ no_announce d = true /\ mem_c nl d = false /\ clean_ends d = true
                               /\ optional_prefix d && negb (startswith (L "Optional[") t) = false).
    { destruct Hdoc as [[Hd Hw'] | [d [d' [Hd [Hdne [Hce [Hdnl [Hna [Hdtf [Hopt [Hdd' Hws]]]]]]]]]]].
      - destruct Hdd as [[_ E] | [d0 [Hd0 _]]]; [|congruence]. subst dd. exists [].
        repeat split; try reflexivity. exact Hd.
      - destruct Hdd as [[Hd0 _] | [d0 [Hd0 [_ Hdd0]]]]; [congruence|].
        rewrite (doc_with_default_nowrite name g p d Hp Hpdef Hd Hw) in Hdd0. injection Hdd0 as E. subst dd.
        exists d. split; [reflexivity|]. split; [destruct d; [contradiction|exact Hd]|].
        repeat split; assumption. }
    destruct Hdd_eq as [d [E [Hpd [Hna [Hdnl [Hce Hopt]]]]]]. subst dd.
    destruct (interpolate_plain d t Hna) as [Hi0 Hi1].
    assert (Edoc : fld_eqb (g_doc g) (doc_fld d) = true).
    { rewrite <- Hpd', Hpd. destruct d; apply fld_eqb_refl. }
    destruct (kwargs_name name) eqn:Hkw.
    + destruct (Hkwfacts eq_refl) as [[v [Hv Hnull]] [Hdict _]].
      destruct req.
      * assert (Hsim : in_simple_types t = false).
        { destruct (Hforced eq_refl) as [Hc|[_ [_ Hc]]]; [congruence|]. rewrite Egt in Hc. exact Hc. }
        exists (mkParam (Has d) (Has t) (Some (VStr NoneStr))).
        exists (mkParam (doc_fld d) (Has t) (Some (VStr NoneStr))).
        split; [exact Hparse|]. split; [exact (Hi1 Hsim)|]. split.
        -- apply snt_kwargs; try assumption. right. reflexivity.
        -- unfold gparam_same, gparam_of_param. cbn [g_typ g_doc g_default p_typ p_doc p_default option_map].
           rewrite Etyp, Edoc, (in_domain_default_some g v Hv). cbn [andb default_eqb].
           rewrite (null_default_none_like v Hnull), in_none_types_NoneStr. apply orb_true_r.
      * exists (mkParam (Has d) (Has t) None).
        exists (mkParam (doc_fld d) (Has t) (Some (VStr NoneStr))).
        split; [exact Hparse|]. split; [exact Hi0|]. split.
        -- apply snt_kwargs; try assumption. left. reflexivity.
        -- unfold gparam_same, gparam_of_param. cbn [g_typ g_doc g_default p_typ p_doc p_default option_map].
           rewrite Etyp, Edoc, (in_domain_default_some g v Hv). cbn [andb default_eqb].
           rewrite (null_default_none_like v Hnull), in_none_types_NoneStr. apply orb_true_r.
    + destruct req.
      * exfalso. destruct (Hforced eq_refl) as [Hc|[Hc _]]; congruence.
      * exists (mkParam (Has d) (Has t) None). exists (mkParam (doc_fld d) (Has t) None).
        split; [exact Hparse|]. split; [exact Hi0|]. split.
        -- apply snt_plain; assumption.
        -- unfold gparam_same, gparam_of_param. cbn [g_typ g_doc g_default p_typ p_doc p_default option_map].
           rewrite Etyp, Edoc. cbn [andb].
           assert (Hsd : sdefault g = None).
           { unfold writes_default in Hw. destruct (sdefault g) as [v|] eqn:Hv; [|reflexivity].
             exfalso. apply orb_false_iff in Hw. destruct Hw as [_ Hk]. apply negb_false_iff in Hk.
             unfold kwargs_name in Hkw. rewrite Hk in Hkw. discriminate. }
           rewrite (in_domain_default g Hgd Hsd). reflexivity.
Qed.

(* ------------------------------------------------------------------ *)
(* 13. the whole parameter list, blocks to IR, any number of parameters *)
(* ------------------------------------------------------------------ *)

Definition entry_guard (style : ngstyle) (np : str * gparam) : Prop :=
  is_ident (fst np) = true /\ str_eqb (fst np) return_type_name = false
  /\ gparam_in_domain (snd np) = true
  /\ entry_class style (fst np) (snd np) = None /\ kwargs_class (fst np) (snd np) = None.

Fixpoint forced_all (req : bool) (ps : list (str * gparam)) : Prop :=
  match ps with
  | [] => True
  | (n, g) :: r => forced_ok req n g /\ forced_all (req || writes_default n g) r
  end.

Lemma defaults_monotone_forced : forall ps seen, defaults_monotone seen ps = true -> forced_all seen ps.
Proof.
  induction ps as [|[n g] r IH]; intros seen H; [exact I|].
  cbn [defaults_monotone] in H. cbv zeta in H. apply andb_true_iff in H. destruct H as [H Hr].
  cbn [forced_all]. split; [|apply IH; exact Hr].
  intros Hseen. subst seen. cbn [negb orb] in H.
  apply orb_true_iff in H. destruct H as [H|H]; [left; exact H|]. right.
  apply andb_true_iff in H. destruct H as [H Hsim].
  apply andb_true_iff in H. destruct H as [Hkw Hnull].
  split; [exact Hkw|]. split.
  - destruct (sdefault g) as [v|]; [|discriminate]. exists v. split; [reflexivity|exact Hnull].
  - destruct (fget (g_typ g)) as [t|]; [|exact I]. apply negb_true_iff in Hsim. exact Hsim.
Qed.

Definition ir_params_of (res : list (str * param)) : list (str * gparam) :=
  map (fun np => (fst np, gparam_of_param (snd np))) res.

(* THE PARAMETER LIST THEOREM (blocks to IR): the units written for the parameters of a guard IR come back, through
   _parse, interpolate_defaults with the require_default flag threaded, and _set_name_and_type, as the same names in
   the same order with the same types, prose and defaults; the flag that reaches the return entry is set exactly
   when some parameter wrote a default *)
Theorem params_loop_blocks : forall style ps tl req acc,
    Forall (entry_guard style) ps -> forced_all req ps ->
    exists res,
      params_loop style rt_flags (units_of_params style ps ++ tl) req acc
      = params_loop style rt_flags tl
                    (req || existsb (fun np => writes_default (fst np) (snd np)) ps) (acc ++ res)
      /\ map fst res = map fst ps
      /\ params_same ps (ir_params_of res) = true.
Proof.
  intros style ps tl. induction ps as [|[n g] r IH]; intros req acc Hall Hforced.
  - exists []. cbn [units_of_params map app existsb]. rewrite app_nil_r, orb_false_r.
    repeat split.
  - inversion Hall as [|x l Hx Hl]; subst. destruct Hx as [Hid [Hnr [Hgd [Hec Hkc]]]].
    cbn [fst snd] in *. cbn [forced_all] in Hforced. destruct Hforced as [Hf Hfr].
    destruct (entry_pipeline style n g req Hid Hnr Hgd Hec Hkc Hf) as [p0 [p1 [q [Hparse [Hint [Hsnt Hsame]]]]]].
    destruct (IH (req || writes_default n g) (acc ++ [(n, q)]) Hl Hfr) as [res [Hloop [Hnames Hps]]].
    exists ((n, q) :: res).
    split; [|split].
    + cbn [units_of_params map app params_loop fst snd]. rewrite Hparse.
      change (f_emit_default_doc rt_flags) with false. rewrite Hint. cbn [bind].
      change (f_infer_type rt_flags) with false. change (f_word_wrap rt_flags) with true.
      rewrite Hsnt. cbn [bind].
      unfold units_of_params in Hloop. rewrite Hloop. rewrite <- app_assoc. cbn [app existsb fst snd].
      rewrite orb_assoc. reflexivity.
    + cbn [map fst]. rewrite Hnames. reflexivity.
    + cbn [ir_params_of map fst snd params_same]. rewrite str_eqb_refl, Hsame. cbn [andb]. exact Hps.
Qed.

(* OrderedDict(pairs) on distinct keys keeps the pairs as they are *)
Lemma od_set_notin : forall {A} k (v : A) d,
    existsb (str_eqb k) (map fst d) = false -> od_set k v d = d ++ [(k, v)].
Proof.
  intros A k v d. induction d as [|[k' v'] r IH]; intros H; [reflexivity|].
  cbn [map fst existsb] in H. apply orb_false_iff in H. destruct H as [Hk Hr].
  cbn [od_set]. rewrite Hk. rewrite (IH Hr). reflexivity.
Qed.

Lemma od_fold_uniq : forall {A} (l acc : list (str * A)),
    uniq (map fst l) = true ->
    (forall k, In k (map fst l) -> existsb (str_eqb k) (map fst acc) = false) ->
    fold_left (fun d kv => od_set (fst kv) (snd kv) d) l acc = acc ++ l.
Proof.
  intros A l. induction l as [|[k v] r IH]; intros acc Hu Hdis.
  - rewrite app_nil_r. reflexivity.
  - cbn [map fst uniq] in Hu. apply andb_true_iff in Hu. destruct Hu as [Hk Hu].
    apply negb_true_iff in Hk.
    cbn [fold_left fst snd]. rewrite od_set_notin; [|apply Hdis; left; reflexivity].
    rewrite IH; [rewrite <- app_assoc; reflexivity|exact Hu|].
    intros k' Hin. rewrite map_app, existsb_app. cbn [map fst existsb]. rewrite orb_false_r.
    rewrite (Hdis k' (or_intror Hin)). cbn [orb].
    destruct (str_eqb k' k) eqn:E; [|reflexivity].
    apply str_eqb_eq in E. subst k'.
    exfalso. assert (Hex : existsb (str_eqb k) (map fst r) = true).
    { apply existsb_exists. exists k. split; [exact Hin|apply str_eqb_refl]. }
    congruence.
Qed.

Lemma od_of_pairs_uniq : forall {A} (l : list (str * A)), uniq (map fst l) = true -> od_of_pairs l = l.
Proof.
  intros A l H. unfold od_of_pairs. rewrite od_fold_uniq; [reflexivity|exact H|].
  intros k _. reflexivity.
Qed.

(* ------------------------------------------------------------------ *)
(* 14. the parse phase on the blocks of a guard IR                      *)
(* ------------------------------------------------------------------ *)

Definition head_no_colon (u : list str) : Prop := endswith [ch 58] (nth 0 u ([] : str)) = false.

Lemma afterward_index_none : forall (units : list (list str)) k,
    Forall head_no_colon units -> afterward_index units k = None.
Proof.
  intros units. induction units as [|u r IH]; intros k H; [reflexivity|].
  inversion H as [|x l Hx Hl]; subst. unfold head_no_colon in Hx. cbn [afterward_index].
  destruct (endswith [ch 58] (nth 0 u [])) eqn:E; [exfalso; clear - Hx E; unfold str in *; congruence|].
  apply IH. exact Hl.
Qed.

Lemma endswith_char_app : forall c a b, b <> [] -> endswith [c] (a ++ b) = endswith [c] b.
Proof.
  intros c a b Hb. destruct (endswith [c] b) eqn:E.
  - apply endswith_single in E. apply endswith_single. rewrite last_c_app_nonnil; assumption.
  - destruct (endswith [c] (a ++ b)) eqn:E2; [|reflexivity].
    apply endswith_single in E2. rewrite last_c_app_nonnil in E2; [|exact Hb].
    apply endswith_single in E2. congruence.
Qed.

Lemma type_shape_numpydoc_colon : forall t, type_shape_ok SNumpydoc t = true -> endswith [ch 58] t = false.
Proof.
  intros t H. unfold type_shape_ok in H. apply andb_true_iff in H. destruct H as [_ H].
  apply negb_true_iff in H. exact H.
Qed.

(* the first line of the unit of a guard entry does not end with a colon: nothing is taken for "afterward" text *)
Lemma unit_head_no_colon : forall style name g,
    gparam_in_domain g = true -> entry_class style name g = None ->
    endswith [ch 58] (nth 0 (unit_of_entry style name g) []) = false.
Proof.
  intros style name g Hgd Hec.
  destruct (entry_facts_of_guard style name g Hgd Hec) as [p [t [Hp [Ht [Htne [Httf [Hts [Hpdef Hdoc]]]]]]]].
  destruct (gparam_in_domain_param g Hgd) as [p' [Hp' [Hpd' [Hpt' _]]]].
  rewrite Hp in Hp'. injection Hp' as E. subst p'.
  assert (Egt : fget (g_typ g) = Some t) by (rewrite <- Hpt', Ht; reflexivity).
  unfold unit_of_entry. rewrite Egt. unfold written_doc. rewrite Hp.
  destruct Hdoc as [[Hd Hw] | [d [d' [Hd [Hdne [Hce [Hdnl [Hna [Hdtf [Hopt [Hdd Hws]]]]]]]]]]].
  - rewrite Hd. cbn [truthy_fld]. destruct style; cbn [nth].
    + rewrite !app_assoc. rewrite endswith_char_app; [reflexivity|discriminate].
    + rewrite !app_assoc. rewrite endswith_char_app; [|exact Htne].
      apply type_shape_numpydoc_colon. exact Hts.
  - rewrite Hd, (truthy_Has d Hdne), Hdd.
    destruct (doc_with_default_prefix name p d d' Hdd Hd) as [x Hx].
    assert (Hd'ne : d' <> []) by (subst d'; apply app_nonnil_l; exact Hdne).
    destruct style; cbn [nth].
    + destruct (written_shape_google_inv d' Hws) as [_ [_ Hcolon]].
      rewrite !app_assoc. rewrite endswith_char_app; [exact Hcolon|exact Hd'ne].
    + rewrite !app_assoc. rewrite endswith_char_app; [|exact Htne].
      apply type_shape_numpydoc_colon. exact Hts.
Qed.

Lemma entry_written_optional : forall style name g t d d',
    entry_class style name g = None -> fget (g_typ g) = Some t -> fget (g_doc g) = Some d ->
    written_doc name g = Some d' ->
    optional_prefix d' && negb (startswith (L "Optional[") t) = false.
Proof.
  intros style name g t d d' H Ht Hd Hw. apply entry_class_text_ok in H. unfold entry_text_ok in H.
  rewrite Ht, Hd, Hw in H.
  apply andb_true_iff in H. destruct H as [_ H].
  apply andb_true_iff in H. destruct H as [_ H].
  apply andb_true_iff in H. destruct H as [_ H].
  apply andb_true_iff in H. destruct H as [_ H].
  apply negb_true_iff in H. exact H.
Qed.

Lemma return_type_not_kwargs : kwargs_name return_type_name = false
                               /\ endswith (L "kwargs") return_type_name = false.
Proof. split; vm_compute; reflexivity. Qed.

Lemma firstn_drop_last : forall (a : str) c, firstn (List.length (a ++ [c]) - 1) (a ++ [c]) = a.
Proof.
  intros a c. rewrite app_length. cbn [List.length].
  replace (List.length a + 1 - 1) with (List.length a) by lia. apply firstn_app_exact.
Qed.

Lemma return_dict_google : forall t d', head_nonspace t -> head_nonspace d' ->
    return_dict SGoogle (RLines [L "  " ++ t ++ L ":"; L "   " ++ d'])
    = Ok (mkParam (Has d') (Has t) None, false).
Proof.
  intros t d' Ht Hd. cbn [return_dict].
  assert (E1 : lstrip (L "   " ++ d') = d').
  { cbn [L String.list_ascii_of_string app]. rewrite !lstrip_cons_space. apply lstrip_id_head. exact Hd. }
  assert (E2 : lstrip (firstn (List.length (L "  " ++ t ++ L ":") - 1) (L "  " ++ t ++ L ":")) = t).
  { replace (L "  " ++ t ++ L ":") with ((L "  " ++ t) ++ [ch 58]) by (rewrite <- app_assoc; reflexivity).
    rewrite firstn_drop_last. cbn [L String.list_ascii_of_string app]. rewrite !lstrip_cons_space.
    apply lstrip_id_head. exact Ht. }
  rewrite E1, E2. reflexivity.
Qed.

Lemma return_dict_numpydoc : forall t d', head_nonspace d' ->
    return_dict SNumpydoc (RUnits [[t; tab ++ d']; [[]]]) = Ok (mkParam (Has d') (Has t) None, false).
Proof.
  intros t d' Hd. cbn [return_dict]. rewrite lstrip_tab_app. rewrite (lstrip_id_head d' Hd). reflexivity.
Qed.

(* THE RETURN ENTRY, blocks to IR *)
Lemma return_pipeline : forall style g req,
    gparam_in_domain g = true -> entry_class style return_type_name g = None ->
    (exists t d, fget (g_typ g) = Some t /\ fget (g_doc g) = Some d) ->
    (req = true -> writes_default return_type_name g = true) ->
    exists t d' p1 req',
      return_lines g = Some (t, d') /\ head_nonspace t /\ head_nonspace d'
      /\ set_name_and_type return_type_name (mkParam (Has d') (Has t) None) false false true
         = Ok (return_type_name, mkParam (Has d') (Has t) None)
      /\ interpolate_force (mkParam (Has d') (Has t) None) req false = Ok (p1, req')
      /\ gparam_same g (gparam_of_param p1) = true.
Proof.
  intros style g req Hgd Hec [t0 [d0 [Ht0 Hd0]]] Hreq.
  destruct (return_type_not_kwargs) as [Hnk Hnk'].
  destruct (entry_facts_of_guard style return_type_name g Hgd Hec) as [p [t [Hp [Ht [Htne [Httf [Hts [Hpdef Hdoc]]]]]]]].
  destruct (gparam_in_domain_param g Hgd) as [p' [Hp' [Hpd' [Hpt' _]]]].
  rewrite Hp in Hp'. injection Hp' as E. subst p'.
  assert (Egt : fget (g_typ g) = Some t) by (rewrite <- Hpt', Ht; reflexivity).
  assert (Etyp : fld_eqb (g_typ g) (Has t) = true) by (rewrite <- Hpt', Ht; apply fld_eqb_refl).
  destruct (type_shape_inv style t Hts) as [Htce [Htopt _]].
  destruct (clean_ends_inv t Htce) as [Hth _].
  destruct Hdoc as [[Hd Hw] | [d [d' [Hd [Hdne [Hce [Hdnl [Hna [Hdtf [Hopt [Hdd Hws]]]]]]]]]]].
  { exfalso. rewrite <- Hpd', Hd in Hd0. discriminate. }
  assert (Egd : fget (g_doc g) = Some d) by (rewrite <- Hpd', Hd; reflexivity).
  assert (Ewd : written_doc return_type_name g = Some d').
  { unfold written_doc. rewrite Hp, Hd, (truthy_Has d Hdne), Hdd. reflexivity. }
  destruct (doc_with_default_prefix _ p d d' Hdd Hd) as [x Hx].
  destruct (clean_ends_inv d Hce) as [Hdh _].
  assert (Hd'h : head_nonspace d') by (subst d'; apply head_nonspace_app; assumption).
  assert (Hd'ne : d' <> []) by (subst d'; apply app_nonnil_l; exact Hdne).
  clear x Hx.
  destruct (written_shape_inv style d' Hws) as [_ Hd'nl].
  pose proof (written_shape_clean style d' Hws) as Hd'ce.
  pose proof (entry_written_optional style return_type_name g t d d' Hec Egt Egd Ewd) as Hopt'.
  assert (Hsnt : set_name_and_type return_type_name (mkParam (Has d') (Has t) None) false false true
                 = Ok (return_type_name, mkParam (Has d') (Has t) None)).
  { rewrite (snt_plain return_type_name d' t Hnk Htopt Hd'nl Hd'ce Hopt').
    destruct d'; [contradiction|reflexivity]. }
  assert (Erl : return_lines g = Some (t, d')) by (unfold return_lines; rewrite Egt, Ewd; reflexivity).
  destruct (writes_default return_type_name g) eqn:Hw.
  - destruct (entry_class_default_facts style return_type_name g t d Hec Egt Egd Hw)
      as [v [nq [Hv [Hnq [Hc17 Hstr]]]]].
    assert (Hwcond : negb (null_default v) || negb (endswith (L "kwargs") return_type_name) = true)
      by (rewrite Hnk'; apply orb_true_r).
    assert (Hg17 : guard_C17 ADefaultsTo d v (Some t) = true).
    { unfold guard_C17. rewrite Hc17. unfold C17_domain. rewrite Hna. destruct d; [contradiction|reflexivity]. }
    assert (Hpv : p_default p = Some v) by (rewrite Hpdef; exact Hv).
    destruct (interpolate_written return_type_name p d t v d' req Hd Ht Hpv Hwcond Hg17 Hdd)
      as [v' [Hint [Hsame Hnn]]].
    exists t, d', (mkParam (Has d) (Has t) (Some (unquote_val v'))), true.
    split; [exact Erl|]. split; [exact Hth|]. split; [exact Hd'h|]. split; [exact Hsnt|].
    split; [exact Hint|].
    unfold gparam_same, gparam_of_param. cbn [g_typ g_doc g_default p_typ p_doc p_default option_map].
    rewrite Etyp. rewrite <- Hpd', Hd, fld_eqb_refl. rewrite (in_domain_default_some g v Hv).
    cbn [andb default_eqb]. unfold same_default in Hsame.
    apply orb_true_iff in Hsame. destruct Hsame as [Hs|Hs]; [rewrite Hs; reflexivity|].
    apply andb_true_iff in Hs. destruct Hs as [Hnv Hnv']. unfold none_like in *.
    assert (Eu : unquote_val v' = v').
    { destruct v' as [|b|z|r|s]; try reflexivity. cbn [unquote_val]. f_equal.
      apply none_strs_unquote. exact Hnv'. }
    rewrite Eu, Hnv, Hnv'. apply orb_true_r.
  - assert (Hreqf : req = false) by (destruct req; [specialize (Hreq eq_refl); discriminate|reflexivity]).
    subst req.
    assert (Edd : d' = d).
    { rewrite (doc_with_default_nowrite return_type_name g p d Hp Hpdef Hd Hw) in Hdd.
      injection Hdd as Hdd. symmetry. exact Hdd. }
    subst d'. destruct (interpolate_plain d t Hna) as [Hi0 _].
    exists t, d, (mkParam (Has d) (Has t) None), false.
    split; [exact Erl|]. split; [exact Hth|]. split; [exact Hd'h|]. split; [exact Hsnt|].
    split; [exact Hi0|].
    unfold gparam_same, gparam_of_param. cbn [g_typ g_doc g_default p_typ p_doc p_default option_map].
    rewrite Etyp. rewrite <- Hpd', Hd, fld_eqb_refl. cbn [andb].
    assert (Hsd : sdefault g = None).
    { unfold writes_default in Hw. destruct (sdefault g) as [v|]; [|reflexivity].
      rewrite Hnk' in Hw. rewrite orb_true_r in Hw. discriminate. }
    rewrite (in_domain_default g Hgd Hsd). reflexivity.
Qed.

Definition blank_tail (style : ngstyle) (tl : list (list str)) : Prop :=
  tl = [] \/ (style = SNumpydoc /\ (tl = [[[]]] \/ tl = [[[]]; [[]]])).

Lemma params_part : forall style ps tl,
    Forall (entry_guard style) ps -> forced_all false ps -> uniq (map fst ps) = true ->
    blank_tail style tl ->
    afterward_index (units_of_params style ps ++ tl) 0 = None
    /\ exists res,
        params_loop style rt_flags (units_of_params style ps ++ tl) false []
        = Ok (res, existsb (fun np => writes_default (fst np) (snd np)) ps)
        /\ od_of_pairs res = res
        /\ params_same ps (ir_params_of res) = true.
Proof.
  intros style ps tl Hall Hforced Huniq Htl. split.
  - apply afterward_index_none. apply Forall_app. split.
    + unfold units_of_params. apply Forall_map. eapply Forall_impl; [|exact Hall].
      intros [n g] [_ [_ [Hgd [Hec _]]]]. cbn [fst snd] in *. unfold head_no_colon.
      apply unit_head_no_colon; assumption.
    + destruct Htl as [E | [_ [E|E]]]; subst tl; repeat constructor.
  - destruct (params_loop_blocks style ps tl false [] Hall Hforced) as [res [Hloop [Hnames Hsame]]].
    exists res. split; [|split; [|exact Hsame]].
    + rewrite Hloop. cbn [app orb].
      destruct Htl as [E | [Es [E|E]]]; subst; reflexivity.
    + apply od_of_pairs_uniq. rewrite Hnames. exact Huniq.
Qed.

Lemma guard_entry_guards : forall style i,
    in_domain_ng i = true -> finding_class_C01_ng style i = None ->
    Forall (entry_guard style) (ir_params i) /\ forced_all false (ir_params i)
    /\ uniq (map fst (ir_params i)) = true.
Proof.
  intros style i Hdom Hfc.
  destruct (finding_class_None_inv style i Hfc) as [_ [_ [_ [Hps [Hmono _]]]]].
  destruct (in_domain_ng_inv i Hdom) as [_ [Hpd [Hu _]]].
  split; [|split; [apply defaults_monotone_forced; exact Hmono|exact Hu]].
  apply Forall_forall. intros np Hin. rewrite Forall_forall in Hps, Hpd.
  destruct (Hps np Hin) as [Hec Hkc]. destruct (Hpd np Hin) as [Hid [Hnr Hgd]].
  unfold entry_guard. repeat split; assumption.
Qed.

Definition ret_gp (r : fld param) : fld gparam :=
  match r with Has p => Has (gp p) | FNone => FNone | Missing => Missing end.

(* THE PARSE PHASE THEOREM (level A of the design, blocks to IR): on the blocks of a guard IR,
   _parse_phase_numpydoc_and_google gives back the same summary, the same parameters and the same return entry.
   Any number of parameters. *)
Theorem parse_phase_blocks : forall style i,
    guard_C01_ng style i = true ->
    exists doc res r,
      parse_phase_ng style rt_flags (scanned_of style i) = Ok (doc, res, r)
      /\ ir_doc i = Has doc
      /\ params_same (ir_params i) (ir_params_of res) = true
      /\ returns_same (ir_returns i) (ret_gp r) = true.
Proof.
  intros style i Hg. unfold guard_C01_ng in Hg. apply andb_true_iff in Hg. destruct Hg as [Hdom Hcls].
  destruct (finding_class_C01_ng style i) eqn:Hfc; [discriminate|]. clear Hcls.
  destruct (guard_entry_guards style i Hdom Hfc) as [Hall [Hforced Huniq]].
  destruct (finding_class_None_inv style i Hfc) as [_ [_ [Hgne [_ [_ Hret]]]]].
  destruct (in_domain_ng_inv i Hdom) as [[doc Hdoc] [_ [_ Hrd]]].
  exists doc.
  (* the return entry, if any *)
  assert (Hrcases :
            (exists g t d', ir_returns i = Has g /\ return_lines g = Some (t, d')
                            /\ head_nonspace t /\ head_nonspace d'
                            /\ set_name_and_type return_type_name (mkParam (Has d') (Has t) None) false false true
                               = Ok (return_type_name, mkParam (Has d') (Has t) None)
                            /\ exists p1 req',
                                interpolate_force (mkParam (Has d') (Has t) None)
                                                  (existsb (fun np => writes_default (fst np) (snd np)) (ir_params i))
                                                  false = Ok (p1, req')
                                /\ gparam_same g (gparam_of_param p1) = true)
            \/ ((ir_returns i = FNone \/ ir_returns i = Missing))).
  { destruct (ir_returns i) as [| |g] eqn:Er; [right; right; reflexivity|right; left; reflexivity|].
    left. cbn [returns_ok] in Hret. destruct Hret as [_ [Htd [Hec Hafter]]].
    assert (Hreq : existsb (fun np => writes_default (fst np) (snd np)) (ir_params i) = true ->
                   writes_default return_type_name g = true).
    { intros E. rewrite E in Hafter. cbn [andb] in Hafter. apply negb_false_iff in Hafter. exact Hafter. }
    destruct (return_pipeline style g _ (Hrd g eq_refl) Hec Htd Hreq)
      as [t [d' [p1 [req' [Hrl [Hth [Hdh [Hsnt [Hint Hsame]]]]]]]]].
    exists g, t, d'. split; [reflexivity|]. split; [exact Hrl|]. split; [exact Hth|]. split; [exact Hdh|].
    split; [exact Hsnt|]. exists p1, req'. split; assumption. }
  unfold scanned_of. rewrite Hdoc. cbv zeta.
  destruct Hrcases as [[g [t [d' [Er [Hrl [Hth [Hdh [Hsnt [p1 [req' [Hint Hsame]]]]]]]]]]] | Hnone].
  - rewrite Er, Hrl. unfold return_type_name in Hsnt.
    destruct style.
    + (* google *)
      destruct (params_part SGoogle (ir_params i) [] Hall Hforced Huniq (or_introl eq_refl))
        as [Haft [res [Hloop [Hod Hps]]]].
      rewrite app_nil_r in Haft, Hloop.
      exists res, (Has p1).
      split; [|split; [reflexivity|split; [exact Hps|exact Hsame]]].
      unfold parse_phase_ng. cbn [sc_args sc_doc sc_afterward sc_ret]. rewrite Haft, Hloop.
      cbn [bind retv_truthy is_empty negb]. rewrite Hod.
      rewrite (return_dict_google t d' Hth Hdh). cbn [bind].
      change (f_infer_type rt_flags) with false. change (f_word_wrap rt_flags) with true.
      change (f_emit_default_doc rt_flags) with false.
      rewrite Hsnt. cbn [bind snd]. rewrite Hint. cbn [bind fst]. reflexivity.
    + (* numpydoc *)
      destruct (ir_params i) as [|np ps] eqn:Eps.
      * exists [], (Has p1).
        split; [|split; [reflexivity|split; [reflexivity|exact Hsame]]].
        unfold parse_phase_ng. cbn [sc_args sc_doc sc_afterward sc_ret afterward_index params_loop bind].
        cbn [retv_truthy is_empty negb od_of_pairs fold_left].
        cbn [return_dict]. rewrite lstrip_tab_app, (lstrip_id_head d' Hdh). cbn [bind].
        change (f_infer_type rt_flags) with false. change (f_word_wrap rt_flags) with true.
        change (f_emit_default_doc rt_flags) with false.
        rewrite Hsnt. cbn [bind snd]. cbn [existsb] in Hint. rewrite Hint. cbn [bind fst]. reflexivity.
      * rewrite <- Eps in *.
        assert (Hbt : blank_tail SNumpydoc [[[]]]) by (right; split; [reflexivity|left; reflexivity]).
        destruct (params_part SNumpydoc (ir_params i) [[[]]] Hall Hforced Huniq Hbt)
          as [Haft [res [Hloop [Hod Hps]]]].
        exists res, (Has p1).
        split; [|split; [reflexivity|split; [exact Hps|exact Hsame]]].
        rewrite Eps. rewrite <- Eps.
        unfold parse_phase_ng. cbn [sc_args sc_doc sc_afterward sc_ret]. rewrite Haft, Hloop.
        cbn [bind retv_truthy is_empty negb]. rewrite Hod.
        cbn [return_dict]. rewrite lstrip_tab_app, (lstrip_id_head d' Hdh). cbn [bind].
        change (f_infer_type rt_flags) with false. change (f_word_wrap rt_flags) with true.
        change (f_emit_default_doc rt_flags) with false.
        rewrite Hsnt. cbn [bind snd]. rewrite Hint. cbn [bind fst]. reflexivity.
  - assert (Erl : match ir_returns i with Has g => return_lines g | _ => None end = None)
      by (destruct Hnone as [E|E]; rewrite E; reflexivity).
    assert (Hrs : returns_same (ir_returns i) (ret_gp FNone) = true)
      by (destruct Hnone as [E|E]; rewrite E; reflexivity).
    rewrite Erl.
    destruct style.
    + destruct (params_part SGoogle (ir_params i) [] Hall Hforced Huniq (or_introl eq_refl))
        as [Haft [res [Hloop [Hod Hps]]]].
      rewrite app_nil_r in Haft, Hloop.
      exists res, FNone.
      split; [|split; [reflexivity|split; [exact Hps|exact Hrs]]].
      unfold parse_phase_ng. cbn [sc_args sc_doc sc_afterward sc_ret]. rewrite Haft, Hloop.
      cbn [bind retv_truthy is_empty negb]. rewrite Hod. reflexivity.
    + destruct (ir_params i) as [|np ps] eqn:Eps.
      * exists [], FNone. split; [reflexivity|]. split; [reflexivity|]. split; [reflexivity|exact Hrs].
      * rewrite <- Eps in *.
        assert (Hbt : blank_tail SNumpydoc [[[]]; [[]]]) by (right; split; [reflexivity|right; reflexivity]).
        destruct (params_part SNumpydoc (ir_params i) [[[]]; [[]]] Hall Hforced Huniq Hbt)
          as [Haft [res [Hloop [Hod Hps]]]].
        exists res, FNone.
        split; [|split; [reflexivity|split; [exact Hps|exact Hrs]]].
        rewrite Eps. rewrite <- Eps.
        unfold parse_phase_ng. cbn [sc_args sc_doc sc_afterward sc_ret]. rewrite Haft, Hloop.
        cbn [bind retv_truthy is_empty negb]. rewrite Hod. reflexivity.
Qed.

(* ------------------------------------------------------------------ *)
(* 15. the round trip, modulo the text-to-blocks link                   *)
(* ------------------------------------------------------------------ *)

Lemma strs_eqb_eq : forall a b, strs_eqb a b = true -> a = b.
Proof.
  induction a as [|x a IH]; intros [|y b] H; try discriminate; [reflexivity|].
  cbn [strs_eqb] in H. apply andb_true_iff in H. destruct H as [Hx Ha].
  apply str_eqb_eq in Hx. subst y. f_equal. apply IH. exact Ha.
Qed.

Lemma units_eqb_eq : forall a b, units_eqb a b = true -> a = b.
Proof.
  induction a as [|x a IH]; intros [|y b] H; try discriminate; [reflexivity|].
  cbn [units_eqb] in H. apply andb_true_iff in H. destruct H as [Hx Ha].
  apply strs_eqb_eq in Hx. subst y. f_equal. apply IH. exact Ha.
Qed.

Lemma scanned_eqb_eq : forall a b, scanned_eqb a b = true -> a = b.
Proof.
  intros [d1 a1 r1 f1] [d2 a2 r2 f2] H. unfold scanned_eqb in H. cbn [sc_doc sc_args sc_ret sc_afterward] in H.
  apply andb_true_iff in H. destruct H as [H Hf].
  apply andb_true_iff in H. destruct H as [H Hr].
  apply andb_true_iff in H. destruct H as [Hd Ha].
  apply str_eqb_eq in Hd. apply units_eqb_eq in Ha. subst.
  assert (Er : r1 = r2).
  { destruct r1 as [l1|u1], r2 as [l2|u2]; cbn [retv_eqb] in Hr; try discriminate.
    - apply strs_eqb_eq in Hr. subst. reflexivity.
    - apply units_eqb_eq in Hr. subst. reflexivity. }
  assert (Ef : f1 = f2).
  { destruct f1 as [x|], f2 as [y|]; try discriminate; [|reflexivity].
    apply strs_eqb_eq in Hf. subst. reflexivity. }
  subst. reflexivity.
Qed.

Lemma text_of_o_nonempty : forall style i text, text_of_o style i = Ok text -> is_empty text = false.
Proof.
  intros style i text H. unfold text_of_o in H.
  apply bind_Ok_inv' in H. destruct H as [doc [_ H]].
  apply bind_Ok_inv' in H. destruct H as [lines [_ H]]. cbv zeta in H.
  apply bind_Ok_inv' in H. destruct H as [ret [_ H]].
  injection H as H. subst text. reflexivity.
Qed.

(* C01 for numpydoc and google, PARTIAL: inside the guard, and provided the scanner turns the emitted text into the
   blocks [scanned_of] (the text-to-blocks link, which is evaluated by the harness through [scan_link_b] on every
   generated IR inside the guard but is not proved), the emitted text is recognised as its own style, parsing it
   succeeds, and the result is the same interface *)
Theorem C01_ng_partial_modulo_scan : forall style i,
    guard_C01_ng style i = true -> scan_link_b style i = true -> C01_ng_at style i.
Proof.
  intros style i Hg Hlink.
  destruct (detect_style_guard style i Hg) as [text [Htext Hdet]].
  destruct (parse_phase_blocks style i Hg) as [doc [res [r [Hphase [Hdoc [Hps Hrs]]]]]].
  unfold scan_link_b in Hlink. rewrite Htext in Hlink.
  apply andb_true_iff in Hlink. destruct Hlink as [Halpha Hscan].
  destruct (scan_ng style text) as [sc|e] eqn:Esc; [|discriminate].
  apply scanned_eqb_eq in Hscan. subst sc.
  unfold C01_ng_at. exists text.
  exists (mkIR FNone (Has (L "static")) (Has doc) (map (fun np => (fst np, gp (snd np))) res)
               (match r with Has p => Has (gp p) | FNone => FNone | Missing => Missing end) None).
  split; [exact Htext|]. split; [exact Hdet|]. split.
  - unfold parse_ng. rewrite Halpha. cbn [negb]. rewrite (text_of_o_nonempty style i text Htext).
    rewrite Esc. cbn [bind]. rewrite Hphase. cbn [bind].
    change (f_emit_default_prop rt_flags) with true. cbn [bind]. reflexivity.
  - unfold same_interface. cbn [ir_doc ir_params ir_returns]. rewrite Hdoc, fld_eqb_refl.
    unfold ir_params_of in Hps. unfold gp. rewrite Hps. cbn [andb]. exact Hrs.
Qed.

(* the guard is not vacuous: the canonical five-parameter shape of the test-suite, with a return entry *)
Example guard_C01_ng_nonvacuous :
  let i := mkIR FNone (Has (L "static")) (Has (L "Acquire from the official model zoo."))
                [(L "dataset_name", mkG (Has (L "name of dataset.")) (Has (L "str")) (Some (DV (VStr (L "mnist")))));
                 (L "K", mkG (Has (L "backend engine, e.g., `np` or `tf`.")) (Has (L "Literal['np', 'tf']"))
                             (Some (DV (VStr (L "np")))));
                 (L "as_numpy", mkG (Has (L "Convert to numpy ndarrays.")) (Has (L "Optional[bool]")) (Some (DV VNone)));
                 (L "data_loader_kwargs", mkG (Has (L "pass this as arguments to data_loader function"))
                                              (Has (L "Optional[dict]")) (Some (DV (VStr NoneStr))))]
                FNone None in
  guard_C01_ng SGoogle i = true /\ guard_C01_ng SNumpydoc i = true
  /\ scan_link_b SGoogle i = true /\ scan_link_b SNumpydoc i = true.
Proof. vm_compute. repeat split. Qed.

Example guard_C01_ng_nonvacuous_return :
  let i := mkIR FNone (Has (L "static")) (Has (L "Sum."))
                [(L "a", mkG (Has (L "first.")) (Has (L "int")) None)]
                (Has (mkG (Has (L "the result.")) (Has (L "int")) None)) None in
  guard_C01_ng SGoogle i = true /\ guard_C01_ng SNumpydoc i = true
  /\ scan_link_b SGoogle i = true /\ scan_link_b SNumpydoc i = true.
Proof. vm_compute. repeat split. Qed.

(* the full statement is false of the faithful model: witnesses *)
Definition C01_ng_statement : Prop := forall style i, in_domain_ng i = true -> C01_ng_at style i.

Lemma C01_ng_at_roundtrip : forall style i, C01_ng_at style i -> roundtrip style i = RtHolds.
Proof.
  intros style i [text [i' [Ht [Hd [Hp Hs]]]]]. unfold roundtrip. rewrite Ht, Hd.
  assert (E : style3_eqb (style3_of style) (style3_of style) = true) by (destruct style; reflexivity).
  rewrite E. cbn [negb]. rewrite Hp, Hs. reflexivity.
Qed.

Theorem C01_ng_refuted : ~ C01_ng_statement.
Proof.
  intros H.
  (* numpydoc: return entry with a type and no prose -> IndexError *)
  set (i := mkIR FNone (Has (L "static")) (Has (L "Sum.")) []
                 (Has (mkG Missing (Has (L "int")) None)) None).
  assert (Hd : in_domain_ng i = true) by (vm_compute; reflexivity).
  pose proof (C01_ng_at_roundtrip SNumpydoc i (H SNumpydoc i Hd)) as E.
  vm_compute in E. discriminate E.
Qed.
