(* Facts about the refined C04 classifier (model/C04Spec2.v). *)
From Coq Require Import List Ascii Bool Arith ZArith.
From Coq Require String.
Import String.StringSyntax.
From DT Require Import PyStr PyVal Defaults IR C02Spec C04Spec C04Spec2 C04Codec C04Compose.
Import ListNotations.

(* the refinement only ever adds the two new classes: an old class is kept as it is *)
Lemma finding_class_C04_r_adds : forall o i c,
    finding_class_C04_r o i = Some c ->
    (exists k, finding_class_C04 o i = Some k /\ c = K4r_old k)
    \/ (finding_class_C04 o i = None /\ (c = K4r_summary_quoted \/ c = K4r_help_quoted)).
Proof.
  intros o i c H. unfold finding_class_C04_r in H.
  destruct (finding_class_C04 o i) as [k|].
  - left. exists k. injection H as H. split; [reflexivity|symmetry; exact H].
  - right. split; [reflexivity|]. unfold new_class_C04, new_classes_C04 in H.
    destruct (summary_quoted i); [injection H as H; left; symmetry; exact H|].
    destruct (existsb _ (ir_params i)); [injection H as H; right; symmetry; exact H|discriminate H].
Qed.

(* the list of all new classes that apply holds only new classes *)
Lemma new_classes_C04_new : forall i c, In c (new_classes_C04 i) -> c = K4r_summary_quoted \/ c = K4r_help_quoted.
Proof.
  intros i c H. unfold new_classes_C04 in H. apply in_app_or in H.
  destruct H as [H|H]; [destruct (summary_quoted i)|destruct (existsb _ (ir_params i))]; cbn [In] in H;
    try contradiction; destruct H as [H|[]]; [left|right]; symmetry; exact H.
Qed.

Lemma finding_class_C04_r_old : forall o i k,
    finding_class_C04 o i = Some k -> finding_class_C04_r o i = Some (K4r_old k).
Proof. intros o i k H. unfold finding_class_C04_r. rewrite H. reflexivity. Qed.

(* the name of a kept class is the old name: KNOWN_FINDINGS lines of the old classes stay valid *)
Lemma c04_class_r_name_old : forall k, c04_class_r_name (K4r_old k) = c04_class_name k.
Proof. reflexivity. Qed.

(* the refined guard is inside the old one: every theorem stated under guard_C04 holds under guard_C04_r *)
Lemma guard_C04_r_inside : forall o i, guard_C04_r o i = true -> guard_C04 o i = true.
Proof.
  intros o i H. unfold guard_C04_r in H. unfold guard_C04.
  apply andb_true_iff in H. destruct H as [Hd Hc]. rewrite Hd. cbn [andb].
  unfold finding_class_C04_r in Hc. destruct (finding_class_C04 o i) as [k|]; [discriminate Hc|reflexivity].
Qed.

(* the point of theorem C05_region_hole_quoted_summary (props/C05Ext.v; the same description as
   C05ClosedFacts.w_quoted_summary): unnamed by the old classifier, named by the refined one, in the domain, and the
   composed model of the argparse round trip fails on it *)
Definition w4_quoted_summary : ir :=
  mkIR FNone (Has (L "static")) (Has (L "'quoted'")) [(L "x", PG4 (L "first.") (L "int") (Some (DV (VInt 1))))] FNone None.

Lemma quoted_summary_classified :
  finding_class_C04 o4 w4_quoted_summary = None
  /\ finding_class_C04_r o4 w4_quoted_summary = Some K4r_summary_quoted
  /\ C04_domain w4_quoted_summary = true /\ fails4 w4_quoted_summary = true.
Proof. vm_compute. repeat split; reflexivity. Qed.

(* the same mechanism on the help text of an option *)
Definition w4_quoted_help : ir := w4 (L "x") (PG4 (L "'quoted'") (L "int") (Some (DV (VInt 1)))).

Lemma quoted_help_classified :
  finding_class_C04 o4 w4_quoted_help = None
  /\ finding_class_C04_r o4 w4_quoted_help = Some K4r_help_quoted
  /\ C04_domain w4_quoted_help = true /\ fails4 w4_quoted_help = true.
Proof. vm_compute. repeat split; reflexivity. Qed.

(* a pair of quote marks alone, a quote mark at one end only, or different marks at the two ends are carried: not in
   the class *)
Lemma unbalanced_quotes_unclassified :
  forallb (fun s => match finding_class_C04_r o4 (mkIR FNone (Has (L "static")) (Has s)
                                                   [(L "x", PG4 (L "first.") (L "int") (Some (DV (VInt 1))))] FNone None)
                    with None => true | Some _ => false end)
          [L "''"; L "'quoted"; L "quoted'"; [ch 39; ch 97; ch 34]; L "it's"] = true.
Proof. vm_compute. reflexivity. Qed.
