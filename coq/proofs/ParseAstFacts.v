(* ParseAstFacts: theorems about the AST-reading parsers alone (model/ParseAst.v), unbounded in the number of
   attributes / add_argument calls (induction over the body list).

   OrderedDict layer      od_set / od_get / od_of_pairs: keys, NoDup, lookup.
   class_                 - parse_class never returns duplicate parameter names (unconditional);
                          - the body loop never drops a name;
                          - for a body that is exactly  [docstring; AnnAssign n1 t1 v1; ...]  whose names are all
                            documented, the result is the docstring's parameters IN DOCSTRING ORDER, each with
                            typ = the printed annotation and default = the value read off the node, prose kept
                            (closed form, theorem parse_class_documented), and with ordinary names the final
                            _set_name_and_type map keeps names and order (parse_class_documented_names).
   argparse_ast           - never returns duplicate option names (unconditional);
                          - one parameter per add_argument call, in call order, named by the first positional
                            argument without its two leading characters (argparse_one_param_per_call,
                            parse_argparse_ast_calls).
   Proofs only. *)
From Coq Require Import List Ascii Bool Arith ZArith Lia.
From Coq Require String.
Import String.StringSyntax.
From DT Require Import PyStr Sexp PyVal TyExpr PureUtils Defaults PyAst IR ParseAst C02Spec.
From DT Require Import PyStrFacts.
Import ListNotations.

(* ------------------------------------------------------------------ *)
(* outcome monad                                                        *)
(* ------------------------------------------------------------------ *)

Lemma bind_Ok_inv : forall {A B} (x : outcome A) (f : A -> outcome B) y,
    bind x f = Ok y -> exists a, x = Ok a /\ f a = Ok y.
Proof.
  intros A B x f y H. destruct x as [a|e]; cbn [bind] in H.
  - exists a. split; [reflexivity|exact H].
  - discriminate H.
Qed.

Ltac binv H :=
  let a := fresh "a" in
  let Ha := fresh "Ha" in
  apply bind_Ok_inv in H; destruct H as [a [Ha H]].

(* ------------------------------------------------------------------ *)
(* OrderedDict operations                                               *)
(* ------------------------------------------------------------------ *)

Definition str_dec : forall x y : str, {x = y} + {x <> y} := list_eq_dec Ascii.ascii_dec.

Lemma NoDup_app_single : forall (l : list str) k, NoDup l -> ~ In k l -> NoDup (l ++ [k]).
Proof.
  intros l k H Hn. induction l as [|x r IH]; cbn [app].
  - constructor; [intros []|constructor].
  - inversion H as [|y l' Hx Hr]; subst. constructor.
    + intros Hin. apply in_app_or in Hin. destruct Hin as [Hin|[Hin|[]]]; [exact (Hx Hin)|].
      subst. apply Hn. left. reflexivity.
    + apply IH; [exact Hr|]. intros Hin. apply Hn. right. exact Hin.
Qed.

Section OD.
  Context {A : Type}.
  Implicit Types (d : list (str * A)) (k : str) (v : A).

  Definition keys d : list str := map fst d.

  Lemma od_get_None_iff : forall k d, od_get k d = None <-> ~ In k (keys d).
  Proof.
    intros k d. induction d as [|[k' v'] r IH]; cbn [od_get keys map fst In].
    - split; [intros _ []|reflexivity].
    - destruct (str_eqb k k') eqn:E.
      + apply str_eqb_eq in E. subst k'. split; [discriminate|]. intros H. exfalso. apply H. left. reflexivity.
      + apply str_eqb_neq in E. rewrite IH. unfold keys. split.
        * intros H [H1|H1]; [apply E; symmetry; exact H1|exact (H H1)].
        * intros H H1. apply H. right. exact H1.
  Qed.

  Lemma od_get_Some_In : forall k d v, od_get k d = Some v -> In k (keys d).
  Proof.
    intros k d v H. destruct (in_dec str_dec k (keys d)) as [Hin|Hn]; [exact Hin|].
    apply od_get_None_iff in Hn. rewrite Hn in H. discriminate H.
  Qed.

  Lemma od_get_In_Some : forall k d, In k (keys d) -> exists v, od_get k d = Some v.
  Proof.
    intros k d Hin. destruct (od_get k d) as [v|] eqn:E; [exists v; reflexivity|].
    apply od_get_None_iff in E. contradiction.
  Qed.

  (* d[k] = v keeps every key in place, or appends k *)
  Lemma od_set_keys_in : forall k v d, In k (keys d) -> keys (od_set k v d) = keys d.
  Proof.
    intros k v d. induction d as [|[k' v'] r IH]; cbn [od_set keys map fst In]; intros Hin.
    - destruct Hin.
    - destruct (str_eqb k k') eqn:E.
      + apply str_eqb_eq in E. subst k'. reflexivity.
      + cbn [map fst]. f_equal. apply IH. destruct Hin as [H|H]; [|exact H].
        apply str_eqb_neq in E. exfalso. apply E. symmetry. exact H.
  Qed.

  Lemma od_set_keys_notin : forall k v d, ~ In k (keys d) -> od_set k v d = d ++ [(k, v)].
  Proof.
    intros k v d. induction d as [|[k' v'] r IH]; cbn [od_set keys map fst In]; intros Hn.
    - reflexivity.
    - destruct (str_eqb k k') eqn:E.
      + apply str_eqb_eq in E. subst k'. exfalso. apply Hn. left. reflexivity.
      + cbn [app]. f_equal. apply IH. intros H. apply Hn. right. exact H.
  Qed.

  Lemma od_set_keys : forall k v d,
      keys (od_set k v d) = if in_dec str_dec k (keys d) then keys d else keys d ++ [k].
  Proof.
    intros k v d. destruct (in_dec str_dec k (keys d)) as [Hin|Hn].
    - apply od_set_keys_in. exact Hin.
    - rewrite od_set_keys_notin by exact Hn. unfold keys. rewrite map_app. reflexivity.
  Qed.

  Lemma od_set_keys_mono : forall k v d x, In x (keys d) -> In x (keys (od_set k v d)).
  Proof.
    intros k v d x H. rewrite od_set_keys. destruct (in_dec str_dec k (keys d)); [exact H|].
    apply in_or_app. left. exact H.
  Qed.

  Lemma od_set_key_in : forall k v d, In k (keys (od_set k v d)).
  Proof.
    intros k v d. rewrite od_set_keys. destruct (in_dec str_dec k (keys d)) as [H|H]; [exact H|].
    apply in_or_app. right. left. reflexivity.
  Qed.

  Lemma od_set_NoDup : forall k v d, NoDup (keys d) -> NoDup (keys (od_set k v d)).
  Proof.
    intros k v d H. rewrite od_set_keys. destruct (in_dec str_dec k (keys d)) as [Hin|Hn]; [exact H|].
    apply NoDup_app_single; assumption.
  Qed.

  Lemma od_get_set_same : forall k v d, od_get k (od_set k v d) = Some v.
  Proof.
    intros k v d. induction d as [|[k' v'] r IH]; cbn [od_set od_get].
    - rewrite str_eqb_refl. reflexivity.
    - destruct (str_eqb k k') eqn:E; cbn [od_get].
      + rewrite str_eqb_refl. reflexivity.
      + rewrite E. exact IH.
  Qed.

  Lemma od_get_set_other : forall k k' v d, k <> k' -> od_get k' (od_set k v d) = od_get k' d.
  Proof.
    intros k k' v d Hne. induction d as [|[k0 v0] r IH]; cbn [od_set od_get].
    - destruct (str_eqb k' k) eqn:E; [|reflexivity].
      apply str_eqb_eq in E. exfalso. apply Hne. symmetry. exact E.
    - destruct (str_eqb k k0) eqn:E; cbn [od_get].
      + apply str_eqb_eq in E. subst k0.
        destruct (str_eqb k' k) eqn:E2; [|reflexivity].
        apply str_eqb_eq in E2. exfalso. apply Hne. symmetry. exact E2.
      + destruct (str_eqb k' k0); [reflexivity|exact IH].
  Qed.

  Lemma od_pop_keys_incl : forall k d x, In x (keys (od_pop k d)) -> In x (keys d).
  Proof.
    intros k d x. induction d as [|[k' v'] r IH]; cbn [od_pop keys map fst In]; intros H.
    - exact H.
    - destruct (str_eqb k k'); cbn [map fst In] in *.
      + right. exact H.
      + destruct H as [H|H]; [left; exact H|right; apply IH; exact H].
  Qed.

  Lemma od_pop_NoDup : forall k d, NoDup (keys d) -> NoDup (keys (od_pop k d)).
  Proof.
    intros k d. induction d as [|[k' v'] r IH]; cbn [od_pop keys map fst]; intros H.
    - exact H.
    - inversion H as [|x l Hn Hr]; subst. destruct (str_eqb k k'); cbn [map fst].
      + exact Hr.
      + constructor; [|apply IH; exact Hr]. intros Hin. apply Hn. eapply od_pop_keys_incl. exact Hin.
  Qed.

  (* d[k] = f(d[k]) as a map over the items, when keys are distinct *)
  Lemma od_set_as_map : forall k (f : A -> A) d old,
      NoDup (keys d) -> od_get k d = Some old ->
      od_set k (f old) d = map (fun kv => if str_eqb (fst kv) k then (fst kv, f (snd kv)) else kv) d.
  Proof.
    intros k f d. induction d as [|[k' v'] r IH]; cbn [od_set od_get map fst snd keys]; intros old Hnd Hget.
    - discriminate Hget.
    - inversion Hnd as [|x l Hn Hr]; subst.
      destruct (str_eqb k k') eqn:E.
      + apply str_eqb_eq in E. subst k'. inversion Hget; subst. rewrite str_eqb_refl. f_equal.
        (* no other item has key k *)
        clear IH Hget Hnd. induction r as [|[k2 v2] r2 IH2]; [reflexivity|].
        cbn [map fst snd]. destruct (str_eqb k2 k) eqn:E2.
        * apply str_eqb_eq in E2. subst k2. exfalso. apply Hn. left. reflexivity.
        * f_equal. apply IH2.
          -- intros H. apply Hn. right. exact H.
          -- inversion Hr; assumption.
      + rewrite str_eqb_sym, E. f_equal. apply IH; assumption.
  Qed.

  (* OrderedDict(pairs) *)
  Lemma fold_od_set_NoDup : forall (l : list (str * A)) acc,
      NoDup (keys acc) -> NoDup (keys (fold_left (fun d kv => od_set (fst kv) (snd kv) d) l acc)).
  Proof.
    induction l as [|[k v] l IH]; intros acc H; cbn [fold_left fst snd]; [exact H|].
    apply IH. apply od_set_NoDup. exact H.
  Qed.

  Lemma od_of_pairs_NoDup : forall (l : list (str * A)), NoDup (keys (od_of_pairs l)).
  Proof. intros l. unfold od_of_pairs. apply fold_od_set_NoDup. constructor. Qed.

  Lemma fold_od_set_fresh : forall (l : list (str * A)) acc,
      NoDup (keys acc ++ keys l) ->
      fold_left (fun d kv => od_set (fst kv) (snd kv) d) l acc = acc ++ l.
  Proof.
    induction l as [|[k v] l IH]; intros acc H; cbn [fold_left fst snd].
    - rewrite app_nil_r. reflexivity.
    - cbn [keys map fst] in H.
      assert (Hk : ~ In k (keys acc)).
      { intros Hin. apply NoDup_remove_2 in H. apply H. apply in_or_app. left. exact Hin. }
      rewrite od_set_keys_notin by exact Hk.
      rewrite IH.
      + rewrite <- app_assoc. reflexivity.
      + unfold keys in *. rewrite map_app. cbn [map fst]. rewrite <- app_assoc. cbn [app]. exact H.
  Qed.

  Lemma od_of_pairs_id : forall (l : list (str * A)), NoDup (keys l) -> od_of_pairs l = l.
  Proof.
    intros l H. unfold od_of_pairs. rewrite fold_od_set_fresh; [reflexivity|]. cbn [keys map app]. exact H.
  Qed.
End OD.


(* ------------------------------------------------------------------ *)
(* parse.class_ : the body loop                                         *)
(* ------------------------------------------------------------------ *)

Definition kset (ps : list (str * gparam)) : list str := keys ps.

(* the loop never drops a name and never duplicates one *)
Lemma class_annassign_inv : forall params returns t a v params' returns',
    class_annassign params returns t a v = Ok (params', returns') ->
    (NoDup (keys params) -> NoDup (keys params')) /\ (forall x, In x (keys params) -> In x (keys params')).
Proof.
  intros params returns t a v params' returns' H. unfold class_annassign in H.
  binv H. binv H. binv H. rename a2 into id.
  destruct (od_get id params) as [old|] eqn:Eg.
  - inversion H; subst. split; [apply od_set_NoDup|intros x; apply od_set_keys_mono].
  - destruct returns as [| |old]; [discriminate H| |];
      destruct (str_eqb id return_type_key); inversion H; subst;
        (split; [try (apply od_set_NoDup); trivial|intros x Hx; try (apply od_set_keys_mono); exact Hx]).
Qed.

Lemma class_assign_targets_inv : forall targets params d params',
    class_assign_targets params targets d = Ok params' ->
    (NoDup (keys params) -> NoDup (keys params')) /\ (forall x, In x (keys params) -> In x (keys params')).
Proof.
  induction targets as [|t r IH]; intros params d params' H; cbn [class_assign_targets] in H.
  - inversion H; subst. split; trivial.
  - binv H. rename a into id.
    destruct (od_get id params) as [old|]; apply IH in H; destruct H as [H1 H2];
      (split; [intros Hnd; apply H1; apply od_set_NoDup; exact Hnd
              |intros x Hx; apply H2; apply od_set_keys_mono; exact Hx]).
Qed.

Lemma class_body_loop_inv : forall body params returns params' returns',
    class_body_loop params returns body = Ok (params', returns') ->
    (NoDup (keys params) -> NoDup (keys params')) /\ (forall x, In x (keys params) -> In x (keys params')).
Proof.
  induction body as [|s rest IH]; intros params returns params' returns' H; cbn [class_body_loop] in H.
  - inversion H; subst. split; trivial.
  - destruct s as [n ar b d r|n bs b d|t a v|ts v|e|e|tg hd bl]; try (apply IH in H; exact H).
    + binv H. destruct a0 as [p1 r1]. cbn [fst snd] in H.
      apply class_annassign_inv in Ha. apply IH in H. destruct Ha as [A1 A2]. destruct H as [B1 B2].
      split; [intros Hn; apply B1; apply A1; exact Hn|intros x Hx; apply B2; apply A2; exact Hx].
    + binv H. binv H. apply class_assign_targets_inv in Ha0. apply IH in H.
      destruct Ha0 as [A1 A2]. destruct H as [B1 B2].
      split; [intros Hn; apply B1; apply A1; exact Hn|intros x Hx; apply B2; apply A2; exact Hx].
Qed.

(* every attribute with a plain name ends up among the parameters, or is the return entry *)
Lemma class_annassign_target_in : forall params returns n a v params' returns',
    class_annassign params returns (EName n) a v = Ok (params', returns') ->
    In n (keys params') \/ (n = return_type_key /\ exists r, returns' = Has r).
Proof.
  intros params returns n a v params' returns' H. unfold class_annassign in H.
  binv H. binv H. binv H. cbn [target_id] in Ha1. inversion Ha1; subst a2.
  destruct (od_get n params) as [old|] eqn:Eg.
  - inversion H; subst. left. apply od_set_key_in.
  - destruct returns as [| |old]; [discriminate H| |];
      destruct (str_eqb n return_type_key) eqn:E; inversion H; subst;
        try (left; apply od_set_key_in);
        (right; split; [apply str_eqb_eq; exact E|eexists; reflexivity]).
Qed.

(* parse_class never returns duplicate parameter names: the last step is OrderedDict(map(...)) *)
Theorem parse_class_NoDup : forall di node cn it ww i,
    parse_class di node cn it ww = Ok i -> NoDup (map fst (ir_params i)).
Proof.
  intros di node cn it ww i H. unfold parse_class in H. binv H.
  destruct a as [n ar b d r|nm bs cbody ds|t a' v|ts v|e|e|tg hd bl]; try discriminate H.
  binv H. destruct a as [i0 body].
  destruct (od_get return_type_key (ir_params i0)) as [g|].
  - binv H. destruct a as [p1 r1]. binv H. unfold set_names_and_types in Ha2. binv Ha2.
    inversion Ha2; subst. inversion H; subst. cbn [ir_params]. apply od_of_pairs_NoDup.
  - binv H. destruct a as [p1 r1]. binv H. unfold set_names_and_types in Ha2. binv Ha2.
    inversion Ha2; subst. inversion H; subst. cbn [ir_params]. apply od_of_pairs_NoDup.
Qed.

(* ---- the documented-attributes closed form ---- *)

(* an attribute  n : ann = value  together with what the parser reads off it *)
Record attr : Type := mkAttr {
  at_name : str; at_ann : expr; at_val : option expr; at_typ : str; at_def : dval
}.

Definition attr_ok (x : attr) : Prop :=
  code_of (at_ann x) = Ok (at_typ x) /\ annassign_default (at_val x) = Ok (at_def x).

Definition attr_stmt (x : attr) : stmt := SAnnAssign (EName (at_name x)) (at_ann x) (at_val x).

(* intermediate_repr["params"][n].update(typ=..., default=...) *)
Definition upd (x : attr) (ps : list (str * gparam)) : list (str * gparam) :=
  map (fun kv => if str_eqb (fst kv) (at_name x)
                 then (fst kv, mkG (g_doc (snd kv)) (Has (at_typ x)) (Some (at_def x)))
                 else kv) ps.

Lemma upd_keys : forall x ps, keys (upd x ps) = keys ps.
Proof.
  intros x ps. unfold upd, keys. rewrite map_map. apply map_ext. intros [k g]. cbn [fst snd].
  destruct (str_eqb k (at_name x)); reflexivity.
Qed.

Lemma fold_upd_keys : forall xs ps, keys (fold_left (fun p x => upd x p) xs ps) = keys ps.
Proof.
  induction xs as [|x xs IH]; intros ps; cbn [fold_left]; [reflexivity|].
  rewrite IH. apply upd_keys.
Qed.

(* the values the parser reads for scalar constants and for a bare annotation *)
Lemma annassign_default_const : forall v, annassign_default (Some (EConst v)) = Ok (DV (none_to_NoneStr v)).
Proof. intros v. destruct v; reflexivity. Qed.

Lemma annassign_default_absent : annassign_default None = Ok (DV (VStr NoneStr)).
Proof. reflexivity. Qed.

Lemma code_of_ok : forall e, expr_ok e = true -> code_of e = Ok (rstrip_chars [nl] (show_expr e)).
Proof. intros e H. unfold code_of. rewrite H. reflexivity. Qed.

Theorem class_body_loop_documented : forall attrs params returns,
    NoDup (keys params) ->
    Forall attr_ok attrs ->
    incl (map at_name attrs) (keys params) ->
    class_body_loop params returns (map attr_stmt attrs)
    = Ok (fold_left (fun p x => upd x p) attrs params, returns).
Proof.
  induction attrs as [|x xs IH]; intros params returns Hnd Hok Hincl; cbn [map fold_left class_body_loop].
  - reflexivity.
  - inversion Hok as [|x' xs' [Hc Hd] Hoks]; subst.
    assert (Hin : In (at_name x) (keys params)) by (apply Hincl; left; reflexivity).
    destruct (od_get_In_Some _ _ Hin) as [old Hget].
    unfold attr_stmt at 1. cbn [class_body_loop].
    unfold class_annassign. rewrite Hc, Hd. cbn [bind target_id]. rewrite Hget. cbn [bind fst snd].
    rewrite (od_set_as_map (at_name x) (fun g => mkG (g_doc g) (Has (at_typ x)) (Some (at_def x))) params old Hnd Hget).
    fold (upd x params).
    apply IH.
    + rewrite upd_keys. exact Hnd.
    + exact Hoks.
    + rewrite upd_keys. intros n Hn. apply Hincl. right. exact Hn.
Qed.

(* lookup in the closed form, for pairwise different attribute names *)
Lemma od_get_upd_same : forall x ps g,
    od_get (at_name x) ps = Some g ->
    od_get (at_name x) (upd x ps) = Some (mkG (g_doc g) (Has (at_typ x)) (Some (at_def x))).
Proof.
  intros x ps. induction ps as [|[k g0] r IH]; intros g H; cbn [od_get upd map fst snd] in *.
  - discriminate H.
  - destruct (str_eqb (at_name x) k) eqn:E.
    + inversion H; subst. rewrite str_eqb_sym, E. cbn [od_get fst]. rewrite E. reflexivity.
    + rewrite str_eqb_sym, E. cbn [od_get]. rewrite E. apply IH. exact H.
Qed.

Lemma od_get_upd_other : forall x ps n, n <> at_name x -> od_get n (upd x ps) = od_get n ps.
Proof.
  intros x ps n Hne. induction ps as [|[k g0] r IH]; cbn [od_get upd map fst snd]; [reflexivity|].
  destruct (str_eqb k (at_name x)) eqn:E; cbn [od_get fst].
  - apply str_eqb_eq in E. subst k. destruct (str_eqb n (at_name x)) eqn:E2.
    + apply str_eqb_eq in E2. contradiction.
    + exact IH.
  - destruct (str_eqb n k); [reflexivity|exact IH].
Qed.

Theorem documented_lookup : forall xs ps x g,
    NoDup (map at_name xs) -> In x xs -> od_get (at_name x) ps = Some g ->
    od_get (at_name x) (fold_left (fun p y => upd y p) xs ps)
    = Some (mkG (g_doc g) (Has (at_typ x)) (Some (at_def x))).
Proof.
  induction xs as [|y ys IH]; intros ps x g Hnd Hin Hget; cbn [fold_left]; [destruct Hin|].
  cbn [map] in Hnd. inversion Hnd as [|n l Hn Hr]; subst.
  destruct Hin as [Hin|Hin].
  - subst y.
    (* later updates concern other names *)
    assert (Hothers : forall zs qs, ~ In (at_name x) (map at_name zs) ->
                                  od_get (at_name x) (fold_left (fun p z => upd z p) zs qs) = od_get (at_name x) qs).
    { induction zs as [|z zs IHz]; intros qs Hnz; cbn [fold_left]; [reflexivity|].
      rewrite IHz.
      - apply od_get_upd_other. intros He. apply Hnz. left. symmetry. exact He.
      - intros Hz. apply Hnz. right. exact Hz. }
    rewrite Hothers by exact Hn. apply od_get_upd_same. exact Hget.
  - apply IH; [exact Hr|exact Hin|].
    rewrite od_get_upd_other; [exact Hget|].
    intros He. apply Hn. rewrite <- He. apply in_map. exact Hin.
Qed.

Lemma filter_attr_stmts : forall xs, filter (fun s => negb (is_assignment s)) (map attr_stmt xs) = [].
Proof. induction xs as [|x xs IH]; cbn [map filter attr_stmt is_assignment negb]; [reflexivity|exact IH]. Qed.

(* parse.class_ on  class nm(bases): [docstring; n1: t1 = v1; ...]  with every attribute documented:
   the docstring's parameters in docstring order, updated in place, then the _set_name_and_type map *)
Theorem parse_class_documented : forall nm bases decos ds attrs i0 it ww,
    NoDup (map fst (ir_params i0)) ->
    ~ In return_type_key (map fst (ir_params i0)) ->
    Forall attr_ok attrs ->
    incl (map at_name attrs) (map fst (ir_params i0)) ->
    parse_class (Some (Ok i0))
                (CStmt (SClass nm bases (SExpr (EConst (VStr ds)) :: map attr_stmt attrs) decos)) None it ww
    = (do params2 <- set_names_and_types (fold_left (fun p x => upd x p) attrs (ir_params i0)) it ww;
       Ok (mkIR (ir_name i0) (ir_type i0) (ir_doc i0) params2 (ir_returns i0)
                (Some (mkInternal [] (Has nm) (Has (L "cls")))))).
Proof.
  intros nm bases decos ds attrs i0 it ww Hnd Hrt Hok Hincl.
  unfold parse_class. cbn [find_class is_class_other bind docstring_of tl].
  assert (Hg : od_get return_type_key (ir_params i0) = None) by (apply od_get_None_iff; exact Hrt).
  rewrite Hg.
  rewrite (class_body_loop_documented attrs (ir_params i0) (ir_returns i0) Hnd Hok Hincl).
  cbn [bind]. rewrite filter_attr_stmts. reflexivity.
Qed.

(* ---- the final map keeps ordinary names ---- *)

Definition plain_name (n : str) : bool := negb (endswith (L "kwargs") n || startswith (L "**") n).

Lemma set_name_and_type_name : forall n p it ww n' p',
    plain_name n = true -> set_name_and_type n p it ww = Ok (n', p') -> n' = n.
Proof.
  intros n p it ww n' p' Hp H. unfold plain_name in Hp. apply negb_true_iff in Hp.
  unfold set_name_and_type in H. rewrite Hp in H.
  binv H. destruct a as [n1 p1].
  assert (Hn1 : n1 = n).
  { destruct (g_default p) as [d|]; [binv Ha|]; inversion Ha; reflexivity. }
  subst n1.
  destruct (g_doc p1) as [| |[|c r]];
    try (inversion H; reflexivity).
  destruct (startswith (L "(Optional)") _ || startswith (L "Optional") _);
    [|inversion H; reflexivity].
  destruct (match g_typ p1 with Has t => _ | x => x end) as [| |t];
    try discriminate H; try (inversion H; reflexivity).
  destruct (startswith (L "Optional[") t); inversion H; reflexivity.
Qed.

Lemma pa_mapM_names : forall (ps l : list (str * gparam)) it ww,
    forallb (fun kv => plain_name (fst kv)) ps = true ->
    pa_mapM (fun kv => set_name_and_type (fst kv) (snd kv) it ww) ps = Ok l ->
    map fst l = map fst ps.
Proof.
  induction ps as [|[k g] ps IH]; intros l it ww Hp H; cbn [pa_mapM] in H.
  - inversion H; reflexivity.
  - cbn [forallb fst] in Hp. apply andb_true_iff in Hp. destruct Hp as [Hk Hps].
    binv H. binv H. inversion H; subst l. destruct a as [n' p']. cbn [map fst]. cbn [fst snd] in Ha.
    apply set_name_and_type_name in Ha; [|exact Hk]. subst n'. f_equal. eapply IH; eassumption.
Qed.

Theorem set_names_and_types_names : forall ps ps' it ww,
    NoDup (map fst ps) ->
    forallb (fun kv => plain_name (fst kv)) ps = true ->
    set_names_and_types ps it ww = Ok ps' ->
    map fst ps' = map fst ps.
Proof.
  intros ps ps' it ww Hnd Hp H. unfold set_names_and_types in H. binv H. inversion H; subst ps'.
  pose proof (pa_mapM_names ps a it ww Hp Ha) as Hk.
  rewrite od_of_pairs_id; [exact Hk|]. unfold keys. rewrite Hk. exact Hnd.
Qed.

(* names of the result = names of the docstring, in docstring order, without duplicates, none dropped *)
Theorem parse_class_documented_names : forall nm bases decos ds attrs i0 it ww i,
    NoDup (map fst (ir_params i0)) ->
    ~ In return_type_key (map fst (ir_params i0)) ->
    forallb (fun kv => plain_name (fst kv)) (ir_params i0) = true ->
    Forall attr_ok attrs ->
    incl (map at_name attrs) (map fst (ir_params i0)) ->
    parse_class (Some (Ok i0))
                (CStmt (SClass nm bases (SExpr (EConst (VStr ds)) :: map attr_stmt attrs) decos)) None it ww = Ok i ->
    map fst (ir_params i) = map fst (ir_params i0) /\ ir_returns i = ir_returns i0.
Proof.
  intros nm bases decos ds attrs i0 it ww i Hnd Hrt Hp Hok Hincl H.
  rewrite (parse_class_documented nm bases decos ds attrs i0 it ww Hnd Hrt Hok Hincl) in H.
  binv H. inversion H; subst i. cbn [ir_params ir_returns]. split; [|reflexivity].
  pose proof (fold_upd_keys attrs (ir_params i0)) as Hk. unfold keys in Hk.
  rewrite <- Hk. eapply set_names_and_types_names; [| |exact Ha].
  - rewrite Hk. exact Hnd.
  - (* plain names are a property of the keys, which upd keeps *)
    rewrite forallb_forall in *. intros [k g] Hin.
    assert (Hkin : In k (map fst (fold_left (fun p x => upd x p) attrs (ir_params i0)))) by (apply in_map with (f := fst) in Hin; exact Hin).
    rewrite Hk in Hkin. apply in_map_iff in Hkin. destruct Hkin as [[k2 g2] [Hk2 Hin2]]. cbn [fst] in Hk2. subst k2.
    apply (Hp (k, g2) Hin2).
Qed.

(* ------------------------------------------------------------------ *)
(* parse.argparse_ast                                                   *)
(* ------------------------------------------------------------------ *)

Lemma ap_update_keys : forall params name p,
    keys (ap_update params name p)
    = if in_dec str_dec name (keys params) then keys params else keys params ++ [name].
Proof.
  intros params name p. unfold ap_update. destruct (od_get name params) as [old|] eqn:E.
  - apply od_get_Some_In in E. rewrite od_set_keys. destruct (in_dec str_dec name (keys params)); [reflexivity|contradiction].
  - apply od_set_keys.
Qed.

Lemma ap_update_NoDup : forall params name p, NoDup (keys params) -> NoDup (keys (ap_update params name p)).
Proof.
  intros params name p H. rewrite ap_update_keys. destruct (in_dec str_dec name (keys params)) as [Hin|Hn]; [exact H|].
  apply NoDup_app_single; assumption.
Qed.

(* a step leaves the parameters alone or performs one update *)
Lemma argparse_step_params : forall di fb st node st',
    argparse_step di fb st node = Ok st' ->
    ap_params st' = ap_params st \/ exists n p, ap_params st' = ap_update (ap_params st) n p.
Proof.
  intros di fb st node st' H. unfold argparse_step in H.
  repeat match type of H with
         | (if ?c then _ else _) = _ => destruct c
         | match ?x with _ => _ end = _ => destruct x
         end;
    try discriminate H;
    try (inversion H; subst; left; reflexivity).
  - apply bind_Ok_inv in H. destruct H as [r [Hr H]]. destruct r as [n p]. inversion H; subst.
    right. exists n, p. reflexivity.
  - apply bind_Ok_inv in H. destruct H as [r [Hr H]]. inversion H; subst. left. reflexivity.
Qed.

Lemma argparse_step_NoDup : forall di fb st node st',
    argparse_step di fb st node = Ok st' -> NoDup (keys (ap_params st)) -> NoDup (keys (ap_params st')).
Proof.
  intros di fb st node st' H Hnd. apply argparse_step_params in H.
  destruct H as [H|[n [p H]]]; rewrite H; [exact Hnd|apply ap_update_NoDup; exact Hnd].
Qed.

Lemma argparse_loop_NoDup : forall di fb body st st',
    argparse_loop di fb st body = Ok st' -> NoDup (keys (ap_params st)) -> NoDup (keys (ap_params st')).
Proof.
  induction body as [|n rest IH]; intros st st' H Hnd; cbn [argparse_loop] in H.
  - inversion H; subst. exact Hnd.
  - binv H. eapply IH; [exact H|]. eapply argparse_step_NoDup; eassumption.
Qed.

(* argparse_ast never returns duplicate option names *)
Theorem parse_argparse_ast_NoDup : forall di fd ft fnm i,
    parse_argparse_ast di fd ft fnm = Ok i -> NoDup (map fst (ir_params i)).
Proof.
  intros di fd ft fnm i H. unfold parse_argparse_ast in H.
  destruct (is_func_other fd); [discriminate H|].
  destruct fd as [nm a fbody ds r|n bs b d|t a v|ts v|e|e|tg hd bl]; try discriminate H.
  binv H. binv H. inversion H; subst i. cbn [ir_params].
  eapply argparse_loop_NoDup; [exact Ha0|]. cbn [ap_params keys map]. constructor.
Qed.

(* ---- one parameter per add_argument call, in order ---- *)

(* the name is read from the first positional argument alone *)
Definition out_param_name (args : list expr) : outcome str :=
  match args with
  | [] => Err IndexError
  | a0 :: _ => do g <- get_value_expr a0;
               match g with
               | GV (VStr s) => Ok (skipn 2 s)
               | _ => Err TypeError
               end
  end.

Lemma parse_out_param_name : forall args kws rd ed n p,
    parse_out_param args kws rd ed = Ok (n, p) -> out_param_name args = Ok n.
Proof.
  intros args kws rd ed n p H. unfold parse_out_param in H.
  binv H. binv H. binv H. rename a1 into name. rename Ha1 into Hname.
  binv H. binv H. binv H. binv H. destruct a4 as [doc1 default1]. binv H. binv H. binv H.
  inversion H; subst. exact Hname.
Qed.

Definition call_stmt (c : list expr * list (option str * expr)) : stmt :=
  SExpr (ECall (EAttr (EName (L "argument_parser")) (L "add_argument")) (fst c) (snd c)).

Lemma argparse_step_call : forall di fb st c st',
    argparse_step di fb st (call_stmt c) = Ok st' ->
    exists n p, parse_out_param (fst c) (snd c) (ap_require_default st) false = Ok (n, p)
                /\ ap_params st' = ap_update (ap_params st) n p.
Proof.
  intros di fb st c st' H. unfold argparse_step, call_stmt in H. cbn [argparse_stmt_declined] in H.
  change (str_eqb (L "add_argument") (L "add_argument") && str_eqb (L "argument_parser") (L "argument_parser"))
    with true in H.
  cbv iota in H. binv H. destruct a as [n p]. inversion H; subst. exists n, p. split; [exact Ha|reflexivity].
Qed.

Theorem argparse_one_param_per_call : forall di fb calls st st' names,
    argparse_loop di fb st (map call_stmt calls) = Ok st' ->
    Forall2 (fun c n => out_param_name (fst c) = Ok n) calls names ->
    NoDup (keys (ap_params st) ++ names) ->
    keys (ap_params st') = keys (ap_params st) ++ names.
Proof.
  induction calls as [|c calls IH]; intros st st' names H HF Hnd; cbn [map argparse_loop] in H.
  - inversion H; subst. inversion HF; subst. rewrite app_nil_r. reflexivity.
  - inversion HF as [|c' n0 cs ns Hn0 HF']; subst.
    binv H. destruct (argparse_step_call _ _ _ _ _ Ha) as [n [p [Hp Hps]]].
    apply parse_out_param_name in Hp. rewrite Hn0 in Hp. inversion Hp; subst n.
    assert (Hfresh : ~ In n0 (keys (ap_params st))).
    { intros Hin. apply NoDup_remove_2 in Hnd. apply Hnd. apply in_or_app. left. exact Hin. }
    assert (Hk : keys (ap_params a) = keys (ap_params st) ++ [n0]).
    { rewrite Hps, ap_update_keys. destruct (in_dec str_dec n0 (keys (ap_params st))); [contradiction|reflexivity]. }
    rewrite (IH a st' ns H HF').
    + rewrite Hk, <- app_assoc. reflexivity.
    + rewrite Hk, <- app_assoc. exact Hnd.
Qed.

Lemma argparse_loop_app : forall di fb b1 b2 st,
    argparse_loop di fb st (b1 ++ b2) = (do st' <- argparse_loop di fb st b1; argparse_loop di fb st' b2).
Proof.
  induction b1 as [|n b1 IH]; intros b2 st; cbn [app argparse_loop bind]; [reflexivity|].
  destruct (argparse_step di fb st n) as [st1|e]; cbn [bind]; [apply IH|reflexivity].
Qed.

(* the shape emit.argparse_function produces when there is no return entry:
   def f(argument_parser): [docstring; add_argument calls ...; return argument_parser] *)
Theorem parse_argparse_ast_calls : forall di nm a ds calls names decos rets ft fnm i,
    parse_argparse_ast (Ok di)
      (SFunc nm a (SExpr (EConst (VStr ds)) :: map call_stmt calls ++ [SReturn (Some (EName (L "argument_parser")))])
             decos rets) ft fnm = Ok i ->
    Forall2 (fun c n => out_param_name (fst c) = Ok n) calls names ->
    NoDup names ->
    map fst (ir_params i) = names /\ ir_returns i = Missing /\ ir_doc i = Has [].
Proof.
  intros di nm a ds calls names decos rets ft fnm i H HF Hnd.
  unfold parse_argparse_ast in H. cbn [is_func_other bind docstring_of tl] in H.
  binv H. inversion H; subst i. cbn [ir_params ir_returns ir_doc].
  rewrite argparse_loop_app in Ha. binv Ha. cbn [argparse_loop argparse_step argparse_stmt_declined bind] in Ha.
  inversion Ha; subst a0.
  pose proof (argparse_one_param_per_call di _ calls _ a1 names Ha0 HF) as Hk.
  cbn [ap_params keys map app] in Hk. specialize (Hk Hnd).
  (* returns / doc are untouched by add_argument steps *)
  assert (Hinv : forall cs st st', argparse_loop di (SExpr (EConst (VStr ds)) :: map call_stmt calls ++ [SReturn (Some (EName (L "argument_parser")))]) st (map call_stmt cs) = Ok st' ->
                                 ap_returns st' = ap_returns st /\ ap_doc st' = ap_doc st).
  { induction cs as [|c cs IHc]; intros st st' Hl; cbn [map argparse_loop] in Hl.
    - inversion Hl; subst. split; reflexivity.
    - binv Hl. unfold argparse_step, call_stmt in Ha1. cbn [argparse_stmt_declined] in Ha1.
      change (str_eqb (L "add_argument") (L "add_argument") && str_eqb (L "argument_parser") (L "argument_parser"))
        with true in Ha1.
      cbv iota in Ha1. binv Ha1. destruct a2 as [n p]. inversion Ha1; subst a0.
      apply IHc in Hl. cbn [ap_returns ap_doc] in Hl. exact Hl. }
  destruct (Hinv calls _ _ Ha0) as [Hr Hd]. cbn [ap_returns ap_doc] in Hr, Hd.
  split; [exact Hk|]. split; [exact Hr|exact Hd].
Qed.

(* non-vacuity: a concrete class and a concrete argparse function *)
Example parse_class_documented_example :
  parse_class (Some (Ok (mkIR FNone (Has (L "static")) (Has (L "Doc."))
                             [(L "a", mkG (Has (L "first.")) Missing None); (L "b", mkG (Has (L "second.")) Missing None)]
                             FNone None)))
              (CStmt (SClass (L "C") [] (SExpr (EConst (VStr (L "Doc."))) ::
                                          map attr_stmt [mkAttr (L "b") (EName (L "int")) (Some (EConst (VInt 5))) (L "int") (DV (VInt 5));
                                                         mkAttr (L "a") (ESub (EName (L "Optional")) (EName (L "str"))) None
                                                                (L "Optional[str]") (DV (VStr NoneStr))]) []))
              None false true
  = Ok (mkIR FNone (Has (L "static")) (Has (L "Doc."))
             [(L "a", mkG (Has (L "first.")) (Has (L "Optional[str]")) (Some (DV (VStr NoneStr))));
              (L "b", mkG (Has (L "second.")) (Has (L "int")) (Some (DV (VInt 5))))]
             FNone (Some (mkInternal [] (Has (L "C")) (Has (L "cls"))))).
Proof. vm_compute. reflexivity. Qed.

Example argparse_example :
  option_map (fun i => map fst (ir_params i))
    (match parse_argparse_ast (Ok (mkIR FNone (Has (L "static")) (Has []) [] FNone None))
           (SFunc (L "set_cli_args") (mkArguments [mkArg (L "argument_parser") None] [] [] [] None None)
                  (SExpr (EConst (VStr (L "doc"))) ::
                   map call_stmt [([EConst (VStr (L "--alpha"))], [(Some (L "type"), EName (L "int"))]);
                                  ([EConst (VStr (L "--beta"))], [(Some (L "default"), EConst (VStr (L "x")))])]
                   ++ [SReturn (Some (EName (L "argument_parser")))]) [] None) None None with
     | Ok i => Some i | Err _ => None end)
  = Some [L "alpha"; L "beta"].
Proof. vm_compute. reflexivity. Qed.

(* ------------------------------------------------------------------ *)
(* the comparison relation and the documented normalisation (C02Spec)   *)
(* ------------------------------------------------------------------ *)

(* comparing strictly against the normalised input implies the relation used by the oracles:
   same_interface is "same_interface_strict after zero_default_norm", or better *)
Lemma same_param_norm_strict : forall a b,
    same_param_strict (zero_default_norm_param a) b = true -> same_param a b = true.
Proof.
  intros a b H. unfold same_param_strict in H. unfold same_param.
  apply andb_true_iff in H. destruct H as [H Hd]. apply andb_true_iff in H. destruct H as [Ht Hp].
  assert (Ht' : same_typ a b = true).
  { unfold same_typ, zero_default_norm_param in *. destruct (g_default a); exact Ht. }
  assert (Hp' : same_prose a b = true).
  { unfold same_prose, prose_of, zero_default_norm_param in *. destruct (g_default a); exact Hp. }
  rewrite Ht', Hp'. cbn [andb].
  unfold default_same, default_ok, zero_default_norm_param in *.
  destruct (g_default a) as [v|] eqn:Ea.
  - rewrite Ea in Hd. exact Hd.
  - cbn [g_default g_typ] in Hd. destruct (g_default b) as [w|]; [|reflexivity].
    destruct (zero_of_typ (fget (g_typ a))) as [z|].
    + unfold same_default in Hd. apply orb_true_iff in Hd. destruct Hd as [Hd|Hd].
      * apply andb_true_iff in Hd. destruct Hd as [_ Hw]. rewrite Hw. reflexivity.
      * rewrite Hd. apply orb_true_r.
    + unfold same_default in Hd. apply orb_true_iff in Hd. destruct Hd as [Hd|Hd].
      * apply andb_true_iff in Hd. destruct Hd as [_ Hw]. rewrite Hw. reflexivity.
      * destruct w as [wv|we|wr]; cbn [dval_eqb] in Hd; try discriminate Hd.
        destruct wv as [|wb|wz|wf|ws]; cbn [pyval_eqb] in Hd; try discriminate Hd.
        apply str_eqb_eq in Hd. subst ws. reflexivity.
Qed.

Lemma same_params_norm_strict : forall a b,
    same_params same_param_strict (map (fun kv => (fst kv, zero_default_norm_param (snd kv))) a) b = true ->
    same_params same_param a b = true.
Proof.
  induction a as [|[n1 p1] a IH]; intros [|[n2 p2] b] H; cbn [map same_params fst snd] in *;
    try reflexivity; try discriminate H.
  apply andb_true_iff in H. destruct H as [H Hr]. apply andb_true_iff in H. destruct H as [Hn Hp].
  rewrite Hn, (same_param_norm_strict _ _ Hp), (IH _ Hr). reflexivity.
Qed.

Theorem same_interface_norm_strict : forall a b,
    same_interface_strict (zero_default_norm a) b = true -> same_interface a b = true.
Proof.
  intros a b H. unfold same_interface_strict, same_interface, zero_default_norm in *. cbn [ir_params ir_returns] in H.
  apply andb_true_iff in H. destruct H as [Hp Hr].
  rewrite (same_params_norm_strict _ _ Hp). cbn [andb].
  unfold same_returns in *. destruct (ir_returns a) as [| |r]; cbn [fget] in *; try exact Hr.
  destruct (fget (ir_returns b)) as [r'|]; [|exact Hr]. apply same_param_norm_strict. exact Hr.
Qed.
