(* C18ParseDflt: parse-level transparency of word wrapping (ReST) for entries whose prose ends with a whole
   default sentence ( d Defaults to s ) that the wrapper does not split.  Proofs only. *)
From Coq Require Import List Ascii Bool Arith ZArith Lia.
From Coq Require String.
Import String.StringSyntax.
From DT Require Import PyStr Sexp PyVal TyExpr PureUtils Defaults PyAst IR Extracted Fill C17Spec.
From DT Require Import DocEmit C18Spec DocParse C01Spec C18ParseSpec.
From DT Require Import PyStrFacts DefaultsFacts SplitFacts FillFacts DocEmitFacts C18Facts DocParseFacts C01RestLink C18Parse.
Import ListNotations.

(* extract_default on  d ++ " " ++ A ++ s , whatever the coercion of s gives *)
Lemma extract_default_sentence_gen : forall d l A s t e rs edd,
    last_c d = Some l -> sep_char_ok l default_announces = true -> no_announce d = true ->
    location_within casefold (A ++ s) default_announces = Some (0, List.length A, e) ->
    scan_default s 0 = s ->
    strip_chars strip_set s = s ->
    negb (startswith [ch 40] s) && endswith (L ").") s = false ->
    extract_default (d ++ [sp] ++ A ++ s) rs default_announces t edd
    = (do v <- coerce_default t s; Ok (if edd then d ++ [sp] ++ A ++ s else d, Some v)).
Proof.
  intros d l A s t e rs edd Hl Hok Hno Hloc Hscan Hstrip Hparen.
  change (d ++ [sp] ++ A ++ s) with (d ++ sp :: (A ++ s)).
  assert (Hskip : skipn (List.length d + 1 + List.length A) (d ++ sp :: (A ++ s)) = s).
  { rewrite <- Nat.add_assoc. rewrite skipn_app_exact_plus.
    cbn [Nat.add skipn]. apply skipn_app_exact. }
  assert (Hlen : List.length d + 1 + List.length A + List.length s
                 = List.length (d ++ sp :: (A ++ s))).
  { rewrite app_length. cbn [List.length]. rewrite app_length. lia. }
  unfold strip_set in Hstrip.
  assert (Hfirst : slice_to_z (d ++ sp :: (A ++ s)) (Z.of_nat (List.length d + 1 + 0) - 1) = d).
  { replace (List.length d + 1 + 0) with (S (List.length d)) by lia.
    rewrite slice_to_z_pred. rewrite <- (Nat.add_0_r (List.length d)).
    rewrite firstn_app_exact_plus. cbn [firstn]. apply app_nil_r. }
  unfold extract_default.
  rewrite (location_within_sentence d (A ++ s) l Hl Hok Hno), Hloc.
  cbn [option_map shift_loc]. cbv zeta.
  rewrite Hskip, Hscan, Hstrip.
  destruct (startswith [ch 40] s); [|cbn [negb andb] in Hparen; rewrite Hparen].
  all: destruct (coerce_default t s) as [v|er]; cbn [bind]; [|reflexivity]; destruct edd; [reflexivity|].
  all: rewrite Hfirst, Hlen; destruct rs.
  all: rewrite skipn_all; cbn [takewhile List.length]; rewrite ?Nat.add_0_r, ?skipn_all.
  all: rewrite app_nil_r; reflexivity.
Qed.

Lemma ends_term_inv : forall d, ends_term d = true ->
    exists l, last_c d = Some l /\ sep_char_ok l default_announces = true.
Proof.
  intros d H. unfold ends_term in H. destruct (last_c d) as [l|]; [|discriminate].
  exists l. split; [reflexivity|]. apply terminal_sep_ok. exact H.
Qed.

Lemma value_text_ok_inv : forall s, value_text_ok s = true ->
    (exists e, location_within casefold (dflt_A ++ s) default_announces = Some (0, List.length dflt_A, e))
    /\ scan_default s 0 = s /\ strip_chars strip_set s = s
    /\ negb (startswith [ch 40] s) && endswith (L ").") s = false.
Proof.
  intros s H. unfold value_text_ok in H.
  apply andb_true_iff in H. destruct H as [H H4]. apply andb_true_iff in H. destruct H as [H H3].
  apply andb_true_iff in H. destruct H as [H1 H2].
  apply str_eqb_eq in H2, H3. apply negb_true_iff in H4.
  split; [exact (value_announce_ok_inv ADefaultsTo s H1)|]. repeat split; assumption.
Qed.

(* the two  :param  lines, wrapped and not, when the prose ends with the same whole sentence *)
Lemma doc_lines_ok_dflt : forall edd n pad wd ws pad' d ws' s,
    mem_c colon n = false ->
    let tail := [sp] ++ dflt_A ++ s in
    edge_ok (wd ++ tail) -> forallb isspace pad = true -> forallb isspace ws = true ->
    edge_ok (d ++ tail) -> forallb isspace pad' = true -> forallb isspace ws' = true ->
    wd <> [] -> d <> [] ->
    no_announce wd = true -> no_announce d = true -> ends_term wd = true -> ends_term d = true ->
    value_text_ok s = true ->
    norm_doc wd = norm_doc d -> norm_doc (wd ++ tail) = norm_doc (d ++ tail) ->
    tok_lines_ok edd [(true, key_line' (L ":param") n pad (wd ++ tail) ws)]
                     [(true, key_line' (L ":param") n pad' (d ++ tail) ws')].
Proof.
  intros edd n pad wd ws pad' d ws' s Hn tail Hv Hp Hw HD Hp' Hw' Hwdne Hdne Hawd Had Htw Htd Hs Hn1 Hn2.
  destruct (ends_term_inv wd Htw) as [lw [Hlw Hokw]]. destruct (ends_term_inv d Htd) as [ld [Hld Hokd]].
  destruct (value_text_ok_inv s Hs) as [[e Hloc] [Hscan [Hstrip Hparen]]].
  apply (tok_lines_ok_single edd _ _ n (upd_doc (wd ++ tail)) (upd_doc (d ++ tail))).
  - intros st. apply step_param_line'; assumption.
  - intros st. apply step_param_line'; assumption.
  - intros c. unfold upd_doc, interpolate_defaults. cbn [p_doc p_typ p_default extract_default_fld andb].
    unfold tail.
    rewrite (extract_default_sentence_gen wd lw dflt_A s (fget (p_typ c)) e true edd Hlw Hokw Hawd Hloc Hscan Hstrip Hparen).
    rewrite (extract_default_sentence_gen d ld dflt_A s (fget (p_typ c)) e true edd Hld Hokd Had Hloc Hscan Hstrip Hparen).
    destruct (coerce_default (fget (p_typ c)) s) as [v|er]; cbn [bind fst snd]; [|reflexivity].
    destruct edd.
    + apply snt_doc; [destruct wd; [contradiction|discriminate]|destruct d; [contradiction|discriminate]|exact Hn2].
    + apply snt_doc; assumption.
Qed.

Lemma doc_piece_dflt_inv : forall w edd n D,
    is_ident n = true -> is_return n = false -> no_rest_token D = true -> doc_piece_dflt_ok w n D = true ->
    exists r pad val,
      fill w (rest_doc_line n D) = Ok r
      /\ (forall ws, indent_all_but_first r 1 false ++ ws = blk (dblock' n pad val ws))
      /\ (forall ws, indent_all_but_first (rest_doc_line n D) 1 false ++ ws = blk (dblock' n [sp] D ws))
      /\ (forall ws, forallb isspace ws = true ->
            block_good (dblock' n pad val ws) /\ block_good (dblock' n [sp] D ws)
            /\ tok_lines_ok edd [as_line (dblock' n pad val ws)] [as_line (dblock' n [sp] D ws)]).
Proof.
  intros w edd n D Hid Hret Htok H. unfold doc_piece_dflt_ok in H.
  destruct (sentence_split D) as [[d s]|]; [|discriminate].
  set (tail := [sp] ++ dflt_A ++ s) in *.
  repeat (apply andb_true_iff in H; let H' := fresh "Hd" in destruct H as [H H']).
  apply str_eqb_eq in H. apply negb_true_iff in Hd0. apply edge_okb_spec in Hd1.
  destruct (prose_line_ok_inv d Hd4) as [Hde [Hdnl Hda]].
  destruct (is_ident_chars n Hid) as [Hcolon Hnnl].
  unfold wrapped_line in Hd. destruct (fill w (rest_doc_line n D)) as [r|e] eqn:Ef; [|discriminate].
  cbn [bind] in Hd.
  destruct (value_after (L ":param " ++ n ++ L ":") (indent_all_but_first r 1 false)) as [[pad val]|] eqn:Ev;
    [|discriminate].
  destruct (value_after_spec _ _ _ _ Ev) as [Et Hpad].
  set (wd := firstn (List.length val - List.length tail) val) in *.
  repeat (apply andb_true_iff in Hd; let H' := fresh "Hc" in destruct Hd as [Hd H']).
  apply str_eqb_eq in Hc, Hc0, Hc6. apply edge_okb_spec in Hc5.
  assert (Hpne : pad <> []) by (intros E; subst pad; discriminate).
  assert (Hwdne : wd <> []) by (intros E; rewrite E in Hc3; discriminate).
  assert (Eline : rest_doc_line n D = L ":param" ++ sp :: n ++ colon :: [sp] ++ D).
  { unfold rest_doc_line, rest_key. rewrite Hret. rewrite <- !app_assoc. reflexivity. }
  exists r, pad, val. split; [reflexivity|]. split; [|split].
  - intros ws. rewrite Et. unfold blk, dblock'. cbn [fst snd]. rewrite <- !app_assoc. reflexivity.
  - intros ws. rewrite iabf_rest_doc_line.
    + rewrite Eline. unfold blk, dblock'. cbn [fst snd].
      repeat (rewrite <- app_assoc || (progress cbn [app])). reflexivity.
    + apply mem_c_false_notin. rewrite Eline.
      change (L ":param" ++ sp :: n ++ colon :: [sp] ++ D) with ((L ":param" ++ [sp]) ++ n ++ (colon :: [sp]) ++ D).
      rewrite !mem_c_app, Hnnl, Hd0. reflexivity.
  - intros ws Hws. split; [|split].
    + split; [left; reflexivity|]. cbn [snd dblock']. apply key_body_token_free'; assumption.
    + split; [left; reflexivity|]. cbn [snd dblock']. apply key_body_token_free'; try assumption; [discriminate|reflexivity].
    + unfold as_line, blk, dblock'. cbn [fst snd]. clearbody wd. subst val D.
      apply (doc_lines_ok_dflt edd n pad wd ws [sp] d ws s); try assumption; try reflexivity.
      apply edge_ok_nonnil. exact Hde.
Qed.

Lemma doc_piece_any_inv : forall w edd n D,
    is_ident n = true -> is_return n = false -> no_rest_token D = true ->
    doc_piece_ok w n D || doc_piece_dflt_ok w n D = true ->
    exists r pad val,
      fill w (rest_doc_line n D) = Ok r
      /\ (forall ws, indent_all_but_first r 1 false ++ ws = blk (dblock' n pad val ws))
      /\ (forall ws, indent_all_but_first (rest_doc_line n D) 1 false ++ ws = blk (dblock' n [sp] D ws))
      /\ (forall ws, forallb isspace ws = true ->
            block_good (dblock' n pad val ws) /\ block_good (dblock' n [sp] D ws)
            /\ tok_lines_ok edd [as_line (dblock' n pad val ws)] [as_line (dblock' n [sp] D ws)]).
Proof.
  intros w edd n D Hid Hret Htok H. apply orb_true_iff in H. destruct H as [H|H].
  - apply doc_piece_inv; assumption.
  - apply doc_piece_dflt_inv; assumption.
Qed.

(* ------------------------------------------------------------------ the theorems again, with the wider guard
   (the proofs are those of C18Parse.v with doc_piece_any_inv in place of doc_piece_inv) *)

Lemma entry_pieces_ok_d_ret : forall w p,
    entry_pieces_ok_d w (L "return_type", p) = entry_pieces_ok w (L "return_type", p).
Proof.
  intros w p. unfold entry_pieces_ok_d, entry_pieces_ok. cbn [fst snd].
  destruct (rest_block_of true (L "return_type") p) as [[b p']|e]; [|reflexivity].
  destruct (rb_doc b); reflexivity.
Qed.

Lemma param_pieces_d : forall w edd n p,
    0 < w -> param_name_ok (n, p) = true -> entry_pieces_ok_d w (n, p) = true ->
    exists tw tu bw bu,
      emit_param_str w n p DocEmit.Rest true true true true = Ok (tw, p)
      /\ emit_param_str w n p DocEmit.Rest true true false true = Ok (tu, p)
      /\ tw ++ nl2 = concat (map blk bw) /\ tu ++ nl2 = concat (map blk bu)
      /\ (forall b, In b bw -> block_good b) /\ (forall b, In b bu -> block_good b)
      /\ bw <> [] /\ bu <> []
      /\ tok_lines_ok edd (map as_line bw) (map as_line bu).
Proof.
  intros w edd n p Hw Hname H. unfold param_name_ok in Hname. cbn [fst] in Hname.
  apply andb_true_iff in Hname. destruct Hname as [Hid Hret]. apply negb_true_iff in Hret.
  unfold entry_pieces_ok_d in H. cbn [fst snd] in H.
  destruct (rest_block_of true n p) as [[b p']|e] eqn:Eb; [|discriminate].
  pose proof (rest_block_of_name _ _ _ _ _ Eb) as En.
  unfold emit_param_str. rewrite rest_raw_lines_block, Eb. cbn [bind fst snd].
  rewrite mapM_id. cbn [bind].
  destruct b as [bn bd bt]. cbn [rb_name rb_doc rb_typ] in *. subst bn.
  unfold block_lines. cbn [rb_name rb_doc rb_typ].
  apply andb_true_iff in H. destruct H as [H Htyp]. apply andb_true_iff in H. destruct H as [Hsome Hdoc].
  rewrite Hret in Hdoc.
  destruct bd as [D|]; destruct bt as [t|]; cbn [option_map cat_options]; try discriminate.
  - apply andb_true_iff in Hdoc. destruct Hdoc as [HDtok Hdoc].
    destruct (doc_piece_any_inv w edd n D Hid Hret HDtok Hdoc) as [r [pad [val [Hf [Hbw [Hbu Hgood]]]]]].
    destruct (typ_piece_inv w edd n t Hw Hid Hret Htyp) as [Hft [Hbt Hgt]].
    destruct (Hgood nl1 eq_refl) as [G1 [G2 G3]]. destruct (Hgt nl2 eq_refl) as [G4 G5].
    rewrite (mapM_fill2 w _ _ _ _ Hf Hft). cbn [bind map join].
    exists (indent_all_but_first r 1 false ++ [nl] ++ indent_all_but_first (rest_typ_line n t) 1 false),
           (indent_all_but_first (rest_doc_line n D) 1 false ++ [nl] ++ indent_all_but_first (rest_typ_line n t) 1 false),
           [dblock' n pad val nl1; tblock n t nl2], [dblock' n [sp] D nl1; tblock n t nl2].
    split; [reflexivity|]. split; [reflexivity|]. split; [|split].
    + cbn [map concat]. rewrite <- Hbw, <- Hbt. unfold nl1. rewrite <- !app_assoc, app_nil_r. reflexivity.
    + cbn [map concat]. rewrite <- Hbu, <- Hbt. unfold nl1. rewrite <- !app_assoc, app_nil_r. reflexivity.
    + split; [intros b [Hb|[Hb|[]]]; subst b; assumption|].
      split; [intros b [Hb|[Hb|[]]]; subst b; assumption|].
      split; [discriminate|]. split; [discriminate|].
      apply (tok_lines_ok_app edd [_] [_] [_] [_]); assumption.
  - apply andb_true_iff in Hdoc. destruct Hdoc as [HDtok Hdoc].
    destruct (doc_piece_any_inv w edd n D Hid Hret HDtok Hdoc) as [r [pad [val [Hf [Hbw [Hbu Hgood]]]]]].
    destruct (Hgood nl2 eq_refl) as [G1 [G2 G3]].
    rewrite (mapM_fill1 w _ _ Hf). cbn [bind map join].
    exists (indent_all_but_first r 1 false), (indent_all_but_first (rest_doc_line n D) 1 false),
           [dblock' n pad val nl2], [dblock' n [sp] D nl2].
    split; [reflexivity|]. split; [reflexivity|]. split; [|split].
    + cbn [map concat]. rewrite <- Hbw, app_nil_r. reflexivity.
    + cbn [map concat]. rewrite <- Hbu, app_nil_r. reflexivity.
    + split; [intros b [Hb|[]]; subst b; assumption|].
      split; [intros b [Hb|[]]; subst b; assumption|].
      split; [discriminate|]. split; [discriminate|]. exact G3.
  - destruct (typ_piece_inv w edd n t Hw Hid Hret Htyp) as [Hft [Hbt Hgt]].
    destruct (Hgt nl2 eq_refl) as [G4 G5].
    rewrite (mapM_fill1 w _ _ Hft). cbn [bind map join].
    exists (indent_all_but_first (rest_typ_line n t) 1 false), (indent_all_but_first (rest_typ_line n t) 1 false),
           [tblock n t nl2], [tblock n t nl2].
    split; [reflexivity|]. split; [reflexivity|]. split; [|split].
    + cbn [map concat]. rewrite <- Hbt, app_nil_r. reflexivity.
    + cbn [map concat]. rewrite <- Hbt, app_nil_r. reflexivity.
    + split; [intros b [Hb|[]]; subst b; assumption|].
      split; [intros b [Hb|[]]; subst b; assumption|].
      split; [discriminate|]. split; [discriminate|]. exact G5.
Qed.

Lemma items_pieces_d : forall w edd ps,
    0 < w -> forallb param_name_ok ps = true -> forallb (entry_pieces_ok_d w) ps = true ->
    exists txw txu pbw pbu,
      emit_items (fun k p => emit_param_str w k p DocEmit.Rest true true true true) ps = Ok (txw, ps)
      /\ emit_items (fun k p => emit_param_str w k p DocEmit.Rest true true false true) ps = Ok (txu, ps)
      /\ concat (map (fun t => t ++ nl2) txw) = concat (map blk pbw)
      /\ concat (map (fun t => t ++ nl2) txu) = concat (map blk pbu)
      /\ (forall b, In b pbw -> block_good b) /\ (forall b, In b pbu -> block_good b)
      /\ (ps <> [] -> pbw <> [] /\ pbu <> [])
      /\ List.length txw = List.length ps /\ List.length txu = List.length ps
      /\ tok_lines_ok edd (map as_line pbw) (map as_line pbu).
Proof.
  intros w edd ps Hw. induction ps as [|[n p] ps IH]; intros Hn Hp.
  - exists [], [], [], [].
    split; [reflexivity|]. split; [reflexivity|]. split; [reflexivity|]. split; [reflexivity|].
    split; [intros b []|]. split; [intros b []|]. split; [intros H; contradiction|].
    split; [reflexivity|]. split; [reflexivity|]. apply tok_lines_ok_nil.
  - cbn [forallb] in Hn, Hp. apply andb_true_iff in Hn. destruct Hn as [Hn1 Hn2].
    apply andb_true_iff in Hp. destruct Hp as [Hp1 Hp2].
    destruct (IH Hn2 Hp2) as [txw [txu [pbw [pbu [E1 [E2 [T1 [T2 [G1 [G2 [_ [L1 [L2 R]]]]]]]]]]]]].
    destruct (param_pieces_d w edd n p Hw Hn1 Hp1) as [tw [tu [bw [bu [F1 [F2 [U1 [U2 [K1 [K2 [N1 [N2 R0]]]]]]]]]]]].
    exists (tw :: txw), (tu :: txu), (bw ++ pbw), (bu ++ pbu).
    cbn [emit_items]. rewrite F1, F2. cbn [bind]. rewrite E1, E2. cbn [bind fst snd].
    split; [reflexivity|]. split; [reflexivity|].
    split; [cbn [map concat]; rewrite map_app, concat_app, U1, T1; reflexivity|].
    split; [cbn [map concat]; rewrite map_app, concat_app, U2, T2; reflexivity|].
    split; [intros b Hb; apply in_app_or in Hb; destruct Hb as [Hb|Hb]; [apply K1|apply G1]; exact Hb|].
    split; [intros b Hb; apply in_app_or in Hb; destruct Hb as [Hb|Hb]; [apply K2|apply G2]; exact Hb|].
    split.
    { intros _. split; intros E; apply app_eq_nil in E; destruct E as [E _]; [apply N1|apply N2]; exact E. }
    split; [cbn [List.length]; rewrite L1; reflexivity|].
    split; [cbn [List.length]; rewrite L2; reflexivity|].
    rewrite !map_app. apply tok_lines_ok_app; assumption.
Qed.

Theorem C18_rest_pieces_d_lemma : forall w edd i,
    0 < w -> guard_C18_rest_pieces_d w i = true ->
    exists tw tu,
      emit_docstring w DocEmit.Rest true true i = Ok (tw, i)
      /\ emit_docstring w DocEmit.Rest false true i = Ok (tu, i)
      /\ forall du, parse_dot_docstring ng_unmodelled tu false true edd = Ok du ->
           exists dw, parse_dot_docstring ng_unmodelled tw false true edd = Ok dw
                      /\ ir_params dw = ir_params du
                      /\ same_interface_ws false du dw = true
                      /\ (forall k i0, same_interface k i0 du = true -> same_interface_ws k i0 dw = true).
Proof.
  intros w edd i Hw Hg. unfold guard_C18_rest_pieces_d in Hg.
  destruct (ir_doc i) as [| |d] eqn:Edoc; try discriminate.
  destruct (params_of (ir_params i)) as [ps|] eqn:Eps; [|discriminate].
  apply andb_true_iff in Hg. destruct Hg as [Hg Hret]. apply andb_true_iff in Hg. destruct Hg as [Hg Hpieces].
  apply andb_true_iff in Hg. destruct Hg as [Hsum Hnames].
  destruct (summary_piece_inv w d Hsum) as [Hdtok [Hdstrip [r [Hfill [Hrtok [Hrstrip Hrwords]]]]]].
  destruct (items_pieces_d w edd ps Hw Hnames Hpieces)
    as [txw [txu [pbw [pbu [E1 [E2 [T1 [T2 [G1 [G2 [Hne [L1 [L2 R]]]]]]]]]]]]].
  (* the return entry *)
  assert (Hrets : exists rpw rpu rbw rbu ow ou,
             (match ir_returns i with
              | Has g => match param_of_gparam g with
                         | None => Err Unmodelled
                         | Some p => do sp <- emit_param_str w (L "return_type") p DocEmit.Rest true true true true;
                                     Ok ([] ++ [nl] ++ fst sp, Has (gparam_of_param (snd sp)))
                         end
              | other => Ok ([], other)
              end) = Ok rpw
             /\ (match ir_returns i with
                 | Has g => match param_of_gparam g with
                            | None => Err Unmodelled
                            | Some p => do sp <- emit_param_str w (L "return_type") p DocEmit.Rest true true false true;
                                        Ok ([] ++ [nl] ++ fst sp, Has (gparam_of_param (snd sp)))
                            end
                 | other => Ok ([], other)
                 end) = Ok rpu
             /\ fst rpw ++ nl1 = nl1 ++ concat (map blk rbw) /\ fst rpu ++ nl1 = nl1 ++ concat (map blk rbu)
             /\ (forall b, In b rbw -> block_good b) /\ (forall b, In b rbu -> block_good b)
             /\ (pbw ++ rbw <> []) /\ (pbu ++ rbu <> [])
             /\ (forall st, rs_returns st = None ->
                   fold_outcome (step true edd) (map as_line rbw) st = Ok (mkRS (rs_doc st) (rs_params st) ow (rs_cur st)))
             /\ (forall st, rs_returns st = None ->
                   fold_outcome (step true edd) (map as_line rbu) st = Ok (mkRS (rs_doc st) (rs_params st) ou (rs_cur st)))
             /\ map_returns (fun p => interpolate_defaults p default_announces false edd) ow = Ok ow
             /\ map_returns (fun p => interpolate_defaults p default_announces false edd) ou = Ok ou
             /\ orp_rel ow ou).
  { assert (Hnone : match ps with [] => false | _ => true end = true ->
                    forall other : fld gparam, exists rpw rpu rbw rbu ow ou,
                      Ok (@nil ascii, other) = Ok rpw /\ Ok (@nil ascii, other) = Ok rpu
                      /\ fst rpw ++ nl1 = nl1 ++ concat (map blk rbw) /\ fst rpu ++ nl1 = nl1 ++ concat (map blk rbu)
                      /\ (forall b, In b rbw -> block_good b) /\ (forall b, In b rbu -> block_good b)
                      /\ (pbw ++ rbw <> []) /\ (pbu ++ rbu <> [])
                      /\ (forall st, rs_returns st = None ->
                            fold_outcome (step true edd) (map as_line rbw) st = Ok (mkRS (rs_doc st) (rs_params st) ow (rs_cur st)))
                      /\ (forall st, rs_returns st = None ->
                            fold_outcome (step true edd) (map as_line rbu) st = Ok (mkRS (rs_doc st) (rs_params st) ou (rs_cur st)))
                      /\ map_returns (fun p => interpolate_defaults p default_announces false edd) ow = Ok ow
                      /\ map_returns (fun p => interpolate_defaults p default_announces false edd) ou = Ok ou
                      /\ orp_rel ow ou).
    { intros Hps other. exists ([], other), ([], other), [], [], None, None.
      assert (Hpsne : ps <> []) by (intros E; subst ps; discriminate).
      destruct (Hne Hpsne) as [N1 N2].
      split; [reflexivity|]. split; [reflexivity|]. split; [reflexivity|]. split; [reflexivity|].
      split; [intros b []|]. split; [intros b []|].
      split; [rewrite app_nil_r; exact N1|]. split; [rewrite app_nil_r; exact N2|].
      split; [intros st Hst; cbn [map fold_outcome]; destruct st; cbn in *; subst; reflexivity|].
      split; [intros st Hst; cbn [map fold_outcome]; destruct st; cbn in *; subst; reflexivity|].
      split; [reflexivity|]. split; [reflexivity|exact I]. }
    destruct (ir_returns i) as [| |g]; [apply Hnone; exact Hret|apply Hnone; exact Hret|].
    destruct (param_of_gparam g) as [p|]; [|discriminate].
    rewrite entry_pieces_ok_d_ret in Hret.
    destruct (ret_pieces w edd p Hw Hret)
      as [tw [tu [bw [bu [rw [ru [F1 [F2 [U1 [U2 [K1 [K2 [N1 [N2 [S1 [S2 [I1 [I2 Hrel]]]]]]]]]]]]]]]]]].
    rewrite F1, F2. cbn [bind fst snd].
    eexists. eexists. exists bw, bu, (Some rw), (Some ru).
    split; [reflexivity|]. split; [reflexivity|]. cbn [fst].
    split; [cbn [app]; rewrite <- U1; reflexivity|]. split; [cbn [app]; rewrite <- U2; reflexivity|].
    split; [exact K1|]. split; [exact K2|].
    split; [intros E; apply app_eq_nil in E; destruct E as [_ E]; exact (N1 E)|].
    split; [intros E; apply app_eq_nil in E; destruct E as [_ E]; exact (N2 E)|].
    split; [exact S1|]. split; [exact S2|].
    split; [cbn [map_returns]; rewrite I1; reflexivity|]. split; [cbn [map_returns]; rewrite I2; reflexivity|].
    exact Hrel. }
  destruct Hrets as [rpw [rpu [rbw [rbu [ow [ou [Rw [Ru [Vw [Vu [K1 [K2 [N1 [N2 [S1 [S2 [M1 [M2 Hrel]]]]]]]]]]]]]]]]]].
  assert (Etw : emit_docstring w DocEmit.Rest true true i
                = Ok (([nl] ++ r ++ (match txw with [] => nl2 ++ nl2 | _ => nl2 end)) ++ concat (map blk (pbw ++ rbw)), i)).
  { unfold emit_docstring. rewrite Eps, Edoc. cbn [fill_or_id]. rewrite Hfill. cbn [bind]. rewrite E1. cbn [bind fst snd].
    assert (Epl : match txw with [] => txw | _ :: _ => txw end = txw) by (destruct txw; reflexivity).
    rewrite Epl, Rw. cbn [bind]. rewrite (text_shape r txw pbw (fst rpw) rbw T1 Vw). reflexivity. }
  assert (Etu : emit_docstring w DocEmit.Rest false true i
                = Ok (([nl] ++ d ++ (match txu with [] => nl2 ++ nl2 | _ => nl2 end)) ++ concat (map blk (pbu ++ rbu)), i)).
  { unfold emit_docstring. rewrite Eps, Edoc. cbn [fill_or_id bind]. rewrite E2. cbn [bind fst snd].
    assert (Epl : match txu with [] => txu | _ :: _ => txu end = txu) by (destruct txu; reflexivity).
    rewrite Epl, Ru. cbn [bind]. rewrite (text_shape d txu pbu (fst rpu) rbu T2 Vu). reflexivity. }
  eexists. eexists. split; [exact Etw|]. split; [exact Etu|].
  intros du Hdu.
  assert (Gw : forall b, In b (pbw ++ rbw) -> block_good b).
  { intros b Hb. apply in_app_or in Hb. destruct Hb as [Hb|Hb]; [apply G1|apply K1]; exact Hb. }
  assert (Gu : forall b, In b (pbu ++ rbu) -> block_good b).
  { intros b Hb. apply in_app_or in Hb. destruct Hb as [Hb|Hb]; [apply G2|apply K2]; exact Hb. }
  destruct (assemble edd r d _ _ pbw pbu rbw rbu ow ou Hrtok Hrstrip Hdtok Hdstrip (sep_ws txw) (sep_ws txu)
                     Gw Gu N1 N2 R S1 S2 M1 M2 du Hdu) as [ps' [Edu Hpw]].
  exists (ir_of_parts r ps' ow). split; [exact Hpw|]. subst du. split; [reflexivity|].
  split; [apply parts_rel; assumption|].
  intros k i0 Hk. apply (parts_link k i0 r d ps' ow ou); assumption.
Qed.

Theorem C18_rest_parse_d_lemma : forall w edd i,
    guard_C18_rest_parse_d w edd i = true ->
    exists tw tu dw du,
      emit_docstring w DocEmit.Rest true true i = Ok (tw, i)
      /\ emit_docstring w DocEmit.Rest false true i = Ok (tu, i)
      /\ parse_dot_docstring ng_unmodelled tw false true edd = Ok dw
      /\ parse_dot_docstring ng_unmodelled tu false true edd = Ok du
      /\ ir_params dw = ir_params du
      /\ same_interface_ws false du dw = true
      /\ same_interface edd i du = true
      /\ same_interface_ws edd i dw = true.
Proof.
  intros w edd i Hg. unfold guard_C18_rest_parse_d in Hg.
  apply andb_true_iff in Hg. destruct Hg as [Hg Hp]. apply andb_true_iff in Hg. destruct Hg as [Hw H01].
  apply Nat.ltb_lt in Hw.
  destruct (C18_rest_pieces_d_lemma w edd i Hw Hp) as [tw [tu [Etw [Etu Hall]]]].
  destruct (C01_rest_partial_emit_lemma w edd i H01) as [text [i0 [du [Hemit [_ [Hparse Hsame]]]]]].
  rewrite Etu in Hemit. injection Hemit as Ht _. subst text.
  destruct (Hall du Hparse) as [dw [Hpw [Hps [Hrel Hlink]]]].
  exists tw, tu, dw, du. repeat (split; [assumption|]). apply Hlink. exact Hsame.
Qed.

Lemma C18_rest_parse_d_b_lemma : forall w edd i,
    guard_C18_rest_parse_d w edd i = true -> C18_rest_parse_at_b w edd i = true.
Proof.
  intros w edd i Hg.
  destruct (C18_rest_parse_d_lemma w edd i Hg) as [tw [tu [dw [du [E1 [E2 [P1 [P2 [_ [R1 [_ R2]]]]]]]]]]].
  unfold C18_rest_parse_at_b. rewrite E1, E2, P1, P2, R1, R2. reflexivity.
Qed.

(* the wider guard contains the narrower one *)
Lemma pieces_d_of_pieces : forall w i, guard_C18_rest_pieces w i = true -> guard_C18_rest_pieces_d w i = true.
Proof.
  intros w i H. unfold guard_C18_rest_pieces in H. unfold guard_C18_rest_pieces_d.
  destruct (ir_doc i) as [| |d]; try discriminate. destruct (params_of (ir_params i)) as [ps|]; [|discriminate].
  assert (E : forall np, entry_pieces_ok w np = true -> entry_pieces_ok_d w np = true).
  { intros [n p] Hnp. unfold entry_pieces_ok in Hnp. unfold entry_pieces_ok_d. cbn [fst snd] in *.
    destruct (rest_block_of true n p) as [[b p']|e]; [|discriminate].
    apply andb_true_iff in Hnp. destruct Hnp as [Hnp H3]. apply andb_true_iff in Hnp. destruct Hnp as [H1 H2].
    rewrite H1, H3. cbn [andb]. rewrite andb_true_r. destruct (rb_doc b) as [D|]; [|reflexivity].
    apply andb_true_iff in H2. destruct H2 as [H2 H4]. rewrite H2. cbn [andb].
    destruct (is_return n); [exact H4|]. rewrite H4. reflexivity. }
  apply andb_true_iff in H. destruct H as [H Hret]. apply andb_true_iff in H. destruct H as [H Hps].
  rewrite H. cbn [andb].
  assert (Hps' : forallb (entry_pieces_ok_d w) ps = true).
  { rewrite forallb_forall in *. intros np Hnp. apply E. apply Hps. exact Hnp. }
  rewrite Hps'. cbn [andb].
  destruct (ir_returns i) as [| |g]; exact Hret.
Qed.

(* a typed int default, an untyped parameter, a typed str default, a return entry; prose that wraps *)
Definition c18_dflt_ir : ir :=
  mkIR FNone (Has (L "static")) (Has (L "Summary words that go on and on for a while."))
       [(L "alpha", gp18 (L "first parameter with a long prose that needs wrapping.") (Some (L "int")) (Some (VInt 5)));
        (L "beta", gp18 (L "second one also quite long enough to wrap around the width limit") None None);
        (L "gamma", gp18 (L "third parameter, a string with a default, long prose.") (Some (L "str"))
                         (Some (VStr (L "a b c"))))]
       (Has (gp18 (L "the result value described at great length so that it wraps too") (Some (L "str")) None)) None.

Lemma C18_rest_parse_d_nonvacuous_lemma :
  guard_C18_rest_parse_d 30 true c18_dflt_ir = true /\ guard_C18_rest_parse_d 30 false c18_dflt_ir = true
  /\ guard_C18_rest_parse_d 50 true c18_dflt_ir = true /\ guard_C18_rest_parse_d 50 false c18_dflt_ir = true
  /\ guard_C18_rest_parse 30 true c18_dflt_ir = false
  /\ guard_nowrap 50 DocEmit.Rest true c18_dflt_ir = false
  /\ guard_C18_rest_parse_d 42 true c18_dflt_ir = false /\ C18_rest_parse_at_b 42 false c18_dflt_ir = false.
Proof. vm_compute. repeat split. Qed.

(* the typed parameter whose default sentence is split, read with emit_default_doc=False: inside the ReST guard of
   C01, inside guard_C18 (finding_class_C18 answers None), and the wrapped text reads back a different default
   (the line break and the indent are inside it); with emit_default_doc=True the same point is transparent *)
Lemma C18_default_split_typed_witness_lemma :
  guard_C01_rest false c18_w_default_split = true
  /\ finding_class_C18 30 (E_docstring DocEmit.Rest) c18_w_default_split = None
  /\ C18_rest_parse_at_b 30 false c18_w_default_split = false
  /\ C18_rest_parse_at_b 30 true c18_w_default_split = true
  /\ guard_C18_rest_parse_d 30 false c18_w_default_split = false
  /\ (exists tw dw pw, emit_docstring 30 DocEmit.Rest true true c18_w_default_split = Ok (tw, c18_w_default_split)
                       /\ parse_dot_docstring ng_unmodelled tw false true false = Ok dw
                       /\ ir_params dw = [(L "alpha", pw)]
                       /\ g_default pw = Some (DV (VStr (L "a b c d" ++ [nl] ++ L "    e f g h")))).
Proof.
  split; [vm_compute; reflexivity|]. split; [vm_compute; reflexivity|]. split; [vm_compute; reflexivity|].
  split; [vm_compute; reflexivity|]. split; [vm_compute; reflexivity|].
  eexists. eexists. eexists. split; [vm_compute; reflexivity|]. split; [vm_compute; reflexivity|].
  split; [vm_compute; reflexivity|]. vm_compute. reflexivity.
Qed.
