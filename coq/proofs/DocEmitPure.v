(* DocEmitPure: emit.docstring, as modelled in model/DocEmit.v, satisfies the premise [doc_pure] of the C13
   statement (model/C13Spec.v), at every width and for each of the three styles.  Proofs only. *)
From Coq Require Import List.
From Coq Require String.
Import String.StringSyntax.
From DT Require Import PyStr PyVal IR DocEmit C13Spec DocEmitFacts.
Import ListNotations.

(* emit.docstring(ir, docstring_format=st, word_wrap=o.word_wrap, emit_default_doc=o.emit_default_doc) as the
   [doc_op] of C13Spec *)
Definition doc_op_of (w : nat) (st : style) : doc_opts -> ir -> outcome (str * ir) :=
  fun o i => emit_docstring w st (do_word_wrap o) (do_emit_default_doc o) i.

Theorem emit_docstring_doc_pure : forall w st, doc_pure (doc_op_of w st).
Proof.
  intros w st o i t i' H. unfold doc_op_of in H. exact (emit_docstring_pure _ _ _ _ _ _ _ H).
Qed.
