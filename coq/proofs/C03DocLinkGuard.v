(* C03DocLinkGuard: from guard_C03 and doc_link_ok (C03DocLinkDefs) to the per-entry facts the docstring link needs.
   Used by proofs/C03DocLinkMain.v (property C03).  Proofs only. *)
From Coq Require Import List Ascii Bool Arith ZArith Lia.
From Coq Require String.
Import String.StringSyntax.
From DT Require Import PyStr Sexp PyVal TyExpr PureUtils Defaults PyAst IR Extracted C17Spec DocParse C01Spec.
From DT Require Import PyStrFacts PureUtilsFacts DefaultsFacts DocParseFacts FillFacts.
From DT Require DocEmit C02Spec C06Spec C18Spec Fill MergeFacts ParseSig.
From DT Require Import C03Spec C03DocLinkDefs C03DocLink.
Import ListNotations.

(* ------------------------------------------------------------------ *)
(* characters                                                          *)
(* ------------------------------------------------------------------ *)

Lemma tw_space_isspace : forall c, Fill.tw_space c = true -> isspace c = true.
Proof.
  intros c H. unfold Fill.tw_space in H. unfold isspace. cbv zeta in *.
  apply orb_true_iff in H. destruct H as [H|H].
  - rewrite H. reflexivity.
  - apply Nat.eqb_eq in H. rewrite H. reflexivity.
Qed.

(* a character fill leaves alone *)
Definition olc_char (c : ascii) : bool := negb (Fill.tw_space c) || ascii_eqb c sp.

Lemma id_char_olc : forall c, is_id_char c = true -> olc_char c = true.
Proof.
  intros c. destruct c as [[] [] [] [] [] [] [] []]; vm_compute; intros H; try reflexivity; discriminate H.
Qed.

Lemma plain_olc : forall c, negb (isspace c) || ascii_eqb c sp = true -> olc_char c = true.
Proof.
  intros c H. unfold olc_char. apply orb_true_iff in H. apply orb_true_iff. destruct H as [H|H]; [left|right; exact H].
  apply negb_true_iff in H. apply negb_true_iff. destruct (Fill.tw_space c) eqn:E; [|reflexivity].
  apply tw_space_isspace in E. congruence.
Qed.

Lemma plain_blank_olc : forall x, plain_blank_only x = true -> forallb olc_char x = true.
Proof. intros x H. unfold plain_blank_only in H. revert H. apply forallb_impl. exact plain_olc. Qed.

Lemma plain_blank_no_tab : forall x, plain_blank_only x = true -> mem_c tabch x = false.
Proof.
  intros x H. destruct (mem_c tabch x) eqn:E; [|reflexivity]. exfalso.
  apply mem_c_In in E. unfold plain_blank_only in H. rewrite forallb_forall in H.
  specialize (H tabch E). vm_compute in H. discriminate H.
Qed.

Lemma one_line_clean_intro : forall s,
    forallb olc_char s = true -> C18Spec.ends_with_space s = false -> mem_c tabch s = false ->
    C18Spec.one_line_clean s = true.
Proof.
  intros s H1 H2 H3. unfold C18Spec.one_line_clean. fold olc_char.
  change (forallb (fun c => negb (Fill.tw_space c) || ascii_eqb c sp) s) with (forallb olc_char s).
  rewrite H1, H2, H3. reflexivity.
Qed.

Lemma olc_rest_key : forall n, forallb olc_char n = true -> forallb olc_char (DocEmit.rest_key n) = true.
Proof.
  intros n H. unfold DocEmit.rest_key. destruct (DocEmit.is_return n); [reflexivity|].
  rewrite forallb_app, H. reflexivity.
Qed.

Lemma olc_rest_key_typ : forall n, forallb olc_char n = true -> forallb olc_char (DocEmit.rest_key_typ n) = true.
Proof.
  intros n H. unfold DocEmit.rest_key_typ. destruct (DocEmit.is_return n); [reflexivity|].
  rewrite forallb_app, H. reflexivity.
Qed.

Lemma tab_rest_key : forall n, mem_c tabch n = false -> mem_c tabch (DocEmit.rest_key n) = false.
Proof.
  intros n H. unfold DocEmit.rest_key. destruct (DocEmit.is_return n); [reflexivity|].
  rewrite mem_c_app, H. reflexivity.
Qed.

Lemma tab_rest_key_typ : forall n, mem_c tabch n = false -> mem_c tabch (DocEmit.rest_key_typ n) = false.
Proof.
  intros n H. unfold DocEmit.rest_key_typ. destruct (DocEmit.is_return n); [reflexivity|].
  rewrite mem_c_app, H. reflexivity.
Qed.

Lemma olc_doc_line : forall n d l,
    forallb olc_char n = true -> mem_c tabch n = false ->
    plain_blank_only d = true -> last_c d = Some l -> isspace l = false ->
    C18Spec.one_line_clean (DocEmit.rest_doc_line n d) = true.
Proof.
  intros n d l Hn Htn Hd Hl Hls. unfold DocEmit.rest_doc_line.
  assert (Hne : d <> []). { intros E. subst d. discriminate Hl. }
  apply one_line_clean_intro.
  - rewrite !forallb_app, (olc_rest_key n Hn), (plain_blank_olc d Hd). reflexivity.
  - unfold C18Spec.ends_with_space. rewrite !app_assoc. rewrite last_c_app_nonnil by exact Hne. rewrite Hl.
    destruct (ascii_eqb l sp) eqn:E; [|reflexivity]. apply ascii_eqb_eq in E. subst l. discriminate Hls.
  - rewrite !mem_c_app, (tab_rest_key n Htn), (plain_blank_no_tab d Hd). reflexivity.
Qed.

Lemma olc_typ_line : forall n t,
    forallb olc_char n = true -> mem_c tabch n = false ->
    plain_blank_only t = true ->
    C18Spec.one_line_clean (DocEmit.rest_typ_line n t) = true.
Proof.
  intros n t Hn Htn Ht. unfold DocEmit.rest_typ_line.
  apply one_line_clean_intro.
  - rewrite !forallb_app, (olc_rest_key_typ n Hn), (plain_blank_olc t Ht). reflexivity.
  - unfold C18Spec.ends_with_space. rewrite !app_assoc. rewrite last_c_app_nonnil by discriminate. reflexivity.
  - rewrite !mem_c_app, (tab_rest_key_typ n Htn), (plain_blank_no_tab t Ht). reflexivity.
Qed.

Lemma fits_line_inv : forall w s, fits_line w true s = true -> List.length s <= w /\ 0 < w.
Proof.
  intros w s H. unfold fits_line in H. cbn [negb orb] in H. apply andb_true_iff in H. destruct H as [H1 H2].
  apply Nat.leb_le in H1. apply Nat.ltb_lt in H2. split; assumption.
Qed.

(* ------------------------------------------------------------------ *)
(* prose                                                               *)
(* ------------------------------------------------------------------ *)

Lemma negb_existsb : forall {A} (f : A -> bool) l, negb (existsb f l) = forallb (fun x => negb (f x)) l.
Proof.
  intros A f l. induction l as [|x r IH]; [reflexivity|]. cbn [existsb forallb].
  rewrite negb_orb, IH. reflexivity.
Qed.

Lemma no_token_of : forall d, C02Spec.prose_has_token d = false -> no_rest_token d = true.
Proof.
  intros d H. unfold no_rest_token. rewrite <- negb_existsb. unfold C02Spec.prose_has_token in H.
  rewrite H. reflexivity.
Qed.

Lemma no_announce_of : forall d, C02Spec.prose_announces d = false -> no_announce d = true.
Proof.
  intros d H. unfold no_announce. rewrite <- negb_existsb. unfold C02Spec.prose_announces in H.
  rewrite H. reflexivity.
Qed.

Lemma prose_of_inv : forall g d, prose_of g = Some d -> g_doc g = Has d /\ exists c r, d = c :: r.
Proof.
  intros g d H. unfold prose_of, C02Spec.prose_of in H.
  destruct (g_doc g) as [| |[|c r]] eqn:E; try discriminate H.
  injection H as H. subst d. split; [reflexivity|]. exists c, r. reflexivity.
Qed.

Lemma prose_of_none_inv : forall g, prose_of g = None -> g_doc g = Missing \/ g_doc g = FNone \/ g_doc g = Has [].
Proof.
  intros g H. unfold prose_of, C02Spec.prose_of in H.
  destruct (g_doc g) as [| |[|c r]] eqn:E; try discriminate H; auto.
Qed.

Lemma not_space_chars : forall l, isspace l = false -> ascii_eqb l (ch 92) = false ->
    mem_c l (L " " ++ [nl; ch 92]) = false.
Proof.
  intros l Hs Hb. change (L " " ++ [nl; ch 92]) with [sp; nl; ch 92]. cbn [mem_c existsb].
  rewrite Hb.
  destruct (ascii_eqb l sp) eqn:E1. { apply ascii_eqb_eq in E1. subst l. discriminate Hs. }
  destruct (ascii_eqb l nl) eqn:E2. { apply ascii_eqb_eq in E2. subst l. discriminate Hs. }
  reflexivity.
Qed.

(* what prose_safe and prose_link_ok give for non-empty prose *)
Lemma prose_safe_facts : forall d,
    d <> [] -> prose_safe d = true -> prose_link_ok d = true ->
    edge_ok d /\ mem_c nl d = false /\ mem_c tabch d = false
    /\ no_rest_token d = true /\ no_announce d = true
    /\ plain_blank_only d = true /\ starts_optional d = false
    /\ exists l, last_c d = Some l /\ isspace l = false /\ mem_c l (L " " ++ [nl; ch 92]) = false.
Proof.
  intros d Hne Hs Hl. unfold prose_safe in Hs.
  apply andb_true_iff in Hs. destruct Hs as [Hs Hann]. apply andb_true_iff in Hs. destruct Hs as [Hcl Htok].
  apply negb_true_iff in Hann, Htok, Hcl. unfold C02Spec.prose_unclean in Hcl.
  apply orb_false_iff in Hcl. destruct Hcl as [Hcl Hdbl]. apply orb_false_iff in Hcl. destruct Hcl as [Hcl Htab].
  apply orb_false_iff in Hcl. destruct Hcl as [Hstrip Hnl]. apply negb_false_iff in Hstrip. apply str_eqb_eq in Hstrip.
  unfold prose_link_ok in Hl. apply andb_true_iff in Hl. destruct Hl as [Hl Hopt].
  apply andb_true_iff in Hl. destruct Hl as [Hplain Hbs]. apply negb_true_iff in Hopt, Hbs.
  pose proof (strip_fix_edge_ok d Hne Hstrip) as Hedge.
  split; [exact Hedge|]. split; [exact Hnl|]. split; [exact Htab|].
  split; [apply no_token_of; exact Htok|]. split; [apply no_announce_of; exact Hann|].
  split; [exact Hplain|]. split; [exact Hopt|].
  destruct Hedge as [_ [l [Hlast Hls]]]. exists l. split; [exact Hlast|]. split; [exact Hls|].
  apply not_space_chars; [exact Hls|].
  destruct (ascii_eqb l (ch 92)) eqn:E; [|reflexivity]. apply ascii_eqb_eq in E. subst l.
  apply endswith_single in Hlast. rewrite Hlast in Hbs. discriminate Hbs.
Qed.

Lemma prose_class_none : forall g d, prose_of g = Some d -> prose_class g = None -> prose_safe d = true.
Proof.
  intros g d Hp Hc. unfold prose_class in Hc. rewrite Hp in Hc.
  destruct (prose_safe d); [reflexivity|]. discriminate Hc.
Qed.

(* ------------------------------------------------------------------ *)
(* one entry                                                           *)
(* ------------------------------------------------------------------ *)

Lemma entry_in_domain_inv : forall g, entry_in_domain g = true ->
    g_doc g <> FNone
    /\ (g_typ g = Missing \/ exists c r, g_typ g = Has (c :: r))
    /\ exists dflt, param_of_gparam g = Some (mkParam (g_doc g) (g_typ g) dflt).
Proof.
  intros g H. unfold entry_in_domain in H.
  apply andb_true_iff in H. destruct H as [H _]. apply andb_true_iff in H. destruct H as [H _].
  apply andb_true_iff in H. destruct H as [H Hd]. apply andb_true_iff in H. destruct H as [Hdoc Htyp].
  split; [|split].
  - intros E. rewrite E in Hdoc. discriminate Hdoc.
  - destruct (g_typ g) as [| |[|c r]]; try discriminate Htyp; [left; reflexivity|right; exists c, r; reflexivity].
  - unfold param_of_gparam. destruct (g_default g) as [[v|e|s]|]; try discriminate Hd.
    + exists (Some v). reflexivity.
    + exists None. reflexivity.
Qed.

Lemma fld_eqb_eq : forall a b, fld_eqb a b = true -> a = b.
Proof.
  intros a b H. unfold fld_eqb in H. destruct a as [| |x], b as [| |y]; try discriminate H; try reflexivity.
  apply str_eqb_eq in H. subst y. reflexivity.
Qed.

Lemma emitted_typ_inv : forall et g t, emitted_typ et g = Some t -> et = true /\ g_typ g = Has t.
Proof.
  intros et g t H. unfold emitted_typ in H. destruct et; [|discriminate H].
  destruct (g_typ g) as [| |t']; try discriminate H. injection H as H. subst t'. split; reflexivity.
Qed.

Lemma documented_entry : forall w o n g d,
    forallb olc_char n = true -> mem_c nl n = false -> mem_c tabch n = false ->
    entry_in_domain g = true -> prose_of g = Some d -> prose_class g = None ->
    (fo_edd o = true -> sentence_written n g = false) ->
    entry_link_ok w o n g = true ->
    entry_emit_ok w (fo_word_wrap o) (fo_edd o) (negb (fo_inline o)) n g
    /\ prose_facts d /\ no_rest_token d = true
    /\ (forall t, emitted_typ (negb (fo_inline o)) g = Some t -> typ_facts t /\ no_rest_token t = true).
Proof.
  intros w o n g d Hn Hnl Htab Hdom Hp Hcls Hsw Hlink.
  destruct (prose_of_inv g d Hp) as [Hdoc [c [r Hd]]].
  assert (Hne : d <> []). { rewrite Hd. discriminate. }
  pose proof (prose_class_none g d Hp Hcls) as Hsafe.
  unfold entry_link_ok in Hlink. rewrite Hp in Hlink.
  apply andb_true_iff in Hlink. destruct Hlink as [Hlink Hlt]. apply andb_true_iff in Hlink. destruct Hlink as [Hpl Hfit].
  destruct (prose_safe_facts d Hne Hsafe Hpl) as [Hedge [Hdnl [Hdtab [Hdtok [Hdann [Hplain [Hopt [l [Hlast [Hls Hlm]]]]]]]]]].
  destruct (entry_in_domain_inv g Hdom) as [_ [Htyp [dflt Hpar]]].
  (* the type, when it is written *)
  assert (Htfacts : forall t, g_typ g = Has t -> fo_inline o = false ->
             typ_facts t /\ no_rest_token t = true /\ mem_c nl t = false /\ plain_blank_only t = true
             /\ fits_line w (fo_word_wrap o) (DocEmit.rest_typ_line n t) = true).
  { intros t Et Ei. rewrite Et, Ei in Hlt. cbn [orb] in Hlt.
    apply andb_true_iff in Hlt. destruct Hlt as [Htl Htfit].
    unfold typ_link_ok in Htl. apply andb_true_iff in Htl. destruct Htl as [Htd Htp].
    destruct (type_in_domain_inv t Htd) as [Htf [Htnl [Httok _]]].
    split; [exact Htf|]. split; [exact Httok|]. split; [exact Htnl|]. split; [exact Htp|exact Htfit]. }
  split; [|split; [|split]].
  - unfold entry_emit_ok. split; [exact Hnl|]. split; [exact Htab|]. rewrite Hp.
    split; [exact Hdoc|].
    split. { destruct Hedge as [[c0 [r0 [E0 Hc0]]] _]. exists c0, r0, l. repeat split; assumption. }
    split; [exact Hdnl|]. split; [exact Hdtab|]. split; [exact Hdann|].
    split.
    { exists dflt. rewrite Hdoc in Hpar. split; [exact Hpar|]. intros Hedd. specialize (Hsw Hedd).
      unfold sentence_written in Hsw. rewrite Hp, Hpar in Hsw.
      destruct (set_default_doc n (mkParam (Has d) (g_typ g) dflt) true) as [p'|e] eqn:Es; [|discriminate Hsw].
      exists p'. split; [reflexivity|]. apply negb_false_iff in Hsw. apply fld_eqb_eq in Hsw.
      rewrite Hsw. exact Hdoc. }
    split.
    { intros Hww. rewrite Hww in Hfit. apply fits_line_inv in Hfit. destruct Hfit as [Hlen Hw].
      split; [|exact Hlen]. apply fill_short_id; [exact Hw| |exact Hlen].
      apply (olc_doc_line n d l); assumption. }
    destruct Htyp as [Etyp|[ct [rt Etyp]]]; rewrite Etyp; [exact I|].
    intros Het. apply negb_true_iff in Het.
    destruct (Htfacts (ct :: rt) Etyp Het) as [_ [_ [Htnl [Htp Htfit]]]].
    split; [discriminate|]. split; [exact Htnl|]. split; [apply plain_blank_no_tab; exact Htp|].
    intros Hww. rewrite Hww in Htfit. apply fits_line_inv in Htfit. destruct Htfit as [Hlen Hw].
    split; [|exact Hlen]. apply fill_short_id; [exact Hw| |exact Hlen].
    apply olc_typ_line; assumption.
  - split; [|exact Hdann]. split; [exact Hne|]. split; [exact Hdnl|]. split; [exact Hedge|exact Hopt].
  - exact Hdtok.
  - intros t Et. apply emitted_typ_inv in Et. destruct Et as [Het Et]. apply negb_true_iff in Het.
    destruct (Htfacts t Et Het) as [H1 [H2 _]]. split; assumption.
Qed.

Lemma undocumented_entry : forall w ww edd et n g,
    mem_c nl n = false -> mem_c tabch n = false ->
    entry_in_domain g = true -> prose_of g = None ->
    (et = false \/ g_typ g = Missing) ->
    entry_emit_ok w ww edd et n g.
Proof.
  intros w ww edd et n g Hnl Htab Hdom Hp Het.
  destruct (entry_in_domain_inv g Hdom) as [Hfn [_ [dflt Hpar]]].
  unfold entry_emit_ok. split; [exact Hnl|]. split; [exact Htab|]. rewrite Hp.
  split; [|split; [exact Het|]].
  - destruct (prose_of_none_inv g Hp) as [E|[E|E]]; [left; exact E|contradiction|right; exact E].
  - eexists. exact Hpar.
Qed.

(* ------------------------------------------------------------------ *)
(* names                                                               *)
(* ------------------------------------------------------------------ *)

Lemma name_facts : forall n, name_in_domain n = true ->
    forallb olc_char n = true /\ mem_c nl n = false /\ mem_c tabch n = false /\ mem_c colon n = false
    /\ (exists c r, n = c :: r /\ c <> ch 42) /\ startswith (L "**") n = false /\ DocEmit.is_return n = false.
Proof.
  intros n H. unfold name_in_domain in H. apply andb_true_iff in H. destruct H as [Hid Hres].
  apply negb_true_iff in Hres. unfold reserved_name in Hres.
  apply orb_false_iff in Hres. destruct Hres as [_ Hret].
  unfold C06Spec.is_identifier in Hid. destruct n as [|c r]; [discriminate Hid|].
  apply andb_true_iff in Hid. destruct Hid as [Hid _]. apply andb_true_iff in Hid. destruct Hid as [Hid _].
  apply andb_true_iff in Hid. destruct Hid as [Hs Hall].
  assert (Hc : c <> ch 42).
  { intros E. subst c. cbn [forallb] in Hall. apply andb_true_iff in Hall. destruct Hall as [Hall _].
    vm_compute in Hall. discriminate Hall. }
  split. { revert Hall. apply forallb_impl. exact id_char_olc. }
  split. { apply (id_chars_exclude nl); [reflexivity|exact Hall]. }
  split. { apply (id_chars_exclude tabch); [reflexivity|exact Hall]. }
  split. { apply (id_chars_exclude colon); [reflexivity|exact Hall]. }
  split. { exists c, r. split; [reflexivity|exact Hc]. }
  split.
  { change (L "**") with [ch 42; ch 42]. cbn [startswith].
    destruct (ascii_eqb (ch 42) c) eqn:E; [|reflexivity]. apply ascii_eqb_eq in E. symmetry in E. contradiction. }
  exact Hret.
Qed.

(* ------------------------------------------------------------------ *)
(* the classes                                                         *)
(* ------------------------------------------------------------------ *)

Lemma has_prose_none : forall g, prose_of g = None -> has_prose g = false.
Proof. intros g H. unfold has_prose. rewrite H. reflexivity. Qed.

Lemma typ_not_fnone : forall g, entry_in_domain g = true -> g_typ g <> FNone.
Proof.
  intros g H E. destruct (entry_in_domain_inv g H) as [_ [[Ht|[c [r Ht]]] _]]; rewrite Ht in E; discriminate E.
Qed.

Lemma param_class_inv : forall o n g, entry_in_domain g = true -> param_class o n g = None ->
    prose_class g = None
    /\ (prose_of g = None -> negb (fo_inline o) = false \/ g_typ g = Missing)
    /\ (kwargs_name n = true -> g_typ g = Has (L "Optional[dict]")).
Proof.
  intros o n g Hdom H. unfold param_class in H. destruct (kwargs_name n) eqn:Ek.
  - unfold kwargs_class in H. destruct (has_prose g) eqn:Eh; cbn [negb] in H; [|discriminate H].
    destruct (prose_class g) as [k|] eqn:Epc; [discriminate H|].
    destruct (fld_eqb (g_typ g) (Has (L "Optional[dict]"))) eqn:Ef; cbn [andb] in H; [|discriminate H].
    split; [reflexivity|]. split.
    + intros Hn. rewrite (has_prose_none g Hn) in Eh. discriminate Eh.
    + intros _. apply fld_eqb_eq. exact Ef.
  - destruct (prose_class g) as [k|] eqn:Epc; [discriminate H|].
    split; [reflexivity|]. split; [|intros E; discriminate E].
    intros Hn. destruct (g_default g) as [dv|]; [|discriminate H].
    destruct (match dv_str dv with
              | Some s => negb (in_none_types (VStr s)) && negb (str_keeps_quotes s)
              | None => false
              end); [discriminate H|].
    destruct (g_typ g) as [| |t] eqn:Et.
    + right. reflexivity.
    + exfalso. exact (typ_not_fnone g Hdom Et).
    + left. destruct (negb (typ_parses t)); [discriminate H|].
      destruct (fo_inline o && negb (typ_inline_ok t)); [discriminate H|].
      rewrite (has_prose_none g Hn) in H. cbn [negb] in H. rewrite andb_true_r in H.
      destruct (negb (fo_inline o)); [discriminate H|reflexivity].
Qed.

Lemma return_class_inv : forall o g, entry_in_domain g = true -> return_class o g = None ->
    prose_class g = None
    /\ (prose_of g = None -> negb (fo_inline o) = false \/ g_typ g = Missing).
Proof.
  intros o g Hdom H. unfold return_class in H.
  destruct (prose_class g) as [k|] eqn:Epc; [discriminate H|].
  split; [reflexivity|]. intros Hn. rewrite (has_prose_none g Hn) in H.
  destruct (return_typ_class o g) as [k|]; [discriminate H|].
  destruct (g_default g) as [dv|].
  - destruct (dv_str dv) as [[|c s]|]; try discriminate H.
    destruct (negb (ret_code_ok (fo_pt o) (c :: s)) || negb (str_keeps_quotes (c :: s))); [discriminate H|].
    destruct (g_typ g) as [| |t] eqn:Et.
    + right. reflexivity.
    + exfalso. exact (typ_not_fnone g Hdom Et).
    + left. destruct (negb (contains [ch 91] t)); [discriminate H|].
      cbn [negb] in H. rewrite andb_true_r in H.
      destruct (negb (fo_inline o)); [discriminate H|reflexivity].
  - left. destruct (fo_inline o); [reflexivity|]. cbn [andb] in H. discriminate H.
Qed.

Lemma first_class_none : forall f ps, first_class f ps = None ->
    Forall (fun kv => f (fst kv) (snd kv) = None) ps.
Proof.
  intros f ps. induction ps as [|[n g] r IH]; intros H; [constructor|].
  cbn [first_class] in H. destruct (f n g) as [k|] eqn:E; [discriminate H|].
  constructor; [exact E|apply IH; exact H].
Qed.

(* ------------------------------------------------------------------ *)
(* one parameter, the return entry                                     *)
(* ------------------------------------------------------------------ *)

Definition param_good (w : nat) (o : fopts) (kv : str * gparam) : Prop :=
  name_in_domain (fst kv) = true /\ entry_in_domain (snd kv) = true
  /\ param_class o (fst kv) (snd kv) = None
  /\ (fo_edd o = true -> sentence_written (fst kv) (snd kv) = false)
  /\ entry_link_ok w o (fst kv) (snd kv) = true.

Lemma param_entry : forall w o kv, param_good w o kv ->
    entry_emit_ok w (fo_word_wrap o) (fo_edd o) (negb (fo_inline o)) (fst kv) (snd kv)
    /\ (forall e, dent_of (negb (fo_inline o)) kv = Some e -> dent_ok e).
Proof.
  intros w o [n g] [Hname [Hdom [Hcls [Hsw Hlink]]]]. cbn [fst snd] in *.
  destruct (name_facts n Hname) as [Holc [Hnl [Htab [Hcol [Hhd [Hstar Hret]]]]]].
  destruct (param_class_inv o n g Hdom Hcls) as [Hpc [Hund Hkw]].
  destruct (prose_of g) as [d|] eqn:Ep.
  - destruct (documented_entry w o n g d Holc Hnl Htab Hdom Ep Hpc Hsw Hlink) as [Hemit [Hpf [Htok Htyp]]].
    split; [exact Hemit|]. intros e He. unfold dent_of in He. cbn [fst snd] in He. rewrite Ep in He.
    injection He as He. subst e. unfold dent_ok, dn, dd, dt. cbn [fst snd].
    split; [exact Hcol|]. split; [exact Hhd|]. split; [exact Hstar|]. split; [exact Hret|].
    split; [exact Hpf|]. split; [exact Htok|].
    intros t Et. destruct (Htyp t Et) as [H1 H2]. split; [exact H1|]. split; [exact H2|].
    intros Hk. apply emitted_typ_inv in Et. destruct Et as [_ Et].
    change (endswith (L "kwargs") n) with (kwargs_name n) in Hk. rewrite (Hkw Hk) in Et.
    injection Et as Et. subst t. reflexivity.
  - split.
    + apply undocumented_entry; try assumption. apply Hund. reflexivity.
    + intros e He. unfold dent_of in He. cbn [fst snd] in He. rewrite Ep in He. discriminate He.
Qed.

Lemma return_entry : forall w o g,
    entry_in_domain g = true -> return_class o g = None ->
    (fo_edd o = true -> sentence_written (L "return_type") g = false) ->
    entry_link_ok w o (L "return_type") g = true ->
    entry_emit_ok w (fo_word_wrap o) (fo_edd o) (negb (fo_inline o)) (L "return_type") g
    /\ rent_ok (rent_of (negb (fo_inline o)) (Has g)).
Proof.
  intros w o g Hdom Hcls Hsw Hlink.
  destruct (return_class_inv o g Hdom Hcls) as [Hpc Hund].
  assert (Holc : forallb olc_char (L "return_type") = true) by reflexivity.
  assert (Hnl : mem_c nl (L "return_type") = false) by reflexivity.
  assert (Htab : mem_c tabch (L "return_type") = false) by reflexivity.
  unfold rent_of. destruct (prose_of g) as [d|] eqn:Ep.
  - destruct (documented_entry w o (L "return_type") g d Holc Hnl Htab Hdom Ep Hpc Hsw Hlink)
      as [Hemit [[[_ [_ [Hedge _]]] Hann] [Htok Htyp]]].
    split; [exact Hemit|]. unfold rent_ok.
    split; [exact Hedge|]. split; [exact Hann|]. split; [exact Htok|].
    intros t Et. destruct (Htyp t Et) as [[Hbt [_ [Hstar _]]] Httok].
    split; [exact Hbt|]. split; [exact Hstar|exact Httok].
  - split; [|exact I]. apply undocumented_entry; try assumption. apply Hund. reflexivity.
Qed.

(* ------------------------------------------------------------------ *)
(* the parameter list                                                  *)
(* ------------------------------------------------------------------ *)

Lemma docs_of_cons : forall et kv ps,
    docs_of et (kv :: ps) = match dent_of et kv with Some e => e :: docs_of et ps | None => docs_of et ps end.
Proof. intros et kv ps. unfold docs_of. cbn [map DocEmit.cat_options]. destruct (dent_of et kv); reflexivity. Qed.

Lemma dent_of_name : forall et kv e, dent_of et kv = Some e -> dn e = fst kv.
Proof.
  intros et kv e H. unfold dent_of in H. destruct (prose_of (snd kv)); [|discriminate H].
  injection H as H. subst e. reflexivity.
Qed.

Lemma docs_of_ok : forall w o ps, Forall (param_good w o) ps ->
    Forall dent_ok (docs_of (negb (fo_inline o)) ps).
Proof.
  intros w o ps H. induction H as [|kv r Hkv Hr IH]; [constructor|].
  rewrite docs_of_cons. destruct (dent_of (negb (fo_inline o)) kv) as [e|] eqn:E; [|exact IH].
  constructor; [|exact IH]. destruct (param_entry w o kv Hkv) as [_ Hd]. apply Hd. exact E.
Qed.

Lemma docs_of_names_in : forall et ps n, In n (map dn (docs_of et ps)) -> In n (map fst ps).
Proof.
  intros et ps n. induction ps as [|kv r IH]; intros H; [exact H|].
  rewrite docs_of_cons in H. cbn [map In]. destruct (dent_of et kv) as [e|] eqn:E.
  - cbn [map In] in H. destruct H as [H|H]; [left|right; apply IH; exact H].
    rewrite <- H. symmetry. apply (dent_of_name et). exact E.
  - right. apply IH. exact H.
Qed.

Lemma docs_of_nodup : forall et ps, NoDup (map fst ps) -> NoDup (map dn (docs_of et ps)).
Proof.
  intros et ps. induction ps as [|kv r IH]; intros H; [constructor|].
  cbn [map] in H. inversion H as [|x l Hnin Hnd]. subst x l.
  rewrite docs_of_cons. destruct (dent_of et kv) as [e|] eqn:E; [|apply IH; exact Hnd].
  cbn [map]. constructor; [|apply IH; exact Hnd].
  rewrite (dent_of_name et kv e E). intros Hin. apply Hnin. apply (docs_of_names_in et). exact Hin.
Qed.

Lemma strs_distinct_nodup : forall l, ParseSig.strs_distinct l = true -> NoDup l.
Proof.
  intros l. induction l as [|x r IH]; intros H; [constructor|].
  cbn [ParseSig.strs_distinct] in H. apply andb_true_iff in H. destruct H as [H1 H2].
  apply negb_true_iff in H1. constructor; [|apply IH; exact H2].
  apply MergeFacts.mem_str_false. exact H1.
Qed.

Lemma docs_of_nonempty : forall et ps,
    existsb (fun kv => has_prose (snd kv)) ps = true -> docs_of et ps <> [].
Proof.
  intros et ps. induction ps as [|kv r IH]; intros H; [discriminate H|].
  cbn [existsb] in H. rewrite docs_of_cons. unfold dent_of. unfold has_prose in H at 1.
  destruct (prose_of (snd kv)) as [d|]; [discriminate|]. cbn [orb] in H. apply IH. exact H.
Qed.

(* ------------------------------------------------------------------ *)
(* the summary                                                         *)
(* ------------------------------------------------------------------ *)

Lemma sum_of_inv : forall i d0, sum_of i = Some d0 -> ir_doc i = Has d0 /\ d0 <> [].
Proof.
  intros i d0 H. unfold sum_of, DocEmit.truthy_fld in H.
  destruct (ir_doc i) as [| |[|c r]]; try discriminate H. injection H as H. subst d0.
  split; [reflexivity|discriminate].
Qed.

Lemma summary_facts : forall w o i, summary_link_ok w o i = true -> sum_emit_ok w (fo_word_wrap o) i.
Proof.
  intros w o i H. unfold summary_link_ok in H. unfold sum_emit_ok.
  destruct (sum_of i) as [d0|] eqn:Es; [|exact I].
  destruct (sum_of_inv i d0 Es) as [_ Hne].
  apply andb_true_iff in H. destruct H as [H Hfit]. apply andb_true_iff in H. destruct H as [Hcl Htab].
  apply negb_true_iff in Htab. unfold clean_line in Hcl. apply andb_true_iff in Hcl. destruct Hcl as [Hs Hnl].
  apply str_eqb_eq in Hs. apply negb_true_iff in Hnl.
  destruct (strip_fix_edge_ok d0 Hne Hs) as [Hhd _].
  split; [exact Hhd|]. split; [exact Hnl|]. split; [exact Htab|].
  intros Hww. rewrite Hww in Hfit. apply fits_line_inv in Hfit. destruct Hfit as [Hlen _]. exact Hlen.
Qed.

(* ------------------------------------------------------------------ *)
(* the guard                                                           *)
(* ------------------------------------------------------------------ *)

Theorem guard_link_facts : forall w o i,
    guard_C03 o i = true -> doc_link_ok w o i = true ->
    let et := negb (fo_inline o) in
    sum_emit_ok w (fo_word_wrap o) i
    /\ (forall d0, sum_of i = Some d0 -> no_rest_token d0 = true)
    /\ Forall (fun kv => entry_emit_ok w (fo_word_wrap o) (fo_edd o) et (fst kv) (snd kv)) (ir_params i)
    /\ (match ir_returns i with
        | Has g => entry_emit_ok w (fo_word_wrap o) (fo_edd o) et (L "return_type") g
        | FNone => True
        | Missing => False
        end)
    /\ Forall dent_ok (docs_of et (ir_params i))
    /\ NoDup (map dn (docs_of et (ir_params i)))
    /\ rent_ok (rent_of et (ir_returns i))
    /\ (docs_of et (ir_params i) <> [] \/ rent_of et (ir_returns i) <> None).
Proof.
  intros w o i Hg Hl et.
  unfold guard_C03 in Hg. apply andb_true_iff in Hg. destruct Hg as [Hdom Hfc].
  (* the domain *)
  unfold C03_domain in Hdom.
  apply andb_true_iff in Hdom. destruct Hdom as [Hdom _].
  apply andb_true_iff in Hdom. destruct Hdom as [Hdom Hret].
  apply andb_true_iff in Hdom. destruct Hdom as [Hdom Hents].
  apply andb_true_iff in Hdom. destruct Hdom as [Hdom _].
  apply andb_true_iff in Hdom. destruct Hdom as [Hdom Hnames].
  apply andb_true_iff in Hdom. destruct Hdom as [_ Hdist].
  (* the classes *)
  destruct (finding_class_C03 o i) as [k|] eqn:Ef; [discriminate Hfc|]. clear Hfc.
  unfold finding_class_C03 in Ef.
  destruct (fo_edd o
            && (existsb (fun kv => sentence_written (fst kv) (snd kv)) (ir_params i)
                || match ir_returns i with Has g => sentence_written (L "return_type") g | _ => false end)) eqn:Esw;
    [discriminate Ef|].
  destruct (match ir_doc i with Has d => C02Spec.prose_has_token d | _ => false end) eqn:Etok; [discriminate Ef|].
  destruct (first_class (param_class o) (ir_params i)) as [k|] eqn:Efirst; [discriminate Ef|].
  pose proof (first_class_none _ _ Efirst) as Hpc. rewrite Forall_forall in Hpc.
  (* the link *)
  unfold doc_link_ok in Hl.
  apply andb_true_iff in Hl. destruct Hl as [Hl Hdoc].
  apply andb_true_iff in Hl. destruct Hl as [Hl Hrl].
  apply andb_true_iff in Hl. destruct Hl as [Hsum Hpl].
  rewrite forallb_forall in Hnames, Hents, Hpl.
  (* every parameter *)
  assert (Hgood : Forall (param_good w o) (ir_params i)).
  { apply Forall_forall. intros kv Hin. unfold param_good.
    split. { apply Hnames. apply in_map. exact Hin. }
    split. { apply Hents. exact Hin. }
    split. { apply Hpc. exact Hin. }
    split; [|apply Hpl; exact Hin].
    intros Hedd. rewrite Hedd in Esw. cbn [andb] in Esw. apply orb_false_iff in Esw. destruct Esw as [Esw _].
    destruct (sentence_written (fst kv) (snd kv)) eqn:E; [|reflexivity].
    assert (Hex : existsb (fun kv => sentence_written (fst kv) (snd kv)) (ir_params i) = true).
    { apply existsb_exists. exists kv. split; assumption. }
    rewrite Hex in Esw. discriminate Esw. }
  (* the return entry *)
  assert (Hr : match ir_returns i with
               | Has g => entry_emit_ok w (fo_word_wrap o) (fo_edd o) et (L "return_type") g
                          /\ rent_ok (rent_of et (Has g))
               | FNone => True
               | Missing => False
               end).
  { destruct (ir_returns i) as [| |g]; [discriminate Hret|exact I|].
    apply return_entry; [exact Hret|exact Ef| |exact Hrl].
    intros Hedd. rewrite Hedd in Esw. cbn [andb] in Esw. apply orb_false_iff in Esw. destruct Esw as [_ Esw].
    exact Esw. }
  split. { apply summary_facts. exact Hsum. }
  split.
  { intros d0 Hd0. destruct (sum_of_inv i d0 Hd0) as [Ed _]. rewrite Ed in Etok. apply no_token_of. exact Etok. }
  split.
  { revert Hgood. apply Forall_impl. intros kv Hkv. destruct (param_entry w o kv Hkv) as [H _]. exact H. }
  split. { destruct (ir_returns i) as [| |g]; [exact Hr|exact I|]. destruct Hr as [H _]. exact H. }
  split. { apply (docs_of_ok w). exact Hgood. }
  split. { apply docs_of_nodup. apply strs_distinct_nodup. exact Hdist. }
  split. { destruct (ir_returns i) as [| |g]; [exact I|exact I|]. destruct Hr as [_ H]. exact H. }
  unfold has_documented in Hdoc. apply orb_true_iff in Hdoc. destruct Hdoc as [Hdoc|Hdoc].
  - left. apply docs_of_nonempty. exact Hdoc.
  - right. destruct (ir_returns i) as [| |g]; try discriminate Hdoc.
    unfold rent_of. unfold has_prose in Hdoc. destruct (prose_of g) as [d|]; [discriminate|discriminate Hdoc].
Qed.

Print Assumptions guard_link_facts.
