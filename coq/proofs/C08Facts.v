(* C08Facts: property C08 (conversion stabilises after one normalising pass).
   - the local idempotence facts the property's anchors name, unconditionally: quote, unquote, set_default_doc
     (re-exported from PureUtilsFacts / DefaultsFacts), and: the text to_docstring writes is a function of the
     interface fields of the IR, the options and indent_level only (nothing of a previous artefact enters);
   - the fixed-point theorem from round-trip laws, in equational form (parse (emit i) = N i, N idempotent) and in
     relational form (parse (emit i) ~ i for a relation the emitter respects);
   - the ReST docstring kind: the relational form instantiated with the C01 ReST theorem; what remains a
     hypothesis is stated;
   - the executable form of the three emissions, a refutation over the whole domain (witness from a finding
     class), non-vacuity. *)
From Coq Require Import List Ascii Bool Arith ZArith Lia.
From Coq Require String.
Import String.StringSyntax.
From DT Require Import PyStr Sexp PyVal TyExpr PureUtils Defaults PyAst IR Extracted C17Spec DocParse C01Spec
     C05Spec C08Spec.
From DT Require Import PyStrFacts.
From DT Require PureUtilsFacts DefaultsFacts DocParseFacts DocEmit C05Facts.
Import ListNotations.

(* ------------------------------------------------------------------ local idempotence (anchors of the property) *)

(* pure_utils.quote: quoting twice is quoting once *)
Lemma quote_idempotent : forall s, quote (quote s) = quote s.
Proof. exact PureUtilsFacts.quote_idem. Qed.

(* pure_utils.unquote: the identity on text that is not wrapped in one pair of matching quote marks *)
Lemma unquote_unquoted : forall s,
    (startswith [dq] s && endswith [dq] s) || (startswith [sq] s && endswith [sq] s) = false ->
    unquote s = s.
Proof. exact PureUtilsFacts.unquote_id. Qed.

(* and it undoes quote on such text: quote then unquote is not a drift *)
Lemma unquote_after_quote : forall s, unquote s = s -> unquote (quote s) = s.
Proof. exact PureUtilsFacts.unquote_quote. Qed.

(* defaults_utils.set_default_doc: the sentence is appended only when absent *)
Lemma set_default_doc_idempotent : forall name p p',
    set_default_doc name p true = Ok p' -> set_default_doc name p' true = Ok p'.
Proof. exact DefaultsFacts.set_default_doc_idem. Qed.

(* ------------------------------------------------------------------ to_docstring: a function of the interface fields *)

Definition text_of {A} (o : outcome (str * A)) : outcome str :=
  match o with Ok (t, _) => Ok t | Err e => Err e end.

(* The docstring text written by emitter_utils.to_docstring is determined by the summary, the parameters, the
   return entry, the options and indent_level: two IRs that agree on those three fields (whatever their name, type
   and carried body, i.e. whatever artefact they were parsed from) get the same text, with the same indentation. *)
Theorem to_docstring_text_lemma : forall w i i' edd st il et est ww,
    ir_doc i = ir_doc i' -> ir_params i = ir_params i' -> ir_returns i = ir_returns i' ->
    text_of (DocEmit.to_docstring w i edd st il et est ww) = text_of (DocEmit.to_docstring w i' edd st il et est ww).
Proof.
  intros w [n t d ps r b] [n' t' d' ps' r' b'] edd st il et est ww Hd Hp Hr.
  cbn [ir_doc ir_params ir_returns] in Hd, Hp, Hr. subst d' ps' r'.
  unfold DocEmit.to_docstring. destruct st; try reflexivity.
  cbn [ir_doc ir_params ir_returns].
  destruct (DocEmit.params_of ps) as [pl|]; [|reflexivity].
  match goal with |- context [match ?x with Some _ => _ | None => _ end] => destruct x as [ret|] end; [|reflexivity].
  cbv zeta.
  repeat match goal with
         | |- text_of (bind ?x _) = text_of (bind ?x _) => destruct x; cbn [bind]
         end; reflexivity.
Qed.

(* ------------------------------------------------------------------ the fixed point, from laws *)

Section FixpointEq.
  Variables (T Txt O : Type).
  Variable emit : O -> T -> outcome Txt.
  Variable parse : Txt -> outcome T.
  Variable N : T -> T.                       (* the normalisation one pass performs *)
  Variable D : T -> bool.
  Hypothesis LAW : forall o i t, D i = true -> emit o i = Ok t -> parse t = Ok (N i).
  Hypothesis CLOSED : forall i, D i = true -> D (N i) = true.
  Hypothesis IDEM : forall i, D i = true -> N (N i) = N i.

  (* the statement of the design note, by rewriting *)
  Lemma emit_after_two_passes : forall o i, D i = true -> emit o (N (N i)) = emit o (N i).
  Proof. intros o i Hi. rewrite (IDEM i Hi). reflexivity. Qed.

  (* the three emissions: whenever the first two exist, the parses succeed and the third emission is the second *)
  Theorem second_third_equal : forall o i t1 t2,
      D i = true -> emit o i = Ok t1 -> emit o (N i) = Ok t2 ->
      exists i1 i2, parse t1 = Ok i1 /\ emit o i1 = Ok t2 /\ parse t2 = Ok i2 /\ emit o i2 = Ok t2.
  Proof.
    intros o i t1 t2 Hi H1 H2. exists (N i), (N i). split; [exact (LAW o i t1 Hi H1)|]. split; [exact H2|].
    split; [|exact H2]. rewrite (LAW o (N i) t2 (CLOSED i Hi) H2). rewrite (IDEM i Hi). reflexivity.
  Qed.
End FixpointEq.

Section FixpointRel.
  Variables (T Txt : Type).
  Variable emit : T -> outcome Txt.
  Variable parse : Txt -> outcome T.
  Variable R : T -> T -> bool.               (* "same interface": weaker than equality *)
  Variable D : T -> bool.
  (* round trip up to R *)
  Hypothesis RT : forall i, D i = true -> exists t i', emit i = Ok t /\ parse t = Ok i' /\ R i i' = true.
  (* the emitter does not see what R ignores *)
  Hypothesis RESP : forall i i', D i = true -> R i i' = true -> emit i' = emit i.

  Theorem emissions_equal_rel : forall i, D i = true ->
      exists t1 i1 t2 i2 t3,
        emit i = Ok t1 /\ parse t1 = Ok i1 /\ emit i1 = Ok t2 /\ parse t2 = Ok i2 /\ emit i2 = Ok t3
        /\ t2 = t3 /\ t1 = t2.
  Proof.
    intros i Hi. destruct (RT i Hi) as [t1 [i1 [He [Hp Hr]]]].
    assert (He1 : emit i1 = Ok t1) by (rewrite (RESP i i1 Hi Hr); exact He).
    exists t1, i1, t1, i1, t1. repeat split; assumption.
  Qed.
End FixpointRel.

(* ------------------------------------------------------------------ the ReST docstring kind *)

(* From the C01 ReST theorem: on any domain inside its guard.  One obligation remains, because C01's conclusion is
   same_interface (= C05's preserved), not equality: the emitter must give the same text to IRs that same_interface
   identifies (absent-vs-empty fields and the spellings of None are what it ignores; hence the restriction to a
   domain).  What one gets is then stronger than the property: all three emissions are the same text. *)
Theorem C08_rest_from_C01_lemma : forall D : ir -> bool,
    (forall i, D i = true -> guard_C01_rest false i = true) ->
    (forall i i', D i = true -> preserved i i' = true -> emit_rest i' = emit_rest i) ->
    forall i, D i = true -> C08_rest_at i.
Proof.
  intros D Hin Hresp i Hi.
  assert (RT : forall j, D j = true -> exists t j', emit_rest j = Ok t /\ parse_rest t = Ok j' /\ preserved j j' = true).
  { intros j Hj. destruct (DocParseFacts.C01_rest_partial_lemma false j (Hin j Hj)) as [text [j' [Ht [_ [Hp Hs]]]]].
    exists text, j'. split; [exact Ht|]. split; [exact Hp|].
    rewrite <- C05Facts.same_interface_false_preserved. exact Hs. }
  destruct (emissions_equal_rel ir str emit_rest parse_rest preserved D RT Hresp i Hi)
    as [t1 [i1 [t2 [i2 [t3 [H1 [H2 [H3 [H4 [H5 [H6 _]]]]]]]]]]].
  exists t1, i1, t2, i2, t3. repeat split; assumption.
Qed.

(* ------------------------------------------------------------------ executable form *)

Lemma C08_rest_at_b_sound : forall i, C08_rest_at_b i = true -> C08_rest_at i.
Proof.
  intros i H. unfold C08_rest_at_b in H.
  destruct (emit_rest i) as [t1|] eqn:E1; [|discriminate].
  destruct (parse_rest t1) as [i1|] eqn:E2; [|discriminate].
  destruct (emit_rest i1) as [t2|] eqn:E3; [|discriminate].
  destruct (parse_rest t2) as [i2|] eqn:E4; [|discriminate].
  destruct (emit_rest i2) as [t3|] eqn:E5; [|discriminate].
  apply str_eqb_eq in H. exists t1, i1, t2, i2, t3. repeat split; assumption.
Qed.

Lemma C08_rest_at_b_complete : forall i, C08_rest_at i -> C08_rest_at_b i = true.
Proof.
  intros i [t1 [i1 [t2 [i2 [t3 [H1 [H2 [H3 [H4 [H5 H6]]]]]]]]]].
  unfold C08_rest_at_b. rewrite H1, H2, H3, H4, H5. subst t3. apply str_eqb_refl.
Qed.

(* ------------------------------------------------------------------ refutation over the whole domain, non-vacuity *)

(* class code-quoted-default: under a str type the back-ticks are lost on the first pass and the value is quoted
   as a str on the second, so the second and third emissions differ *)
Definition w_code : ir :=
  C05Facts.mk_ir [(L "alpha", C05Facts.gp (L "str") (L "first one.") (Some (VStr (L "```[]```"))))].

Definition C08_statement : Prop :=
  forall i t1, c05_domain i = true -> emit_rest i = Ok t1 -> C08_rest_at i.

Lemma w_code_domain : c05_domain w_code = true.
Proof. vm_compute. reflexivity. Qed.

Lemma w_code_emits : exists t1, emit_rest w_code = Ok t1.
Proof. eexists. vm_compute. reflexivity. Qed.

Lemma w_code_drifts : C08_rest_at_b w_code = false.
Proof. vm_compute. reflexivity. Qed.

Lemma w_code_class : finding_class_C08 KRest w_code = Some K05_code_default.
Proof. vm_compute. reflexivity. Qed.

Lemma C08_refuted_lemma : ~ C08_statement.
Proof.
  intros H. destruct w_code_emits as [t1 E].
  pose proof (C08_rest_at_b_complete _ (H w_code t1 w_code_domain E)) as Hc.
  rewrite w_code_drifts in Hc. discriminate.
Qed.

Lemma w_safe_c08 : guard_C08 KRest C05Facts.w_safe = true /\ C08_rest_at_b C05Facts.w_safe = true.
Proof. vm_compute. split; reflexivity. Qed.

Lemma C08_nonvacuous_lemma :
  forallb (fun k => guard_C08 k C05Facts.w_safe) all_kinds = true /\ C08_rest_at C05Facts.w_safe.
Proof.
  split; [vm_compute; reflexivity|]. apply C08_rest_at_b_sound. exact (proj2 w_safe_c08).
Qed.
