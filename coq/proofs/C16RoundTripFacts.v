(* C16RoundTripFacts: the round trip  source -> IR -> source  of C16 (model/C16RoundTrip.v): what the parser
   models store in `_internal` (ParseSig.parse_function, ParseAst.parse_argparse_ast, ParseAst.parse_class),
   that the merge and finishing stages keep it, that get_internal_body hands it to the emitter when name and
   kind agree, and the splice lemmas of C16Facts.  Unbounded in the number of body statements and of
   parameters; universally quantified over the docstring-derived IR (parse side) and the docstring text
   (emit side). *)
From Coq Require Import List Ascii Bool Arith ZArith Lia.
From Coq Require String.
Import String.StringSyntax.
From DT Require Import PyStr Sexp PyVal TyExpr PureUtils Defaults PyAst IR Merge EmitAst C16Spec C16RoundTrip.
From DT Require ParseSig ParseAst.
From DT Require Import PyStrFacts EmitAstFacts C16Facts.
From DT Require C06Spec C06Facts MergeFacts.
Import ListNotations.

(* ================================================================== generic *)
Lemma is_none_true : forall {A} (o : option A), is_none o = true -> o = None.
Proof. intros A [x|] H; [discriminate | reflexivity]. Qed.

Lemma fld_eq_opt_has : forall n o, fld_eq_opt (Has n) o = true -> o = Some n.
Proof.
  intros n [m|] H; cbn in H; [|discriminate]. apply str_eqb_eq in H. now subst m.
Qed.

Lemma body_stmts_docstring : forall e rest, body_stmts (SExpr (set_value (VStr e)) :: rest) = rest.
Proof. intros e rest. reflexivity. Qed.

(* ================================================================== parse.function: `_internal` and returns *)
Lemma merge_returns_sig : forall pj d body rets,
    (match docstring_of body, d with
     | None, _ => Ok (mkIR Missing Missing Missing [] FNone None)
     | Some _, Some di => Ok di
     | Some _, None => Err Unmodelled
     end) = Ok rets ->
    merge_returns pj (ir_returns rets) FNone = Ok (doc_returns d body)
    /\ (ir_internal rets) = doc_internal d body.
Proof.
  intros pj d body base H. unfold doc_returns, doc_internal.
  destruct (docstring_of body) as [s|].
  - destruct d as [di|]; [|discriminate]. injection H as H. subst base.
    split; [|reflexivity]. unfold merge_returns. destruct (ir_returns di); reflexivity.
  - injection H as H. subst base. split; reflexivity.
Qed.

Lemma parse_function_internal : forall pi pj d n a body dc r it ww pft pfn i,
    ParseSig.parse_function pi pj d (SFunc n a body dc r) it ww pft pfn = Ok i ->
    ir_name i = Has (ParseSig.opt_or pfn n)
    /\ ir_type i = Has (ParseSig.opt_or pft (ParseSig.get_function_type a))
    /\ ir_internal i = match body_stmts body with
                       | [] => doc_internal d body
                       | s :: rest => Some (mkInternal (s :: rest) (Has n) (Has (ParseSig.get_function_type a)))
                       end
    /\ rt_function_returns d body r it ww = Ok (ir_returns i).
Proof.
  intros pi pj d n a body dc r it ww pft pfn i H. unfold ParseSig.parse_function in H.
  apply bind_Ok in H. destruct H as [pp [Hpp H]].
  apply bind_Ok in H. destruct H as [m [Hm H]].
  unfold ParseSig.pf_prepare in Hpp.
  match type of Hpp with (if ?c then _ else _) = _ => destruct c end; [discriminate|].
  match type of Hpp with (if ?c then _ else _) = _ => destruct c end; [discriminate|].
  apply bind_Ok in Hpp. destruct Hpp as [base [Hbase Hpp]].
  apply bind_Ok in Hpp. destruct Hpp as [kw [_ Hpp]].
  injection Hpp as Hpp. subst pp.
  apply (merge_returns_sig pj) in Hbase. destruct Hbase as [Hmr Hbi].
  unfold ir_merge in Hm.
  match type of Hm with (if ?c then _ else _) = _ => destruct c end; [discriminate|].
  apply bind_Ok in Hm. destruct Hm as [ps [_ Hm]].
  apply bind_Ok in Hm. destruct Hm as [rets [Hrets Hm]].
  cbn [ParseSig.pp_target ParseSig.pp_other ir_returns ir_internal ir_name ir_type ir_doc] in Hm, Hrets.
  rewrite Hmr in Hrets. injection Hrets as Hrets. subst rets.
  injection Hm as Hm. subst m.
  unfold ParseSig.pf_finish in H.
  cbn [ParseSig.pp_body ParseSig.pp_returns ParseSig.pp_append ParseSig.pp_sig
       ir_returns ir_internal ir_name ir_type ir_doc ir_params] in H.
  apply bind_Ok in H. destruct H as [params2 [_ H]].
  apply bind_Ok in H. destruct H as [rets1 [Hir H]].
  apply bind_Ok in H. destruct H as [rets' [Hfin H]].
  injection H as H. subst i. cbn [ir_name ir_type ir_internal ir_returns].
  split; [reflexivity|]. split; [reflexivity|]. split.
  - unfold merge_internal. fold (body_stmts body). rewrite Hbi.
    destruct (body_stmts body); reflexivity.
  - unfold rt_function_returns. fold (body_stmts body) in Hir. rewrite Hir. cbn [bind]. exact Hfin.
Qed.

(* ================================================================== emit.function *)
Lemma return_val_of_ir : forall pt i, function_return_val pt i = return_val_of pt (ir_returns i).
Proof. intros pt i. reflexivity. Qed.

Lemma emit_function_body_text : forall pt i fn ft it kw tds n a body d r i2,
    emit_function pt i fn ft it kw tds = Ok (SFunc n a body d r, i2) ->
    exists text b rv ftype,
      tds = Ok text /\ py_or fn (ir_name i) = Ok (Some n) /\ py_or ft (ir_type i) = Ok ftype
      /\ get_internal_body (Some n) ftype i = Ok b
      /\ return_val_of pt (ir_returns i) = Ok rv
      /\ body = SExpr (set_value (VStr text)) :: function_body_splice b rv.
Proof.
  intros pt i fn ft it kw tds n a body d r i2 H. unfold emit_function in H.
  apply bind_Ok in H. destruct H as [fname [Hfn H]].
  apply bind_Ok in H. destruct H as [ftype [Hft H]].
  apply bind_Ok in H. destruct H as [afp [Hafp H]].
  apply bind_Ok in H. destruct H as [dfp [Hdfp H]].
  apply bind_Ok in H. destruct H as [b [Hb H]].
  apply bind_Ok in H. destruct H as [rv [Hrv H]].
  apply bind_Ok in H. destruct H as [text [Htds H]].
  apply bind_Ok in H. destruct H as [rets [Hrets H]].
  destruct fname as [nm|]; [|discriminate].
  inversion H. subst. exists text, b, rv, ftype.
  rewrite <- return_val_of_ir. repeat split; assumption.
Qed.

Lemma get_internal_body_same : forall i n t s rest,
    ir_internal i = Some (mkInternal (s :: rest) (Has n) (Has t)) ->
    get_internal_body (Some n) (Some t) i = Ok (s :: rest).
Proof.
  intros i n t s rest H. unfold get_internal_body. rewrite H.
  cbn [in_body in_from_name in_from_type fld_eq_opt]. rewrite !str_eqb_refl. reflexivity.
Qed.

Lemma get_internal_body_none : forall i n t, ir_internal i = None -> get_internal_body n t i = Ok [].
Proof. intros i n t H. unfold get_internal_body. rewrite H. reflexivity. Qed.

Lemma same_target_function_inv : forall n a pft pfn efn eft,
    same_target_function n a pft pfn efn eft = true ->
    py_or efn (Has (ParseSig.opt_or pfn n)) = Ok (Some n)
    /\ py_or eft (Has (ParseSig.opt_or pft (ParseSig.get_function_type a))) = Ok (Some (ParseSig.get_function_type a)).
Proof.
  intros n a pft pfn efn eft H. unfold same_target_function in H.
  destruct (py_or efn _) as [en|]; [|discriminate].
  destruct (py_or eft _) as [et|]; [|discriminate].
  apply andb_true_iff in H. destruct H as [H1 H2].
  apply fld_eq_opt_has in H1. apply fld_eq_opt_has in H2. subst. split; reflexivity.
Qed.

(* ---- the general form: whatever the generated return is, the emitted body is the docstring followed by
   the function splice of exactly the source's statements ---- *)
Lemma rt_function_structure_lemma :
  forall pi pj d n a body dc r it ww pft pfn pt efn eft inl kw tds n' a' body' d' r' i2,
    rt_function pi pj d (SFunc n a body dc r) it ww pft pfn pt efn eft inl kw tds
    = Ok (SFunc n' a' body' d' r', i2) ->
    same_target_function n a pft pfn efn eft = true ->
    body_or_clean_doc d body = true ->
    exists text rv,
      tds = Ok text /\ n' = n
      /\ rt_function_rv pt d body r it ww = Ok rv
      /\ body' = SExpr (set_value (VStr text)) :: function_body_splice (body_stmts body) rv.
Proof.
  intros pi pj d n a body dc r it ww pft pfn pt efn eft inl kw tds n' a' body' d' r' i2 H ST BC.
  unfold rt_function in H. apply bind_Ok in H. destruct H as [i [Hp He]].
  apply parse_function_internal in Hp. destruct Hp as (Hn & Ht & Hint & Hret).
  apply emit_function_body_text in He. destruct He as (text & b & rv & ftype & Htds & Hfn & Hft & Hb & Hrv & Hbody).
  apply same_target_function_inv in ST. destruct ST as [ST1 ST2].
  rewrite Hn, ST1 in Hfn. injection Hfn as Hfn. subst n'.
  rewrite Ht, ST2 in Hft. injection Hft as Hft. subst ftype.
  exists text, rv. split; [exact Htds|]. split; [reflexivity|]. split.
  - unfold rt_function_rv. rewrite Hret. cbn [bind]. exact Hrv.
  - subst body'. f_equal. f_equal.
    destruct (body_stmts body) as [|s rest] eqn:Eb.
    + unfold body_or_clean_doc in BC. rewrite Eb in BC. cbn in BC. apply is_none_true in BC.
      rewrite BC in Hint. rewrite (get_internal_body_none _ _ _ Hint) in Hb. now injection Hb as <-.
    + rewrite (get_internal_body_same _ _ _ _ _ Hint) in Hb. now injection Hb as <-.
Qed.

(* ---- inside the guard: verbatim ---- *)
Lemma rt_function_body_lemma :
  forall pi pj d n a body dc r it ww pft pfn pt efn eft inl kw tds n' a' body' d' r' i2,
    rt_function pi pj d (SFunc n a body dc r) it ww pft pfn pt efn eft inl kw tds
    = Ok (SFunc n' a' body' d' r', i2) ->
    guard_rt_function pt d (SFunc n a body dc r) it ww pft pfn efn eft = true ->
    exists text,
      tds = Ok text /\ n' = n
      /\ body' = SExpr (set_value (VStr text)) :: body_stmts body.
Proof.
  intros pi pj d n a body dc r it ww pft pfn pt efn eft inl kw tds n' a' body' d' r' i2 H G.
  unfold guard_rt_function in G.
  apply andb_true_iff in G. destruct G as [G G3]. apply andb_true_iff in G. destruct G as [G1 G2].
  destruct (rt_function_structure_lemma _ _ _ _ _ _ _ _ _ _ _ _ _ _ _ _ _ _ _ _ _ _ _ _ H G1 G2)
    as (text & rv & Htds & Hn & Hrv & Hbody).
  exists text. split; [exact Htds|]. split; [exact Hn|]. subst body'. f_equal.
  apply C16_function_partial_lemma. unfold guard_C16_function.
  unfold finding_class_rt_function in G3. rewrite Hrv in G3. apply is_none_true in G3. now rewrite G3.
Qed.

(* the same in source terms: the statements after the docstring are the same, in the same order *)
Lemma rt_function_stmts_lemma :
  forall pi pj d n a body dc r it ww pft pfn pt efn eft inl kw tds n' a' body' d' r' i2,
    rt_function pi pj d (SFunc n a body dc r) it ww pft pfn pt efn eft inl kw tds
    = Ok (SFunc n' a' body' d' r', i2) ->
    guard_rt_function pt d (SFunc n a body dc r) it ww pft pfn efn eft = true ->
    n' = n /\ body_stmts body' = body_stmts body.
Proof.
  intros pi pj d n a body dc r it ww pft pfn pt efn eft inl kw tds n' a' body' d' r' i2 H G.
  destruct (rt_function_body_lemma _ _ _ _ _ _ _ _ _ _ _ _ _ _ _ _ _ _ _ _ _ _ _ _ H G) as (text & _ & Hn & Hb).
  split; [exact Hn|]. subst body'. apply body_stmts_docstring.
Qed.

(* the carried statements do not depend on the docstring text: two emitter runs that differ only in what
   to_docstring returned agree on everything after the docstring, guard or not *)
Lemma emit_function_tail_indep : forall pt i fn ft it kw t1 t2 n1 a1 b1 d1 r1 j1 n2 a2 b2 d2 r2 j2,
    emit_function pt i fn ft it kw (Ok t1) = Ok (SFunc n1 a1 b1 d1 r1, j1) ->
    emit_function pt i fn ft it kw (Ok t2) = Ok (SFunc n2 a2 b2 d2 r2, j2) ->
    tl b1 = tl b2.
Proof.
  intros pt i fn ft it kw t1 t2 n1 a1 b1 d1 r1 j1 n2 a2 b2 d2 r2 j2 H1 H2.
  apply emit_function_body_text in H1. destruct H1 as (x1 & c1 & rv1 & ft1 & _ & Hn1 & Hf1 & Hb1 & Hr1 & E1).
  apply emit_function_body_text in H2. destruct H2 as (x2 & c2 & rv2 & ft2 & _ & Hn2 & Hf2 & Hb2 & Hr2 & E2).
  rewrite Hn1 in Hn2. injection Hn2 as Hn2. subst n2.
  rewrite Hf1 in Hf2. injection Hf2 as Hf2. subst ft2.
  rewrite Hb1 in Hb2. injection Hb2 as Hb2. subst c2.
  rewrite Hr1 in Hr2. injection Hr2 as Hr2. subst rv2.
  subst b1 b2. reflexivity.
Qed.

(* ================================================================== function: class-free corollaries *)
Definition default_of (f : fld gparam) : option dval := match f with Has p => g_default p | _ => None end.

Lemma snt_post_default : forall p1 ww p', ParseSig.snt_post p1 ww = Ok p' -> g_default p' = g_default p1.
Proof.
  intros p1 ww p' H. unfold ParseSig.snt_post in H. cbv zeta in H.
  destruct (g_doc p1) as [| |[|c r]]; try (injection H as <-; reflexivity).
  destruct (g_typ p1) as [| |t].
  - match type of H with (if ?c then _ else _) = _ => destruct c end; injection H as <-; reflexivity.
  - match type of H with (if ?c then _ else _) = _ => destruct c end; [discriminate | injection H as <-; reflexivity].
  - destruct (endswith ParseSig.google_opt t);
      (match type of H with (if ?c then _ else _) = _ => destruct c end;
       [ match type of H with (if ?c then _ else _) = _ => destruct c end; injection H as <-; reflexivity
       | injection H as <-; reflexivity ]).
Qed.

Lemma return_type_not_kwargs : ParseSig.kwargs_like (L "return_type") = false.
Proof. vm_compute. reflexivity. Qed.

Lemma set_name_and_type_return_no_default : forall p it ww x,
    g_default p = None -> ParseSig.set_name_and_type (L "return_type") p it ww = Ok x -> g_default (snd x) = None.
Proof.
  intros p it ww x Hd H. unfold ParseSig.set_name_and_type in H.
  apply bind_Ok in H. destruct H as [p' [Hp H]]. injection H as H. subst x. cbn [snd].
  unfold ParseSig.snt_param in Hp. apply bind_Ok in Hp. destruct Hp as [p1 [Hpre Hpost]].
  unfold ParseSig.snt_pre in Hpre. rewrite return_type_not_kwargs, Hd in Hpre. injection Hpre as Hpre. subst p1.
  apply snt_post_default in Hpost. now rewrite Hpost.
Qed.

Lemma interpolate_return_no_value : forall stmts r rets0 rets,
    no_value_return stmts = true -> ParseSig.interpolate_return stmts r rets0 = Ok rets ->
    default_of rets = default_of rets0.
Proof.
  intros stmts r rets0 rets NV H. unfold no_value_return in NV. unfold ParseSig.interpolate_return in H.
  assert (E : (do rets1 <- Ok rets0;
               match r with
               | Some r0 =>
                 if negb (ParseSig.expr_ok r0) then Err Unmodelled else
                 let rt := match rets1 with Has p => p | _ => mkG Missing Missing None end in
                 Ok (Has (mkG (g_doc rt) (Has (rstrip_chars [nl] (ParseSig.show_expr r0))) (g_default rt)))
               | None => Ok rets1
               end) = Ok rets).
  { destruct (ParseSig.last_return stmts) as [[v|]|]; [discriminate | exact H | exact H]. }
  clear H. cbn [bind] in E. destruct r as [r0|].
  - destruct (negb (ParseSig.expr_ok r0)); [discriminate|]. injection E as <-.
    destruct rets0; reflexivity.
  - injection E as <-. reflexivity.
Qed.

Lemma return_val_of_no_default : forall pt rets, default_of rets = None -> return_val_of pt rets = Ok None.
Proof.
  intros pt rets H. unfold return_val_of, function_return_val, returns_param. cbn [ir_returns].
  destruct rets as [| |p]; cbn [fget]; try reflexivity. cbn [default_of] in H. now rewrite H.
Qed.

Lemma rt_function_no_return_class : forall pt d body r it ww,
    no_value_return (body_stmts body) = true -> doc_return_default_absent d body = true ->
    finding_class_rt_function pt d body r it ww = None.
Proof.
  intros pt d body r it ww NV DA. unfold finding_class_rt_function, rt_function_rv.
  destruct (rt_function_returns d body r it ww) as [rets|x] eqn:E; cbn [bind]; [|reflexivity].
  assert (Hd : default_of rets = None).
  { unfold rt_function_returns in E. apply bind_Ok in E. destruct E as [rets1 [Hir Hfin]].
    apply (interpolate_return_no_value _ _ _ _ NV) in Hir.
    assert (H0 : default_of (doc_returns d body) = None).
    { unfold doc_return_default_absent in DA. destruct (doc_returns d body) as [| |p]; try reflexivity.
      now apply is_none_true in DA. }
    rewrite H0 in Hir.
    destruct rets1 as [| |p].
    - injection Hfin as <-. reflexivity.
    - injection Hfin as <-. reflexivity.
    - apply bind_Ok in Hfin. destruct Hfin as [x [Hx Hfin]]. injection Hfin as <-.
      cbn [default_of] in *. eapply set_name_and_type_return_no_default; eauto. }
  rewrite (return_val_of_no_default _ _ Hd). reflexivity.
Qed.

(* a body without a top-level `return <value>`, under a docstring that declares no return default: verbatim *)
Lemma rt_function_no_return_lemma :
  forall pi pj d n a body dc r it ww pft pfn pt efn eft inl kw tds n' a' body' d' r' i2,
    rt_function pi pj d (SFunc n a body dc r) it ww pft pfn pt efn eft inl kw tds
    = Ok (SFunc n' a' body' d' r', i2) ->
    same_target_function n a pft pfn efn eft = true ->
    body_or_clean_doc d body = true ->
    no_value_return (body_stmts body) = true -> doc_return_default_absent d body = true ->
    exists text, tds = Ok text /\ n' = n /\ body' = SExpr (set_value (VStr text)) :: body_stmts body.
Proof.
  intros pi pj d n a body dc r it ww pft pfn pt efn eft inl kw tds n' a' body' d' r' i2 H ST BC NV DA.
  eapply rt_function_body_lemma; [exact H|].
  unfold guard_rt_function. rewrite ST, BC, (rt_function_no_return_class _ _ _ _ _ _ NV DA). reflexivity.
Qed.

(* a body ending in `return e` whose return the round trip regenerates as `return e`: verbatim *)
Lemma rt_function_final_return_lemma :
  forall pi pj d n a body dc r it ww pft pfn pt efn eft inl kw tds n' a' body' d' r' i2 pre e,
    rt_function pi pj d (SFunc n a body dc r) it ww pft pfn pt efn eft inl kw tds
    = Ok (SFunc n' a' body' d' r', i2) ->
    same_target_function n a pft pfn efn eft = true ->
    body_stmts body = pre ++ [SReturn e] ->
    rt_function_rv pt d body r it ww = Ok (Some (SReturn e)) ->
    exists text, tds = Ok text /\ n' = n /\ body' = SExpr (set_value (VStr text)) :: body_stmts body.
Proof.
  intros pi pj d n a body dc r it ww pft pfn pt efn eft inl kw tds n' a' body' d' r' i2 pre e H ST Eb Hrv.
  assert (BC : body_or_clean_doc d body = true).
  { unfold body_or_clean_doc. rewrite Eb. destruct pre; reflexivity. }
  destruct (rt_function_structure_lemma _ _ _ _ _ _ _ _ _ _ _ _ _ _ _ _ _ _ _ _ _ _ _ _ H ST BC)
    as (text & rv & Htds & Hn & Hrv' & Hbody).
  rewrite Hrv in Hrv'. injection Hrv' as <-.
  exists text. split; [exact Htds|]. split; [exact Hn|]. subst body'. f_equal.
  rewrite Eb. apply splice_same. reflexivity.
Qed.

(* ================================================================== argparse *)
Lemma filter_id : forall {A} (f : A -> bool) l, (forall x, In x l -> f x = true) -> filter f l = l.
Proof.
  intros A f l. induction l as [|x r IH]; intros H; cbn; [reflexivity|].
  rewrite (H x (or_introl eq_refl)). f_equal. apply IH. intros y Hy. apply H. now right.
Qed.

Lemma extras_app : forall l1 l2, extras (l1 ++ l2) = extras l1 ++ extras l2.
Proof. intros l1 l2. unfold extras. now rewrite !filter_app. Qed.

Lemma extras_In : forall l x, In x (extras l) ->
    ParseAst.is_argparse_add_argument x = false /\ ParseAst.is_argparse_description x = false.
Proof.
  intros l x H. unfold extras in H. apply filter_In in H. destruct H as [H Hd].
  apply filter_In in H. destruct H as [_ Ha].
  split; [now apply negb_true_iff in Ha | now apply negb_true_iff in Hd].
Qed.

Lemma extras_idem : forall l, extras (extras l) = extras l.
Proof.
  intros l. unfold extras at 1.
  rewrite (filter_id (fun s => negb (ParseAst.is_argparse_add_argument s)) (extras l)).
  - apply filter_id. intros x Hx. apply extras_In in Hx. destruct Hx as [_ Hx]. now rewrite Hx.
  - intros x Hx. apply extras_In in Hx. destruct Hx as [Hx _]. now rewrite Hx.
Qed.

Lemma extras_adds : forall adds, Forall (fun s => ParseAst.is_argparse_add_argument s = true) adds -> extras adds = [].
Proof.
  intros adds H. unfold extras. induction H as [|x r Hx Hr IH]; cbn; [reflexivity|]. rewrite Hx. cbn. exact IH.
Qed.

Lemma extras_description : forall v, extras [description_assign v] = [].
Proof. intros v. reflexivity. Qed.

Lemma extras_return : forall x, is_return x = true -> extras [x] = [x].
Proof. intros x H. destruct x; try discriminate. destruct e as [[]|]; reflexivity. Qed.

Lemma parse_argparse_internal : forall di n a fbody dc r pft pfn i,
    ParseAst.parse_argparse_ast di (SFunc n a fbody dc r) pft pfn = Ok i ->
    ir_name i = ParseAst.fld_of_opt pfn
    /\ ir_type i = Has (argparse_parsed_type a pft)
    /\ ir_internal i = match extras (body_stmts fbody) with
                       | [] => None
                       | s :: rest => Some (mkInternal (s :: rest) (Has n) (Has (L "static")))
                       end.
Proof.
  intros di n a fbody dc r pft pfn i H. unfold ParseAst.parse_argparse_ast in H.
  cbn [ParseAst.is_func_other] in H.
  apply bind_Ok in H. destruct H as [di' [_ H]].
  apply bind_Ok in H. destruct H as [st [_ H]].
  injection H as H. subst i. cbn [ir_name ir_type ir_internal].
  split; [reflexivity|]. split; [reflexivity|].
  unfold extras, body_stmts.
  destruct (filter _ (filter _ _)); reflexivity.
Qed.

Lemma emit_argparse_inv : forall pt i edd fn ft wd ww ds n a body d r i2,
    emit_argparse pt i edd fn ft wd ww ds = Ok (SFunc n a body d r, i2) ->
    exists dtext desc adds b spliced ret ftype,
      ds = Ok dtext /\ py_or fn (ir_name i) = Ok (Some n) /\ py_or ft (ir_type i) = Ok ftype
      /\ get_internal_body (Some n) ftype i = Ok b
      /\ argparse_body_skip b = Ok spliced
      /\ (if last_is_return b then Ok [] else do x <- argparse_return pt i; Ok [x]) = Ok ret
      /\ Forall (fun s => ParseAst.is_argparse_add_argument s = true) adds
      /\ List.length adds = List.length (ir_params i)
      /\ body = SExpr (set_value (VStr (indent tab dtext ++ tab))) :: description_assign desc
                      :: adds ++ spliced ++ ret.
Proof.
  intros pt i edd fn ft wd ww ds n a body d r i2 H. unfold emit_argparse in H.
  apply bind_Ok in H. destruct H as [fname [Hfn H]].
  apply bind_Ok in H. destruct H as [ftype [Hft H]].
  apply bind_Ok in H. destruct H as [b [Hb H]].
  apply bind_Ok in H. destruct H as [dtext [Hds H]].
  apply bind_Ok in H. destruct H as [desc [Hdesc H]].
  apply bind_Ok in H. destruct H as [ps [Hps H]].
  apply bind_Ok in H. destruct H as [spliced [Hsp H]].
  apply bind_Ok in H. destruct H as [ret [Hret H]].
  destruct fname as [nm|]; [|discriminate]. inversion H. subst.
  exists dtext, desc, ps, b, spliced, ret, ftype.
  split; [reflexivity|].
  repeat (split; [assumption|]).
  split; [|split; [eapply map_outcome_length; eauto | reflexivity]].
  apply map_outcome_Forall2 in Hps. clear -Hps.
  induction Hps as [|kv y l ys Hy Hr IH]; constructor; [|exact IH].
  apply C06Facts.param2argparse_param_shape in Hy. destruct Hy as [kws Hs]. subst y. reflexivity.
Qed.

Lemma same_target_argparse_inv : forall n a pft pfn efn eft,
    same_target_argparse n a pft pfn efn eft = true ->
    py_or efn (ParseAst.fld_of_opt pfn) = Ok (Some n)
    /\ py_or eft (Has (argparse_parsed_type a pft)) = Ok (Some (L "static")).
Proof.
  intros n a pft pfn efn eft H. unfold same_target_argparse in H.
  destruct (py_or efn _) as [en|]; [|discriminate].
  destruct (py_or eft _) as [et|]; [|discriminate].
  apply andb_true_iff in H. destruct H as [H1 H2].
  apply fld_eq_opt_has in H1. apply fld_eq_opt_has in H2. subst. split; reflexivity.
Qed.

Definition one_final_return (inner ret : list stmt) : Prop :=
  (last_is_return inner = true /\ ret = [])
  \/ (last_is_return inner = false /\ exists x, ret = [x] /\ is_return x = true).

Lemma rt_argparse_body_lemma :
  forall di n a fbody dc r pft pfn pt edd efn eft wd ww ds n' a' body' d' r' i2,
    rt_argparse di (SFunc n a fbody dc r) pft pfn pt edd efn eft wd ww ds = Ok (SFunc n' a' body' d' r', i2) ->
    guard_rt_argparse (SFunc n a fbody dc r) pft pfn efn eft = true ->
    exists dtext desc adds ret,
      ds = Ok dtext /\ n' = n
      /\ body' = SExpr (set_value (VStr (indent tab dtext ++ tab))) :: description_assign desc
                       :: adds ++ extras (body_stmts fbody) ++ ret
      /\ Forall (fun s => ParseAst.is_argparse_add_argument s = true) adds
      /\ one_final_return (extras (body_stmts fbody)) ret.
Proof.
  intros di n a fbody dc r pft pfn pt edd efn eft wd ww ds n' a' body' d' r' i2 H G.
  unfold guard_rt_argparse in G. apply andb_true_iff in G. destruct G as [ST AG].
  unfold rt_argparse in H. apply bind_Ok in H. destruct H as [i [Hp He]].
  apply parse_argparse_internal in Hp. destruct Hp as (Hn & Ht & Hint).
  apply emit_argparse_inv in He.
  destruct He as (dtext & desc & adds & b & spliced & ret & ftype & Hds & Hfn & Hft & Hb & Hsp & Hret & Hadds & _ & Hbody).
  apply same_target_argparse_inv in ST. destruct ST as [ST1 ST2].
  rewrite Hn, ST1 in Hfn. injection Hfn as Hfn. subst n'.
  rewrite Ht, ST2 in Hft. injection Hft as Hft. subst ftype.
  assert (Eb : b = extras (body_stmts fbody)).
  { destruct (extras (body_stmts fbody)) as [|s rest] eqn:Ei; rewrite ?Ei in Hint.
    - rewrite (get_internal_body_none _ _ _ Hint) in Hb. now injection Hb as <-.
    - assert (X : Ok b = Ok (s :: rest)) by (rewrite <- Hb; exact (get_internal_body_same _ _ _ _ _ Hint)).
      now injection X. }
  subst b. rewrite (C16_argparse_partial_lemma _ AG) in Hsp. injection Hsp as <-.
  exists dtext, desc, adds, ret. split; [exact Hds|]. split; [reflexivity|]. split; [exact Hbody|].
  split; [exact Hadds|].
  unfold one_final_return. destruct (last_is_return (extras (body_stmts fbody))).
  - injection Hret as <-. left. split; reflexivity.
  - apply bind_Ok in Hret. destruct Hret as [x [Hx Hret]]. injection Hret as <-.
    right. split; [reflexivity|]. exists x. split; [reflexivity|]. eapply argparse_return_is_return; eauto.
Qed.

(* in source terms: the extra statements of the emitted function are the extra statements of the source,
   in order, followed by the one final return when the source had none *)
Lemma rt_argparse_extras_lemma :
  forall di n a fbody dc r pft pfn pt edd efn eft wd ww ds n' a' body' d' r' i2,
    rt_argparse di (SFunc n a fbody dc r) pft pfn pt edd efn eft wd ww ds = Ok (SFunc n' a' body' d' r', i2) ->
    guard_rt_argparse (SFunc n a fbody dc r) pft pfn efn eft = true ->
    n' = n
    /\ exists ret, extras (body_stmts body') = extras (body_stmts fbody) ++ ret
                   /\ one_final_return (extras (body_stmts fbody)) ret.
Proof.
  intros di n a fbody dc r pft pfn pt edd efn eft wd ww ds n' a' body' d' r' i2 H G.
  destruct (rt_argparse_body_lemma _ _ _ _ _ _ _ _ _ _ _ _ _ _ _ _ _ _ _ _ _ H G)
    as (dtext & desc & adds & ret & _ & Hn & Hbody & Hadds & Hret).
  split; [exact Hn|]. exists ret. split; [|exact Hret].
  subst body'. rewrite body_stmts_docstring.
  change (description_assign desc :: adds ++ extras (body_stmts fbody) ++ ret)
    with ([description_assign desc] ++ adds ++ extras (body_stmts fbody) ++ ret).
  rewrite !extras_app, extras_description, (extras_adds _ Hadds), extras_idem. cbn [app]. f_equal.
  destruct Hret as [[_ ->]|[_ [x [-> Hx]]]]; [reflexivity | now apply extras_return].
Qed.

(* ================================================================== class *)
Lemma parse_class_internal : forall di nm bs cbody dc pn it ww i,
    ParseAst.parse_class di (ParseAst.CStmt (SClass nm bs cbody dc)) pn it ww = Ok i ->
    ir_internal i = Some (mkInternal (class_extras (body_stmts cbody)) (Has nm) (Has (L "cls"))).
Proof.
  intros di nm bs cbody dc pn it ww i H. unfold ParseAst.parse_class in H.
  apply bind_Ok in H. destruct H as [cd [Hcd H]].
  assert (E : cd = SClass nm bs cbody dc).
  { cbn in Hcd. destruct pn as [want|]; [destruct (str_eqb nm want); [|discriminate]|]; now injection Hcd. }
  subst cd. apply bind_Ok in H. destruct H as [[i0 body] [Hr0 H]].
  assert (E : body = body_stmts cbody).
  { unfold body_stmts. destruct (docstring_of cbody).
    - destruct di as [o|]; [|discriminate]. apply bind_Ok in Hr0. destruct Hr0 as [x [_ Hr0]]. now injection Hr0.
    - now injection Hr0. }
  subst body.
  match type of H with (let '(_, _) := ?X in _) = _ => destruct X as [params0 returns0] end.
  apply bind_Ok in H. destruct H as [[params1 returns1] [_ H]].
  apply bind_Ok in H. destruct H as [params2 [_ H]].
  injection H as <-. reflexivity.
Qed.

(* class -> IR -> class with emit_call: every statement of the class body that is not an attribute (its
   methods) is put, in order, INSIDE one generated __call__ - as it stands when the class has no attributes,
   with the attribute names re-homed to self.<name> otherwise (inside guard_C16_call: exactly the scope-aware
   substitution) *)
Lemma rt_class_call_lemma : forall di nm bs cbody dc pn it pww i pt cn bases decos ww tds n' bs' body' dc' i2 s0 rest,
    ParseAst.parse_class di (ParseAst.CStmt (SClass nm bs cbody dc)) pn it pww = Ok i ->
    emit_class pt i true cn bases decos ww tds = Ok (SClass n' bs' body' dc', i2) ->
    class_extras (body_stmts cbody) = s0 :: rest ->
    (ir_params i = [] /\ In (call_meth (s0 :: rest)) body')
    \/ (ir_params i <> []
        /\ (guard_C16_call (od_keys (ir_params i)) (s0 :: rest) = true ->
            In (call_meth (map (subst_stmt (od_keys (ir_params i))) (s0 :: rest))) body')).
Proof.
  intros di nm bs cbody dc pn it pww i pt cn bases decos ww tds n' bs' body' dc' i2 s0 rest Hp He Eb.
  apply parse_class_internal in Hp. rewrite Eb in Hp.
  assert (Hb : match ir_internal i with Some it0 => in_body it0 | None => [] end = s0 :: rest) by now rewrite Hp.
  destruct (emit_class_call_body _ _ _ _ _ _ _ _ _ _ _ _ _ _ He Hb) as [[Hps Hin]|[Hps [b' [Hrw Hin]]]].
  - left. split; assumption.
  - right. split; [assumption|]. intros G. rewrite (C16_call_partial_lemma _ _ G) in Hrw.
    injection Hrw as <-. exact Hin.
Qed.

(* ================================================================== witnesses *)
Definition idp : perm := fun l => l.

Definition wr_inner : stmt :=
  SFunc (L "inner") (mkArguments [mkArg (L "q") None] [] [] [] None None)
        [SReturn (Some (ECall (EName (L "g")) [EName (L "q"); EName (L "b")] []))] [] None.

Definition wr_args : arguments :=
  mkArguments [mkArg (L "a") None; mkArg (L "b") None] [EConst (VInt 2)] [] [] None None.

(* def f(a, b=2): <docstring>; 'a string first'; t = g(a); if t: return a; def inner(q): ...; <ret> *)
Definition wr_body (ret : list stmt) : list stmt :=
  [SExpr (EConst (VStr (L "doc")));
   SExpr (EConst (VStr (L "a string first")));
   SAssign [EName (L "t")] (ECall (EName (L "g")) [EName (L "a")] []);
   SOther (L "If") (L "if t:") [[SReturn (Some (EName (L "a")))]];
   wr_inner] ++ ret.

Definition wr_doc : ir :=
  mkIR Missing Missing (Has (L "doc"))
       [(L "a", mkG (Has (L "the a")) Missing None); (L "b", mkG (Has (L "the b")) Missing None)] FNone None.

Definition wr_fn (ret : list stmt) : stmt := SFunc (L "f") wr_args (wr_body ret) [] None.

Definition wr_run (pt : ptable) (ret : list stmt) : outcome (stmt * ir) :=
  rt_function idp idp (Some wr_doc) (wr_fn ret) false true None None pt None None false false (Ok (L "DOC")).

Definition fn_body_of (o : outcome (stmt * ir)) : option (list stmt) :=
  match o with Ok (SFunc _ _ b _ _, _) => Some b | _ => None end.

(* non-vacuity: two parameters (one with a default), a body of five statements after the docstring - a
   string first, an assignment, a conditional with an early return, a nested def, a final `return t` -
   goes through both conversions inside the guard *)
Lemma rt_function_nonvacuous_lemma :
  guard_rt_function [] (Some wr_doc) (wr_fn [SReturn (Some (EName (L "t")))]) false true None None None None = true
  /\ exists b, fn_body_of (wr_run [] [SReturn (Some (EName (L "t")))]) = Some b
               /\ body_stmts b = body_stmts (wr_body [SReturn (Some (EName (L "t")))])
               /\ List.length (body_stmts b) = 5.
Proof. split; [vm_compute; reflexivity|]. eexists. split; [vm_compute; reflexivity|]. split; reflexivity. Qed.

(* the same body without a final return, and with a bare `return`: inside the class-free conditions *)
Lemma rt_function_nonvacuous_no_return :
  no_value_return (body_stmts (wr_body [SReturn None])) = true
  /\ doc_return_default_absent (Some wr_doc) (wr_body [SReturn None]) = true
  /\ exists b, fn_body_of (wr_run [] [SReturn None]) = Some b.
Proof. split; [reflexivity|]. split; [reflexivity|]. eexists. vm_compute. reflexivity. Qed.

(* function-return-replaced on the round trip: `return 'abc'` comes back as `return abc` (the return default
   is the str value, which the emitter parses as source) *)
Lemma rt_function_return_replaced_witness :
  finding_class_rt_function [] (Some wr_doc) (wr_body [SReturn (Some (EConst (VStr (L "abc"))))]) None false true
  = Some K_fn_return_replaced
  /\ exists b, fn_body_of (wr_run [] [SReturn (Some (EConst (VStr (L "abc"))))]) = Some b
               /\ body_stmts b = body_stmts (wr_body [SReturn (Some (EName (L "abc")))]).
Proof. split; [vm_compute; reflexivity|]. eexists. split; vm_compute; reflexivity. Qed.

(* function-return-appended on the round trip: the last top-level `return t` is not the last statement; its
   value becomes the return default and a second `return t` is appended *)
Definition wr_tail : list stmt := [SReturn (Some (EName (L "t"))); SAssign [EName (L "z")] (EConst (VInt 1))].

Lemma rt_function_return_appended_witness :
  finding_class_rt_function [] (Some wr_doc) (wr_body wr_tail) None false true = Some K_fn_return_appended
  /\ exists b, fn_body_of (wr_run [] wr_tail) = Some b
               /\ body_stmts b = body_stmts (wr_body wr_tail) ++ [SReturn (Some (EName (L "t")))].
Proof. split; [vm_compute; reflexivity|]. eexists. split; vm_compute; reflexivity. Qed.

Definition rt_function_statement : Prop :=
  forall pi pj d n a body dc r it ww pft pfn pt efn eft inl kw tds n' a' body' d' r' i2,
    rt_function pi pj d (SFunc n a body dc r) it ww pft pfn pt efn eft inl kw tds
    = Ok (SFunc n' a' body' d' r', i2) ->
    same_target_function n a pft pfn efn eft = true ->
    body_stmts body' = body_stmts body.

Lemma rt_function_refuted_lemma : ~ rt_function_statement.
Proof.
  intros H.
  specialize (H idp idp (Some wr_doc) (L "f") wr_args (wr_body [SReturn (Some (EConst (VStr (L "abc"))))]) [] None
                false true None None [] None None false false (Ok (L "DOC"))).
  vm_compute in H. specialize (H _ _ _ _ _ _ eq_refl eq_refl). discriminate.
Qed.

(* ---- argparse ---- *)
Definition wa_ap : expr := EName (L "argument_parser").
Definition wa_add1 : stmt :=
  SExpr (ECall (EAttr wa_ap (L "add_argument")) [EConst (VStr (L "--x"))]
               [(Some (L "type"), EName (L "int")); (Some (L "help"), EConst (VStr (L "the x")));
                (Some (L "required"), EConst (VBool true)); (Some (L "default"), EConst (VInt 5))]).
Definition wa_add2 : stmt :=
  SExpr (ECall (EAttr wa_ap (L "add_argument")) [EConst (VStr (L "--name"))]
               [(Some (L "help"), EConst (VStr (L "the name")))]).
Definition wa_descr : stmt := SAssign [EAttr wa_ap (L "description")] (EConst (VStr (L "Summary."))).
Definition wa_note : stmt := SExpr (EConst (VStr (L "note"))).
Definition wa_assign : stmt := SAssign [EName (L "t")] (ECall (EName (L "g")) [EName (L "x")] []).

(* def set_cli_args(argument_parser): <docstring>; description; add --x; <mid>; add --name; t = g(x);
   def inner(q): ...; <ret> *)
Definition wa_fn (mid ret : list stmt) : stmt :=
  SFunc (L "set_cli_args") (mkArguments [mkArg (L "argument_parser") None] [] [] [] None None)
        ([SExpr (EConst (VStr (L "Set CLI arguments"))); wa_descr; wa_add1] ++ mid
         ++ [wa_add2; wa_assign; wr_inner] ++ ret) [] None.

Definition wa_doc : ir := mkIR Missing Missing (Has (L "Set CLI arguments")) [] FNone None.
Definition wa_pt : ptable := [(L "(None)", Some (EConst VNone))].

Definition wa_run (mid ret : list stmt) : outcome (stmt * ir) :=
  rt_argparse (Ok wa_doc) (wa_fn mid ret) None (Some (L "set_cli_args")) wa_pt false None None false false
              (Ok (L "DOC")).

Lemma rt_argparse_nonvacuous_lemma :
  guard_rt_argparse (wa_fn [] [SReturn (Some wa_ap)]) None (Some (L "set_cli_args")) None None = true
  /\ exists b, fn_body_of (wa_run [] [SReturn (Some wa_ap)]) = Some b
               /\ extras (body_stmts b) = [wa_assign; wr_inner; SReturn (Some wa_ap)]
               /\ List.length b = 7.
Proof. split; [vm_compute; reflexivity|]. eexists. split; [vm_compute; reflexivity|]. split; reflexivity. Qed.

(* argparse-leading-string-dropped on the round trip: a string expression statement that is the first
   non-interface statement - here it stands between the two add_argument calls - is lost *)
Lemma rt_argparse_leading_string_witness :
  finding_class_rt_argparse
    (match wa_fn [wa_note] [SReturn (Some wa_ap)] with SFunc _ _ b _ _ => b | _ => [] end)
  = Some K_ap_leading_string_dropped
  /\ exists b, fn_body_of (wa_run [wa_note] [SReturn (Some wa_ap)]) = Some b
               /\ extras (body_stmts b) = [wa_assign; wr_inner; SReturn (Some wa_ap)].
Proof. split; [vm_compute; reflexivity|]. eexists. split; vm_compute; reflexivity. Qed.

Definition rt_argparse_statement : Prop :=
  forall di n a fbody dc r pft pfn pt edd efn eft wd ww ds n' a' body' d' r' i2,
    rt_argparse di (SFunc n a fbody dc r) pft pfn pt edd efn eft wd ww ds = Ok (SFunc n' a' body' d' r', i2) ->
    same_target_argparse n a pft pfn efn eft = true ->
    exists ret, extras (body_stmts body') = extras (body_stmts fbody) ++ ret.

Lemma rt_argparse_refuted_lemma : ~ rt_argparse_statement.
Proof.
  intros H.
  specialize (H (Ok wa_doc) (L "set_cli_args") (mkArguments [mkArg (L "argument_parser") None] [] [] [] None None)
                ([SExpr (EConst (VStr (L "Set CLI arguments"))); wa_descr; wa_add1] ++ [wa_note]
                 ++ [wa_add2; wa_assign; wr_inner] ++ [SReturn (Some wa_ap)]) [] None
                None (Some (L "set_cli_args")) wa_pt false None None false false (Ok (L "DOC"))).
  vm_compute in H. specialize (H _ _ _ _ _ _ eq_refl eq_refl). destruct H as [ret H]. discriminate.
Qed.

(* ---- class ---- *)
Definition wc_meth : stmt :=
  SFunc (L "run") (mkArguments [mkArg (L "self") None] [] [] [] None None)
        [SReturn (Some (EAttr (EName (L "self")) (L "a")))] [] None.

(* class C: <docstring>; a: int = 1; def run(self): return self.a *)
Definition wc_class : stmt :=
  SClass (L "C") [] [SExpr (EConst (VStr (L "doc"))); SAnnAssign (EName (L "a")) (EName (L "int")) (Some (EConst (VInt 1)));
                     wc_meth] [].

Definition wc_doc : ir :=
  mkIR FNone (Has (L "static")) (Has (L "doc")) [(L "a", mkG (Has (L "the a")) Missing None)] FNone None.

Definition wc_run (emit_call : bool) : outcome (stmt * ir) :=
  rt_class (Some (Ok wc_doc)) (ParseAst.CStmt wc_class) None false true [] emit_call (L "C") [] [] false (Ok (L "DOC")).

Definition class_body_of (o : outcome (stmt * ir)) : option (list stmt) :=
  match o with Ok (SClass _ _ b _, _) => Some b | _ => None end.

(* class -> IR -> class: the method is not carried as a method.  With emit_call it is nested inside a
   generated __call__; without, it is dropped. *)
Lemma rt_class_method_nested_witness :
  (exists doc attr, class_body_of (wc_run true) = Some [doc; attr; call_meth [wc_meth]])
  /\ (exists doc attr, class_body_of (wc_run false) = Some [doc; attr]).
Proof. split; eexists; eexists; vm_compute; reflexivity. Qed.

Definition rt_class_statement : Prop :=
  forall di nm bs cbody dc pn it pww pt ec cn bases decos ww tds n' bs' body' dc' i2,
    rt_class di (ParseAst.CStmt (SClass nm bs cbody dc)) pn it pww pt ec cn bases decos ww tds
    = Ok (SClass n' bs' body' dc', i2) ->
    forall s, In s (class_extras (body_stmts cbody)) -> In s body'.

Lemma rt_class_refuted_lemma : ~ rt_class_statement.
Proof.
  intros H.
  specialize (H (Some (Ok wc_doc)) (L "C") []
                [SExpr (EConst (VStr (L "doc"))); SAnnAssign (EName (L "a")) (EName (L "int")) (Some (EConst (VInt 1)));
                 wc_meth] []
                None false true [] true (L "C") [] [] false (Ok (L "DOC"))).
  vm_compute in H. specialize (H _ _ _ _ _ eq_refl _ (or_introl eq_refl)).
  destruct H as [H|[H|[H|[]]]]; discriminate.
Qed.

(* ================================================================== function: a final `return <node>` *)
(* the return default parse.function stores for a body ending in `return e` (e not a tuple, get_value leaves a
   node) is the back-quoted source of e, through _interpolate_return, _set_name_and_type and _infer_default,
   for every declared return type and every option; so the emitter regenerates `return e` exactly when the
   parse table sends that text back to e *)
Lemma infer_default_str_default : forall p s it p',
  in_none_types (VStr s) = false ->
  ParseSig.infer_default p (DV (VStr s)) it = Ok p' -> g_default p' = Some (DV (VStr (unquote s))).
Proof.
  intros p s it p' Hn H. unfold ParseSig.infer_default in H. cbn [bind] in H. cbv zeta in H.
  cbn [ParseSig.dval_in_none_types] in H. rewrite Hn in H.
  apply bind_Ok in H. destruct H as [typ3 [_ H]].
  apply bind_Ok in H. destruct H as [[d tn] [Hd4 H]].
  apply bind_Ok in Hd4. destruct Hd4 as [nq [_ Hd4]]. rewrite orb_true_r in Hd4. injection Hd4 as <- <-.
  apply bind_Ok in H. destruct H as [typ5 [_ H]].
  match type of H with (if ?c then _ else _) = _ => destruct c end;
    [destruct typ5 as [| |t]; try discriminate; destruct (contains _ t)|]; injection H as <-; reflexivity.
Qed.

Lemma return_text_cons : forall e, return_text e = ch 96 :: tl (return_text e).
Proof. intros e. reflexivity. Qed.

Lemma unquote_return_text : forall e, unquote (return_text e) = return_text e.
Proof.
  intros e. unfold unquote.
  replace (startswith [dq] (return_text e)) with false by reflexivity.
  replace (startswith [sq] (return_text e)) with false by reflexivity.
  cbn [andb orb]. rewrite andb_false_r. reflexivity.
Qed.

Lemma set_name_and_type_return_str : forall p s it ww x,
    g_default p = Some (DV (VStr s)) -> in_none_types (VStr s) = false ->
    ParseSig.set_name_and_type (L "return_type") p it ww = Ok x ->
    g_default (snd x) = Some (DV (VStr (unquote s))).
Proof.
  intros p s it ww x Hd Hn H. unfold ParseSig.set_name_and_type in H.
  apply bind_Ok in H. destruct H as [p' [Hp H]]. injection H as H. subst x. cbn [snd].
  unfold ParseSig.snt_param in Hp. apply bind_Ok in Hp. destruct Hp as [p1 [Hpre Hpost]].
  unfold ParseSig.snt_pre in Hpre. rewrite return_type_not_kwargs, Hd in Hpre.
  apply snt_post_default in Hpost. rewrite Hpost. eapply infer_default_str_default; eauto.
Qed.

Lemma last_return_final : forall pre e, ParseSig.last_return (pre ++ [SReturn e]) = Some e.
Proof. intros pre e. unfold ParseSig.last_return. rewrite rev_app_distr. reflexivity. Qed.

Lemma interpolate_return_node : forall pre e r rets0 rets,
    (match e with ETuple _ => false | _ => true end) = true ->
    (exists x, ParseSig.get_value_expr e = Ok (ParseSig.GN x) /\ (match x with EConst _ => false | _ => true end) = true) ->
    ParseSig.interpolate_return (pre ++ [SReturn (Some e)]) r rets0 = Ok rets ->
    default_of rets = Some (DV (VStr (return_text e))).
Proof.
  intros pre e r rets0 rets Ht [x [Hg Hx]] H. unfold ParseSig.interpolate_return in H.
  rewrite last_return_final in H.
  apply bind_Ok in H. destruct H as [rets1 [H1 H]].
  assert (D1 : default_of rets1 = Some (DV (VStr (return_text e)))).
  { destruct (negb (ParseSig.expr_ok e)); [discriminate|]. cbv zeta in H1.
    apply bind_Ok in H1. destruct H1 as [typ1 [_ H1]].
    apply bind_Ok in H1. destruct H1 as [dflt [Hd H1]]. injection H1 as <-. cbn [default_of g_default].
    f_equal.
    assert (Et : (match e with ETuple _ => true | _ => false end) = false) by (destruct e; try reflexivity; discriminate).
    rewrite Et in Hd. cbn [andb] in Hd. rewrite Hg in Hd. cbn [bind] in Hd.
    destruct x; try discriminate; injection Hd as <-; reflexivity. }
  destruct r as [r0|].
  - destruct (negb (ParseSig.expr_ok r0)); [discriminate|]. injection H as <-. cbn [default_of g_default].
    destruct rets1; try discriminate. exact D1.
  - injection H as <-. exact D1.
Qed.

Lemma return_val_of_str : forall pt q s e,
    g_default q = Some (DV (VStr (return_text s))) ->
    parse_expr_src pt (strip_chars [bt] (return_text s)) = Ok e ->
    return_val_of pt (Has q) = Ok (Some (SReturn (Some e))).
Proof.
  intros pt q s e Hd Hp. unfold return_val_of, function_return_val, returns_param. cbn [ir_returns fget].
  rewrite Hd. rewrite return_text_cons in Hp |- *. rewrite Hp. reflexivity.
Qed.

Lemma rt_function_final_return_class : forall pt d body r it ww,
    final_return_reparses pt (body_stmts body) = true ->
    finding_class_rt_function pt d body r it ww = None.
Proof.
  intros pt d body r it ww F. unfold final_return_reparses in F.
  destruct (rev (body_stmts body)) as [|s0 l] eqn:Er; [discriminate|].
  destruct s0 as [| | | | |[e|]|]; try discriminate.
  assert (Eb : body_stmts body = rev l ++ [SReturn (Some e)]).
  { rewrite <- (rev_involutive (body_stmts body)), Er. reflexivity. }
  assert (Ht : (match e with ETuple _ => false | _ => true end) = true) by (destruct e; try reflexivity; discriminate).
  assert (F' : match ParseSig.get_value_expr e with
               | Ok (ParseSig.GN (EConst _)) => false
               | Ok (ParseSig.GN _) =>
                 negb (in_none_types (VStr (return_text e)))
                 && match parse_expr_src pt (strip_chars [bt] (return_text e)) with
                    | Ok e' => expr_eqb e' e
                    | Err _ => false
                    end
               | _ => false
               end = true) by (destruct e; try exact F; discriminate).
  clear F. destruct (ParseSig.get_value_expr e) as [[v|x]|] eqn:Hg; try discriminate.
  assert (Hx : (match x with EConst _ => false | _ => true end) = true) by (destruct x; try reflexivity; discriminate).
  assert (F : negb (in_none_types (VStr (return_text e)))
              && match parse_expr_src pt (strip_chars [bt] (return_text e)) with
                 | Ok e' => expr_eqb e' e
                 | Err _ => false
                 end = true) by (destruct x; try exact F'; discriminate).
  clear F'. apply andb_true_iff in F. destruct F as [Hn Hp]. apply negb_true_iff in Hn.
  destruct (parse_expr_src pt (strip_chars [bt] (return_text e))) as [e'|] eqn:Ep; [|discriminate].
  pose proof Hp as Hrefl. apply expr_eqb_eq in Hp. subst e'.
  unfold finding_class_rt_function, rt_function_rv.
  destruct (rt_function_returns d body r it ww) as [rets|err] eqn:E; cbn [bind]; [|reflexivity].
  unfold rt_function_returns in E. apply bind_Ok in E. destruct E as [rets1 [Hir Hfin]].
  rewrite Eb in Hir.
  apply (interpolate_return_node _ _ _ _ _ Ht (ex_intro _ x (conj Hg Hx))) in Hir.
  destruct rets1 as [| |p]; try discriminate. cbn [default_of] in Hir.
  apply bind_Ok in Hfin. destruct Hfin as [y [Hy Hfin]]. injection Hfin as <-.
  apply (set_name_and_type_return_str _ _ _ _ _ Hir Hn) in Hy. rewrite unquote_return_text in Hy.
  rewrite (return_val_of_str _ _ _ _ Hy Ep).
  unfold finding_class_C16_function, ends_with. rewrite Eb, rev_app_distr. cbn [rev app stmt_eqb option_eqb is_return].
  rewrite Hrefl. reflexivity.
Qed.

Lemma rt_function_final_return_reparses_lemma :
  forall pi pj d n a body dc r it ww pft pfn pt efn eft inl kw tds n' a' body' d' r' i2,
    rt_function pi pj d (SFunc n a body dc r) it ww pft pfn pt efn eft inl kw tds
    = Ok (SFunc n' a' body' d' r', i2) ->
    same_target_function n a pft pfn efn eft = true ->
    final_return_reparses pt (body_stmts body) = true ->
    exists text, tds = Ok text /\ n' = n /\ body' = SExpr (set_value (VStr text)) :: body_stmts body.
Proof.
  intros pi pj d n a body dc r it ww pft pfn pt efn eft inl kw tds n' a' body' d' r' i2 H ST F.
  eapply rt_function_body_lemma; [exact H|].
  unfold guard_rt_function. rewrite ST, (rt_function_final_return_class _ _ _ _ _ _ F).
  unfold body_or_clean_doc. unfold final_return_reparses in F.
  destruct (body_stmts body); [discriminate | reflexivity].
Qed.

(* non-vacuity of that route: `return g(t)` under a table that knows `g(t)` *)
Definition wr_call : expr := ECall (EName (L "g")) [EName (L "t")] [].
Definition wr_pt : ptable := [(L "g(t)", Some wr_call)].

Lemma rt_function_nonvacuous_final_return :
  final_return_reparses wr_pt (body_stmts (wr_body [SReturn (Some wr_call)])) = true
  /\ exists b, fn_body_of (wr_run wr_pt [SReturn (Some wr_call)]) = Some b
               /\ body_stmts b = body_stmts (wr_body [SReturn (Some wr_call)]).
Proof. split; [vm_compute; reflexivity|]. eexists. split; vm_compute; reflexivity. Qed.

(* ================================================================== function: a final `return <name>` *)
Lemma interpolate_return_name : forall pre id r rets0 rets,
    ParseSig.interpolate_return (pre ++ [SReturn (Some (EName id))]) r rets0 = Ok rets ->
    default_of rets = Some (DV (VStr id)).
Proof.
  intros pre id r rets0 rets H. unfold ParseSig.interpolate_return in H.
  rewrite last_return_final in H.
  apply bind_Ok in H. destruct H as [rets1 [H1 H]].
  assert (D1 : default_of rets1 = Some (DV (VStr id))).
  { destruct (negb (ParseSig.expr_ok (EName id))); [discriminate|]. cbv zeta in H1.
    apply bind_Ok in H1. destruct H1 as [typ1 [_ H1]].
    apply bind_Ok in H1. destruct H1 as [dflt [Hd H1]]. injection H1 as <-. cbn [default_of g_default].
    f_equal. cbn [andb ParseSig.get_value_expr bind] in Hd. now injection Hd as <-. }
  destruct r as [r0|].
  - destruct (negb (ParseSig.expr_ok r0)); [discriminate|]. injection H as <-. cbn [default_of g_default].
    destruct rets1; try discriminate. exact D1.
  - injection H as <-. exact D1.
Qed.

Lemma return_val_of_cons : forall pt q c s e,
    g_default q = Some (DV (VStr (c :: s))) ->
    parse_expr_src pt (strip_chars [bt] (c :: s)) = Ok e ->
    return_val_of pt (Has q) = Ok (Some (SReturn (Some e))).
Proof.
  intros pt q c s e Hd Hp. unfold return_val_of, function_return_val, returns_param. cbn [ir_returns fget].
  rewrite Hd, Hp. reflexivity.
Qed.

Lemma rt_function_final_name_class : forall pt d body r it ww,
    final_return_name_reparses pt (body_stmts body) = true ->
    finding_class_rt_function pt d body r it ww = None.
Proof.
  intros pt d body r it ww F. unfold final_return_name_reparses in F.
  destruct (rev (body_stmts body)) as [|s0 l] eqn:Er; [discriminate|].
  destruct s0 as [| | | | |[e|]|]; try discriminate.
  destruct e as [|id| | | | | | | |]; try discriminate.
  assert (Eb : body_stmts body = rev l ++ [SReturn (Some (EName id))]).
  { rewrite <- (rev_involutive (body_stmts body)), Er. reflexivity. }
  apply andb_true_iff in F. destruct F as [Hn Hp]. apply negb_true_iff in Hn.
  destruct (unquote id) as [|c t] eqn:Eu; [discriminate|].
  destruct (parse_expr_src pt (strip_chars [bt] (c :: t))) as [e'|] eqn:Ep; [|discriminate].
  pose proof Hp as Hrefl. apply expr_eqb_eq in Hp. subst e'.
  unfold finding_class_rt_function, rt_function_rv.
  destruct (rt_function_returns d body r it ww) as [rets|err] eqn:E; cbn [bind]; [|reflexivity].
  unfold rt_function_returns in E. apply bind_Ok in E. destruct E as [rets1 [Hir Hfin]].
  rewrite Eb in Hir. apply interpolate_return_name in Hir.
  destruct rets1 as [| |p]; try discriminate. cbn [default_of] in Hir.
  apply bind_Ok in Hfin. destruct Hfin as [y [Hy Hfin]]. injection Hfin as <-.
  apply (set_name_and_type_return_str _ _ _ _ _ Hir Hn) in Hy. rewrite Eu in Hy.
  rewrite (return_val_of_cons _ _ _ _ _ Hy Ep).
  unfold finding_class_C16_function, ends_with. rewrite Eb, rev_app_distr. cbn [rev app stmt_eqb option_eqb is_return].
  rewrite Hrefl. reflexivity.
Qed.

Lemma rt_function_final_name_lemma :
  forall pi pj d n a body dc r it ww pft pfn pt efn eft inl kw tds n' a' body' d' r' i2,
    rt_function pi pj d (SFunc n a body dc r) it ww pft pfn pt efn eft inl kw tds
    = Ok (SFunc n' a' body' d' r', i2) ->
    same_target_function n a pft pfn efn eft = true ->
    final_return_name_reparses pt (body_stmts body) = true ->
    exists text, tds = Ok text /\ n' = n /\ body' = SExpr (set_value (VStr text)) :: body_stmts body.
Proof.
  intros pi pj d n a body dc r it ww pft pfn pt efn eft inl kw tds n' a' body' d' r' i2 H ST F.
  eapply rt_function_body_lemma; [exact H|].
  unfold guard_rt_function. rewrite ST, (rt_function_final_name_class _ _ _ _ _ _ F).
  unfold body_or_clean_doc. unfold final_return_name_reparses in F.
  destruct (body_stmts body); [discriminate | reflexivity].
Qed.

(* the non-vacuity example of rt_function_nonvacuous_lemma ends in `return t`: it is inside this condition,
   with the empty table (the model parses a plain name itself) *)
Lemma rt_function_nonvacuous_final_name :
  final_return_name_reparses [] (body_stmts (wr_body [SReturn (Some (EName (L "t")))])) = true.
Proof. vm_compute. reflexivity. Qed.

(* ================================================================== the two by-design side conditions are needed *)
(* asked for another name, the emitter does not re-attach the body (get_internal_body): only the generated
   return is left; and a body-less function under a docstring IR that carries an `_internal` of the same name
   and kind (never produced by parse.docstring, but a legal input of the model) receives that body *)
Definition wr_doc_internal : ir :=
  mkIR Missing Missing (Has (L "doc")) [] FNone
       (Some (mkInternal [SExpr (EName (L "x"))] (Has (L "f")) (Has (L "static")))).

Lemma rt_function_side_conditions_needed :
  (same_target_function (L "f") wr_args None None (Some (L "h")) None = false
   /\ exists b, fn_body_of (rt_function idp idp (Some wr_doc) (wr_fn [SReturn (Some (EName (L "t")))]) false true
                                         None None [] (Some (L "h")) None false false (Ok (L "DOC"))) = Some b
                /\ body_stmts b = [SReturn (Some (EName (L "t")))])
  /\ (body_or_clean_doc (Some wr_doc_internal) [SExpr (EConst (VStr (L "doc")))] = false
      /\ exists b, fn_body_of (rt_function idp idp (Some wr_doc_internal)
                                           (SFunc (L "f") no_arguments [SExpr (EConst (VStr (L "doc")))] [] None)
                                           false true None None [] None None false false (Ok (L "DOC"))) = Some b
                   /\ body_stmts b = [SExpr (EName (L "x"))]).
Proof.
  split; (split; [vm_compute; reflexivity|]); eexists; split; vm_compute; reflexivity.
Qed.

(* ================================================================== class: inside guard_rt_class *)
(* nothing to carry: the emitted class body is the docstring, one annotated assignment per attribute, and no
   other statement - except the __call__ emit.class_ makes from the return entry when emit_call is set and the
   class has attributes and a return_type *)
Lemma class_attrs_assignments : forall pt (l : list (str * gparam)) attrs,
    map_outcome (fun kv => do r <- param2ast pt (fst kv) (snd kv); Ok (fst r)) l = Ok attrs ->
    Forall (fun s => ParseAst.is_assignment s = true) attrs.
Proof.
  intros pt l attrs H. apply map_outcome_Forall2 in H.
  induction H as [|kv y l' ys Hy Hr IH]; constructor; [|exact IH].
  apply bind_Ok in Hy. destruct Hy as [[s g'] [Hp Hy]]. injection Hy as <-.
  apply C06Facts.param2ast_shape in Hp. destruct Hp as [a [v Hs]]. cbn [fst]. subst s. reflexivity.
Qed.

Lemma class_extras_attrs : forall attrs, Forall (fun s => ParseAst.is_assignment s = true) attrs -> class_extras attrs = [].
Proof.
  intros attrs H. unfold class_extras. induction H as [|x r Hx Hr IH]; cbn; [reflexivity|]. rewrite Hx. exact IH.
Qed.

Lemma class_extras_app : forall a b, class_extras (a ++ b) = class_extras a ++ class_extras b.
Proof. intros a b. unfold class_extras. apply filter_app. Qed.

(* the only non-attribute statement emit.class_ can add on its own: the __call__ made from the return entry *)
Definition generated_call (pt : ptable) (i : ir) (emit_call ww : bool) (meth : list stmt) : Prop :=
  meth = []
  \/ (emit_call = true /\ ir_params i <> []
      /\ exists p m, ir_returns i = Has p
                     /\ call_meth_of_dict pt (od_keys (ir_params i)) ww p = Ok m /\ meth = [m]).

Lemma emit_class_nothing_to_carry : forall pt i ec cn bases decos ww tds n' bs' body' dc' i2,
    emit_class pt i ec cn bases decos ww tds = Ok (SClass n' bs' body' dc', i2) ->
    (match ir_internal i with Some it0 => in_body it0 | None => [] end) = [] ->
    exists text attrs meth,
      tds = Ok text
      /\ body' = SExpr (set_value (VStr (class_docstring text))) :: attrs ++ meth
      /\ Forall (fun s => ParseAst.is_assignment s = true) attrs
      /\ generated_call pt i ec ww meth.
Proof.
  intros pt i ec cn bases decos ww tds n' bs' body' dc' i2 H Hb. unfold emit_class in H. rewrite Hb in H.
  apply bind_Ok in H. destruct H as [ib [Hib H]].
  apply bind_Ok in H. destruct H as [text [Htds H]].
  apply bind_Ok in H. destruct H as [meth [Hm H]].
  apply bind_Ok in H. destruct H as [attrs [Ha H]].
  injection H as _ _ Hbody _ _. subst body'.
  exists text, attrs, meth. split; [exact Htds|]. split; [reflexivity|].
  split; [eapply class_attrs_assignments; exact Ha|].
  unfold generated_call. destruct ec; [|injection Hm as <-; now left].
  destruct (ir_params i) as [|[k0 g0] ps] eqn:Ep.
  - cbn [od_keys map] in Hib. injection Hib as <-. injection Hm as <-. now left.
  - cbn [od_keys map fst] in Hib.
    destruct (ir_returns i) as [| |p] eqn:Er; injection Hib as <-; try (injection Hm as <-; now left).
    unfold class_fold_returns in Hm. rewrite Er in Hm. cbn [ir_params] in Hm.
    rewrite MergeFacts.od_get_set_same in Hm.
    destruct (gparam_nonempty p); [|injection Hm as <-; now left].
    apply bind_Ok in Hm. destruct Hm as [m [Hcm Hm]]. injection Hm as <-.
    right. split; [reflexivity|]. split; [discriminate|]. exists p, m.
    split; [reflexivity|]. split; [exact Hcm | reflexivity].
Qed.

Lemma generated_call_extras : forall pt i ec ww meth, generated_call pt i ec ww meth -> class_extras meth = meth.
Proof.
  intros pt i ec ww meth [->|(_ & _ & p & m & _ & Hcm & ->)]; [reflexivity|].
  unfold call_meth_of_dict in Hcm.
  apply bind_Ok in Hcm. destruct Hcm as [ds [_ Hcm]]. apply bind_Ok in Hcm. destruct Hcm as [ret [_ Hcm]].
  injection Hcm as <-. reflexivity.
Qed.

Lemma rt_class_partial_lemma :
  forall di nm bs cbody dc pn it pww pt ec cn bases decos ww tds n' bs' body' dc' i2,
    rt_class di (ParseAst.CStmt (SClass nm bs cbody dc)) pn it pww pt ec cn bases decos ww tds
    = Ok (SClass n' bs' body' dc', i2) ->
    guard_rt_class (SClass nm bs cbody dc) ec = true ->
    exists i text attrs meth,
      ParseAst.parse_class di (ParseAst.CStmt (SClass nm bs cbody dc)) pn it pww = Ok i
      /\ tds = Ok text
      /\ body' = SExpr (set_value (VStr (class_docstring text))) :: attrs ++ meth
      /\ Forall (fun s => ParseAst.is_assignment s = true) attrs
      /\ generated_call pt i ec ww meth
      /\ class_extras (body_stmts body') = class_extras (body_stmts cbody) ++ meth.
Proof.
  intros di nm bs cbody dc pn it pww pt ec cn bases decos ww tds n' bs' body' dc' i2 H G.
  unfold guard_rt_class, finding_class_rt_class in G.
  destruct (class_extras (body_stmts cbody)) as [|s0 rest] eqn:Ee; [|discriminate]. clear G.
  unfold rt_class in H. apply bind_Ok in H. destruct H as [i [Hp He]].
  pose proof (parse_class_internal _ _ _ _ _ _ _ _ _ Hp) as Hint. rewrite Ee in Hint.
  assert (Hb : match ir_internal i with Some it0 => in_body it0 | None => [] end = []) by now rewrite Hint.
  destruct (emit_class_nothing_to_carry _ _ _ _ _ _ _ _ _ _ _ _ _ He Hb) as (text & attrs & meth & Htds & Hbody & Hattrs & Hgen).
  exists i, text, attrs, meth. repeat (split; [assumption|]).
  subst body'. rewrite body_stmts_docstring, class_extras_app, (class_extras_attrs _ Hattrs).
  cbn [app]. eapply generated_call_extras; eauto.
Qed.

Lemma rt_class_partial_no_call_lemma :
  forall di nm bs cbody dc pn it pww pt cn bases decos ww tds n' bs' body' dc' i2,
    rt_class di (ParseAst.CStmt (SClass nm bs cbody dc)) pn it pww pt false cn bases decos ww tds
    = Ok (SClass n' bs' body' dc', i2) ->
    guard_rt_class (SClass nm bs cbody dc) false = true ->
    class_extras (body_stmts body') = class_extras (body_stmts cbody).
Proof.
  intros di nm bs cbody dc pn it pww pt cn bases decos ww tds n' bs' body' dc' i2 H G.
  destruct (rt_class_partial_lemma _ _ _ _ _ _ _ _ _ _ _ _ _ _ _ _ _ _ _ _ H G)
    as (i & text & attrs & meth & _ & _ & _ & _ & Hgen & Hex).
  rewrite Hex. destruct Hgen as [->|(Hec & _)]; [apply app_nil_r | discriminate].
Qed.

(* ---- class witnesses ---- *)
Lemma rt_class_witness_class : forall ec, finding_class_rt_class wc_class ec = Some rt_class_class_name.
Proof. intros ec. reflexivity. Qed.

(* a class whose only method is __call__: the method is nested inside the generated __call__ all the same *)
Definition wc_call : stmt :=
  SFunc (L "__call__") (mkArguments [mkArg (L "self") None] [] [] [] None None)
        [SReturn (Some (EAttr (EName (L "self")) (L "a")))] [] None.
Definition wc_attr : stmt := SAnnAssign (EName (L "a")) (EName (L "int")) (Some (EConst (VInt 1))).
Definition wc_call_class : stmt := SClass (L "C") [] [SExpr (EConst (VStr (L "doc"))); wc_attr; wc_call] [].

Definition wc_run_of (cls : stmt) (emit_call : bool) : outcome (stmt * ir) :=
  rt_class (Some (Ok wc_doc)) (ParseAst.CStmt cls) None false true [] emit_call (L "C") [] [] false (Ok (L "DOC")).

Lemma rt_class_call_only_witness :
  finding_class_rt_class wc_call_class true = Some rt_class_class_name
  /\ exists doc attr, class_body_of (wc_run_of wc_call_class true) = Some [doc; attr; call_meth [wc_call]].
Proof. split; [reflexivity|]. eexists; eexists; vm_compute; reflexivity. Qed.

(* non-vacuity of the guard: attributes only; and with a return_type attribute, where emit_call adds the
   generated __call__ (the second case of generated_call is inhabited) *)
Definition wc_attrs_class : stmt := SClass (L "C") [] [SExpr (EConst (VStr (L "doc"))); wc_attr] [].
Definition wc_ret_class : stmt :=
  SClass (L "C") [] [SExpr (EConst (VStr (L "doc"))); wc_attr;
                     SAnnAssign (EName (L "return_type")) (EName (L "int")) (Some (EConst (VInt 5)))] [].

Lemma rt_class_nonvacuous_lemma :
  guard_rt_class wc_attrs_class true = true /\ guard_rt_class wc_ret_class true = true
  /\ (exists doc, class_body_of (wc_run_of wc_attrs_class true) = Some [doc; wc_attr])
  /\ (exists doc ret, class_body_of (wc_run_of wc_ret_class true)
                      = Some [doc; wc_attr; ret; call_meth [SReturn (Some (EConst (VInt 5)))]])
  /\ (exists doc ret, class_body_of (wc_run_of wc_ret_class false) = Some [doc; wc_attr; ret]).
Proof.
  split; [reflexivity|]. split; [reflexivity|].
  split; [eexists; vm_compute; reflexivity|].
  split; eexists; eexists; vm_compute; reflexivity.
Qed.
