(* C01RestLink: the specification printer DocParse.rest_text_of agrees with the model of the emitter
   (DocEmit.emit_docstring, style rest, word_wrap off, default sentences on), so the ReST part of C01
   holds of the text DocEmit produces.  Proofs only. *)
From Coq Require Import List Ascii Bool Arith ZArith Lia.
From Coq Require String.
Import String.StringSyntax.
From DT Require Import PyStr Sexp PyVal TyExpr PureUtils Defaults PyAst IR Extracted C17Spec.
From DT Require Import DocEmit DocParse C01Spec.
From DT Require Import PyStrFacts DefaultsFacts DocParseFacts.
Import ListNotations.

(* two facts about the emitter model, proved here so that this file depends on the emitter's model only *)
Lemma link_mapM_id : forall w ls, mapM (fill_or_id false w) ls = Ok ls.
Proof.
  intros w ls. induction ls as [|x r IH]; [reflexivity|].
  cbn [mapM fill_or_id bind]. rewrite IH. reflexivity.
Qed.

Lemma link_set_default_doc_typ : forall name p edd p',
    set_default_doc name p edd = Ok p' -> p_typ p' = p_typ p.
Proof.
  intros name p edd p' H. unfold set_default_doc in H.
  destruct (p_doc p) as [| |doc]; [injection H as H; subst; reflexivity|discriminate|].
  destruct ((contains (L "Defaults") doc || contains (L "defaults") doc) && negb edd).
  - destruct (extract_default doc true default_announces None false) as [r|e]; [|discriminate].
    cbn [bind] in H. injection H as H. subst. reflexivity.
  - destruct (p_default p) as [dflt|]; [|injection H as H; subst; reflexivity].
    destruct (negb (contains (L "Defaults") doc || contains (L "defaults") doc) && edd);
      [|injection H as H; subst; reflexivity].
    match type of H with context [if ?c then _ else _] => destruct c end;
      [|injection H as H; subst; reflexivity].
    destruct (last_c doc); [|discriminate].
    match type of H with context [shown_default ?a ?b] => destruct (shown_default a b) as [sv|e] end;
      [|discriminate].
    cbn [bind] in H. injection H as H. subst. reflexivity.
Qed.

(* one entry: the text of the printer is the text of emit_param_str *)
Lemma link_param : forall w name g p t,
    param_of_gparam g = Some p -> rest_param_text name g = Ok t ->
    exists p', emit_param_str w name p DocEmit.Rest true true false true = Ok (t, p').
Proof.
  intros w name g p t Hp Ht.
  assert (Hfields : p_doc p = g_doc g /\ p_typ p = g_typ g).
  { unfold param_of_gparam in Hp. destruct (g_default g) as [[v|e|r]|]; try discriminate;
      injection Hp as Hp; subst p; split; reflexivity. }
  destruct Hfields as [Edoc Etyp].
  unfold rest_param_text, rest_param_lines in Ht. cbv zeta in Ht.
  unfold emit_param_str, rest_raw_lines.
  assert (Etl : forall q, p_typ q = g_typ g ->
             match DocEmit.truthy_fld (p_typ q) with
             | Some t0 => Some (rest_typ_line name t0)
             | None => None
             end
             = match g_typ g with
               | Has (c :: t0) =>
                 Some (L ":" ++ (if str_eqb name (L "return_type") then L "rtype" else L "type " ++ name)
                         ++ L ": ```" ++ (c :: t0) ++ L "```")
               | _ => None
               end).
  { intros q Eq. rewrite Eq. destruct (g_typ g) as [| |[|c t0]]; reflexivity. }
  destruct (g_doc g) as [| |[|c r]] eqn:Egd.
  - (* no doc key *)
    rewrite Edoc. cbn [DocParse.truthy_fld DocEmit.truthy_fld bind] in *. cbn [fst snd].
    rewrite (Etl p Etyp). rewrite link_mapM_id. cbn [bind fst snd].
    eexists. f_equal. f_equal.
    destruct (g_typ g) as [| |[|ct t0]]; cbn [bind app cat_options] in *; injection Ht as Ht; subst t; reflexivity.
  - rewrite Edoc. cbn [DocParse.truthy_fld DocEmit.truthy_fld bind] in *. cbn [fst snd].
    rewrite (Etl p Etyp). rewrite link_mapM_id. cbn [bind fst snd].
    eexists. f_equal. f_equal.
    destruct (g_typ g) as [| |[|ct t0]]; cbn [bind app cat_options] in *; injection Ht as Ht; subst t; reflexivity.
  - rewrite Edoc. cbn [DocParse.truthy_fld DocEmit.truthy_fld bind] in *. cbn [fst snd].
    rewrite (Etl p Etyp). rewrite link_mapM_id. cbn [bind fst snd].
    eexists. f_equal. f_equal.
    destruct (g_typ g) as [| |[|ct t0]]; cbn [bind app cat_options] in *; injection Ht as Ht; subst t; reflexivity.
  - (* prose present: set_default_doc writes the sentence *)
    rewrite Edoc. cbn [DocParse.truthy_fld DocEmit.truthy_fld] in *. rewrite Hp in Ht.
    unfold sdd_doc.
    destruct (set_default_doc name p true) as [p'|e] eqn:Es; [|discriminate]. cbn [bind] in *.
    destruct (p_doc p') as [| |d] eqn:Ed; try discriminate. cbn [bind fst snd] in *.
    pose proof (link_set_default_doc_typ name p true p' Es) as Etp.
    rewrite (Etl p' (eq_trans Etp Etyp)). rewrite link_mapM_id. cbn [bind fst snd].
    eexists. f_equal. f_equal.
    destruct (g_typ g) as [| |[|ct t0]]; cbn [bind app cat_options] in *; injection Ht as Ht; subst t; reflexivity.
Qed.

Lemma link_items : forall w gps ps txts,
    params_of gps = Some ps ->
    map_outcome (fun kv => rest_param_text (fst kv) (snd kv)) gps = Ok txts ->
    exists ps', emit_items (fun k p => emit_param_str w k p DocEmit.Rest true true false true) ps = Ok (txts, ps').
Proof.
  intros w gps. induction gps as [|[k g] gps IH]; intros ps txts Hps Ht.
  - injection Hps as Hps. subst ps. injection Ht as Ht. subst txts. eexists. reflexivity.
  - cbn [params_of] in Hps. destruct (param_of_gparam g) as [p|] eqn:Ep; [|discriminate].
    destruct (params_of gps) as [ps0|] eqn:Eps; [|discriminate]. injection Hps as Hps. subst ps.
    cbn [map_outcome fst snd] in Ht.
    destruct (rest_param_text k g) as [t|e] eqn:Et; [|discriminate]. cbn [bind] in Ht.
    destruct (map_outcome (fun kv => rest_param_text (fst kv) (snd kv)) gps) as [ts|e] eqn:Ets; [|discriminate].
    cbn [bind] in Ht. injection Ht as Ht. subst txts.
    destruct (link_param w k g p t Ep Et) as [p' Hp'].
    destruct (IH ps0 ts eq_refl eq_refl) as [ps' Hps'].
    cbn [emit_items]. rewrite Hp'. cbn [bind]. rewrite Hps'. cbn [bind fst snd]. eexists. reflexivity.
Qed.

(* all defaults are scalars (None, bool, int, float, str): what both models of the emitter cover *)
Definition scalar_defaults (i : ir) : Prop :=
  params_of (ir_params i) <> None
  /\ match ir_returns i with Has g => param_of_gparam g <> None | _ => True end.

(* the printer the parser-side theorems are stated against is the emitter model *)
Theorem rest_text_of_emit_docstring : forall w i text,
    scalar_defaults i -> rest_text_of i = Ok text ->
    exists i', emit_docstring w DocEmit.Rest false true i = Ok (text, i').
Proof.
  intros w i text [Hps Hret] Ht. unfold rest_text_of in Ht. unfold emit_docstring.
  destruct (params_of (ir_params i)) as [ps|] eqn:Eps; [|contradiction]. clear Hps.
  assert (Hdoc : exists doc, (match ir_doc i with
                              | Has d => Ok d | FNone => Ok (L "None") | Missing => Err KeyError end) = Ok doc
                             /\ (match ir_doc i with
                                 | Missing => Err KeyError
                                 | FNone => Ok (L "None")
                                 | Has d => fill_or_id false w d end) = Ok doc).
  { revert Ht. destruct (ir_doc i) as [| |d]; intros Ht.
    - discriminate Ht.
    - eexists. split; reflexivity.
    - eexists. split; reflexivity. }
  destruct Hdoc as [doc [Hd1 Hd2]]. rewrite Hd1 in Ht. cbn [bind] in Ht.
  change (if false then Err AttributeError else Ok (L "None")) with (Ok (L "None") : outcome str).
  rewrite Hd2. cbn [bind].
  destruct (map_outcome (fun kv => rest_param_text (fst kv) (snd kv)) (ir_params i)) as [txts|e] eqn:Etx;
    [|discriminate]. cbn [bind] in Ht.
  destruct (link_items w (ir_params i) ps txts Eps Etx) as [ps' Hps']. rewrite Hps'. cbn [bind fst snd].
  assert (Epl : match txts with [] => txts | _ :: _ => txts end = txts) by (destruct txts; reflexivity).
  rewrite Epl.
  destruct (ir_returns i) as [| |g] eqn:Er.
  - cbn [bind] in *. injection Ht as Ht. subst text. eexists. apply f_equal. apply (f_equal2 pair); [|reflexivity].
    cbn [app]. rewrite ?app_nil_r. reflexivity.
  - cbn [bind] in *. injection Ht as Ht. subst text. eexists. apply f_equal. apply (f_equal2 pair); [|reflexivity].
    cbn [app]. rewrite ?app_nil_r. reflexivity.
  - destruct (param_of_gparam g) as [p|] eqn:Ep; [|contradiction].
    destruct (rest_param_text (L "return_type") g) as [t|e] eqn:Et; [|discriminate]. cbn [bind] in Ht.
    destruct (link_param w (L "return_type") g p t Ep Et) as [p' Hp']. rewrite Hp'. cbn [bind fst snd].
    injection Ht as Ht. subst text. eexists. apply f_equal. apply (f_equal2 pair); [|reflexivity].
    cbn [app]. rewrite ?app_nil_r. reflexivity.
Qed.

Lemma in_domain_scalar_defaults : forall i, in_domain_C01 i = true -> scalar_defaults i.
Proof.
  intros i H. unfold in_domain_C01 in H.
  apply andb_true_iff in H. destruct H as [H Hret].
  apply andb_true_iff in H. destruct H as [H _].
  apply andb_true_iff in H. destruct H as [_ Hps].
  assert (Hentry : forall g, entry_in_domain g = true -> param_of_gparam g <> None).
  { intros g Hg. unfold entry_in_domain in Hg. apply andb_true_iff in Hg. destruct Hg as [_ Hg].
    unfold param_of_gparam. destruct (g_default g) as [[v|e|r]|]; try discriminate. }
  split.
  - induction (ir_params i) as [|[k g] l IH]; [discriminate|].
    cbn [forallb fst snd] in Hps. apply andb_true_iff in Hps. destruct Hps as [Hk Hl].
    apply andb_true_iff in Hk. destruct Hk as [_ Hg].
    cbn [params_of]. destruct (param_of_gparam g) eqn:Ep; [|exfalso; exact (Hentry g Hg Ep)].
    destruct (params_of l) eqn:El; [discriminate|]. exfalso. apply (IH Hl). reflexivity.
  - destruct (ir_returns i) as [| |g]; [exact I|exact I|]. apply Hentry. exact Hret.
Qed.

(* under the guard the text of the emitter model is the printer's text ... *)
Theorem guard_emit_docstring_text : forall w edd i,
    guard_C01_rest edd i = true ->
    exists text i0, rest_text_of i = Ok text
                    /\ emit_docstring w DocEmit.Rest false true i = Ok (text, i0).
Proof.
  intros w edd i Hg. destruct (C01_rest_partial_lemma edd i Hg) as [text [i' [H1 _]]].
  unfold guard_C01_rest in Hg. apply andb_true_iff in Hg. destruct Hg as [Hdom _].
  destruct (rest_text_of_emit_docstring w i text (in_domain_scalar_defaults i Hdom) H1) as [i0 Hi0].
  exists text, i0. split; assumption.
Qed.

(* ... so: emit with DocEmit (rest, word_wrap off, default sentences on), recognise the style, parse with
   parse.docstring(text, emit_default_doc=edd): the same interface comes back.  Unbounded in the number of
   parameters; any wrapping width w (it is not used when word_wrap is off). *)
Theorem C01_rest_partial_emit_lemma : forall w edd i,
    guard_C01_rest edd i = true ->
    exists text i0 i',
      emit_docstring w DocEmit.Rest false true i = Ok (text, i0)
      /\ detect_style (Some text) = DocParse.Rest
      /\ parse_dot_docstring ng_unmodelled text false true edd = Ok i'
      /\ same_interface edd i i' = true.
Proof.
  intros w edd i Hg. destruct (C01_rest_partial_lemma edd i Hg) as [text [i' [H1 [H2 [H3 H4]]]]].
  pose proof Hg as Hg'. unfold guard_C01_rest in Hg'. apply andb_true_iff in Hg'. destruct Hg' as [Hdom _].
  destruct (rest_text_of_emit_docstring w i text (in_domain_scalar_defaults i Hdom) H1) as [i0 Hi0].
  exists text, i0, i'. repeat split; assumption.
Qed.
