(* Facts about the refined C07 classifier (model/C07Spec2.v): the refinement keeps the old classes where the old
   classifiers speak and only adds the three attribute classes; each new class names one clause and one shape; the
   witnesses (replayed on /repo by the oracle: findings/C07-class-*.json) are classified, their neighbours are not;
   the model of the class body (ParseAst.parse_class) reproduces every witness. *)
From Coq Require Import List Ascii Bool Arith ZArith.
From Coq Require String.
Import String.StringSyntax.
From DT Require Import PyStr PyStrFacts Sexp PyVal TyExpr PureUtils Defaults PyAst IR Merge C07Spec ParseAst C07Spec2.
Import ListNotations.

(* ------------------------------------------------------------------ the refinement only adds *)
Lemma new_class_C07_new : forall a c,
    new_class_C07 a = Some c ->
    c = K7r_tuple_target_raises \/ c = K7r_doc_order_reorders \/ c = K7r_ann_value_as_text.
Proof.
  intros a c H. unfold new_class_C07 in H.
  destruct (tuple_target_raises a); [injection H as H; left; symmetry; exact H|].
  destruct (doc_order_reorders a); [injection H as H; right; left; symmetry; exact H|].
  destruct (ann_value_as_text a); [injection H as H; right; right; symmetry; exact H|discriminate H].
Qed.

Lemma finding_class_C07_r_adds : forall p c,
    finding_class_C07_r p = Some c ->
    (exists k, finding_class_C07_old p = Some k /\ c = K7r_old k)
    \/ (finding_class_C07_old p = None
        /\ exists a, p = PtClassAttrs a
                     /\ (c = K7r_tuple_target_raises \/ c = K7r_doc_order_reorders \/ c = K7r_ann_value_as_text)).
Proof.
  intros p c H. unfold finding_class_C07_r in H.
  destruct (finding_class_C07_old p) as [k|] eqn:E.
  - left. exists k. injection H as H. split; [reflexivity|symmetry; exact H].
  - right. split; [reflexivity|]. destruct p as [d fd|t d fd|a]; try discriminate H.
    exists a. split; [reflexivity|]. apply new_class_C07_new with (a := a). exact H.
Qed.

Lemma finding_class_C07_r_old : forall p k,
    finding_class_C07_old p = Some k -> finding_class_C07_r p = Some (K7r_old k).
Proof. intros p k H. unfold finding_class_C07_r. rewrite H. reflexivity. Qed.

(* the name of a kept class is the old name: KNOWN_FINDINGS lines of the old classes stay valid *)
Lemma c07_class_r_name_old : forall k, c07_class_r_name (K7r_old k) = c07_class_name k.
Proof. reflexivity. Qed.

(* on the points the old classifiers speak of nothing changes *)
Lemma finding_class_C07_r_function : forall d fd,
    finding_class_C07_r (PtFunction d fd) = option_map K7r_old (finding_class_C07 d fd).
Proof. intros d fd. unfold finding_class_C07_r. cbn [finding_class_C07_old]. destruct (finding_class_C07 d fd); reflexivity. Qed.

Lemma finding_class_C07_r_merge : forall t d fd,
    finding_class_C07_r (PtClassMerge t d fd) = option_map K7r_old (finding_class_C07_class t d fd).
Proof.
  intros t d fd. unfold finding_class_C07_r. cbn [finding_class_C07_old].
  destruct (finding_class_C07_class t d fd); reflexivity.
Qed.

(* the old classifiers are not applicable on attribute points *)
Lemma finding_class_C07_old_attrs : forall a, finding_class_C07_old (PtClassAttrs a) = None.
Proof. reflexivity. Qed.

(* ------------------------------------------------------------------ each new class: one clause, one shape *)
Lemma doc_order_class_shape : forall a,
    finding_class_C07_r (PtClassAttrs a) = Some K7r_doc_order_reorders ->
    af_clause a = L "order"
    /\ strs_eqb (af_got a) (docstring_first (documented_names (af_doc a)) (af_order a)) = true
    /\ strs_eqb (af_got a) (af_order a) = false.
Proof.
  intros a H. unfold finding_class_C07_r in H. cbn [finding_class_C07_old] in H. unfold new_class_C07 in H.
  destruct (tuple_target_raises a); [discriminate H|].
  destruct (doc_order_reorders a) eqn:E.
  - unfold doc_order_reorders in E. apply andb_true_iff in E. destruct E as [E Hne].
    apply andb_true_iff in E. destruct E as [Hc Hg]. apply str_eqb_eq in Hc.
    apply negb_true_iff in Hne. repeat split; assumption.
  - destruct (ann_value_as_text a); discriminate H.
Qed.

Lemma ann_value_class_shape : forall a,
    finding_class_C07_r (PtClassAttrs a) = Some K7r_ann_value_as_text ->
    af_clause a = L "value"
    /\ exists id r v s mi,
        af_entry a = Some id /\ af_result a = Some r
        /\ last_binding id (class_body (af_node a)) None = Some (BAnn (Some v))
        /\ ann_text_value v = Some s
        /\ model_parse a (af_node a) = Ok mi
        /\ is_str_dval (default_of id r) = true
        /\ opt_dval_eqb (default_of id r) (default_of id mi) = true.
Proof.
  intros a H. unfold finding_class_C07_r in H. cbn [finding_class_C07_old] in H. unfold new_class_C07 in H.
  destruct (tuple_target_raises a); [discriminate H|].
  destruct (doc_order_reorders a); [discriminate H|].
  destruct (ann_value_as_text a) eqn:E; [|discriminate H].
  unfold ann_value_as_text in E. apply andb_true_iff in E. destruct E as [Hc E]. apply str_eqb_eq in Hc.
  split; [exact Hc|].
  destruct (af_entry a) as [id|]; [|discriminate E].
  destruct (af_result a) as [r|]; [|discriminate E].
  destruct (last_binding id (class_body (af_node a)) None) as [[[v|]|]|] eqn:Eb; try discriminate E.
  destruct (ann_text_value v) as [s|] eqn:Ev; [|discriminate E].
  destruct (model_parse a (af_node a)) as [mi|e] eqn:Em; [|discriminate E].
  apply andb_true_iff in E. destruct E as [Hs He].
  exists id, r, v, s, mi. repeat split; try reflexivity; assumption.
Qed.

Lemma tuple_target_class_shape : forall a,
    finding_class_C07_r (PtClassAttrs a) = Some K7r_tuple_target_raises ->
    af_clause a = L "raises" /\ af_exn a = Some (L "AttributeError")
    /\ exists pre s, split_at_seq_assign (class_body (af_node a)) [] = Some (pre, s)
                     /\ is_ok (model_parse a (with_body (af_node a) pre)) = true
                     /\ model_parse a (with_body (af_node a) (pre ++ [s])) = Err AttributeError
                     /\ model_parse a (af_node a) = Err AttributeError.
Proof.
  intros a H. unfold finding_class_C07_r in H. cbn [finding_class_C07_old] in H. unfold new_class_C07 in H.
  destruct (tuple_target_raises a) eqn:E.
  - unfold tuple_target_raises in E. apply andb_true_iff in E. destruct E as [E Hs].
    apply andb_true_iff in E. destruct E as [Hc Hx]. apply str_eqb_eq in Hc.
    split; [exact Hc|].
    destruct (af_exn a) as [k|]; [|discriminate Hx]. apply str_eqb_eq in Hx. subst k.
    split; [reflexivity|].
    destruct (split_at_seq_assign (class_body (af_node a)) []) as [[pre s]|]; [|discriminate Hs].
    apply andb_true_iff in Hs. destruct Hs as [Hs H3]. apply andb_true_iff in Hs. destruct Hs as [H1 H2].
    exists pre, s. split; [reflexivity|]. split; [exact H1|].
    unfold is_err_attribute in H2, H3.
    destruct (model_parse a (with_body (af_node a) (pre ++ [s]))) as [x|[]]; try discriminate H2.
    destruct (model_parse a (af_node a)) as [y|[]]; try discriminate H3.
    split; reflexivity.
  - destruct (doc_order_reorders a); [discriminate H|]. destruct (ann_value_as_text a); discriminate H.
Qed.

(* the statement split_at_seq_assign returns is an assignment whose first target that is no Name is a tuple / list *)
Lemma split_at_seq_assign_spec : forall body acc pre s,
    split_at_seq_assign body acc = Some (pre, s) ->
    is_seq_assign s = true /\ exists done, pre = rev acc ++ done /\ forallb (fun x => negb (is_seq_assign x)) done = true.
Proof.
  induction body as [|x r IH]; intros acc pre s H; cbn [split_at_seq_assign] in H; [discriminate H|].
  destruct (is_seq_assign x) eqn:E.
  - injection H as Hp Hs. subst s pre. split; [exact E|]. exists []. split; [rewrite app_nil_r; reflexivity|reflexivity].
  - apply IH in H. destruct H as [Hs [done [Hp Hd]]]. split; [exact Hs|].
    exists (x :: done). split.
    + rewrite Hp. cbn [rev]. rewrite <- app_assoc. reflexivity.
    + cbn [forallb]. rewrite E. exact Hd.
Qed.

(* a clause the new classes do not name is never classified on an attribute point *)
Lemma other_clause_unclassified : forall a,
    str_eqb (af_clause a) (L "order") = false -> str_eqb (af_clause a) (L "value") = false ->
    str_eqb (af_clause a) (L "raises") = false ->
    finding_class_C07_r (PtClassAttrs a) = None.
Proof.
  intros a H1 H2 H3. unfold finding_class_C07_r. cbn [finding_class_C07_old]. unfold new_class_C07.
  unfold tuple_target_raises, doc_order_reorders, ann_value_as_text. rewrite H1, H2, H3. reflexivity.
Qed.

(* ------------------------------------------------------------------ witnesses *)
Definition nm (s : String.string) : expr := EName (L s).
Arguments nm s%string_scope.
Definition cint (z : Z) : expr := EConst (VInt z).
Definition cls (body : list stmt) : stmt := SClass (L "C") [nm "object"] body [].
Definition docstmt : stmt := SExpr (EConst (VStr (L "Doc"))).
Definition ann (n t : String.string) (v : expr) : stmt := SAnnAssign (nm n) (nm t) (Some v).
Arguments ann (n t)%string_scope v.
Definition internal_C : option internal := Some (mkInternal [] (Has (L "C")) (Has (L "cls"))).

(* --- 1. `:cvar b:` only; a: int = 1; b: int = 2  parses as [b, a] *)
Definition doc_b : option (outcome ir) :=
  Some (Ok (mkIR FNone (Has (L "static")) (Has (L "Doc")) [(L "b", mkG (Has (L "the b")) Missing None)] FNone None)).
Definition w1_node : stmt := cls [docstmt; ann "a" "int" (cint 1); ann "b" "int" (cint 2)].
Definition w1 (got : list str) : attrs_failure :=
  mkAF (L "order") doc_b w1_node None got [L "a"; L "b"] None None.

Lemma w1_model_reproduces :
  exists mi, model_parse (w1 []) w1_node = Ok mi /\ od_keys (ir_params mi) = [L "b"; L "a"].
Proof. eexists. split; vm_compute; reflexivity. Qed.

Lemma w1_classified :
  finding_class_C07_old (PtClassAttrs (w1 [L "b"; L "a"])) = None
  /\ finding_class_C07_r (PtClassAttrs (w1 [L "b"; L "a"])) = Some K7r_doc_order_reorders.
Proof. split; vm_compute; reflexivity. Qed.

(* neighbours: the same order when the docstring names nothing; another order of the attributes the docstring does not
   name (what reading the body in two passes would give: docstring b; body a, c, b reported as b, c, a) *)
Lemma w1_undocumented_unclassified :
  finding_class_C07_r (PtClassAttrs (mkAF (L "order") None w1_node None [L "b"; L "a"] [L "a"; L "b"] None None)) = None.
Proof. vm_compute. reflexivity. Qed.

Lemma w1_other_order_unclassified :
  finding_class_C07_r (PtClassAttrs (mkAF (L "order") doc_b
      (cls [docstmt; ann "a" "int" (cint 1); SAssign [nm "c"] (cint 3); ann "b" "int" (cint 2)]) None
      [L "b"; L "c"; L "a"] [L "a"; L "c"; L "b"] None None)) = None.
Proof. vm_compute. reflexivity. Qed.

Lemma w1_three_classified :
  finding_class_C07_r (PtClassAttrs (mkAF (L "order") doc_b
      (cls [docstmt; ann "a" "int" (cint 1); SAssign [nm "c"] (cint 3); ann "b" "int" (cint 2)]) None
      [L "b"; L "a"; L "c"] [L "a"; L "c"; L "b"] None None)) = Some K7r_doc_order_reorders.
Proof. vm_compute. reflexivity. Qed.

(* --- 2. a: int = (1, 2) reports the str '(1, 2)'; b = (1, 2) reports the tuple *)
Definition pair12 : expr := ETuple [cint 1; cint 2].
Definition w2_node : stmt := cls [ann "a" "int" pair12; SAssign [nm "b"] pair12].
Definition w2_result (da : dval) : ir :=
  mkIR FNone (Has (L "static")) (Has []) [(L "a", mkG Missing (Has (L "int")) (Some da));
                                          (L "b", mkG Missing (Has (L "tuple")) (Some (DO (L "(1, 2)"))))] FNone internal_C.
Definition w2 (entry : String.string) (da : dval) : attrs_failure :=
  mkAF (L "value") None w2_node (Some (L entry)) [] [] (Some (w2_result da)) None.
Arguments w2 entry%string_scope da.

Lemma w2_model_reproduces : model_parse (w2 "a" (DV VNone)) w2_node = Ok (w2_result (DV (VStr (L "(1, 2)")))).
Proof. vm_compute. reflexivity. Qed.

Lemma w2_classified :
  finding_class_C07_old (PtClassAttrs (w2 "a" (DV (VStr (L "(1, 2)"))))) = None
  /\ finding_class_C07_r (PtClassAttrs (w2 "a" (DV (VStr (L "(1, 2)"))))) = Some K7r_ann_value_as_text.
Proof. split; vm_compute; reflexivity. Qed.

(* neighbours: the plain assignment; another text than the model predicts; a value that is no str at all *)
Lemma w2_plain_unclassified : finding_class_C07_r (PtClassAttrs (w2 "b" (DV (VStr (L "(1, 2)"))))) = None.
Proof. vm_compute. reflexivity. Qed.

Lemma w2_other_text_unclassified : finding_class_C07_r (PtClassAttrs (w2 "a" (DV (VStr (L "(1,2)"))))) = None.
Proof. vm_compute. reflexivity. Qed.

Lemma w2_not_str_unclassified : finding_class_C07_r (PtClassAttrs (w2 "a" (DV (VInt 1)))) = None.
Proof. vm_compute. reflexivity. Qed.

(* a scalar annotated value is never in the class, whatever is reported *)
Lemma w2_scalar_unclassified :
  finding_class_C07_r (PtClassAttrs (mkAF (L "value") None (cls [ann "a" "int" (cint 5)]) (Some (L "a")) [] []
      (Some (mkIR FNone (Has (L "static")) (Has []) [(L "a", mkG Missing (Has (L "int")) (Some (DV (VStr (L "5")))))]
                  FNone internal_C)) None)) = None.
Proof. vm_compute. reflexivity. Qed.

(* the attribute access: `a: int = np.x` reports 'np' (get_value follows .value once more) *)
Lemma w2_attribute_classified :
  finding_class_C07_r (PtClassAttrs (mkAF (L "value") None (cls [ann "a" "int" (EAttr (nm "np") (L "x"))])
      (Some (L "a")) [] []
      (Some (mkIR FNone (Has (L "static")) (Has []) [(L "a", mkG Missing (Has (L "int")) (Some (DV (VStr (L "np")))))]
                  FNone internal_C)) None)) = Some K7r_ann_value_as_text.
Proof. vm_compute. reflexivity. Qed.

(* --- 3. a, b = 1, 2 raises AttributeError *)
Definition w3_node : stmt := cls [SAssign [ETuple [nm "a"; nm "b"]] pair12].
Definition w3 (node : stmt) (exn : String.string) : attrs_failure :=
  mkAF (L "raises") None node None [] [] None (Some (L exn)).
Arguments w3 node exn%string_scope.

Lemma w3_model_reproduces : model_parse (w3 w3_node "AttributeError") w3_node = Err AttributeError.
Proof. vm_compute. reflexivity. Qed.

Lemma w3_classified :
  finding_class_C07_old (PtClassAttrs (w3 w3_node "AttributeError")) = None
  /\ finding_class_C07_r (PtClassAttrs (w3 w3_node "AttributeError")) = Some K7r_tuple_target_raises.
Proof. split; vm_compute; reflexivity. Qed.

Lemma w3_list_target_classified :
  finding_class_C07_r (PtClassAttrs (w3 (cls [ann "x" "int" (cint 1); SAssign [EList [nm "a"; nm "b"]] pair12])
                                        "AttributeError")) = Some K7r_tuple_target_raises.
Proof. vm_compute. reflexivity. Qed.

Lemma w3_starred_target_classified :
  finding_class_C07_r (PtClassAttrs (w3 (cls [SAssign [EOpaque (L "(first, *others)")] (ETuple [cint 1; cint 2; cint 3])])
                                        "AttributeError")) = Some K7r_tuple_target_raises.
Proof. vm_compute. reflexivity. Qed.

(* neighbours: another exception; an attribute target (no tuple); an attribute target that raises before the tuple *)
Lemma w3_other_exception_unclassified : finding_class_C07_r (PtClassAttrs (w3 w3_node "TypeError")) = None.
Proof. vm_compute. reflexivity. Qed.

Lemma w3_attribute_target_unclassified :
  finding_class_C07_r (PtClassAttrs (w3 (cls [SAssign [EAttr (nm "a") (L "x")] (cint 1)]) "AttributeError")) = None.
Proof. vm_compute. reflexivity. Qed.

Lemma w3_raises_earlier_unclassified :
  finding_class_C07_r (PtClassAttrs (w3 (cls [SAssign [EAttr (nm "a") (L "x")] (cint 1);
                                               SAssign [ETuple [nm "a"; nm "b"]] pair12]) "AttributeError")) = None.
Proof. vm_compute. reflexivity. Qed.
