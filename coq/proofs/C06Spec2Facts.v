(* Facts about the refined C06 classifier (model/C06Spec2.v). *)
From Coq Require Import List Ascii Bool Arith ZArith.
From Coq Require String.
Import String.StringSyntax.
From DT Require Import PyStr PyStrFacts Sexp PyVal TyExpr PureUtils Defaults PyAst IR EmitAst C06Spec C06Values C06Spec2.
Import ListNotations.

(* the refinement only ever adds the two new classes: an old class is kept as it is *)
Lemma finding_class_C06_r_adds : forall kind clause i it art entries mode c,
    finding_class_C06_r kind clause i it art entries mode = Some c ->
    (exists k, finding_class_C06 kind clause i it art = Some k /\ c = K6r_old k)
    \/ (finding_class_C06 kind clause i it art = None
        /\ ((kind = KArgparse /\ c = K6r_ap_list_default_unusable)
            \/ (kind = KClass /\ c = K6r_cls_bare_dict_default_lost))).
Proof.
  intros kind clause i it art entries mode c H. unfold finding_class_C06_r in H.
  destruct (finding_class_C06 kind clause i it art) as [k|].
  - left. exists k. injection H as H. split; [reflexivity|symmetry; exact H].
  - right. split; [reflexivity|]. unfold new_class_C06 in H. destruct kind.
    + discriminate H.
    + right. destruct (cls_bare_dict_default_lost clause i art); [|discriminate H].
      injection H as H. split; [reflexivity|symmetry; exact H].
    + left. destruct (ap_list_default_unusable clause mode entries i); [|discriminate H].
      injection H as H. split; [reflexivity|symmetry; exact H].
Qed.

Lemma finding_class_C06_r_old : forall kind clause i it art entries mode k,
    finding_class_C06 kind clause i it art = Some k ->
    finding_class_C06_r kind clause i it art entries mode = Some (K6r_old k).
Proof. intros kind clause i it art entries mode k H. unfold finding_class_C06_r. rewrite H. reflexivity. Qed.

(* the name of a kept class is the old name: KNOWN_FINDINGS lines of the old classes stay valid *)
Lemma c06_class_r_name_old : forall k, c06_class_r_name (K6r_old k) = c06_class_name k.
Proof. reflexivity. Qed.

(* the refined region of a clause is inside the old one *)
Lemma guard_C06_clause_r_inside : forall kind clause i it art entries mode,
    guard_C06_clause_r kind clause i it art entries mode = true -> guard_C06_clause kind clause i it art = true.
Proof.
  intros kind clause i it art entries mode H. unfold guard_C06_clause_r, finding_class_C06_r in H.
  unfold guard_C06_clause. destruct (finding_class_C06 kind clause i it art) as [k|]; [discriminate H|reflexivity].
Qed.

(* ---- the new classes are shape-based and name only the clauses the shape explains ---- *)
(* argparse: some parameter the failing check speaks of has a List type and an explicit sequence / scalar default,
   and the clause is a run clause - for a display of two or more elements and for a scalar a parse clause that RAISED *)
Lemma ap_list_class_shape : forall clause i it art entries mode,
    finding_class_C06_r KArgparse clause i it art entries mode = Some K6r_ap_list_default_unusable ->
    is_run_clause clause = true
    /\ exists n g ld, In (n, g) (ir_params i) /\ In n entries /\ list_default_of g = Some ld
                      /\ list_default_explains clause mode ld = true.
Proof.
  intros clause i it art entries mode H. unfold finding_class_C06_r in H.
  destruct (finding_class_C06 KArgparse clause i it art) as [k|]; [discriminate H|].
  unfold new_class_C06 in H.
  destruct (ap_list_default_unusable clause mode entries i) eqn:E; [|discriminate H].
  unfold ap_list_default_unusable in E. apply existsb_exists in E. destruct E as [[n g] [Hin Hx]].
  cbn [fst snd] in Hx. apply andb_true_iff in Hx. destruct Hx as [He Hl].
  destruct (list_default_of g) as [ld|] eqn:Eld; [|discriminate Hl].
  assert (Hn : In n entries).
  { apply existsb_exists in He. destruct He as [m [Hm Hq]]. apply str_eqb_eq in Hq. subst m. exact Hm. }
  split.
  - unfold list_default_explains in Hl. destruct ld; try exact Hl;
      apply andb_true_iff in Hl; destruct Hl as [Hp _]; unfold is_parse_clause in Hp; unfold is_run_clause;
      apply orb_true_iff in Hp; destruct Hp as [Hp|Hp]; rewrite Hp; repeat rewrite orb_true_r; reflexivity.
  - exists n, g, ld. repeat split; assumption.
Qed.

(* a parameter has the shape only under a type that makes the option append, with an explicit default *)
Lemma list_default_of_shape : forall g ld,
    list_default_of g = Some ld ->
    exists t v, fget (g_typ g) = Some t /\ g_default g = Some (DV v) /\ typ_appends t = true /\ v <> VNone.
Proof.
  intros g ld H. unfold list_default_of in H.
  destruct (fget (g_typ g)) as [t|]; [|discriminate H].
  destruct (g_default g) as [[v|e|o]|]; try discriminate H.
  destruct (typ_appends t) eqn:Ea; [|discriminate H].
  exists t, v. repeat split; try reflexivity; try assumption.
  intro Hv. subst v. discriminate H.
Qed.

(* the clauses of the old oracle (run, option-default, option-type, ...) are never named by the new argparse class *)
Lemma ap_list_class_not_old_clauses : forall clause i entries mode,
    is_run_clause clause = false -> ap_list_default_unusable clause mode entries i = false.
Proof.
  intros clause i entries mode H. unfold ap_list_default_unusable.
  apply not_true_is_false. intro E. apply existsb_exists in E. destruct E as [[n g] [_ Hx]].
  cbn [fst snd] in Hx. apply andb_true_iff in Hx. destruct Hx as [_ Hl].
  destruct (list_default_of g) as [ld|]; [|discriminate Hl].
  unfold list_default_explains in Hl.
  destruct ld; try (rewrite H in Hl; discriminate Hl);
    unfold is_run_clause in H; unfold is_parse_clause in Hl;
    apply andb_true_iff in Hl; destruct Hl as [Hp _];
    apply orb_false_iff in H; destruct H as [H H4]; apply orb_false_iff in H; destruct H as [_ H3];
    rewrite H3, H4 in Hp; discriminate Hp.
Qed.

(* class: the clause is reparse / unparse and some attribute is declared `dict` with a default *)
Lemma cls_bare_dict_class_shape : forall clause i it art entries mode,
    finding_class_C06_r KClass clause i it art entries mode = Some K6r_cls_bare_dict_default_lost ->
    (clause = L "reparse" \/ clause = L "unparse")
    /\ exists n g b, In (n, g) (ir_params i ++ returns_as_param i) /\ bare_dict_default g = Some b.
Proof.
  intros clause i it art entries mode H. unfold finding_class_C06_r in H.
  destruct (finding_class_C06 KClass clause i it art) as [k|]; [discriminate H|].
  unfold new_class_C06 in H.
  destruct (cls_bare_dict_default_lost clause i art) eqn:E; [|discriminate H].
  unfold cls_bare_dict_default_lost in E.
  destruct (str_eqb clause (L "reparse")) eqn:E1.
  - apply str_eqb_eq in E1. split; [left; exact E1|].
    apply andb_true_iff in E. destruct E as [E _]. apply existsb_exists in E. destruct E as [[n g] [Hin Hx]].
    cbn [snd] in Hx. exists n, g, true. split; [exact Hin|].
    destruct (bare_dict_default g) as [[|]|]; try discriminate Hx. reflexivity.
  - destruct (str_eqb clause (L "unparse")) eqn:E3; [|discriminate E].
    apply str_eqb_eq in E3. split; [right; exact E3|].
    apply existsb_exists in E. destruct E as [[n g] [Hin Hx]]. cbn [snd] in Hx.
    exists n, g, false. split; [exact Hin|].
    destruct (bare_dict_default g) as [[|]|]; try discriminate Hx. reflexivity.
Qed.

Lemma bare_dict_default_shape : forall g b,
    bare_dict_default g = Some b -> fget (g_typ g) = Some (L "dict") /\ exists v, g_default g = Some (DV v).
Proof.
  intros g b H. unfold bare_dict_default in H.
  destruct (fget (g_typ g)) as [t|]; [|discriminate H].
  destruct (g_default g) as [[v|e|o]|]; try discriminate H.
  destruct (str_eqb t (L "dict")) eqn:E; [|discriminate H].
  apply str_eqb_eq in E. subst t. split; [reflexivity|exists v; reflexivity].
Qed.

(* ------------------------------------------------------------------ witnesses (each replayed on /repo) *)
Definition w6 (g : gparam) : ir := mkIR (Has (L "f")) (Has (L "static")) (Has (L "Doc.")) [(L "sizes", g)] FNone None.
Definition PG6 (t : str) (d : pyval) : gparam := mkG (Has (L "the sizes")) (Has t) (Some (DV d)).
Definition code6 (s : str) : pyval := VStr (L "```" ++ s ++ L "```").

(* 1. List[int] with the default [64, 32]: add_argument('--sizes', type=loads, action='append', required=True,
      default='[64, 32]'); parse_args(['--sizes', '[64, 32]']) raises AttributeError *)
Definition w6_seqN : ir := w6 (PG6 (L "List[int]") (code6 (L "[64, 32]"))).

Lemma list_default_seqN_classified :
  finding_class_C06 KArgparse (L "parse_defaults") w6_seqN false None = None
  /\ finding_class_C06_r KArgparse (L "parse_defaults") w6_seqN false None [L "sizes"] FM_raised
     = Some K6r_ap_list_default_unusable
  /\ finding_class_C06_r KArgparse (L "parse_given") w6_seqN false None [L "sizes"] FM_raised
     = Some K6r_ap_list_default_unusable.
Proof. vm_compute. repeat split; reflexivity. Qed.

(* the registered default of that shape does read back as the IR's: the per-option clauses, an exit (what seeded
   change C06-11 makes of such an option) and a failure that is about another option stay unnamed *)
Lemma list_default_seqN_narrow :
  finding_class_C06_r KArgparse (L "registered_default") w6_seqN false None [L "sizes"] FM_other = None
  /\ finding_class_C06_r KArgparse (L "default_accepted") w6_seqN false None [L "sizes"] FM_other = None
  /\ finding_class_C06_r KArgparse (L "parse_defaults") w6_seqN false None [L "sizes"] FM_exited = None
  /\ finding_class_C06_r KArgparse (L "parse_defaults") w6_seqN false None [L "sizes"] FM_value = None
  /\ finding_class_C06_r KArgparse (L "parse_given") w6_seqN false None [L "other"] FM_raised = None
  /\ finding_class_C06_r KArgparse (L "spec_table") w6_seqN false None [L "sizes"] FM_other = None.
Proof. vm_compute. repeat split; reflexivity. Qed.

(* 2. the one-element default [64]: type=int, action='append', required=True, default=64 *)
Definition w6_seq1 : ir := w6 (PG6 (L "List[int]") (code6 (L "[64]"))).

Lemma list_default_seq1_classified :
  finding_class_C06 KArgparse (L "default_accepted") w6_seq1 false None = None
  /\ finding_class_C06_r KArgparse (L "default_accepted") w6_seq1 false None [L "sizes"] FM_other
     = Some K6r_ap_list_default_unusable
  /\ finding_class_C06_r KArgparse (L "registered_default") w6_seq1 false None [L "sizes"] FM_other
     = Some K6r_ap_list_default_unusable
  /\ finding_class_C06_r KArgparse (L "parse_defaults") w6_seq1 false None [L "sizes"] FM_exited
     = Some K6r_ap_list_default_unusable.
Proof. vm_compute. repeat split; reflexivity. Qed.

(* 3. the empty default []: action='append', no default (None where the IR says []) - also under Optional *)
Definition w6_seq0 : ir := w6 (PG6 (L "Optional[List[int]]") (code6 (L "[]"))).

Lemma list_default_seq0_classified :
  finding_class_C06 KArgparse (L "registered_default") w6_seq0 false None = None
  /\ finding_class_C06_r KArgparse (L "registered_default") w6_seq0 false None [L "sizes"] FM_other
     = Some K6r_ap_list_default_unusable
  /\ finding_class_C06_r KArgparse (L "parse_defaults") w6_seq0 false None [L "sizes"] FM_value
     = Some K6r_ap_list_default_unusable.
Proof. vm_compute. repeat split; reflexivity. Qed.

(* 4. a scalar default: inside guard_C06_argparse, the row is the one the spec table says (C06_argparse_partial) -
      type=int, action='append', required=True, default=5 - and giving the option raises AttributeError *)
Definition w6_scalar : ir := w6 (PG6 (L "List[int]") (VInt 5)).

Lemma list_default_scalar_classified :
  guard_C06_argparse false w6_scalar = true
  /\ spec_argparse_table false w6_scalar
     = Some [([EConst (VStr (L "--sizes"))],
              [kw "type" (EName (L "int")); kw "action" (EConst (VStr (L "append")));
               kw "help" (EConst (VStr (L "the sizes"))); kw "required" (EConst (VBool true));
               kw "default" (EConst (VInt 5))])]
  /\ finding_class_C06 KArgparse (L "parse_given") w6_scalar false None = None
  /\ finding_class_C06_r KArgparse (L "parse_given") w6_scalar false None [L "sizes"] FM_raised
     = Some K6r_ap_list_default_unusable
  /\ finding_class_C06_r KArgparse (L "parse_given") w6_scalar false None [L "sizes"] FM_exited = None.
Proof. vm_compute. repeat split; reflexivity. Qed.

(* not the shape: the same defaults under Tuple / a scalar type (what seeded changes C06-10 and C06-11 need), None *)
Lemma not_list_shapes_unclassified :
  finding_class_C06_r KArgparse (L "parse_given") (w6 (PG6 (L "Tuple[int, int]") (code6 (L "(64, 32)")))) false None
                      [L "sizes"] FM_raised = None
  /\ finding_class_C06_r KArgparse (L "registered_default") (w6 (PG6 (L "Tuple[str, str]") (code6 (L "('cat', 'dog')"))))
                         false None [L "sizes"] FM_other = None
  /\ finding_class_C06_r KArgparse (L "default_accepted") (w6 (PG6 (L "Union[float, int]") (VFloat (L "0.5")))) false None
                         [L "sizes"] FM_other = None
  /\ finding_class_C06_r KArgparse (L "parse_given") (w6 (PG6 (L "Optional[List[int]]") VNone)) false None
                         [L "sizes"] FM_raised = None.
Proof. vm_compute. repeat split; reflexivity. Qed.

(* the element count is taken outside brackets and quotes *)
Lemma list_display_len_examples :
  list_display_len (L "[]") = Some 0 /\ list_display_len (L "[ ]") = Some 0
  /\ list_display_len (L "[64]") = Some 1 /\ list_display_len (L "['a, b']") = Some 1
  /\ list_display_len (L "[(1, 2)]") = Some 1 /\ list_display_len (L "[64,]") = Some 1
  /\ list_display_len (L "[64, 32]") = Some 2 /\ list_display_len (L "['a', 'b', None]") = Some 3
  /\ list_display_len (L "(64, 32)") = None /\ list_display_len (L "x") = None.
Proof. vm_compute. repeat split; reflexivity. Qed.

(* 5. class: `cfg: dict` with the default {'a': 1}: the emitted node is Dict(keys=[], values=<the nine characters>),
      its text is `sizes: dict = {}` *)
Definition w6_dict : ir := w6 (PG6 (L "dict") (code6 (L "{'a': 1}"))).

Definition w6_dict_art : stmt :=
  SClass (L "C") [EName (L "object")]
         [SExpr (EConst (VStr (L "Doc.")));
          SAnnAssign (EName (L "sizes")) (EName (L "dict"))
                     (Some (EDict [] [EOpaque (L "<non-ast str>"); EOpaque (L "<non-ast str>")]))] [].

Lemma bare_dict_classified :
  finding_class_C06 KClass (L "reparse") w6_dict false (Some w6_dict_art) = None
  /\ finding_class_C06_r KClass (L "reparse") w6_dict false (Some w6_dict_art) [] FM_other
     = Some K6r_cls_bare_dict_default_lost
  /\ finding_class_C06_r KClass (L "attr_value") w6_dict false (Some w6_dict_art) [L "sizes"] FM_other
     = Some (K6r_old K_code_default_is_string)
  /\ finding_class_C06_r KClass (L "unparse") (w6 (PG6 (L "dict") (VInt 5))) false None [] FM_other
     = Some K6r_cls_bare_dict_default_lost.
Proof. vm_compute. repeat split; reflexivity. Qed.

(* not the shape / not a clause it explains: Dict[str, int]; dict without default; a well-formed artefact; exec *)
Lemma bare_dict_narrow :
  finding_class_C06_r KClass (L "reparse") (w6 (PG6 (L "Dict[str, int]") (code6 (L "{'a': 1}")))) false (Some w6_dict_art)
                      [] FM_other = None
  /\ finding_class_C06_r KClass (L "reparse") (w6 (mkG (Has (L "the sizes")) (Has (L "dict")) None)) false
                         (Some w6_dict_art) [] FM_other = None
  /\ finding_class_C06_r KClass (L "reparse") w6_dict false
                         (Some (SClass (L "C") [] [SAnnAssign (EName (L "sizes")) (EName (L "dict")) (Some (EDict [] []))] []))
                         [] FM_other = None
  /\ finding_class_C06_r KClass (L "exec") w6_dict false (Some w6_dict_art) [] FM_other = None
  /\ finding_class_C06_r KClass (L "unparse") w6_dict false None [] FM_other = None.
Proof. vm_compute. repeat split; reflexivity. Qed.
