(* GenFacts: lemmas about the model of gen (model/Gen.v) and the proofs of the C19 theorems
   (statements in model/C19Spec.v, re-exported by props/C19.v). *)
From Coq Require Import List Ascii Bool Arith ZArith Permutation Sorted Lia.
From Coq Require String.
Import String.StringSyntax.
From DT Require Import PyStr Sexp PyVal Gen C19Spec PyStrFacts.
Import ListNotations.

(* ================================================================== lists *)
Lemma filter_none : forall {A} (p : A -> bool) l,
    (forall x, In x l -> p x = false) -> filter p l = [].
Proof.
  intros A p l; induction l as [|x r IH]; intros H; cbn; [reflexivity|].
  rewrite (H x (or_introl eq_refl)). apply IH. intros y Hy. apply H. right. exact Hy.
Qed.

Lemma filter_all : forall {A} (p : A -> bool) l,
    (forall x, In x l -> p x = true) -> filter p l = l.
Proof.
  intros A p l; induction l as [|x r IH]; intros H; cbn; [reflexivity|].
  rewrite (H x (or_introl eq_refl)). f_equal. apply IH. intros y Hy. apply H. right. exact Hy.
Qed.

Lemma filter_filter_disjoint : forall {A} (p q : A -> bool) l,
    (forall x, q x = true -> p x = false) -> filter p (filter q l) = [].
Proof.
  intros A p q l H. apply filter_none. intros x Hx. apply filter_In in Hx. apply H. apply Hx.
Qed.

Lemma filter_filter_sub : forall {A} (p q : A -> bool) l,
    (forall x, q x = true -> p x = true) -> filter p (filter q l) = filter q l.
Proof.
  intros A p q l H. apply filter_all. intros x Hx. apply filter_In in Hx. apply H. apply Hx.
Qed.

Lemma Forall_filter : forall {A} (P : A -> Prop) (p : A -> bool) l, Forall P l -> Forall P (filter p l).
Proof.
  intros A P p l H. apply Forall_forall. intros x Hx. apply filter_In in Hx.
  rewrite Forall_forall in H. apply H. apply Hx.
Qed.

Lemma StronglySorted_app : forall {A} (R : A -> A -> Prop) a b,
    StronglySorted R a -> StronglySorted R b -> (forall x y, In x a -> In y b -> R x y) ->
    StronglySorted R (a ++ b).
Proof.
  intros A R a b Ha Hb Hab. induction Ha as [|x a' Ha' IH Hx]; cbn; [exact Hb|].
  constructor.
  - apply IH. intros u v Hu Hv. apply Hab; [right; exact Hu|exact Hv].
  - apply Forall_app. split; [exact Hx|].
    apply Forall_forall. intros y Hy. apply Hab; [left; reflexivity|exact Hy].
Qed.

Lemma StronglySorted_const : forall {A} (f : A -> nat) k l,
    Forall (fun x => f x = k) l -> StronglySorted (fun a b => f a <= f b) l.
Proof.
  intros A f k l H. induction H as [|x r Hx Hr IH]; constructor; [exact IH|].
  apply Forall_forall. intros y Hy. rewrite Forall_forall in Hr. rewrite Hx, (Hr y Hy). lia.
Qed.

(* ================================================================== hoisting *)

Lemma is_future_import : forall t, is_future t = true -> is_import t = true.
Proof. intros [b s d|[m|] s|c n s|ns s|s]; cbn; intros H; try discriminate; reflexivity. Qed.

Lemma is_future_rank : forall t, is_future t = rank_is 0 t.
Proof. intros t. unfold rank_is, rank. destruct (is_future t); [reflexivity|]. destruct (is_import t); reflexivity. Qed.

Lemma is_plain_rank : forall t, is_plain_import t = rank_is 1 t.
Proof.
  intros t. unfold rank_is, rank, is_plain_import.
  destruct (is_future t) eqn:F.
  - rewrite (is_future_import t F). reflexivity.
  - destruct (is_import t); reflexivity.
Qed.

Lemma nonimp_rank : forall t, nonimp t = rank_is 2 t.
Proof.
  intros t. unfold rank_is, rank, nonimp.
  destruct (is_future t) eqn:F.
  - rewrite (is_future_import t F). reflexivity.
  - destruct (is_import t); reflexivity.
Qed.

Lemma rank_le_2 : forall t, rank t <= 2.
Proof. intros t. unfold rank. destruct (is_future t); [lia|]. destruct (is_import t); lia. Qed.

Lemma hoist3_rank : forall l,
    hoist3 l = filter (rank_is 0) l ++ filter (rank_is 1) l ++ filter (rank_is 2) l.
Proof.
  intros l. unfold hoist3.
  rewrite (filter_ext _ _ is_future_rank), (filter_ext _ _ is_plain_rank), (filter_ext _ _ nonimp_rank).
  reflexivity.
Qed.

Lemma hoist_split : forall body, hoist body = doc_part body ++ hoist3 (rest_part body).
Proof.
  intros body. unfold hoist, doc_part, rest_part, hoist3.
  destruct (has_doc body) eqn:D; [|reflexivity].
  destruct body as [|[b s d|m s|c n s|ns s|s] r]; try discriminate D.
  destruct b; [|discriminate D]. reflexivity.
Qed.

Lemma has_doc_shape : forall body, has_doc body = true ->
    exists s d r, body = TStr true s d :: r.
Proof.
  intros [|[b s d|m s|c n s|ns s|s] r] D; try discriminate D.
  destruct b; [|discriminate D]. exists s, d, r. reflexivity.
Qed.

Lemma doc_rest_eq : forall body, doc_part body ++ rest_part body = body.
Proof.
  intros body. unfold doc_part, rest_part. destruct (has_doc body); [apply firstn_skipn|reflexivity].
Qed.

Lemma hoist3_perm : forall l, Permutation (hoist3 l) l.
Proof.
  induction l as [|x r IH]; [apply perm_nil|].
  unfold hoist3 in *. cbn [filter]. unfold is_plain_import, nonimp.
  destruct (is_future x) eqn:F.
  - rewrite (is_future_import x F). cbn. apply perm_skip. exact IH.
  - destruct (is_import x) eqn:I; cbn.
    + apply Permutation_sym. apply Permutation_cons_app. apply Permutation_sym. exact IH.
    + apply Permutation_sym. rewrite app_assoc. apply Permutation_cons_app.
      rewrite <- app_assoc. apply Permutation_sym. exact IH.
Qed.

(* the hoisted body is a rearrangement of the body: nothing lost, nothing duplicated *)
Lemma hoist_perm : forall body, Permutation (hoist body) body.
Proof.
  intros body. rewrite hoist_split. rewrite <- (doc_rest_eq body) at 3.
  apply Permutation_app_head. apply hoist3_perm.
Qed.

Lemma filter_rank_filter_rank : forall j k l,
    filter (rank_is k) (filter (rank_is j) l) = if Nat.eqb j k then filter (rank_is j) l else [].
Proof.
  intros j k l. destruct (Nat.eqb j k) eqn:E.
  - apply Nat.eqb_eq in E. subst k. apply filter_filter_sub. intros x Hx. exact Hx.
  - apply filter_filter_disjoint. intros x Hx. unfold rank_is in *.
    apply Nat.eqb_eq in Hx. apply Nat.eqb_neq in E. apply Nat.eqb_neq. lia.
Qed.

(* stability: for each key the statements with that key are the same, in the same order *)
Lemma hoist3_stable : forall k l, filter (rank_is k) (hoist3 l) = filter (rank_is k) l.
Proof.
  intros k l. rewrite hoist3_rank. rewrite !filter_app, !filter_rank_filter_rank.
  destruct k as [|[|[|k]]]; cbn; rewrite ?app_nil_r; try reflexivity.
  symmetry. apply filter_none. intros x _. unfold rank_is. apply Nat.eqb_neq.
  pose proof (rank_le_2 x). lia.
Qed.

Lemma hoist_stable : forall k body, filter (rank_is k) (hoist body) = filter (rank_is k) body.
Proof.
  intros k body. rewrite hoist_split. rewrite <- (doc_rest_eq body) at 3.
  rewrite !filter_app. f_equal. apply hoist3_stable.
Qed.

(* the relative order of the non-imports is kept *)
Lemma hoist_keeps_nonimports : forall body, filter nonimp (hoist body) = filter nonimp body.
Proof.
  intros body. rewrite !(filter_ext _ _ nonimp_rank). apply hoist_stable.
Qed.

(* the imports come out as: the __future__ ones in their order, then the others in theirs *)
Lemma hoist_imports_order : forall body,
    filter is_import (hoist body) = filter is_future body ++ filter is_plain_import body.
Proof.
  intros body.
  assert (E : forall l, filter is_import l = filter is_import (filter is_future l ++ filter is_plain_import l ++ filter nonimp l) ->
                        True) by (intros; exact I).
  clear E.
  assert (H3 : forall l, filter is_import (hoist3 l) = filter is_future l ++ filter is_plain_import l).
  { intros l. unfold hoist3. rewrite !filter_app.
    rewrite (filter_filter_sub is_import is_future) by (intros x Hx; apply is_future_import; exact Hx).
    rewrite (filter_filter_sub is_import is_plain_import)
      by (intros x Hx; unfold is_plain_import in Hx; apply andb_true_iff in Hx; apply Hx).
    rewrite (filter_filter_disjoint is_import nonimp)
      by (intros x Hx; unfold nonimp in Hx; apply negb_true_iff in Hx; exact Hx).
    rewrite app_nil_r. reflexivity. }
  rewrite hoist_split, filter_app, H3.
  unfold doc_part, rest_part. destruct (has_doc body) eqn:D; [|reflexivity].
  destruct (has_doc_shape body D) as [s [d [r E]]]. subst body. reflexivity.
Qed.

(* after the docstring the keys never decrease: every __future__ import is before every other
   import, every import before every other statement *)
Lemma hoist3_sorted : forall l, StronglySorted (fun a b => rank a <= rank b) (hoist3 l).
Proof.
  intros l. rewrite hoist3_rank.
  assert (HF : forall k, Forall (fun x => rank x = k) (filter (rank_is k) l)).
  { intros k. apply Forall_forall. intros x Hx. apply filter_In in Hx. apply Nat.eqb_eq. apply Hx. }
  assert (HR : forall k x, In x (filter (rank_is k) l) -> rank x = k).
  { intros k x Hx. pose proof (HF k) as H. rewrite Forall_forall in H. apply H. exact Hx. }
  apply StronglySorted_app; [apply (StronglySorted_const rank 0); apply HF| |].
  - apply StronglySorted_app; [apply (StronglySorted_const rank 1); apply HF
                              |apply (StronglySorted_const rank 2); apply HF|].
    intros x y Hx Hy. rewrite (HR 1 x Hx), (HR 2 y Hy). lia.
  - intros x y Hx Hy. rewrite (HR 0 x Hx). lia.
Qed.

Lemma hoist_sorted : forall body,
    exists d, length d <= 1 /\ hoist body = d ++ hoist3 (rest_part body)
              /\ (has_doc body = true -> exists r, body = d ++ r /\ d <> [])
              /\ StronglySorted (fun a b => rank a <= rank b) (hoist3 (rest_part body)).
Proof.
  intros body. exists (doc_part body). split; [|split; [apply hoist_split|split; [|apply hoist3_sorted]]].
  - unfold doc_part. destruct (has_doc body); [|cbn; lia]. rewrite firstn_length. lia.
  - intros D. exists (rest_part body). split; [symmetry; apply doc_rest_eq|].
    unfold doc_part. rewrite D. destruct (has_doc_shape body D) as [s [d [r E]]]. subst body. discriminate.
Qed.

(* every import is before every non-import, the docstring (when there is one) before both *)
Lemma hoist_imports_first : forall body,
    exists d i o, hoist body = d ++ i ++ o
                  /\ d = doc_part body
                  /\ i = filter is_future body ++ filter is_plain_import body
                  /\ Forall (fun t => is_import t = true) i
                  /\ Forall (fun t => is_import t = false) o
                  /\ o = filter nonimp (rest_part body).
Proof.
  intros body.
  exists (doc_part body), (filter is_future body ++ filter is_plain_import body), (filter nonimp (rest_part body)).
  split; [|split; [reflexivity|split; [reflexivity|split; [|split; [|reflexivity]]]]].
  - unfold hoist, doc_part, rest_part, nonimp. rewrite <- !app_assoc. reflexivity.
  - apply Forall_app. split; apply Forall_forall; intros x Hx; apply filter_In in Hx; destruct Hx as [_ Hx].
    + apply is_future_import. exact Hx.
    + unfold is_plain_import in Hx. apply andb_true_iff in Hx. apply Hx.
  - apply Forall_forall. intros x Hx. apply filter_In in Hx. destruct Hx as [_ Hx].
    unfold nonimp in Hx. apply negb_true_iff in Hx. exact Hx.
Qed.


Lemma plain_stmt_nonimp : forall t, plain_stmt t = true -> is_import t = false /\ is_future t = false.
Proof. intros [b s d|m s|c n s|ns s|s]; cbn; intros H; try discriminate; split; reflexivity. Qed.

Lemma hoist_plain : forall D, forallb plain_stmt D = true -> hoist D = D.
Proof.
  intros D H. rewrite forallb_forall in H.
  assert (ND : has_doc D = false).
  { destruct D as [|t r]; [reflexivity|]. specialize (H t (or_introl eq_refl)).
    destruct t; cbn in *; try reflexivity; discriminate. }
  unfold hoist. rewrite ND. cbn [app].
  rewrite (filter_none is_future) by (intros x Hx; apply plain_stmt_nonimp; apply H; exact Hx).
  rewrite (filter_none is_plain_import)
    by (intros x Hx; unfold is_plain_import; destruct (plain_stmt_nonimp x (H x Hx)) as [E _]; rewrite E; reflexivity).
  cbn. apply filter_all. intros x Hx. destruct (plain_stmt_nonimp x (H x Hx)) as [E _]. rewrite E. reflexivity.
Qed.

Lemma hoist_app_plain : forall Hd D, forallb plain_stmt D = true -> hoist (Hd ++ D) = hoist Hd ++ D.
Proof.
  intros Hd D HD. destruct Hd as [|h Hd'].
  - cbn [app]. rewrite (hoist_plain D HD). reflexivity.
  - pose proof HD as HD'. rewrite forallb_forall in HD'.
    assert (F1 : filter is_future D = []) by (apply filter_none; intros x Hx; apply plain_stmt_nonimp; apply HD'; exact Hx).
    assert (F2 : filter is_plain_import D = []).
    { apply filter_none. intros x Hx. unfold is_plain_import.
      destruct (plain_stmt_nonimp x (HD' x Hx)) as [E _]. rewrite E. reflexivity. }
    assert (F3 : filter (fun t => negb (is_import t)) D = D).
    { apply filter_all. intros x Hx. destruct (plain_stmt_nonimp x (HD' x Hx)) as [E _]. rewrite E. reflexivity. }
    unfold hoist.
    assert (HDoc : has_doc ((h :: Hd') ++ D) = has_doc (h :: Hd')) by reflexivity.
    rewrite HDoc. destruct (has_doc (h :: Hd')).
    + cbn [app firstn skipn].
      change (h :: Hd' ++ D) with ((h :: Hd') ++ D). rewrite !filter_app, F1, F2, F3.
      rewrite !app_nil_r. cbn [app]. rewrite <- !app_assoc. reflexivity.
    + rewrite !filter_app, F1, F2, F3. rewrite !app_nil_r. cbn [app]. rewrite <- !app_assoc. reflexivity.
Qed.

(* hoisting twice changes nothing *)
Lemma hoist3_idem : forall l, hoist3 (hoist3 l) = hoist3 l.
Proof.
  intros l. rewrite (hoist3_rank (hoist3 l)). rewrite !hoist3_stable. symmetry. apply hoist3_rank.
Qed.

(* ================================================================== str.format with {name} *)

Lemma format_aux_literal : forall pre s name,
    brace_free pre = true -> format_aux (pre ++ s) FLit name = gapp pre (format_aux s FLit name).
Proof.
  induction pre as [|c r IH]; intros s name H.
  - cbn. destruct (format_aux s FLit name); reflexivity.
  - unfold brace_free in H. cbn [forallb] in H. apply andb_true_iff in H. destruct H as [Hc Hr].
    fold (brace_free r) in Hr. apply negb_true_iff in Hc. apply orb_false_iff in Hc. destruct Hc as [Hl Hrb].
    cbn [app format_aux]. rewrite Hl, Hrb. rewrite (IH s name Hr).
    destruct (format_aux s FLit name); reflexivity.
Qed.

Lemma format_aux_field_name : forall post name,
    format_aux (L "{name}" ++ post) FLit name = gapp name (format_aux post FLit name).
Proof. intros post name. reflexivity. Qed.

(* templates of the shape  literal {name} literal  (such as {name}Config, Gen{name}) *)
Lemma format_name_simple : forall pre post name,
    brace_free pre = true -> brace_free post = true ->
    format_name (pre ++ L "{name}" ++ post) name = GOk (pre ++ name ++ post).
Proof.
  intros pre post name Hpre Hpost. unfold format_name.
  rewrite (format_aux_literal pre _ name Hpre), format_aux_field_name.
  replace post with (post ++ []) at 1 by apply app_nil_r.
  rewrite (format_aux_literal post [] name Hpost). cbn. rewrite app_nil_r. reflexivity.
Qed.

(* a template without any field gives every entry the same name *)
Lemma format_name_constant : forall tpl name, brace_free tpl = true -> format_name tpl name = GOk tpl.
Proof.
  intros tpl name H. unfold format_name. replace tpl with (tpl ++ []) at 1 by apply app_nil_r.
  rewrite (format_aux_literal tpl [] name H). cbn. rewrite app_nil_r. reflexivity.
Qed.

(* ================================================================== the loop over the mapping *)

Lemma names_of_cons : forall tpl e r names,
    names_of tpl (e :: r) = GOk names ->
    exists n ns, names = n :: ns /\ format_name tpl (e_name e) = GOk n /\ names_of tpl r = GOk ns.
Proof.
  intros tpl e r names H. cbn in H.
  destruct (format_name tpl (e_name e)) as [n|k]; [|discriminate].
  destruct (names_of tpl r) as [ns|k]; [|discriminate].
  inversion H. exists n, ns. repeat split.
Qed.

(* names and order: global__all__ is the template applied to each key, in mapping order *)
Lemma names_of_spec : forall tpl es names,
    names_of tpl es = GOk names -> Forall2 (fun e n => format_name tpl (e_name e) = GOk n) es names.
Proof.
  intros tpl es. induction es as [|e r IH]; intros names H.
  - cbn in H. inversion H. constructor.
  - destruct (names_of_cons tpl e r names H) as [n [ns [E [Hn Hns]]]]. subst names.
    constructor; [exact Hn|apply IH; exact Hns].
Qed.

Lemma names_of_length : forall tpl es names, names_of tpl es = GOk names -> length names = length es.
Proof.
  intros tpl es names H. apply names_of_spec in H.
  induction H as [|e n es' ns' _ _ IH]; [reflexivity|cbn; rewrite IH; reflexivity].
Qed.


Lemma known_type_cases : forall type_, known_type type_ = true ->
    type_ = L "class" \/ type_ = L "function" \/ type_ = L "argparse".
Proof.
  intros type_ H. unfold known_type in H.
  apply orb_true_iff in H. destruct H as [H|H]; [apply orb_true_iff in H; destruct H as [H|H]|];
    apply str_eqb_eq in H; auto.
Qed.

Lemma known_kwargs : forall type_ o nm, known_type type_ = true ->
    exists kw, type_kwargs type_ o nm = Some kw
               /\ emit_binds (emit_attr type_) ((L "emit_default_doc", KBool (o_emit_default_doc o)) :: kw) = true.
Proof.
  intros type_ o nm H. destruct (known_type_cases type_ H) as [E|[E|E]]; subst type_; eexists; split; reflexivity.
Qed.

(* when every conversion returns a text: one text per entry in mapping order, and the names;
   for each of the three output types *)
Lemma run_entries_ok : forall tpl type_ o es names,
    known_type type_ = true -> forallb is_emitted es = true -> names_of tpl es = GOk names ->
    snd (run_entries tpl type_ o es) = GOk (names, texts_of es).
Proof.
  intros tpl type_ o es. induction es as [|e r IH]; intros names HT HE HN.
  - cbn in HN. inversion HN. reflexivity.
  - destruct (names_of_cons tpl e r names HN) as [n [ns [E [Hn Hns]]]]. subst names.
    cbn in HE. apply andb_true_iff in HE. destruct HE as [He Hr].
    cbn [run_entries]. rewrite Hn.
    unfold is_emitted in He. destruct (e_res e) as [k| |k|text] eqn:ER; try discriminate He.
    destruct (known_kwargs type_ o n HT) as [kw [Hkw Hb]]. rewrite Hkw, Hb. cbn [negb].
    specialize (IH ns HT Hr Hns).
    destruct (run_entries tpl type_ o r) as [tr rr]. cbn [snd] in *. rewrite IH.
    unfold texts_of. cbn [map]. rewrite ER. reflexivity.
Qed.

(* an entry whose conversion did not return a text ends the run with an exception *)
Lemma run_entries_fail : forall tpl type_ o es,
    forallb is_emitted es = false -> exists k, snd (run_entries tpl type_ o es) = GErr k.
Proof.
  intros tpl type_ o es. induction es as [|e r IH]; intros HE; [discriminate HE|].
  cbn in HE. cbn [run_entries].
  destruct (format_name tpl (e_name e)) as [nm|k]; [|eexists; reflexivity].
  destruct (e_res e) as [k| |k|text] eqn:ER.
  - eexists; reflexivity.
  - destruct (type_kwargs type_ o nm); [|eexists; reflexivity].
    destruct (negb _); eexists; reflexivity.
  - destruct (type_kwargs type_ o nm); [|eexists; reflexivity].
    destruct (negb _); eexists; reflexivity.
  - destruct (type_kwargs type_ o nm); [|eexists; reflexivity].
    destruct (negb _); [eexists; reflexivity|].
    unfold is_emitted in HE. rewrite ER in HE. cbn in HE.
    destruct (IH HE) as [k Hk]. destruct (run_entries tpl type_ o r) as [tr rr]. cbn [snd] in *.
    rewrite Hk. exists k. reflexivity.
Qed.

(* ================================================================== gen ends with an exception *)
Lemma gen_fails_entry : forall ps gi es,
    gi_mapping gi = GOk es -> forallb is_emitted es = false -> exists k, snd (gen ps gi) = GErr k.
Proof.
  intros ps gi es HM HE. unfold gen.
  destruct (negb (known_type (gi_type gi))); [eexists; reflexivity|].
  destruct (imports_phase ps gi) as [tr1 imp]. destruct imp as [imports|k]; [|eexists; reflexivity].
  destruct (negb (has_dot (gi_input_mapping gi))); [eexists; reflexivity|].
  rewrite HM.
  destruct (run_entries_fail (gi_name_tpl gi) (gi_type gi) (gi_opts gi) es HE) as [k Hk].
  destruct (run_entries (gi_name_tpl gi) (gi_type gi) (gi_opts gi) es) as [tr2 r2].
  cbn [snd] in Hk. rewrite Hk. eexists; reflexivity.
Qed.

(* ================================================================== the CLI decision *)
Lemma cli_gen_exists : forall a, cli_gen a true = CliUsage \/ cli_gen a true = CliUnmodelled
                                  \/ cli_gen a true = CliRaise xIOError.
Proof.
  intros a. unfold cli_gen.
  destruct (ca_name_tpl a); [|auto]. destruct (ca_input_mapping a); [|auto].
  destruct (ca_type a); [|auto]. destruct (ca_output_filename a); [|auto].
  destruct (negb (known_type _)); [auto|].
  destruct (ca_prepend a) as [raw|].
  - destruct (decode_escape raw) as [p|k]; [auto|]. destruct (str_eqb k xValueError); auto.
  - auto.
Qed.

(* a missing required option or a type outside the three choices is a usage error *)
Lemma cli_gen_usage : forall a ex,
    (ca_name_tpl a = None \/ ca_input_mapping a = None \/ ca_type a = None \/ ca_output_filename a = None
     \/ exists ty, ca_type a = Some ty /\ known_type ty = false) ->
    cli_gen a ex = CliUsage.
Proof.
  intros a ex H. unfold cli_gen.
  destruct (ca_name_tpl a); [|reflexivity]. destruct (ca_input_mapping a); [|reflexivity].
  destruct (ca_type a) as [ty|]; [|reflexivity]. destruct (ca_output_filename a); [|reflexivity].
  destruct H as [H|[H|[H|[H|[ty' [H1 H2]]]]]]; try discriminate.
  inversion H1. subst ty'. rewrite H2. reflexivity.
Qed.

Lemma cli_gen_run : forall a c, cli_gen a false = CliRun c ->
    ca_name_tpl a = Some (gc_name_tpl c) /\ ca_input_mapping a = Some (gc_input_mapping c)
    /\ ca_type a = Some (gc_type c) /\ known_type (gc_type c) = true
    /\ match ca_prepend a with
       | None => gc_prepend c = None
       | Some raw => exists p, decode_escape raw = GOk p /\ gc_prepend c = Some p
       end
    /\ gc_emit_call c = ca_emit_call a.
Proof.
  intros a c H. unfold cli_gen in H.
  destruct (ca_name_tpl a); [|discriminate]. destruct (ca_input_mapping a); [|discriminate].
  destruct (ca_type a) as [ty|]; [|discriminate]. destruct (ca_output_filename a); [|discriminate].
  destruct (known_type ty) eqn:K; [|discriminate]. cbn [negb] in H.
  destruct (ca_prepend a) as [raw|].
  - destruct (decode_escape raw) as [p|k]; [|destruct (str_eqb k xValueError); discriminate].
    inversion H. cbn. repeat split; try reflexivity; try exact K. exists p. split; reflexivity.
  - inversion H. cbn. repeat split; try reflexivity; exact K.
Qed.

(* refusal: whenever the output file exists the CLI route ends before gen is called *)
Lemma run_c19_cli_existing : forall ps x old,
    ci_via x = ViaCli -> ci_existing x = Some old ->
    (exists k, fst (run_c19 ps x) = GErr k) /\ snd (run_c19 ps x) = Some old.
Proof.
  intros ps x old HV HE. unfold run_c19. rewrite HV, HE. cbn [is_some].
  destruct (cli_gen_exists (cli_of x)) as [E|[E|E]];
    rewrite E; cbn [fst snd]; (split; [eexists; reflexivity|reflexivity]).
Qed.

(* ================================================================== with a Python-like parser *)
Section Python.
Variable parse_src : str -> option (list top).
Hypothesis PL : python_like parse_src.

Lemma parse_join_defs : forall texts defs,
    Forall2 (fun t d => parse_src t = Some [d]) texts defs ->
    parse_src (join [nl; nl] texts) = Some defs.
Proof.
  intros texts defs H. induction H as [|t d ts ds Ht Hr IH].
  - apply (P_empty _ PL).
  - destruct ts as [|t2 ts'].
    + inversion Hr. subst. cbn. exact Ht.
    + change (join [nl; nl] (t :: t2 :: ts')) with (t ++ [nl; nl] ++ join [nl; nl] (t2 :: ts')).
      cbn [app]. change (d :: ds) with ([d] ++ ds).
      apply (P_concat _ PL); [exact Ht|]. rewrite (P_blank _ PL). exact IH.
Qed.

(* parseability of the assembled text reduces to: the header parses, every piece is a definition *)
Lemma content_parses : forall P tp texts defs names,
    parse_src P = Some tp -> Forall2 (fun t d => parse_src t = Some [d]) texts defs ->
    forallb safe_name names = true ->
    parse_src (P ++ [nl] ++ join [nl; nl] texts ++ [nl] ++ all_text names)
    = Some (tp ++ defs ++ [TAll names (all_text names)]).
Proof.
  intros P tp texts defs names HP HT HN. cbn [app].
  apply (P_concat _ PL); [exact HP|]. apply (P_concat _ PL); [apply parse_join_defs; exact HT|].
  apply (P_all _ PL). exact HN.
Qed.

Lemma unparse_rest_parses : forall r h t,
    parse_src h = Some [t] -> Forall (wf_top parse_src) r -> parse_src (h ++ unparse_rest r) = Some (t :: r).
Proof.
  induction r as [|t2 r2 IH]; intros h t Hh Hr.
  - cbn. rewrite app_nil_r. exact Hh.
  - inversion Hr as [|x l Hw Hr2]; subst. destruct Hw as [Hw1 Hw2]. cbn [unparse_rest].
    specialize (IH (top_text t2) t2 Hw1 Hr2).
    unfold sep_before. destruct (is_def t2); cbn [app]; change (t :: t2 :: r2) with ([t] ++ t2 :: r2).
    + apply (P_concat _ PL); [exact Hh|]. rewrite (P_blank _ PL). exact IH.
    + apply (P_concat _ PL); [exact Hh|]. exact IH.
Qed.

(* the text ast.unparse writes for a module of round-tripping statements parses back to it *)
Lemma unparse_module_parses : forall m, Forall (wf_top parse_src) m -> parse_src (unparse_module m) = Some m.
Proof.
  intros [|t r] H; [apply (P_empty _ PL)|].
  inversion H as [|x l Hw Hr]; subst. destruct Hw as [_ Hw2]. cbn [unparse_module].
  apply unparse_rest_parses; assumption.
Qed.

(* ---- the header: the prepend argument followed by the import texts, one per line *)
Lemma parse_join_nl : forall tops, Forall (wf_top parse_src) tops ->
    parse_src (join [nl] (map top_text tops)) = Some tops.
Proof.
  intros tops H. induction H as [|t r [Ht _] Hr IH].
  - apply (P_empty _ PL).
  - destruct r as [|t2 r2].
    + cbn. exact Ht.
    + change (join [nl] (map top_text (t :: t2 :: r2)))
        with (top_text t ++ [nl] ++ join [nl] (map top_text (t2 :: r2))).
      cbn [app]. change (t :: t2 :: r2) with ([t] ++ t2 :: r2).
      apply (P_concat _ PL); [exact Ht|exact IH].
Qed.

Lemma file_imports_wf : forall gi, Forall (wf_top parse_src) (file_imports parse_src gi).
Proof.
  intros gi. unfold file_imports.
  destruct (gi_imports_from_file gi) as [[f|k]|]; try constructor.
  destruct (parse_src f) as [tops|] eqn:E; [|constructor].
  apply Forall_filter. apply (P_canon _ PL f). exact E.
Qed.

(* what parses to the statements of prepend: the text before the newline the prepend argument ends with *)
Lemma prepend_arg_shape : forall prepend ptops,
    match prepend with None => Some [] | Some p => parse_src p end = Some ptops ->
    (prepend_arg prepend = [] /\ ptops = [])
    \/ exists q, prepend_arg prepend = q ++ [nl] /\ parse_src q = Some ptops.
Proof.
  intros [p|] ptops H; cbn [prepend_arg].
  - destruct p as [|c p'].
    + left. rewrite (P_empty _ PL) in H. inversion H. split; reflexivity.
    + right. cbn [nonempty]. destruct (endswith [nl] (c :: p')) eqn:E.
      * apply endswith_iff in E. destruct E as [q Hq]. exists q. split; [exact Hq|].
        rewrite Hq in H. rewrite (P_trail _ PL) in H. exact H.
      * exists (c :: p'). split; [reflexivity|exact H].
  - left. inversion H. split; reflexivity.
Qed.

Lemma header_of_split : forall gi header, header_of parse_src gi = Some header ->
    exists ptops, match gi_prepend gi with None => Some [] | Some p => parse_src p end = Some ptops
                  /\ header = ptops ++ file_imports parse_src gi.
Proof.
  intros gi header H. unfold header_of in H. unfold file_imports.
  destruct (match gi_prepend gi with None => Some [] | Some p => parse_src p end) as [a|]; [|discriminate].
  destruct (gi_imports_from_file gi) as [[f|k]|].
  - destruct (parse_src f) as [tops|]; [|discriminate]. cbn in H. inversion H. exists a. split; reflexivity.
  - discriminate.
  - inversion H. exists a. split; reflexivity.
Qed.

(* the header parses to the statements of prepend followed by the imports, however many there are
   and whether or not prepend ends in a newline *)
Lemma header_parses : forall gi header,
    header_of parse_src gi = Some header ->
    parse_src (prepend_arg (gi_prepend gi) ++ imports_text parse_src gi) = Some header.
Proof.
  intros gi header HH.
  destruct (header_of_split gi header HH) as [ptops [HP E]]. subst header.
  pose proof (parse_join_nl _ (file_imports_wf gi)) as HI. fold (imports_text parse_src gi) in HI.
  destruct (prepend_arg_shape _ _ HP) as [[E1 E2]|[q [E1 E2]]]; rewrite E1.
  - subst ptops. cbn [app]. exact HI.
  - rewrite <- app_assoc. cbn [app]. apply (P_concat _ PL); assumption.
Qed.

(* ---- the first phase of gen under the domain conditions *)
Definition phase1_ok (gi : gen_in) : Prop :=
  (exists header, header_of parse_src gi = Some header)
  /\ gi_prepend_eval gi = None
  /\ (forall f p, gi_imports_from_file gi = Some f -> gi_prepend gi = Some p -> nonempty p = true ->
                  exists t, parse_src (strip p) = Some t).

Lemma imports_phase_ok : forall gi, phase1_ok gi ->
    snd (imports_phase parse_src gi) = GOk (imports_text parse_src gi).
Proof.
  intros gi [[header HH] [HE HS]]. unfold imports_phase, imports_text, file_imports.
  unfold header_of in HH.
  destruct (gi_imports_from_file gi) as [file|] eqn:EF; [|reflexivity].
  assert (R1 : exists tr1, (match gi_prepend gi with
       | Some p =>
         if nonempty p then
           match parse_src (strip p) with
           | None => ([EvParseSrc (strip p)], GErr xSyntaxError)
           | Some tops =>
             ([EvParseSrc (strip p); EvEvalImports (unparse_module (get_at_root_imports tops))],
              match gi_prepend_eval gi with Some k => GErr k | None => GOk tt end)
           end
         else ([], GOk tt)
       | None => ([], GOk tt)
       end) = (tr1, GOk tt)).
  { destruct (gi_prepend gi) as [p|] eqn:EP; [|eexists; reflexivity].
    destruct (nonempty p) eqn:NP; [|eexists; reflexivity].
    destruct (HS file p eq_refl eq_refl NP) as [t Ht]. rewrite Ht, HE. eexists; reflexivity. }
  destruct R1 as [tr1 R1]. rewrite R1.
  destruct file as [f|k].
  - destruct (parse_src f) as [tops|]; [reflexivity|].
    destruct (gi_prepend gi) as [p|]; [destruct (parse_src p)|]; discriminate.
  - destruct (gi_prepend gi) as [p|]; [destruct (parse_src p)|]; discriminate.
Qed.

(* ---- the emitted texts are definitions with the generated names *)
Lemma entries_defs : forall tpl es names,
    forallb (entry_wf parse_src tpl) es = true -> forallb is_emitted es = true ->
    names_of tpl es = GOk names ->
    exists defs, Forall2 (fun t d => parse_src t = Some [d]) (texts_of es) defs
                 /\ Forall2 is_def_named names defs
                 /\ forallb plain_stmt defs = true.
Proof.
  intros tpl es. induction es as [|e r IH]; intros names HW HE HN.
  - cbn in HN. inversion HN. exists []. repeat split; constructor.
  - destruct (names_of_cons tpl e r names HN) as [n [ns [E [Hn Hns]]]]. subst names.
    cbn in HW, HE. apply andb_true_iff in HW. destruct HW as [Hw Hwr].
    apply andb_true_iff in HE. destruct HE as [He Her].
    destruct (IH ns Hwr Her Hns) as [defs [H1 [H2 H3]]].
    unfold is_emitted in He. unfold entry_wf in Hw.
    destruct (e_res e) as [k| |k|text] eqn:ER; try discriminate He.
    rewrite Hn in Hw.
    destruct (parse_src text) as [[|[b s d|m s|c nm t'|nsx s|s] [|u us]]|] eqn:EP; try discriminate Hw.
    apply andb_true_iff in Hw. destruct Hw as [Hnm Ht]. apply str_eqb_eq in Hnm. apply str_eqb_eq in Ht. subst nm t'.
    exists (TDef c n text :: defs). split; [|split].
    + unfold texts_of. cbn [map]. rewrite ER. constructor; [exact EP|exact H1].
    + constructor; [exists c, text; reflexivity|exact H2].
    + cbn. exact H3.
Qed.

(* ---- gen in the proved region *)
Definition gen_conditions (gi : gen_in) (es : list entry) (names : list str) (header : list top) : Prop :=
  known_type (gi_type gi) = true
  /\ has_dot (gi_input_mapping gi) = true
  /\ phase1_ok gi
  /\ header_of parse_src gi = Some header
  /\ gi_mapping gi = GOk es
  /\ names_of (gi_name_tpl gi) es = GOk names
  /\ forallb safe_name names = true
  /\ forallb (entry_wf parse_src (gi_name_tpl gi)) es = true
  /\ forallb is_emitted es = true.

Lemma gen_in_guard : forall gi es names header,
    gen_conditions gi es names header ->
    exists g defs,
      snd (gen parse_src gi) = GOk g
      /\ g_all g = names
      /\ g_hoisted g = hoist header ++ defs ++ [TAll names (all_text names)]
      /\ g_written g = unparse_module (g_hoisted g)
      /\ parse_src (g_content g) = Some (header ++ defs ++ [TAll names (all_text names)])
      /\ parse_src (g_written g) = Some (g_hoisted g)
      /\ Forall2 is_def_named names defs.
Proof.
  intros gi es names header [HT [HD [HP1 [HH [HM [HN [HS [HW HE]]]]]]]].
  destruct (entries_defs _ es names HW HE HN) as [defs [Hdefs [Hnamed Hplain]]].
  pose proof (header_parses gi header HH) as HPh.
  pose proof (content_parses _ header (texts_of es) defs names HPh Hdefs HS) as HC.
  exists (mkGenOk (assemble (gi_prepend gi) (imports_text parse_src gi) (texts_of es) names)
                  (hoist (header ++ defs ++ [TAll names (all_text names)])) names
                  (unparse_module (hoist (header ++ defs ++ [TAll names (all_text names)])))), defs.
  assert (HCA : parse_src (assemble (gi_prepend gi) (imports_text parse_src gi) (texts_of es) names)
                = Some (header ++ defs ++ [TAll names (all_text names)])).
  { unfold assemble. rewrite app_assoc. exact HC. }
  assert (Hhoist : hoist (header ++ defs ++ [TAll names (all_text names)])
                   = hoist header ++ defs ++ [TAll names (all_text names)]).
  { apply hoist_app_plain. rewrite forallb_app, Hplain. reflexivity. }
  assert (Hwf : Forall (wf_top parse_src) (hoist (header ++ defs ++ [TAll names (all_text names)]))).
  { pose proof (P_canon _ PL _ _ HCA) as Hall. apply Forall_forall. intros t Ht.
    rewrite Forall_forall in Hall. apply Hall. eapply Permutation_in; [apply hoist_perm|exact Ht]. }
  cbn [g_all g_hoisted g_written g_content].
  split; [|split; [reflexivity|split; [exact Hhoist|split; [reflexivity|split; [exact HCA|split; [|exact Hnamed]]]]]].
  - unfold gen. rewrite HT. cbn [negb].
    pose proof (imports_phase_ok gi HP1) as HIP.
    destruct (imports_phase parse_src gi) as [tr1 imp]. cbn [snd] in HIP. subst imp.
    rewrite HD. cbn [negb]. rewrite HM.
    pose proof (run_entries_ok (gi_name_tpl gi) (gi_type gi) (gi_opts gi) es names HT HE HN) as HR.
    destruct (run_entries (gi_name_tpl gi) (gi_type gi) (gi_opts gi) es) as [tr2 r2]. cbn [snd] in HR. subst r2.
    rewrite HS. cbn [negb]. rewrite HCA. reflexivity.
  - apply unparse_module_parses. exact Hwf.
Qed.

End Python.

(* ================================================================== gen hoists what it parsed *)
Lemma gen_ok_inv : forall ps gi g, snd (gen ps gi) = GOk g ->
    exists body, ps (g_content g) = Some body /\ g_hoisted g = hoist body
                 /\ g_written g = unparse_module (hoist body).
Proof.
  intros ps gi g H. unfold gen in H.
  destruct (negb (known_type (gi_type gi))); [discriminate H|].
  destruct (imports_phase ps gi) as [tr1 imp]. destruct imp as [imports|k]; [|discriminate H].
  destruct (negb (has_dot (gi_input_mapping gi))); [discriminate H|].
  destruct (gi_mapping gi) as [es|k]; [|discriminate H].
  destruct (run_entries (gi_name_tpl gi) (gi_type gi) (gi_opts gi) es) as [tr2 r2].
  destruct r2 as [[names texts]|k]; [|discriminate H].
  destruct (negb (forallb safe_name names)); [discriminate H|].
  destruct (ps (assemble (gi_prepend gi) imports texts names)) as [body|] eqn:EP; [|discriminate H].
  cbn [snd] in H. inversion H. subst g. cbn. exists body. repeat split. exact EP.
Qed.

(* the hoisting theorem about gen itself, for any account of the parser and any number of
   statements, entries and imports *)
Lemma gen_hoisting : forall ps gi g, snd (gen ps gi) = GOk g ->
    exists body, ps (g_content g) = Some body
      /\ Permutation (g_hoisted g) body
      /\ filter nonimp (g_hoisted g) = filter nonimp body
      /\ filter is_import (g_hoisted g) = filter is_future body ++ filter is_plain_import body
      /\ (forall k, filter (rank_is k) (g_hoisted g) = filter (rank_is k) body)
      /\ (exists d, length d <= 1 /\ g_hoisted g = d ++ hoist3 (rest_part body)
                    /\ StronglySorted (fun a b => rank a <= rank b) (hoist3 (rest_part body)))
      /\ g_written g = unparse_module (g_hoisted g).
Proof.
  intros ps gi g H. destruct (gen_ok_inv ps gi g H) as [body [HB [HH HW]]].
  exists body. rewrite HH. split; [exact HB|].
  split; [apply hoist_perm|]. split; [apply hoist_keeps_nonimports|].
  split; [apply hoist_imports_order|]. split; [intros k; apply hoist_stable|].
  split; [|exact HW].
  destruct (hoist_sorted body) as [d [Hd [He [_ Hs]]]]. exists d. repeat split; assumption.
Qed.

(* ================================================================== C19: the proved region *)
Definition with_opts (gi : gen_in) (o : gen_opts) : gen_in :=
  mkGenIn (gi_name_tpl gi) (gi_input_mapping gi) (gi_mapping gi) (gi_type gi) (gi_prepend gi)
          (gi_imports_from_file gi) (gi_prepend_eval gi) o.

Lemma gen_conditions_opts : forall ps gi o es names header,
    gen_conditions ps gi es names header -> gen_conditions ps (with_opts gi o) es names header.
Proof. intros ps [a b c d e f g h] o es names header H. exact H. Qed.

Lemma header_of_opts : forall ps gi o, header_of ps (with_opts gi o) = header_of ps gi.
Proof. intros ps [a b c d e f g h] o. reflexivity. Qed.

Lemma cli_of_run : forall x,
    ci_via x = ViaCli -> known_type (gi_type (ci_gen x)) = true -> prepend_consistent x = true ->
    exists c o, cli_gen (cli_of x) false = CliRun c /\ gen_in_of_call c (ci_gen x) = with_opts (ci_gen x) o.
Proof.
  intros x HV HK HP. unfold prepend_consistent in HP. rewrite HV in HP.
  unfold cli_gen, cli_of. cbn [ca_name_tpl ca_input_mapping ca_type ca_output_filename ca_prepend
                                ca_imports_from_file ca_emit_call ca_decorators].
  rewrite HK. cbn [negb].
  destruct (ci_prepend_raw x) as [raw|]; destruct (gi_prepend (ci_gen x)) as [p|] eqn:EP; try discriminate HP.
  - destruct (decode_escape raw) as [p'|k]; [|discriminate HP]. apply str_eqb_eq in HP. subst p'.
    eexists. eexists. split; [reflexivity|]. unfold gen_in_of_call, with_opts. cbn. rewrite EP. reflexivity.
  - eexists. eexists. split; [reflexivity|]. unfold gen_in_of_call, with_opts. cbn. rewrite EP. reflexivity.
Qed.

Lemma domain_parts : forall ps x, C19_domain ps x = true ->
    known_type (gi_type (ci_gen x)) = true
    /\ has_dot (gi_input_mapping (ci_gen x)) = true
    /\ prepend_consistent x = true
    /\ (exists header, header_of ps (ci_gen x) = Some header)
    /\ gi_prepend_eval (ci_gen x) = None
    /\ (forall f p, gi_imports_from_file (ci_gen x) = Some f -> gi_prepend (ci_gen x) = Some p ->
                    nonempty p = true -> exists t, ps (strip p) = Some t)
    /\ exists es names, gi_mapping (ci_gen x) = GOk es
                        /\ names_of (gi_name_tpl (ci_gen x)) es = GOk names
                        /\ forallb safe_name names = true
                        /\ forallb (entry_wf ps (gi_name_tpl (ci_gen x))) es = true.
Proof.
  intros ps x H. unfold C19_domain in H.
  apply andb_true_iff in H; destruct H as [H Hm]. apply andb_true_iff in H; destruct H as [H Hf].
  apply andb_true_iff in H; destruct H as [H He]. apply andb_true_iff in H; destruct H as [H Hd].
  apply andb_true_iff in H; destruct H as [H Hc]. apply andb_true_iff in H; destruct H as [Ha Hb].
  split; [exact Ha|]. split; [exact Hb|]. split; [exact Hc|].
  split; [destruct (header_of ps (ci_gen x)) as [h|]; [exists h; reflexivity|discriminate]|].
  split; [destruct (gi_prepend_eval (ci_gen x)); [discriminate|reflexivity]|].
  split.
  - intros f p Hf1 Hp Hn. rewrite Hf1, Hp, Hn in Hf.
    destruct (ps (strip p)) as [t|]; [exists t; reflexivity|discriminate].
  - destruct (gi_mapping (ci_gen x)) as [es|k]; [|discriminate].
    apply andb_true_iff in Hm; destruct Hm as [Hm _]. apply andb_true_iff in Hm; destruct Hm as [Hn Hw].
    destruct (names_of (gi_name_tpl (ci_gen x)) es) as [names|k] eqn:EN; [|discriminate].
    exists es, names. repeat split; assumption.
Qed.

Theorem C19_partial_lemma : forall ps, python_like ps ->
    forall x, guard_C19 ps x = true -> C19_at ps x.
Proof.
  intros ps PL x G. unfold guard_C19 in G.
  apply andb_true_iff in G. destruct G as [G GE]. apply andb_true_iff in G. destruct G as [GD GC].
  destruct (domain_parts ps x GD) as [HK [HD [HPC [[header HH] [HEv [HS [es [names [HM [HN [HSafe HW]]]]]]]]]]].
  unfold C19_at. unfold finding_class_C19 in GC.
  destruct (ci_existing x) as [old|] eqn:EX.
  - destruct (ci_via x) eqn:EV; [discriminate GC|].
    apply (run_c19_cli_existing ps x old EV EX).
  - cbn [is_some orb] in GE. unfold entries_of in GE. rewrite HM in GE.
    assert (HC : gen_conditions ps (ci_gen x) es names header).
    { unfold gen_conditions. repeat split; try assumption. exists header. exact HH. }
    assert (Main : forall gi', gen_conditions ps gi' es names header ->
                   fst (run_c19 ps x) = snd (gen ps gi') -> snd (run_c19 ps x) = file_after None (snd (gen ps gi')) ->
                   exists g es0 names0 header0 hdr defs,
                     fst (run_c19 ps x) = GOk g /\ snd (run_c19 ps x) = Some (g_written g)
                     /\ gi_mapping (ci_gen x) = GOk es0
                     /\ names_of (gi_name_tpl (ci_gen x)) es0 = GOk names0 /\ g_all g = names0
                     /\ header_of ps (ci_gen x) = Some header0 /\ Permutation hdr header0
                     /\ ps (g_written g) = Some (hdr ++ defs ++ [TAll names0 (all_text names0)])
                     /\ Forall2 is_def_named names0 defs).
    { intros gi' HC' Hf Hs.
      destruct (gen_in_guard ps PL gi' es names header HC') as [g [defs [Hg [Ha [Hh [Hw [_ [Hp Hn]]]]]]]].
      exists g, es, names, header, (hoist header), defs.
      rewrite Hf, Hs, Hg. cbn [file_after app].
      repeat split; try assumption; try reflexivity.
      - apply hoist_perm.
      - rewrite Hp. rewrite Hh. reflexivity. }
    destruct (ci_via x) eqn:EV.
    + apply (Main (ci_gen x) HC); unfold run_c19; rewrite EV, EX; reflexivity.
    + destruct (cli_of_run x EV HK HPC) as [c [o [Hc Hgi]]].
      apply (Main (with_opts (ci_gen x) o) (gen_conditions_opts _ _ _ _ _ _ HC));
        unfold run_c19; rewrite EV, EX; cbn [is_some]; rewrite Hc, Hgi; reflexivity.
Qed.

(* class-free corollaries *)
Theorem C19_cli_refuses_lemma : forall ps x old,
    ci_via x = ViaCli -> ci_existing x = Some old -> C19_at ps x.
Proof.
  intros ps x old HV HE. unfold C19_at. rewrite HE. apply (run_c19_cli_existing ps x old HV HE).
Qed.

(* a fresh output, every entry converts: C19 holds, for each of the three types, whatever the
   number of entries, whatever the imports file holds and whether or not prepend ends in a newline *)
Theorem C19_all_entries_convert_lemma : forall ps, python_like ps -> forall x,
    C19_domain ps x = true -> ci_existing x = None ->
    forallb is_emitted (entries_of (ci_gen x)) = true ->
    C19_at ps x.
Proof.
  intros ps PL x HD HE HEm. apply (C19_partial_lemma ps PL). unfold guard_C19.
  rewrite HD, HEm, orb_true_r. cbn [andb]. unfold finding_class_C19. rewrite HE, HEm. reflexivity.
Qed.

(* the header of the assembled text, for any number of import statements *)
Theorem C19_header_parses_lemma : forall ps, python_like ps -> forall gi header,
    header_of ps gi = Some header ->
    ps (prepend_arg (gi_prepend gi) ++ imports_text ps gi) = Some header.
Proof. exact header_parses. Qed.

(* the names for templates  literal {name} literal *)
Lemma names_of_simple_template : forall pre post es,
    brace_free pre = true -> brace_free post = true ->
    names_of (pre ++ L "{name}" ++ post) es = GOk (map (fun e => pre ++ e_name e ++ post) es).
Proof.
  intros pre post es Hpre Hpost. induction es as [|e r IH]; [reflexivity|].
  cbn [names_of map]. rewrite (format_name_simple pre post (e_name e) Hpre Hpost), IH. reflexivity.
Qed.

(* ================================================================== C19: what is false of the code *)
Lemma run_c19_gen_err : forall ps x,
    ci_existing x = None ->
    (forall gi', gi_mapping gi' = gi_mapping (ci_gen x) -> exists k, snd (gen ps gi') = GErr k) ->
    exists k, fst (run_c19 ps x) = GErr k.
Proof.
  intros ps x HE HG. unfold run_c19. destruct (ci_via x).
  - cbn [fst]. apply HG; reflexivity.
  - rewrite HE. cbn [is_some].
    destruct (cli_gen (cli_of x) false) as [| k | c |] eqn:EC; cbn [fst]; try (eexists; reflexivity).
    apply HG; unfold gen_in_of_call; reflexivity.
Qed.

Lemma not_at_of_err : forall ps x, ci_existing x = None ->
    (exists k, fst (run_c19 ps x) = GErr k) -> ~ C19_at ps x.
Proof.
  intros ps x HE [k Hk] H. unfold C19_at in H. rewrite HE in H.
  destruct H as [g [es [names [header [hdr [defs [Hg _]]]]]]]. rewrite Hk in Hg. discriminate Hg.
Qed.

(* an entry whose conversion raises (annotated or undocumented callables, ...) ends the whole run *)
Theorem C19_fails_entry_lemma : forall ps x es,
    gi_mapping (ci_gen x) = GOk es -> forallb is_emitted es = false -> ci_existing x = None -> ~ C19_at ps x.
Proof.
  intros ps x es HM HEm HE. apply (not_at_of_err ps x HE). apply (run_c19_gen_err ps x HE).
  intros gi' Hm. apply (gen_fails_entry ps gi' es); [rewrite Hm; exact HM|exact HEm].
Qed.

(* gen() called directly appends to an existing output file whenever it succeeds *)
Theorem C19_api_appends_lemma : forall ps x old g,
    ci_via x = ViaApi -> ci_existing x = Some old -> snd (gen ps (ci_gen x)) = GOk g ->
    snd (run_c19 ps x) = Some (old ++ g_written g) /\ ~ C19_at ps x.
Proof.
  intros ps x old g HV HE HG. split.
  - unfold run_c19. rewrite HV, HE. cbn [snd]. rewrite HG. reflexivity.
  - intros H. unfold C19_at in H. rewrite HE in H. destruct H as [[k Hk] _].
    unfold run_c19 in Hk. rewrite HV in Hk. cbn [fst] in Hk. rewrite HG in Hk. discriminate Hk.
Qed.

(* witnesses *)
Definition opts0 : gen_opts := mkOpts false true None.
Definition feat0 : entry_feat := mkFeat true false 1 1 false false false.

(* one undocumented function: parse.function raises KeyError *)
Definition w_entry : c19_in :=
  mkC19 ViaApi (mkGenIn (L "{name}Config") (L "m.M") (GOk [mkEntry (L "f") true (ParseRaises xKeyError)])
                        (L "class") None None None opts0) None [feat0] None.

(* empty mapping written over an existing file through the API *)
Definition w_append : c19_in :=
  mkC19 ViaApi (mkGenIn (L "{name}Config") (L "m.M") (GOk []) (L "class") None None None opts0)
        None [] (Some (L "OLD = 1")).

Theorem C19_refuted_lemma : forall ps, python_like ps -> ~ C19_statement ps.
Proof.
  intros ps _ H. specialize (H w_entry eq_refl). revert H.
  apply (C19_fails_entry_lemma ps w_entry [mkEntry (L "f") true (ParseRaises xKeyError)]); reflexivity.
Qed.

Theorem C19_refuted_api_append_lemma : forall ps, python_like ps ->
    C19_domain ps w_append = true
    /\ snd (run_c19 ps w_append) = Some (L "OLD = 1" ++ L "__all__ = []")
    /\ ~ C19_at ps w_append.
Proof.
  intros ps PL. split; [reflexivity|].
  assert (HC : gen_conditions ps (ci_gen w_append) [] [] []).
  { unfold gen_conditions, phase1_ok. cbn. repeat split; try reflexivity.
    - exists []. reflexivity.
    - intros f p Hf. discriminate Hf. }
  destruct (gen_in_guard ps PL _ _ _ _ HC) as [g [defs [Hg [_ [Hh [Hw [_ [_ Hn]]]]]]]].
  inversion Hn. subst defs.
  destruct (C19_api_appends_lemma ps w_append (L "OLD = 1") g eq_refl eq_refl Hg) as [Hs Hn'].
  split; [|exact Hn']. rewrite Hs, Hw, Hh. reflexivity.
Qed.


(* ================================================================== witnesses taken from real runs *)
(* Generated from the recorded inputs of the real runs of harness/prop_C19.py:witnesses (the module name
   verif_genin_<uid> replaced by m): tables of what ast.parse returned, per-entry results of parse/emit.
   Each Example is checked by computation; the same cases are re-run on the real code by the oracle. *)
Definition w_api_appends_tab : parse_table :=
  [((L "['AConfig']"), (Some [(TOther (L "['AConfig']"))])); ((L "
class AConfig(object):
    """"""
    The A class.

    :cvar x: the x. Defaults to 5""""""
    x: int = 5
__all__ = ['AConfig']"), (Some [(TDef true (L "AConfig") (L "class AConfig(object):
    """"""
    The A class.

    :cvar x: the x. Defaults to 5""""""
    x: int = 5")); (TAll [(L "AConfig")] (L "__all__ = ['AConfig']"))])); ((L "class AConfig(object):
    """"""
    The A class.

    :cvar x: the x. Defaults to 5""""""
    x: int = 5"), (Some [(TDef true (L "AConfig") (L "class AConfig(object):
    """"""
    The A class.

    :cvar x: the x. Defaults to 5""""""
    x: int = 5"))]))].

Definition w_api_appends : c19_in :=
  mkC19 ViaApi
    (mkGenIn (L "{name}Config") (L "m.M") (GOk [(mkEntry (L "A") false (Emitted (L "class AConfig(object):
    """"""
    The A class.

    :cvar x: the x. Defaults to 5""""""
    x: int = 5")))]) (L "class") None None None (mkOpts false true None))
    None [(mkFeat false true 1 0 true false false)] (Some (L "OLD = 1
")).

Example w_api_appends_fails :
  C19_domain (table_parse w_api_appends_tab) w_api_appends = true
  /\ finding_class_C19 (table_parse w_api_appends_tab) w_api_appends = Some K_api_appends
  /\ snd (run_c19 (table_parse w_api_appends_tab) w_api_appends) = Some (L "OLD = 1
class AConfig(object):
    """"""
    The A class.

    :cvar x: the x. Defaults to 5""""""
    x: int = 5
__all__ = ['AConfig']").
Proof. vm_compute. repeat split; reflexivity. Qed.

Definition w_undocumented_tab : parse_table :=
  [].

Definition w_undocumented : c19_in :=
  mkC19 ViaApi
    (mkGenIn (L "{name}Config") (L "m.M") (GOk [(mkEntry (L "f") true (ParseRaises (L "KeyError")))]) (L "class") None None None (mkOpts false true None))
    None [(mkFeat true false 1 1 false false false)] None.

Example w_undocumented_fails :
  C19_domain (table_parse w_undocumented_tab) w_undocumented = true
  /\ finding_class_C19 (table_parse w_undocumented_tab) w_undocumented = Some K_entry_undocumented
  /\ fst (run_c19 (table_parse w_undocumented_tab) w_undocumented) = GErr (L "KeyError").
Proof. vm_compute. repeat split; reflexivity. Qed.

Definition w_no_params_tab : parse_table :=
  [].

Definition w_no_params : c19_in :=
  mkC19 ViaApi
    (mkGenIn (L "{name}Config") (L "m.M") (GOk [(mkEntry (L "f") true (ParseRaises (L "StopIteration")))]) (L "class") None None None (mkOpts false true None))
    None [(mkFeat true true 0 0 false false false)] None.

Example w_no_params_fails :
  C19_domain (table_parse w_no_params_tab) w_no_params = true
  /\ finding_class_C19 (table_parse w_no_params_tab) w_no_params = Some K_entry_no_params
  /\ fst (run_c19 (table_parse w_no_params_tab) w_no_params) = GErr (L "RuntimeError").
Proof. vm_compute. repeat split; reflexivity. Qed.

Definition w_returns_argparse_tab : parse_table :=
  [].

Definition w_returns_argparse : c19_in :=
  mkC19 ViaApi
    (mkGenIn (L "{name}Config") (L "m.M") (GOk [(mkEntry (L "f") true (EmitRaises (L "TypeError")))]) (L "argparse") None None None (mkOpts false true None))
    None [(mkFeat true true 1 1 true false true)] None.

Example w_returns_argparse_fails :
  C19_domain (table_parse w_returns_argparse_tab) w_returns_argparse = true
  /\ finding_class_C19 (table_parse w_returns_argparse_tab) w_returns_argparse = Some K_entry_returns_argparse
  /\ fst (run_c19 (table_parse w_returns_argparse_tab) w_returns_argparse) = GErr (L "TypeError").
Proof. vm_compute. repeat split; reflexivity. Qed.

Definition w_returns_function_tab : parse_table :=
  [].

Definition w_returns_function : c19_in :=
  mkC19 ViaApi
    (mkGenIn (L "{name}Config") (L "m.M") (GOk [(mkEntry (L "f") true (EmitRaises (L "AttributeError")))]) (L "function") None None None (mkOpts false true None))
    None [(mkFeat true true 1 1 true false true)] None.

Example w_returns_function_fails :
  C19_domain (table_parse w_returns_function_tab) w_returns_function = true
  /\ finding_class_C19 (table_parse w_returns_function_tab) w_returns_function = Some K_entry_returns_function
  /\ fst (run_c19 (table_parse w_returns_function_tab) w_returns_function) = GErr (L "AttributeError").
Proof. vm_compute. repeat split; reflexivity. Qed.

Definition w_annotated_tab : parse_table :=
  [].

Definition w_annotated : c19_in :=
  mkC19 ViaApi
    (mkGenIn (L "{name}Config") (L "m.M") (GOk [(mkEntry (L "f") true (EmitRaises (L "SyntaxError")))]) (L "class") None None None (mkOpts false true None))
    None [(mkFeat true true 1 1 true true false)] None.

Example w_annotated_fails :
  C19_domain (table_parse w_annotated_tab) w_annotated = true
  /\ finding_class_C19 (table_parse w_annotated_tab) w_annotated = Some K_entry_annotated
  /\ fst (run_c19 (table_parse w_annotated_tab) w_annotated) = GErr (L "SyntaxError").
Proof. vm_compute. repeat split; reflexivity. Qed.

Definition w_untyped_param_tab : parse_table :=
  [].

Definition w_untyped_param : c19_in :=
  mkC19 ViaApi
    (mkGenIn (L "{name}Config") (L "m.M") (GOk [(mkEntry (L "f") true (EmitRaises (L "TypeError")))]) (L "function") None None None (mkOpts false true None))
    None [(mkFeat true true 1 1 false false false)] None.

Example w_untyped_param_fails :
  C19_domain (table_parse w_untyped_param_tab) w_untyped_param = true
  /\ finding_class_C19 (table_parse w_untyped_param_tab) w_untyped_param = Some K_entry_untyped_param
  /\ fst (run_c19 (table_parse w_untyped_param_tab) w_untyped_param) = GErr (L "TypeError").
Proof. vm_compute. repeat split; reflexivity. Qed.

Definition w_in_guard_tab : parse_table :=
  [((L "import os
import sys

class A(object):
    """"""
    The A class.
    """"""

    def __init__(self, x=5):
        """"""
        Do the A thing.

        :param x: the x
        :type x: ```int```
        """"""
        self.x = x


def f(a, b=2):
    """"""
    Do the f thing.

    :param a: the a
    :type a: ```int```

    :param b: the b
    :type b: ```int```
    """"""
    pass

M = {'A': A, 'f': f}
"), (Some [(TImport None (L "import os")); (TImport None (L "import sys")); (TDef true (L "A") (L "class A(object):
    """"""
    The A class.
    """"""

    def __init__(self, x=5):
        """"""
        Do the A thing.

        :param x: the x
        :type x: ```int```
        """"""
        self.x = x")); (TDef false (L "f") (L "def f(a, b=2):
    """"""
    Do the f thing.

    :param a: the a
    :type a: ```int```

    :param b: the b
    :type b: ```int```
    """"""
    pass")); (TOther (L "M = {'A': A, 'f': f}"))])); ((L """""""Generated.""""""
X = 1"), (Some [(TStr true (L "'Generated.'") (L """""""Generated.""""""")); (TOther (L "X = 1"))])); ((L "['AConfig', 'fConfig']"), (Some [(TOther (L "['AConfig', 'fConfig']"))])); ((L """""""Generated.""""""
X = 1
import os
import sys
class AConfig(object):
    """"""
    The A class.

    :cvar x: the x. Defaults to 5""""""
    x: int = 5

class fConfig(object):
    """"""
    Do the f thing.

    :cvar a: the a
    :cvar b: the b. Defaults to 2""""""
    a: int = 0
    b: int = 2
__all__ = ['AConfig', 'fConfig']"), (Some [(TStr true (L "'Generated.'") (L """""""Generated.""""""")); (TOther (L "X = 1")); (TImport None (L "import os")); (TImport None (L "import sys")); (TDef true (L "AConfig") (L "class AConfig(object):
    """"""
    The A class.

    :cvar x: the x. Defaults to 5""""""
    x: int = 5")); (TDef true (L "fConfig") (L "class fConfig(object):
    """"""
    Do the f thing.

    :cvar a: the a
    :cvar b: the b. Defaults to 2""""""
    a: int = 0
    b: int = 2")); (TAll [(L "AConfig"); (L "fConfig")] (L "__all__ = ['AConfig', 'fConfig']"))])); ((L "class AConfig(object):
    """"""
    The A class.

    :cvar x: the x. Defaults to 5""""""
    x: int = 5"), (Some [(TDef true (L "AConfig") (L "class AConfig(object):
    """"""
    The A class.

    :cvar x: the x. Defaults to 5""""""
    x: int = 5"))])); ((L "class fConfig(object):
    """"""
    Do the f thing.

    :cvar a: the a
    :cvar b: the b. Defaults to 2""""""
    a: int = 0
    b: int = 2"), (Some [(TDef true (L "fConfig") (L "class fConfig(object):
    """"""
    Do the f thing.

    :cvar a: the a
    :cvar b: the b. Defaults to 2""""""
    a: int = 0
    b: int = 2"))]))].

Definition w_in_guard : c19_in :=
  mkC19 ViaApi
    (mkGenIn (L "{name}Config") (L "m.M") (GOk [(mkEntry (L "A") false (Emitted (L "class AConfig(object):
    """"""
    The A class.

    :cvar x: the x. Defaults to 5""""""
    x: int = 5"))); (mkEntry (L "f") true (Emitted (L "class fConfig(object):
    """"""
    Do the f thing.

    :cvar a: the a
    :cvar b: the b. Defaults to 2""""""
    a: int = 0
    b: int = 2")))]) (L "class") (Some (L """""""Generated.""""""
X = 1")) (Some (GOk (L "import os
import sys

class A(object):
    """"""
    The A class.
    """"""

    def __init__(self, x=5):
        """"""
        Do the A thing.

        :param x: the x
        :type x: ```int```
        """"""
        self.x = x


def f(a, b=2):
    """"""
    Do the f thing.

    :param a: the a
    :type a: ```int```

    :param b: the b
    :type b: ```int```
    """"""
    pass

M = {'A': A, 'f': f}
"))) None (mkOpts false true None))
    None [(mkFeat false true 1 0 true false false); (mkFeat true true 2 1 true false false)] None.

Example w_in_guard_in_guard :
  guard_C19 (table_parse w_in_guard_tab) w_in_guard = true
  /\ snd (run_c19 (table_parse w_in_guard_tab) w_in_guard) = Some (L """""""Generated.""""""
import os
import sys
X = 1

class AConfig(object):
    """"""
    The A class.

    :cvar x: the x. Defaults to 5""""""
    x: int = 5

class fConfig(object):
    """"""
    Do the f thing.

    :cvar a: the a
    :cvar b: the b. Defaults to 2""""""
    a: int = 0
    b: int = 2
__all__ = ['AConfig', 'fConfig']").
Proof. vm_compute. split; reflexivity. Qed.

Definition w_in_guard_function_tab : parse_table :=
  [((L "import os
import sys

class A(object):
    """"""
    The A class.
    """"""

    def __init__(self, x=5):
        """"""
        Do the A thing.

        :param x: the x
        :type x: ```int```
        """"""
        self.x = x


def f(a, b=2):
    """"""
    Do the f thing.

    :param a: the a
    :type a: ```int```

    :param b: the b
    :type b: ```int```
    """"""
    pass

M = {'A': A, 'f': f}
"), (Some [(TImport None (L "import os")); (TImport None (L "import sys")); (TDef true (L "A") (L "class A(object):
    """"""
    The A class.
    """"""

    def __init__(self, x=5):
        """"""
        Do the A thing.

        :param x: the x
        :type x: ```int```
        """"""
        self.x = x")); (TDef false (L "f") (L "def f(a, b=2):
    """"""
    Do the f thing.

    :param a: the a
    :type a: ```int```

    :param b: the b
    :type b: ```int```
    """"""
    pass")); (TOther (L "M = {'A': A, 'f': f}"))])); ((L "PI = 3"), (Some [(TOther (L "PI = 3"))])); ((L "['AConfig', 'fConfig']"), (Some [(TOther (L "['AConfig', 'fConfig']"))])); ((L "PI = 3
import os
import sys
def AConfig(*, x: int=5):
    """"""
The A class.

:param x: the x. Defaults to 5
        
""""""

def fConfig(*, a: int=None, b: int=2):
    """"""
Do the f thing.

:param a: the a
        
:param b: the b. Defaults to 2
        
""""""
__all__ = ['AConfig', 'fConfig']"), (Some [(TOther (L "PI = 3")); (TImport None (L "import os")); (TImport None (L "import sys")); (TDef false (L "AConfig") (L "def AConfig(*, x: int=5):
    """"""
The A class.

:param x: the x. Defaults to 5
        
""""""")); (TDef false (L "fConfig") (L "def fConfig(*, a: int=None, b: int=2):
    """"""
Do the f thing.

:param a: the a
        
:param b: the b. Defaults to 2
        
""""""")); (TAll [(L "AConfig"); (L "fConfig")] (L "__all__ = ['AConfig', 'fConfig']"))])); ((L "def AConfig(*, x: int=5):
    """"""
The A class.

:param x: the x. Defaults to 5
        
"""""""), (Some [(TDef false (L "AConfig") (L "def AConfig(*, x: int=5):
    """"""
The A class.

:param x: the x. Defaults to 5
        
"""""""))])); ((L "def fConfig(*, a: int=None, b: int=2):
    """"""
Do the f thing.

:param a: the a
        
:param b: the b. Defaults to 2
        
"""""""), (Some [(TDef false (L "fConfig") (L "def fConfig(*, a: int=None, b: int=2):
    """"""
Do the f thing.

:param a: the a
        
:param b: the b. Defaults to 2
        
"""""""))]))].

Definition w_in_guard_function : c19_in :=
  mkC19 ViaApi
    (mkGenIn (L "{name}Config") (L "m.M") (GOk [(mkEntry (L "A") false (Emitted (L "def AConfig(*, x: int=5):
    """"""
The A class.

:param x: the x. Defaults to 5
        
"""""""))); (mkEntry (L "f") true (Emitted (L "def fConfig(*, a: int=None, b: int=2):
    """"""
Do the f thing.

:param a: the a
        
:param b: the b. Defaults to 2
        
""""""")))]) (L "function") (Some (L "PI = 3")) (Some (GOk (L "import os
import sys

class A(object):
    """"""
    The A class.
    """"""

    def __init__(self, x=5):
        """"""
        Do the A thing.

        :param x: the x
        :type x: ```int```
        """"""
        self.x = x


def f(a, b=2):
    """"""
    Do the f thing.

    :param a: the a
    :type a: ```int```

    :param b: the b
    :type b: ```int```
    """"""
    pass

M = {'A': A, 'f': f}
"))) None (mkOpts false true None))
    None [(mkFeat false true 1 0 true false false); (mkFeat true true 2 1 true false false)] None.

Example w_in_guard_function_in_guard :
  guard_C19 (table_parse w_in_guard_function_tab) w_in_guard_function = true
  /\ snd (run_c19 (table_parse w_in_guard_function_tab) w_in_guard_function) = Some (L "import os
import sys
PI = 3

def AConfig(*, x: int=5):
    """"""
The A class.

:param x: the x. Defaults to 5
        
""""""

def fConfig(*, a: int=None, b: int=2):
    """"""
Do the f thing.

:param a: the a
        
:param b: the b. Defaults to 2
        
""""""
__all__ = ['AConfig', 'fConfig']").
Proof. vm_compute. split; reflexivity. Qed.


(* ================================================================== python_like is satisfiable *)
(* A small line-based parser that has every property listed in python_like, so the hypotheses
   of the theorems above are consistent.  It accepts blank lines, lines  import <word>  and lines starting
   with  __all__ = [ ; everything else is a syntax error. *)
Fixpoint lines_aux (s cur : str) : list str :=
  match s with
  | [] => [cur]
  | c :: r => if ascii_eqb c nl then cur :: lines_aux r [] else lines_aux r (cur ++ [c])
  end.
Definition lines (s : str) : list str := lines_aux s [].

Definition no_nl (s : str) : bool := forallb (fun c => negb (ascii_eqb c nl)) s.
Definition no_space (s : str) : bool := forallb (fun c => negb (ascii_eqb c sp)) s.
Definition quote_free (s : str) : bool := forallb (fun c => negb (ascii_eqb c (ch 39))) s.

(* the texts between the 1st and 2nd, 3rd and 4th, ... single quote *)
Fixpoint segs (s : str) (inside : bool) (cur : str) : list str :=
  match s with
  | [] => []
  | c :: r =>
    if ascii_eqb c (ch 39) then (if inside then cur :: segs r false [] else segs r true [])
    else segs r inside (if inside then cur ++ [c] else cur)
  end.

Definition toy_line (l : str) : option (list top) :=
  match l with
  | [] => Some []
  | _ =>
    if startswith (L "import ") l then
      (if no_space (skipn 7 l) then Some [TImport None l] else None)
    else if startswith (L "__all__ = [") l then Some [TAll (segs l false []) l]
    else None
  end.

Fixpoint toy_lines (ls : list str) : option (list top) :=
  match ls with
  | [] => Some []
  | l :: r =>
    match toy_line l, toy_lines r with
    | Some a, Some b => Some (a ++ b)
    | _, _ => None
    end
  end.

Definition toy_parse (s : str) : option (list top) := toy_lines (lines s).

Lemma lines_aux_app_nl : forall a b cur, lines_aux (a ++ nl :: b) cur = lines_aux a cur ++ lines_aux b [].
Proof.
  induction a as [|c a' IH]; intros b cur.
  - cbn [app lines_aux]. rewrite ascii_eqb_refl. reflexivity.
  - cbn [app lines_aux]. destruct (ascii_eqb c nl); [cbn [app]; rewrite IH; reflexivity|apply IH].
Qed.

Lemma lines_aux_no_nl : forall s cur, no_nl s = true -> lines_aux s cur = [cur ++ s].
Proof.
  induction s as [|c r IH]; intros cur H.
  - cbn. rewrite app_nil_r. reflexivity.
  - unfold no_nl in H. cbn [forallb] in H. apply andb_true_iff in H. destruct H as [Hc Hr].
    fold (no_nl r) in Hr. apply negb_true_iff in Hc.
    cbn [lines_aux]. rewrite Hc, (IH _ Hr), <- app_assoc. reflexivity.
Qed.

Lemma lines_aux_prefix : forall u v cur, no_nl u = true -> lines_aux (u ++ v) cur = lines_aux v (cur ++ u).
Proof.
  induction u as [|c r IH]; intros v cur H.
  - cbn. rewrite app_nil_r. reflexivity.
  - unfold no_nl in H. cbn [forallb] in H. apply andb_true_iff in H. destruct H as [Hc Hr].
    fold (no_nl r) in Hr. apply negb_true_iff in Hc.
    cbn [app lines_aux]. rewrite Hc, (IH _ _ Hr), <- app_assoc. reflexivity.
Qed.

Lemma lines_aux_head : forall v cur, exists h t, lines_aux v cur = (cur ++ h) :: t /\ no_nl h = true.
Proof.
  induction v as [|c r IH]; intros cur.
  - exists [], []. cbn. rewrite app_nil_r. split; reflexivity.
  - cbn [lines_aux]. destruct (ascii_eqb c nl) eqn:E.
    + exists [], (lines_aux r []). rewrite app_nil_r. split; reflexivity.
    + destruct (IH (cur ++ [c])) as [h [t [Hl Hh]]]. exists (c :: h), t. rewrite Hl, <- app_assoc.
      split; [reflexivity|]. unfold no_nl. cbn [forallb]. fold (no_nl h). rewrite E, Hh. reflexivity.
Qed.

Lemma no_nl_app : forall a b, no_nl (a ++ b) = no_nl a && no_nl b.
Proof. intros a b. unfold no_nl. apply forallb_app. Qed.

Lemma lines_aux_elems : forall s cur, no_nl cur = true -> Forall (fun l => no_nl l = true) (lines_aux s cur).
Proof.
  induction s as [|c r IH]; intros cur H.
  - constructor; [exact H|constructor].
  - cbn [lines_aux]. destruct (ascii_eqb c nl) eqn:E.
    + constructor; [exact H|apply IH; reflexivity].
    + apply IH. rewrite no_nl_app, H. unfold no_nl. cbn [forallb]. rewrite E. reflexivity.
Qed.

Lemma toy_lines_app : forall x y,
    toy_lines (x ++ y) = match toy_lines x, toy_lines y with
                         | Some a, Some b => Some (a ++ b)
                         | _, _ => None
                         end.
Proof.
  induction x as [|l r IH]; intros y.
  - cbn. destruct (toy_lines y); reflexivity.
  - cbn [app toy_lines]. rewrite IH. destruct (toy_line l) as [a|]; [|reflexivity].
    destruct (toy_lines r) as [b|]; [|reflexivity]. destruct (toy_lines y) as [c|]; [|reflexivity].
    rewrite app_assoc. reflexivity.
Qed.

Lemma toy_parse_single : forall l, no_nl l = true -> toy_parse l = match toy_line l with Some a => Some (a ++ []) | None => None end.
Proof.
  intros l H. unfold toy_parse, lines. rewrite (lines_aux_no_nl l [] H). cbn [app toy_lines].
  destruct (toy_line l); reflexivity.
Qed.

Lemma toy_line_wf : forall l tops, no_nl l = true -> toy_line l = Some tops -> Forall (wf_top toy_parse) tops.
Proof.
  intros l tops Hl H.
  assert (HP : toy_parse l = Some (tops ++ [])) by (rewrite (toy_parse_single l Hl), H; reflexivity).
  rewrite app_nil_r in HP.
  unfold toy_line in H. destruct l as [|c r]; [inversion H; constructor|].
  destruct (startswith (L "import ") (c :: r)).
  - destruct (no_space (skipn 7 (c :: r))); [|discriminate H]. inversion H. subst tops.
    constructor; [split; exact HP|constructor].
  - destruct (startswith (L "__all__ = [") (c :: r)); [|discriminate H]. inversion H. subst tops.
    constructor; [split; exact HP|constructor].
Qed.

Lemma toy_lines_wf : forall ls tops, Forall (fun l => no_nl l = true) ls -> toy_lines ls = Some tops ->
    Forall (wf_top toy_parse) tops.
Proof.
  induction ls as [|l r IH]; intros tops Hn H.
  - inversion H. constructor.
  - inversion Hn as [|x y Hl Hr]; subst. cbn [toy_lines] in H.
    destruct (toy_line l) as [a|] eqn:Ea; [|discriminate H].
    destruct (toy_lines r) as [b|] eqn:Eb; [|discriminate H]. inversion H. subst tops.
    apply Forall_app. split; [apply (toy_line_wf l a Hl Ea)|apply (IH b Hr eq_refl)].
Qed.

Lemma segs_outside_quote_free : forall s, quote_free s = true -> forall r, segs (s ++ r) false [] = segs r false [].
Proof.
  induction s as [|c s' IH]; intros H r; [reflexivity|].
  unfold quote_free in H. cbn [forallb] in H. apply andb_true_iff in H. destruct H as [Hc Hs].
  fold (quote_free s') in Hs. apply negb_true_iff in Hc.
  cbn [app segs]. rewrite Hc. apply IH. exact Hs.
Qed.

Lemma segs_inside : forall n cur r, quote_free n = true ->
    segs (n ++ ch 39 :: r) true cur = (cur ++ n) :: segs r false [].
Proof.
  induction n as [|c n' IH]; intros cur r H.
  - cbn [app segs]. rewrite ascii_eqb_refl, app_nil_r. reflexivity.
  - unfold quote_free in H. cbn [forallb] in H. apply andb_true_iff in H. destruct H as [Hc Hn].
    fold (quote_free n') in Hn. apply negb_true_iff in Hc.
    cbn [app segs]. rewrite Hc, (IH _ _ Hn), <- app_assoc. reflexivity.
Qed.

Lemma segs_quote1 : forall n r, quote_free n = true -> segs (quote1 n ++ r) false [] = n :: segs r false [].
Proof.
  intros n r H. unfold quote1. cbn [app segs]. rewrite ascii_eqb_refl.
  rewrite <- app_assoc. cbn [app]. rewrite (segs_inside n [] r H). reflexivity.
Qed.

Lemma segs_items : forall names tail, forallb quote_free names = true -> quote_free tail = true ->
    segs (join (L ", ") (map quote1 names) ++ tail) false [] = names.
Proof.
  induction names as [|n r IH]; intros tail Hn Ht.
  - cbn [map join app]. rewrite <- (app_nil_r tail). rewrite (segs_outside_quote_free tail Ht []). reflexivity.
  - cbn in Hn. apply andb_true_iff in Hn. destruct Hn as [Hq Hr]. destruct r as [|n2 r2].
    + cbn [map join]. rewrite (segs_quote1 n tail Hq). f_equal.
      rewrite <- (app_nil_r tail). rewrite (segs_outside_quote_free tail Ht []). reflexivity.
    + change (join (L ", ") (map quote1 (n :: n2 :: r2)))
        with (quote1 n ++ L ", " ++ join (L ", ") (map quote1 (n2 :: r2))).
      rewrite <- !app_assoc. rewrite (segs_quote1 n _ Hq). f_equal.
      rewrite (segs_outside_quote_free (L ", ") eq_refl). apply IH; assumption.
Qed.

Lemma safe_name_facts : forall n, safe_name n = true -> quote_free n = true /\ no_nl n = true.
Proof.
  induction n as [|c r IH]; intros H; [split; reflexivity|].
  cbn [safe_name forallb] in H. apply andb_true_iff in H. destruct H as [Hc Hr].
  destruct (IH Hr) as [Hq Hn]. unfold safe_char in Hc.
  apply andb_true_iff in Hc. destruct Hc as [Hc1 Hc3]. apply andb_true_iff in Hc1. destruct Hc1 as [Hc1 Hc2].
  apply negb_true_iff in Hc3. apply orb_false_iff in Hc3. destruct Hc3 as [Hm _].
  unfold quote_free, no_nl. cbn [forallb]. fold (quote_free r). fold (no_nl r).
  rewrite Hq, Hn, !andb_true_r. split.
  - apply negb_true_iff. unfold mem_c in Hm. cbn [L String.list_ascii_of_string existsb] in Hm.
    apply orb_false_iff in Hm. apply Hm.
  - apply negb_true_iff. apply ascii_eqb_neq. intros E. subst c. cbn in Hc1. discriminate Hc1.
Qed.

Lemma toy_line_all : forall l, startswith (L "__all__ = [") l = true ->
    toy_line l = Some [TAll (segs l false []) l].
Proof.
  intros l H. apply startswith_iff in H. destruct H as [r Hr]. subst l. reflexivity.
Qed.

Lemma no_nl_quote1 : forall n, no_nl n = true -> no_nl (quote1 n) = true.
Proof.
  intros n H. unfold quote1, no_nl in *. cbn [forallb]. rewrite forallb_app, H. reflexivity.
Qed.

Lemma no_nl_items : forall names, forallb no_nl names = true -> no_nl (join (L ", ") (map quote1 names)) = true.
Proof.
  induction names as [|n r IH]; intros H; [reflexivity|].
  cbn [forallb] in H. apply andb_true_iff in H. destruct H as [Hn Hr]. destruct r as [|n2 r2].
  - cbn [map join]. apply no_nl_quote1. exact Hn.
  - change (join (L ", ") (map quote1 (n :: n2 :: r2)))
      with (quote1 n ++ L ", " ++ join (L ", ") (map quote1 (n2 :: r2))).
    rewrite !no_nl_app, (no_nl_quote1 n Hn), (IH Hr). reflexivity.
Qed.

Lemma toy_all : forall names, forallb safe_name names = true ->
    toy_parse (all_text names) = Some [TAll names (all_text names)].
Proof.
  intros names H.
  assert (HQ : forallb quote_free names = true /\ forallb no_nl names = true).
  { induction names as [|n r IH]; [split; reflexivity|].
    cbn in H. apply andb_true_iff in H. destruct H as [Hn Hr]. destruct (IH Hr) as [A B].
    destruct (safe_name_facts n Hn) as [C D]. cbn. rewrite A, B, C, D. split; reflexivity. }
  destruct HQ as [HQ HN].
  assert (Hnl : no_nl (all_text names) = true).
  { unfold all_text. rewrite !no_nl_app, (no_nl_items names HN). reflexivity. }
  rewrite (toy_parse_single _ Hnl).
  assert (HS : segs (all_text names) false [] = names).
  { unfold all_text. rewrite (segs_outside_quote_free (L "__all__ = [") eq_refl).
    apply segs_items; [exact HQ|reflexivity]. }
  rewrite (toy_line_all (all_text names)) by (unfold all_text; apply startswith_app).
  rewrite HS. reflexivity.
Qed.

Theorem python_like_toy : python_like toy_parse.
Proof.
  constructor.
  - reflexivity.
  - intros a b ta tb Ha Hb. unfold toy_parse, lines in *.
    rewrite lines_aux_app_nl, toy_lines_app, Ha, Hb. reflexivity.
  - intros b. unfold toy_parse, lines. cbn [lines_aux]. rewrite ascii_eqb_refl. cbn [toy_lines toy_line].
    destruct (toy_lines (lines_aux b [])); reflexivity.
  - intros a. unfold toy_parse, lines. rewrite lines_aux_app_nl, toy_lines_app. cbn.
    destruct (toy_lines (lines_aux a [])) as [t|]; [rewrite app_nil_r|]; reflexivity.
  - intros s tops H. unfold toy_parse in H. apply (toy_lines_wf (lines s)); [|exact H].
    apply lines_aux_elems. reflexivity.
  - exact toy_all.
Qed.

(* the toy parser does produce import statements *)
Example toy_parses_imports :
  toy_parse (L "import os" ++ [nl] ++ L "import sys" ++ [nl]) = Some [TImport None (L "import os"); TImport None (L "import sys")]
  /\ toy_parse (L "import os" ++ L "import sys") = None.
Proof. vm_compute. split; reflexivity. Qed.

(* consequently the refutation is not vacuous: there is a Python-like parser, and C19 fails for it *)
Theorem C19_refuted_nonvacuous : exists ps, python_like ps /\ ~ C19_statement ps.
Proof. exists toy_parse. split; [exact python_like_toy|apply C19_refuted_lemma; exact python_like_toy]. Qed.

(* derived forms of some instances, as stated in props/C19.v *)
Lemma C19_nonvacuous_lemma :
  guard_C19 (table_parse w_in_guard_tab) w_in_guard = true
  /\ exists written, snd (run_c19 (table_parse w_in_guard_tab) w_in_guard) = Some written.
Proof. split; [exact (proj1 w_in_guard_in_guard)|eexists; exact (proj2 w_in_guard_in_guard)]. Qed.

Lemma C19_nonvacuous_function_lemma :
  guard_C19 (table_parse w_in_guard_function_tab) w_in_guard_function = true
  /\ exists written, snd (run_c19 (table_parse w_in_guard_function_tab) w_in_guard_function) = Some written.
Proof. split; [exact (proj1 w_in_guard_function_in_guard)|eexists; exact (proj2 w_in_guard_function_in_guard)]. Qed.

Lemma C19_witness_api_appends_lemma :
  C19_domain (table_parse w_api_appends_tab) w_api_appends = true
  /\ finding_class_C19 (table_parse w_api_appends_tab) w_api_appends = Some K_api_appends
  /\ exists after, snd (run_c19 (table_parse w_api_appends_tab) w_api_appends) = Some after
                   /\ startswith (L "OLD = 1") after = true /\ after <> L "OLD = 1" ++ [nl].
Proof.
  destruct w_api_appends_fails as [H1 [H2 H3]]. split; [exact H1|split; [exact H2|]].
  eexists. split; [exact H3|split; [reflexivity|discriminate]].
Qed.
