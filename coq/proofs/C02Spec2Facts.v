(* Facts about the refined C02 classifier (model/C02Spec2.v). *)
From Coq Require Import List Ascii Bool Arith ZArith.
From Coq Require String.
Import String.StringSyntax.
From DT Require Import PyStr PyVal IR C02Spec C02Spec2 C02Codec C02Compose.
Import ListNotations.

(* the refinement only ever adds the two new classes: an old class is kept as it is *)
Lemma finding_class_C02_r_adds : forall o i c,
    finding_class_C02_r o i = Some c ->
    (exists k, finding_class_C02 o i = Some k /\ c = K2r_old k)
    \/ (finding_class_C02 o i = None /\ (c = K2r_negative_zero \/ c = K2r_prose_exotic_blank)).
Proof.
  intros o i c H. unfold finding_class_C02_r in H.
  destruct (finding_class_C02 o i) as [k|].
  - left. exists k. injection H as H. split; [reflexivity|symmetry; exact H].
  - right. split; [reflexivity|]. unfold new_class_C02, new_classes_C02 in H.
    destruct (existsb _ (ir_params i)); [injection H as H; left; symmetry; exact H|].
    destruct (_ || _); [injection H as H; right; symmetry; exact H|discriminate H].
Qed.

(* the list of all new classes that apply holds only new classes, and the refined class is its head *)
Lemma new_classes_C02_new : forall i c, In c (new_classes_C02 i) -> c = K2r_negative_zero \/ c = K2r_prose_exotic_blank.
Proof.
  intros i c H. unfold new_classes_C02 in H. apply in_app_or in H.
  destruct H as [H|H]; [destruct (existsb _ (ir_params i))|destruct (_ || _)]; cbn [In] in H;
    try contradiction; destruct H as [H|[]]; [left|right]; symmetry; exact H.
Qed.

Lemma finding_class_C02_r_old : forall o i k,
    finding_class_C02 o i = Some k -> finding_class_C02_r o i = Some (K2r_old k).
Proof. intros o i k H. unfold finding_class_C02_r. rewrite H. reflexivity. Qed.

(* the name of a kept class is the old name: KNOWN_FINDINGS lines of the old classes stay valid *)
Lemma c02_class_r_name_old : forall k, c02_class_r_name (K2r_old k) = c02_class_name k.
Proof. reflexivity. Qed.

(* the refined guard is inside the old one: every theorem stated under guard_C02 holds under guard_C02_r *)
Lemma guard_C02_r_inside : forall o i, guard_C02_r o i = true -> guard_C02 o i = true.
Proof.
  intros o i H. unfold guard_C02_r in H. unfold guard_C02.
  apply andb_true_iff in H. destruct H as [Hd Hc]. rewrite Hd. cbn [andb].
  unfold finding_class_C02_r in Hc. destruct (finding_class_C02 o i) as [k|]; [discriminate Hc|reflexivity].
Qed.

(* the hole the proof found (C02_negative_zero_unclassified): unnamed by the old classifier, named by the refined one,
   in the domain, and the composed model fails on it *)
Lemma negative_zero_classified :
  finding_class_C02 o2 w2_negzero = None
  /\ finding_class_C02_r o2 w2_negzero = Some K2r_negative_zero
  /\ C02_domain w2_negzero = true /\ fails2 w2_negzero = true.
Proof. vm_compute. repeat split; reflexivity. Qed.

(* the same default under Optional[float] is carried (the falsy test is made for scalar types only): not in the class *)
Lemma negative_zero_optional_unclassified :
  finding_class_C02_r o2 (w2 (L "x") (PG (L "the x") (L "Optional[float]") (Some (DV (VFloat (L "-0.0")))))) = None.
Proof. vm_compute. reflexivity. Qed.

(* prose with a form feed between two words (re-flowed by multiline on the real code: 'a<FF>b' comes back 'a \ b') *)
Definition w2_formfeed : ir := w2 (L "x") (PG (L "a" ++ [ch 12] ++ L "b") (L "int") (Some (DV (VInt 5)))).

Lemma exotic_blank_classified :
  finding_class_C02 o2 w2_formfeed = None
  /\ finding_class_C02_r o2 w2_formfeed = Some K2r_prose_exotic_blank
  /\ C02_domain w2_formfeed = true.
Proof. vm_compute. repeat split; reflexivity. Qed.

(* the unit separator (31) is a blank for str.isspace but str.splitlines does not split there: not in the class *)
Lemma unit_separator_unclassified :
  finding_class_C02_r o2 (w2 (L "x") (PG (L "a" ++ [ch 31] ++ L "b") (L "int") (Some (DV (VInt 5))))) = None.
Proof. vm_compute. reflexivity. Qed.
