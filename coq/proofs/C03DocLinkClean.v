(* C03DocLinkClean: what inspect.cleandoc (model: C03DocLinkDefs.cleandoc) does to a text given as lines
   (indentation, content): the contents come back in order, each followed by blanks, after leading blanks.
   Used by proofs/C03DocLink.v (property C03, docstring link).  Proofs only. *)
From Coq Require Import List Ascii Bool Arith Lia.
From Coq Require String.
From DT Require Import PyStr PyVal PyStrFacts SplitFacts C03DocLinkDefs.
From DT Require DocEmit.
Import ListNotations.

(* ---------- small list facts ---------- *)

Lemma cd_dropwhile_app_all : forall (p : ascii -> bool) (a b : str),
    forallb p a = true -> dropwhile p (a ++ b) = dropwhile p b.
Proof.
  intros p a b. induction a as [|x a IH]; intros Ha; [reflexivity|].
  cbn [forallb] in Ha. apply andb_true_iff in Ha. destruct Ha as [Hx Ha].
  cbn [app dropwhile]. rewrite Hx. apply IH. exact Ha.
Qed.

Lemma cd_forallb_skipn : forall (p : ascii -> bool) m (l : str),
    forallb p l = true -> forallb p (skipn m l) = true.
Proof.
  intros p m. induction m as [|m IH]; intros l Hl; [exact Hl|].
  destruct l as [|x l]; [reflexivity|].
  cbn [forallb] in Hl. apply andb_true_iff in Hl. destruct Hl as [_ Hl].
  cbn [skipn]. apply IH. exact Hl.
Qed.

Lemma cd_filter_rev : forall (A : Type) (f : A -> bool) (l : list A),
    filter f (rev l) = rev (filter f l).
Proof.
  intros A f l. induction l as [|x l IH]; [reflexivity|].
  cbn [rev filter]. rewrite filter_app, IH. cbn [filter].
  destruct (f x); [reflexivity|]. cbn [rev]. now rewrite app_nil_r.
Qed.

Lemma cd_heads_of_rev : forall X, heads_of (rev X) = rev (heads_of X).
Proof. intros X. unfold heads_of. rewrite map_rev. apply cd_filter_rev. Qed.

Lemma cd_isspace_nl : isspace nl = true.
Proof. reflexivity. Qed.

Lemma cd_tab_not_nl : ~ In tabch [nl].
Proof.
  intros H. destruct H as [H|H]; [|destruct H].
  apply (f_equal nat_of_ascii) in H. vm_compute in H. discriminate H.
Qed.

(* ---------- ln_ok ---------- *)

Definition wk (l : ln) : Prop := forallb isspace (fst l) = true.

Lemma ln_ok_inv : forall l, ln_ok l = true ->
  forallb isspace (fst l) = true /\ mem_c nl (fst l) = false /\ mem_c tabch (fst l) = false
  /\ mem_c nl (snd l) = false /\ mem_c tabch (snd l) = false
  /\ (forall c r, snd l = c :: r -> isspace c = false).
Proof.
  intros l H. unfold ln_ok in H.
  apply andb_true_iff in H. destruct H as [H H6].
  apply andb_true_iff in H. destruct H as [H H5].
  apply andb_true_iff in H. destruct H as [H H4].
  apply andb_true_iff in H. destruct H as [H H3].
  apply andb_true_iff in H. destruct H as [H1 H2].
  apply negb_true_iff in H2, H3, H4, H5.
  repeat split; try assumption.
  intros c r E. rewrite E in H6. now apply negb_true_iff in H6.
Qed.

Lemma lstrip_render : forall l, ln_ok l = true -> lstrip (render_ln l) = snd l.
Proof.
  intros l Hl. destruct (ln_ok_inv l Hl) as [H1 [_ [_ [_ [_ H6]]]]].
  unfold lstrip, lstrip_by, render_ln. rewrite cd_dropwhile_app_all by exact H1.
  apply dropwhile_head_false. intros c Hc.
  destruct (snd l) as [|d t] eqn:E; cbn in Hc; [discriminate Hc|].
  inversion Hc; subst. apply (H6 c t). reflexivity.
Qed.

Lemma line_indent_render : forall l, ln_ok l = true ->
    line_indent (render_ln l) = match snd l with [] => None | _ => Some (List.length (fst l)) end.
Proof.
  intros l Hl. unfold line_indent. rewrite (lstrip_render l Hl).
  destruct (snd l) as [|d t] eqn:E; [reflexivity|].
  f_equal. unfold render_ln. rewrite E, app_length. lia.
Qed.

(* ---------- margin ---------- *)

Lemma margin_none : forall r,
    Forall (fun l => ln_ok l = true) r -> margin_of (map render_ln r) = None ->
    forall l, In l r -> snd l = [].
Proof.
  intros r. induction r as [|a r IH]; intros Hall Hm l Hin; [destruct Hin|].
  inversion Hall as [|a' r' Ha Hr]; subst.
  cbn [map margin_of] in Hm. rewrite (line_indent_render a Ha) in Hm.
  destruct (snd a) as [|d t] eqn:E.
  - destruct Hin as [Heq|Hin]; [subst l; exact E|]. apply IH; assumption.
  - destruct (margin_of (map render_ln r)); discriminate Hm.
Qed.

Lemma margin_bound : forall r m,
    Forall (fun l => ln_ok l = true) r -> margin_of (map render_ln r) = Some m ->
    forall l, In l r -> snd l <> [] -> m <= List.length (fst l).
Proof.
  intros r. induction r as [|a r IH]; intros m Hall Hm l Hin Hne; [destruct Hin|].
  inversion Hall as [|a' r' Ha Hr]; subst.
  cbn [map margin_of] in Hm. rewrite (line_indent_render a Ha) in Hm.
  destruct (snd a) as [|d t] eqn:E.
  - destruct Hin as [Heq|Hin]; [subst l; congruence|].
    apply (IH m Hr Hm l Hin Hne).
  - destruct (margin_of (map render_ln r)) as [b|] eqn:Eb.
    + inversion Hm; subst m. destruct Hin as [Heq|Hin]; [subst l; lia|].
      specialize (IH b Hr eq_refl l Hin Hne). lia.
    + inversion Hm; subst m. destruct Hin as [Heq|Hin]; [subst l; lia|].
      exfalso. apply Hne. apply (margin_none r Hr Eb l Hin).
Qed.

Definition cut (m : nat) (l : ln) : ln := (skipn m (fst l), snd l).

Lemma skipn_render : forall m l,
    (snd l <> [] -> m <= List.length (fst l)) -> skipn m (render_ln l) = render_ln (cut m l).
Proof.
  intros m l H. unfold render_ln, cut. cbn [fst snd]. rewrite skipn_app. f_equal.
  destruct l as [ws h]. cbn [fst snd] in *.
  destruct h as [|d t]; [apply skipn_nil|].
  assert (Hle : m <= List.length ws) by (apply H; discriminate).
  replace (m - List.length ws) with 0 by lia. reflexivity.
Qed.

(* ---------- dropping empty lines ---------- *)

Lemma drop_front_render : forall X, exists X',
    drop_empty_front (map render_ln X) = map render_ln X'
    /\ heads_of X' = heads_of X /\ (forall l, In l X' -> In l X).
Proof.
  intros X. induction X as [|[ws h] X IH].
  - exists []. repeat split. intros l Hl. exact Hl.
  - destruct IH as [X' [H1 [H2 H3]]].
    destruct ws as [|c ws]; [destruct h as [|d h]|].
    + exists X'. cbn [map render_ln fst snd app drop_empty_front].
      split; [exact H1|]. split; [rewrite H2; reflexivity|].
      intros l Hl. right. apply H3. exact Hl.
    + exists (([], d :: h) :: X). cbn [map render_ln fst snd app drop_empty_front].
      repeat split. intros l Hl. exact Hl.
    + exists ((c :: ws, h) :: X). cbn [map render_ln fst snd app drop_empty_front].
      repeat split. intros l Hl. exact Hl.
Qed.

Lemma drop_back_render : forall X, exists X',
    drop_empty_back (map render_ln X) = map render_ln X'
    /\ heads_of X' = heads_of X /\ (forall l, In l X' -> In l X).
Proof.
  intros X. unfold drop_empty_back. rewrite <- map_rev.
  destruct (drop_front_render (rev X)) as [X' [H1 [H2 H3]]].
  exists (rev X'). rewrite H1, map_rev. split; [reflexivity|]. split.
  - rewrite cd_heads_of_rev, H2, cd_heads_of_rev. apply rev_involutive.
  - intros l Hl. apply in_rev in Hl. apply H3 in Hl. apply in_rev in Hl. exact Hl.
Qed.

(* ---------- regrouping ---------- *)

Lemma regroup : forall Y, (forall l, In l Y -> wk l) ->
    exists ws0 hws,
      join [nl] (map render_ln Y) = text_of_heads ws0 hws
      /\ map fst hws = heads_of Y
      /\ forallb isspace ws0 = true
      /\ forallb (fun hw => forallb isspace (snd hw)) hws = true.
Proof.
  intros Y. induction Y as [|[ws h] Y IH]; intros Hwk.
  - exists [], []. repeat split.
  - destruct IH as [ws0 [hws [H1 [H2 [H3 H4]]]]].
    { intros l Hl. apply Hwk. right. exact Hl. }
    assert (Hws : forallb isspace ws = true).
    { apply (Hwk (ws, h)). left. reflexivity. }
    destruct Y as [|y Y'].
    + cbn [map join]. unfold render_ln. cbn [fst snd]. destruct h as [|c h].
      * exists ws, []. unfold text_of_heads. cbn [map concat].
        repeat split. exact Hws.
      * exists ws, [(c :: h, [])]. unfold text_of_heads. cbn [map concat fst snd].
        rewrite !app_nil_r. repeat split. exact Hws.
    + cbn [map] in H1 |- *. rewrite join_cons_cons, H1. unfold render_ln at 1. cbn [fst snd].
      destruct h as [|c h].
      * exists (ws ++ nl :: ws0), hws. unfold text_of_heads.
        rewrite app_nil_r, <- app_assoc. split; [reflexivity|].
        split; [rewrite H2; reflexivity|]. split; [|exact H4].
        rewrite forallb_app, Hws. cbn [forallb]. rewrite cd_isspace_nl, H3. reflexivity.
      * exists ws, ((c :: h, nl :: ws0) :: hws). unfold text_of_heads.
        cbn [map concat fst snd]. rewrite <- !app_assoc. split; [reflexivity|].
        split; [cbn [map fst]; rewrite H2; reflexivity|]. split; [exact Hws|].
        cbn [forallb snd]. rewrite cd_isspace_nl, H3, H4. reflexivity.
Qed.

(* ---------- the text ---------- *)

Lemma text_no_tab : forall lns,
    Forall (fun l => ln_ok l = true) lns -> mem_c tabch (text_of_lns lns) = false.
Proof.
  intros lns Hall. destruct (mem_c tabch (text_of_lns lns)) eqn:E; [|reflexivity].
  exfalso. apply mem_c_In in E. unfold text_of_lns in E. apply join_chars in E.
  destruct E as [E|[s [Hs Hx]]]; [now apply cd_tab_not_nl in E|].
  apply in_map_iff in Hs. destruct Hs as [l [Hl Hin]]. subst s.
  rewrite Forall_forall in Hall. specialize (Hall l Hin).
  destruct (ln_ok_inv l Hall) as [_ [_ [H3 [_ [H5 _]]]]].
  unfold render_ln in Hx. apply in_app_or in Hx. destruct Hx as [Hx|Hx].
  - apply mem_c_In in Hx. congruence.
  - apply mem_c_In in Hx. congruence.
Qed.

Lemma text_split : forall lns,
    lns <> [] -> Forall (fun l => ln_ok l = true) lns ->
    split_nl (text_of_lns lns) = map render_ln lns.
Proof.
  intros lns Hne Hall. rewrite split_nl_eq. unfold text_of_lns. apply split_c_join.
  - destruct lns; [congruence|discriminate].
  - apply Forall_forall. intros s Hs. apply in_map_iff in Hs. destruct Hs as [l [Hl Hin]]. subst s.
    rewrite Forall_forall in Hall. specialize (Hall l Hin).
    destruct (ln_ok_inv l Hall) as [_ [H2 [_ [H4 _]]]].
    intros Hx. unfold render_ln in Hx. apply in_app_or in Hx. destruct Hx as [Hx|Hx].
    + apply mem_c_In in Hx. congruence.
    + apply mem_c_In in Hx. congruence.
Qed.

Lemma margin_step : forall r,
    Forall (fun l => ln_ok l = true) r ->
    exists r',
      match margin_of (map render_ln r) with
      | Some m => map (skipn m) (map render_ln r)
      | None => map render_ln r
      end = map render_ln r'
      /\ map snd r' = map snd r /\ (forall l, In l r' -> wk l).
Proof.
  intros r Hall. destruct (margin_of (map render_ln r)) as [m|] eqn:Em.
  - exists (map (cut m) r). split; [|split].
    + rewrite !map_map. apply map_ext_in. intros l Hl. apply skipn_render.
      intros Hn. apply (margin_bound r m Hall Em l Hl Hn).
    + rewrite map_map. apply map_ext. intros l. reflexivity.
    + intros l Hl. apply in_map_iff in Hl. destruct Hl as [l' [Hl' Hin]]. subst l.
      unfold wk, cut. cbn [fst]. apply cd_forallb_skipn.
      rewrite Forall_forall in Hall. specialize (Hall l' Hin).
      destruct (ln_ok_inv l' Hall) as [H1 _]. exact H1.
  - exists r. split; [reflexivity|]. split; [reflexivity|].
    intros l Hin. rewrite Forall_forall in Hall. specialize (Hall l Hin).
    destruct (ln_ok_inv l Hall) as [H1 _]. exact H1.
Qed.

Theorem cleandoc_heads : forall lns : list ln,
    lns <> [] -> forallb ln_ok lns = true ->
    exists ws0 hws,
      cleandoc (text_of_lns lns) = Ok (text_of_heads ws0 hws)
      /\ map fst hws = heads_of lns
      /\ forallb isspace ws0 = true
      /\ forallb (fun hw => forallb isspace (snd hw)) hws = true.
Proof.
  intros lns Hne Hok.
  assert (Hall : Forall (fun l => ln_ok l = true) lns).
  { apply Forall_forall. rewrite forallb_forall in Hok. exact Hok. }
  unfold cleandoc. rewrite (text_no_tab lns Hall), (text_split lns Hne Hall).
  destruct lns as [|l0 r]; [congruence|].
  inversion Hall as [|l0' r0 Hl0 Hr]; subst.
  cbn [map]. cbv zeta. rewrite (lstrip_render l0 Hl0).
  destruct (margin_step r Hr) as [r' [Hr1 [Hr2 Hr3]]]. rewrite Hr1.
  change (snd l0 :: map render_ln r') with (map render_ln (([], snd l0) :: r')).
  destruct (drop_back_render (([], snd l0) :: r')) as [Y1 [Hb1 [Hb2 Hb3]]]. rewrite Hb1.
  destruct (drop_front_render Y1) as [Y2 [Hf1 [Hf2 Hf3]]]. rewrite Hf1.
  destruct (regroup Y2) as [ws0 [hws [Hg1 [Hg2 [Hg3 Hg4]]]]].
  { intros l Hl. apply Hf3 in Hl. apply Hb3 in Hl. destruct Hl as [Hl|Hl].
    - subst l. reflexivity.
    - apply Hr3. exact Hl. }
  exists ws0, hws. split; [f_equal; exact Hg1|]. split; [|split; assumption].
  rewrite Hg2, Hf2, Hb2. unfold heads_of. cbn [map snd]. rewrite Hr2. reflexivity.
Qed.

Print Assumptions cleandoc_heads.
