(* FSFacts: the finite-map algebra of model/FS.v and the atomicity of emit.file under every fault
   (C20(ii) at the level of one write; the append prefix fact used by C11).  Proofs only. *)
From Coq Require Import List Ascii Bool Arith Lia.
From Coq Require String.
Import String.StringSyntax.
From DT Require Import PyStr Sexp PyVal FS PyStrFacts.
Import ListNotations.

Ltac fst_of H := apply (f_equal fst) in H; cbn [fst] in H.
Ltac snd_of H := apply (f_equal snd) in H; cbn [snd] in H; injection H as H.

(* ------------------------------------------------------------------ *)
(* fs_get / fs_set / fs_remove                                          *)
(* ------------------------------------------------------------------ *)

Lemma fs_get_remove_same : forall p fs, fs_get p (fs_remove p fs) = None.
Proof.
  intros p fs. induction fs as [|[q b] r IHr]; [reflexivity|].
  cbn [fs_remove]. destruct (str_eqb p q) eqn:E; [exact IHr|].
  cbn [fs_get]. rewrite E. exact IHr.
Qed.

Lemma fs_get_remove_other : forall p q fs, p <> q -> fs_get p (fs_remove q fs) = fs_get p fs.
Proof.
  intros p q fs Hpq. induction fs as [|[x b] r IHr]; [reflexivity|].
  cbn [fs_remove]. destruct (str_eqb q x) eqn:E.
  - apply str_eqb_eq in E. subst x. cbn [fs_get].
    apply str_eqb_neq in Hpq. rewrite Hpq. exact IHr.
  - cbn [fs_get]. destruct (str_eqb p x); [reflexivity|exact IHr].
Qed.

Lemma fs_get_set_same : forall p b fs, fs_get p (fs_set p b fs) = Some b.
Proof. intros p b fs. unfold fs_set. cbn [fs_get]. rewrite str_eqb_refl. reflexivity. Qed.

Lemma fs_get_set_other : forall p q b fs, p <> q -> fs_get p (fs_set q b fs) = fs_get p fs.
Proof.
  intros p q b fs Hpq. unfold fs_set. cbn [fs_get].
  pose proof Hpq as Hne. apply str_eqb_neq in Hne. rewrite Hne.
  apply fs_get_remove_other. exact Hpq.
Qed.

(* removing an absent path is the identity, syntactically *)
Lemma fs_remove_absent : forall p fs, fs_get p fs = None -> fs_remove p fs = fs.
Proof.
  intros p fs. induction fs as [|[q b] r IHr]; intros H; [reflexivity|].
  cbn [fs_get] in H. cbn [fs_remove]. destruct (str_eqb p q); [discriminate H|].
  rewrite IHr by exact H. reflexivity.
Qed.

Lemma fs_remove_idem : forall p fs, fs_remove p (fs_remove p fs) = fs_remove p fs.
Proof. intros p fs. apply fs_remove_absent. apply fs_get_remove_same. Qed.

Lemma fs_remove_set_same : forall p b fs, fs_remove p (fs_set p b fs) = fs_remove p fs.
Proof.
  intros p b fs. unfold fs_set. cbn [fs_remove]. rewrite str_eqb_refl. apply fs_remove_idem.
Qed.

(* ------------------------------------------------------------------ *)
(* the temporary name                                                   *)
(* ------------------------------------------------------------------ *)

Lemma tmp_of_neq : forall file, tmp_of file <> file.
Proof.
  intros file H. apply (f_equal (@List.length ascii)) in H.
  unfold tmp_of in H. rewrite app_length in H. cbn in H. lia.
Qed.

Lemma tmp_of_neq_sym : forall file, file <> tmp_of file.
Proof. intros file H. apply (tmp_of_neq file). symmetry. exact H. Qed.

Lemma tmp_of_inj : forall a b, tmp_of a = tmp_of b -> a = b.
Proof. intros a b H. unfold tmp_of in H. apply app_inv_tail in H. exact H. Qed.

(* ------------------------------------------------------------------ *)
(* terminate / intended                                                 *)
(* ------------------------------------------------------------------ *)

Lemma terminate_sep : forall old, exists sep, (sep = [] \/ sep = [nl]) /\ terminate old = old ++ sep.
Proof.
  intros old. unfold terminate. destruct old as [|c r].
  - exists []. split; [left; reflexivity|reflexivity].
  - destruct (endswith [nl] (c :: r)).
    + exists []. split; [left; reflexivity|]. rewrite app_nil_r. reflexivity.
    + exists [nl]. split; [right; reflexivity|reflexivity].
Qed.

Lemma intended_wt : forall fs file src, intended fs file Wt src = src.
Proof. reflexivity. Qed.

Lemma intended_missing : forall fs file m src, fs_get file fs = None -> intended fs file m src = src.
Proof. intros fs file m src H. unfold intended. rewrite H. destruct m; reflexivity. Qed.

(* append mode keeps the old text as a prefix, up to termination of its last line *)
Lemma intended_append_prefix : forall fs file src old,
    fs_get file fs = Some old ->
    exists sep, (sep = [] \/ sep = [nl]) /\ intended fs file Ap src = old ++ sep ++ src.
Proof.
  intros fs file src old H. unfold intended. rewrite H.
  destruct (terminate_sep old) as [sep [Hsep Ht]]. exists sep. split; [exact Hsep|].
  rewrite Ht, app_assoc. reflexivity.
Qed.

(* intended reads only the target *)
Lemma intended_ext : forall fs1 fs2 file m src,
    fs_get file fs1 = fs_get file fs2 -> intended fs1 file m src = intended fs2 file m src.
Proof. intros fs1 fs2 file m src H. unfold intended. rewrite H. reflexivity. Qed.

(* ------------------------------------------------------------------ *)
(* emit_file_io                                                         *)
(* ------------------------------------------------------------------ *)

Definition written (fs : fsys) (file : path) (m : mode) (src : bytes) : fsys :=
  fs_set file (intended fs file m src) (fs_remove (tmp_of file) fs).

(* success is always the same complete write *)
Lemma emit_file_io_ok : forall fs file m src f fs' u,
    emit_file_io fs file m src f = (fs', Ok u) -> fs' = written fs file m src.
Proof.
  intros fs file m src f fs' u H. unfold emit_file_io in H; cbv zeta in H. unfold written.
  destruct f as [| | |k|].
  - fst_of H. symmetry. exact H.
  - destruct m; [fst_of H; symmetry; exact H|].
    destruct (fs_get file fs); [discriminate H|fst_of H; symmetry; exact H].
  - discriminate H.
  - discriminate H.
  - discriminate H.
Qed.

(* failure: every path but the temporary one reads as before *)
Lemma emit_file_io_err_get : forall fs file m src f fs' e,
    emit_file_io fs file m src f = (fs', Err e) ->
    forall p, p <> tmp_of file -> fs_get p fs' = fs_get p fs.
Proof.
  intros fs file m src f fs' e H p Hp. unfold emit_file_io in H; cbv zeta in H.
  destruct f as [| | |k|].
  - discriminate H.
  - destruct m; [discriminate H|].
    destruct (fs_get file fs); [fst_of H; subst fs'; reflexivity|discriminate H].
  - fst_of H. subst fs'. apply fs_get_remove_other. exact Hp.
  - fst_of H. subst fs'. rewrite fs_remove_set_same. apply fs_get_remove_other. exact Hp.
  - fst_of H. subst fs'. rewrite fs_remove_set_same. apply fs_get_remove_other. exact Hp.
Qed.

(* failure with no stale temporary file: the file system is the one before, syntactically *)
Lemma emit_file_io_err_eq : forall fs file m src f fs' e,
    fs_get (tmp_of file) fs = None ->
    emit_file_io fs file m src f = (fs', Err e) -> fs' = fs.
Proof.
  intros fs file m src f fs' e Ht H. unfold emit_file_io in H; cbv zeta in H.
  destruct f as [| | |k|].
  - discriminate H.
  - destruct m; [discriminate H|].
    destruct (fs_get file fs); [fst_of H; symmetry; exact H|discriminate H].
  - fst_of H. subst fs'. apply fs_remove_absent. exact Ht.
  - fst_of H. subst fs'. rewrite fs_remove_set_same. apply fs_remove_absent. exact Ht.
  - fst_of H. subst fs'. rewrite fs_remove_set_same. apply fs_remove_absent. exact Ht.
Qed.

Lemma emit_file_io_err_is_IOError : forall fs file m src f fs' e,
    emit_file_io fs file m src f = (fs', Err e) -> e = IOError.
Proof.
  intros fs file m src f fs' e H. unfold emit_file_io in H; cbv zeta in H.
  destruct f as [| | |k|].
  - discriminate H.
  - destruct m; [discriminate H|].
    destruct (fs_get file fs); [snd_of H; symmetry; exact H|discriminate H].
  - snd_of H. symmetry. exact H.
  - snd_of H. symmetry. exact H.
  - snd_of H. symmetry. exact H.
Qed.

Lemma written_get_file : forall fs file m src,
    fs_get file (written fs file m src) = Some (intended fs file m src).
Proof. intros fs file m src. unfold written. apply fs_get_set_same. Qed.

Lemma written_get_tmp : forall fs file m src, fs_get (tmp_of file) (written fs file m src) = None.
Proof.
  intros fs file m src. unfold written.
  rewrite fs_get_set_other by apply tmp_of_neq. apply fs_get_remove_same.
Qed.

Lemma written_get_other : forall fs file m src p,
    p <> file -> p <> tmp_of file -> fs_get p (written fs file m src) = fs_get p fs.
Proof.
  intros fs file m src p Hf Ht. unfold written.
  rewrite fs_get_set_other by exact Hf. apply fs_get_remove_other. exact Ht.
Qed.

(* the temporary file never survives, stale or not *)
Lemma emit_file_io_tmp_gone : forall fs file m src f fs' r,
    emit_file_io fs file m src f = (fs', r) -> fs_get (tmp_of file) fs' = None \/ fs' = fs.
Proof.
  intros fs file m src f fs' r H. destruct r as [u|e].
  - left. rewrite (emit_file_io_ok _ _ _ _ _ _ _ H). apply written_get_tmp.
  - unfold emit_file_io in H; cbv zeta in H. destruct f as [| | |k|].
    + discriminate H.
    + destruct m; [discriminate H|].
      destruct (fs_get file fs); [right; fst_of H; symmetry; exact H|discriminate H].
    + left. fst_of H. subst fs'. apply fs_get_remove_same.
    + left. fst_of H. subst fs'. rewrite fs_remove_set_same. apply fs_get_remove_same.
    + left. fst_of H. subst fs'. rewrite fs_remove_set_same. apply fs_get_remove_same.
Qed.

(* frame, with no premise: only the target and its temporary name can read differently *)
Lemma emit_file_io_frame : forall fs file m src f fs' r,
    emit_file_io fs file m src f = (fs', r) ->
    forall p, p <> file -> p <> tmp_of file -> fs_get p fs' = fs_get p fs.
Proof.
  intros fs file m src f fs' r H p Hf Ht. destruct r as [u|e].
  - rewrite (emit_file_io_ok _ _ _ _ _ _ _ H). apply written_get_other; assumption.
  - apply (emit_file_io_err_get _ _ _ _ _ _ _ H). exact Ht.
Qed.

(* C20(ii), one write: for every fault the target afterwards holds its old bytes or the complete
   intended bytes, never a prefix; nothing else changes; no temporary file is left *)
Lemma emit_file_io_atomic : forall fs file m src f fs' r,
    fs_get (tmp_of file) fs = None ->
    emit_file_io fs file m src f = (fs', r) ->
    (forall p, p <> file -> p <> tmp_of file -> fs_get p fs' = fs_get p fs)
    /\ (fs_get file fs' = fs_get file fs \/ fs_get file fs' = Some (intended fs file m src))
    /\ fs_get (tmp_of file) fs' = None
    /\ (r = Ok tt -> fs_get file fs' = Some (intended fs file m src))
    /\ (forall e, r = Err e -> fs_get file fs' = fs_get file fs).
Proof.
  intros fs file m src f fs' r Ht H.
  split; [apply (emit_file_io_frame _ _ _ _ _ _ _ H)|].
  destruct r as [u|e].
  - pose proof (emit_file_io_ok _ _ _ _ _ _ _ H) as E. subst fs'.
    split; [right; apply written_get_file|].
    split; [apply written_get_tmp|].
    split; [intros _; apply written_get_file|intros e He; discriminate He].
  - pose proof (emit_file_io_err_eq _ _ _ _ _ _ _ Ht H) as E. subst fs'.
    split; [left; reflexivity|]. split; [exact Ht|].
    split; [intros He; discriminate He|intros e' _; reflexivity].
Qed.

(* ------------------------------------------------------------------ *)
(* emit_file: rendering first                                           *)
(* ------------------------------------------------------------------ *)

Lemma emit_file_render_err : forall fs file m e f, emit_file fs file m (Err e) f = (fs, Err e).
Proof. reflexivity. Qed.

Lemma emit_file_ok : forall fs file m rendered f fs' u,
    emit_file fs file m rendered f = (fs', Ok u) ->
    exists src, rendered = Ok src /\ fs' = written fs file m src.
Proof.
  intros fs file m rendered f fs' u H. unfold emit_file in H.
  destruct rendered as [src|e]; [|discriminate H].
  exists src. split; [reflexivity|]. apply (emit_file_io_ok _ _ _ _ _ _ _ H).
Qed.

Lemma emit_file_err_get : forall fs file m rendered f fs' e,
    emit_file fs file m rendered f = (fs', Err e) ->
    forall p, p <> tmp_of file -> fs_get p fs' = fs_get p fs.
Proof.
  intros fs file m rendered f fs' e H p Hp. unfold emit_file in H.
  destruct rendered as [src|e0].
  - apply (emit_file_io_err_get _ _ _ _ _ _ _ H). exact Hp.
  - fst_of H. subst fs'. reflexivity.
Qed.

Lemma emit_file_err_eq : forall fs file m rendered f fs' e,
    fs_get (tmp_of file) fs = None ->
    emit_file fs file m rendered f = (fs', Err e) -> fs' = fs.
Proof.
  intros fs file m rendered f fs' e Ht H. unfold emit_file in H.
  destruct rendered as [src|e0].
  - apply (emit_file_io_err_eq _ _ _ _ _ _ _ Ht H).
  - fst_of H. symmetry. exact H.
Qed.

Lemma emit_file_frame : forall fs file m rendered f fs' r,
    emit_file fs file m rendered f = (fs', r) ->
    forall p, p <> file -> p <> tmp_of file -> fs_get p fs' = fs_get p fs.
Proof.
  intros fs file m rendered f fs' r H p Hf Ht. unfold emit_file in H.
  destruct rendered as [src|e0].
  - apply (emit_file_io_frame _ _ _ _ _ _ _ H); assumption.
  - fst_of H. subst fs'. reflexivity.
Qed.

Lemma emit_file_tmp_clean : forall fs file m rendered f fs' r,
    fs_get (tmp_of file) fs = None ->
    emit_file fs file m rendered f = (fs', r) -> fs_get (tmp_of file) fs' = None.
Proof.
  intros fs file m rendered f fs' r Ht H. unfold emit_file in H.
  destruct rendered as [src|e0].
  - destruct (emit_file_io_tmp_gone _ _ _ _ _ _ _ H) as [E|E]; [exact E|subst fs'; exact Ht].
  - fst_of H. subst fs'. exact Ht.
Qed.

(* emit.file as a whole: a rendering error leaves everything as it was; otherwise as emit_file_io *)
Lemma emit_file_atomic : forall fs file m rendered f fs' r,
    fs_get (tmp_of file) fs = None ->
    emit_file fs file m rendered f = (fs', r) ->
    (forall e, rendered = Err e -> fs' = fs /\ r = Err e)
    /\ (forall p, p <> file -> p <> tmp_of file -> fs_get p fs' = fs_get p fs)
    /\ (fs_get file fs' = fs_get file fs
        \/ exists src, rendered = Ok src /\ fs_get file fs' = Some (intended fs file m src))
    /\ fs_get (tmp_of file) fs' = None
    /\ (r = Ok tt -> exists src, rendered = Ok src /\ fs_get file fs' = Some (intended fs file m src))
    /\ (forall e, r = Err e -> fs' = fs).
Proof.
  intros fs file m rendered f fs' r Ht H.
  split.
  { intros e He. subst rendered. cbn [emit_file] in H. injection H as H1 H2. subst. split; reflexivity. }
  split; [apply (emit_file_frame _ _ _ _ _ _ _ H)|].
  split.
  { destruct r as [u|e].
    - destruct (emit_file_ok _ _ _ _ _ _ _ H) as [src [Hs E]]. subst fs'.
      right. exists src. split; [exact Hs|apply written_get_file].
    - rewrite (emit_file_err_eq _ _ _ _ _ _ _ Ht H). left. reflexivity. }
  split; [apply (emit_file_tmp_clean _ _ _ _ _ _ _ Ht H)|].
  split.
  - intros Hr. subst r. destruct (emit_file_ok _ _ _ _ _ _ _ H) as [src [Hs E]]. subst fs'.
    exists src. split; [exact Hs|apply written_get_file].
  - intros e Hr. subst r. apply (emit_file_err_eq _ _ _ _ _ _ _ Ht H).
Qed.
