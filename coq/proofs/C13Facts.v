(* C13Facts: what the EmitAst emitters write into a shared IR (exact footprints), non-interference for
   every sequence of calls that leaves the IR unchanged (induction over the sequence, any length), and
   the refutation of the unguarded statement. *)
From Coq Require Import List Ascii Bool Arith ZArith Lia.
From Coq Require String.
Import String.StringSyntax.
From DT Require Import PyStr Sexp PyVal TyExpr PureUtils Defaults PyAst IR EmitAst C13Spec PyStrFacts EmitAstFacts.
Import ListNotations.

(* ------------------------------------------------------------------ footprints *)
Definition strip_class (tf : fld str) : fld str :=
  match tf with
  | Has t => if startswith class_prefix t
             then Has (slice t (List.length class_prefix) (List.length t - 2)) else tf
  | _ => tf
  end.

Lemma resolve_arg_gparam : forall a c name g r t a' c' r' t' g',
    resolve_arg a c name g r t = Ok (a', c', r', t', g') ->
    g_typ g <> Missing /\ g' = mkG (g_doc g) (strip_class (g_typ g)) (g_default g).
Proof.
  intros a c name g r t a' c' r' t' g' H. unfold resolve_arg in H.
  destruct (g_typ g) as [| |ty] eqn:Et; [discriminate| |].
  - apply bind_Ok in H. destruct H as [[s rq] [_ H]]. injection H as _ _ _ _ Hg. split; [discriminate|].
    now subst g'.
  - unfold strip_class. destruct (startswith class_prefix ty) eqn:Es.
    + apply bind_Ok in H. destruct H as [[s rq] [_ H]]. injection H as _ _ _ _ Hg. split; [discriminate|].
      now subst g'.
    + apply bind_Ok in H. destruct H as [[s rq] [_ H]]. injection H as _ _ _ _ Hg. split; [discriminate|].
      now subst g'.
Qed.

Lemma param2argparse_param_footprint : forall pt ww edd name g s g',
    param2argparse_param pt ww edd name g = Ok (s, g') -> g' = argparse_footprint g.
Proof.
  intros pt ww edd name g s g' H. unfold param2argparse_param in H.
  apply bind_Ok in H. destruct H as [[[[[action choices] required] typ] g2] [Hra H]].
  apply resolve_arg_gparam in Hra. destruct Hra as [_ Hg2].
  set (g3 := match g_doc g2 with Missing => mkG (Has []) (g_typ g2) (g_default g2) | _ => g2 end) in *.
  apply bind_Ok in H. destruct H as [[doc dflt_doc] [_ H]].
  apply bind_Ok in H. destruct H as [dflt_in [_ H]].
  apply bind_Ok in H. destruct H as [r [_ H]].
  match type of H with (let '(_, _) := ?X in _) = _ => destruct X as [typ2 required2] end.
  apply bind_Ok in H. destruct H as [help [_ H]].
  apply bind_Ok in H. destruct H as [dkw [_ H]].
  injection H as _ Hg. subst g'. subst g3 g2. unfold argparse_footprint.
  destruct g as [gd gt gv]. cbn.
  destruct gt as [| |ty]; cbn.
  - destruct gd; reflexivity.
  - destruct gd; reflexivity.
  - destruct (startswith class_prefix ty); destruct gd; reflexivity.
Qed.

Lemma param_stable_footprint : forall g, param_argparse_stable g = true -> argparse_footprint g = g.
Proof.
  intros [gd gt gv] H. unfold param_argparse_stable in H. cbn in H. unfold argparse_footprint. cbn.
  apply andb_true_iff in H. destruct H as [Ht Hd].
  destruct gt as [| |ty]; try discriminate; destruct gd; try discriminate; try reflexivity;
    apply negb_true_iff in Ht; rewrite Ht; reflexivity.
Qed.

Definition ir_with_params (i : ir) (ps : list (str * gparam)) : ir :=
  mkIR (ir_name i) (ir_type i) (ir_doc i) ps (ir_returns i) (ir_internal i).

Lemma ir_with_params_same : forall i, ir_with_params i (ir_params i) = i.
Proof. intros [n t d ps r it]. reflexivity. Qed.

Lemma argparse_params_footprint : forall pt ww edd l ps,
    map_outcome (fun kv : str * gparam =>
                   do r <- param2argparse_param pt ww edd (fst kv) (snd kv); Ok (fst r, (fst kv, snd r))) l = Ok ps ->
    map snd ps = map (fun kv => (fst kv, argparse_footprint (snd kv))) l.
Proof.
  intros pt ww edd l. induction l as [|kv l IH]; intros ps H; cbn in H.
  - injection H as H. now subst ps.
  - apply bind_Ok in H. destruct H as [y [Hy H]]. apply bind_Ok in H. destruct H as [ys [Hys H]].
    injection H as H. subst ps. cbn. f_equal; [|now apply IH].
    apply bind_Ok in Hy. destruct Hy as [[s g'] [Hp Hy]]. injection Hy as Hy. subst y. cbn.
    f_equal. eapply param2argparse_param_footprint; eauto.
Qed.

(* emit.argparse_function writes exactly the footprint of param2argparse_param into each param dict *)
Lemma emit_argparse_ir : forall pt i edd fn ft wd ww ds s i2,
    emit_argparse pt i edd fn ft wd ww ds = Ok (s, i2) ->
    i2 = ir_with_params i (map (fun kv => (fst kv, argparse_footprint (snd kv))) (ir_params i)).
Proof.
  intros pt i edd fn ft wd ww ds s i2 H. unfold emit_argparse in H.
  apply bind_Ok in H. destruct H as [fname [_ H]].
  apply bind_Ok in H. destruct H as [ftype [_ H]].
  apply bind_Ok in H. destruct H as [b [_ H]].
  apply bind_Ok in H. destruct H as [dtext [_ H]].
  apply bind_Ok in H. destruct H as [desc [_ H]].
  apply bind_Ok in H. destruct H as [ps [Hps H]].
  apply bind_Ok in H. destruct H as [spliced [_ H]].
  apply bind_Ok in H. destruct H as [ret [_ H]].
  destruct fname as [nm|]; [|discriminate]. injection H as _ Hi. subst i2.
  unfold ir_with_params. f_equal. eapply argparse_params_footprint; eauto.
Qed.

Lemma map_footprint_stable : forall (l : list (str * gparam)),
    forallb (fun kv => param_argparse_stable (snd kv)) l = true ->
    map (fun kv => (fst kv, argparse_footprint (snd kv))) l = l.
Proof.
  induction l as [|[k g] l IH]; intros H; cbn in *; [reflexivity|].
  apply andb_true_iff in H. destruct H as [H1 H2]. rewrite param_stable_footprint by assumption.
  f_equal. now apply IH.
Qed.

Lemma emit_argparse_stable : forall pt i edd fn ft wd ww ds s i2,
    argparse_stable i = true -> emit_argparse pt i edd fn ft wd ww ds = Ok (s, i2) -> i2 = i.
Proof.
  intros pt i edd fn ft wd ww ds s i2 St H. apply emit_argparse_ir in H. subst i2.
  unfold argparse_stable in St. rewrite map_footprint_stable by assumption. apply ir_with_params_same.
Qed.

(* emit.class_ leaves its argument alone (it works on a deep copy) *)
Lemma emit_class_ir : forall pt i ec cn bs ds ww tds s i2,
    emit_class pt i ec cn bs ds ww tds = Ok (s, i2) -> i2 = i.
Proof.
  intros pt i ec cn bs ds ww tds s i2 H. unfold emit_class in H.
  apply bind_Ok in H. destruct H as [ib [_ H]].
  apply bind_Ok in H. destruct H as [[text i2'] [_ H]].
  apply bind_Ok in H. destruct H as [meth [_ H]].
  apply bind_Ok in H. destruct H as [attrs [_ H]].
  injection H as _ Hi. now subst i2.
Qed.

(* emit.function leaves behind exactly what to_docstring left behind *)
Lemma emit_function_ir : forall pt i fn ft it kw tds s i2,
    emit_function pt i fn ft it kw tds = Ok (s, i2) -> exists text, tds = Ok (text, i2).
Proof.
  intros pt i fn ft it kw tds s i2 H. unfold emit_function in H.
  apply bind_Ok in H. destruct H as [fname [_ H]].
  apply bind_Ok in H. destruct H as [ftype [_ H]].
  apply bind_Ok in H. destruct H as [afp [_ H]].
  apply bind_Ok in H. destruct H as [dfp [_ H]].
  apply bind_Ok in H. destruct H as [b [_ H]].
  apply bind_Ok in H. destruct H as [rv [_ H]].
  apply bind_Ok in H. destruct H as [[text i2'] [Htds H]].
  apply bind_Ok in H. destruct H as [rets [_ H]].
  destruct fname as [nm|]; [|discriminate]. injection H as _ Hi. subst i2'. now exists text.
Qed.

(* ------------------------------------------------------------------ non-interference *)
Section Frame.
  Variable pt : ptable.
  Variable td : td_opts -> ir -> outcome (str * ir).
  Variable dsf : bool -> ir -> outcome str.
  Variable doc_op : doc_opts -> ir -> outcome (str * ir).

  Lemma run_op_class_frame : forall ec cn bs ds ww edd i a i',
      run_op pt td dsf doc_op (OpClass ec cn bs ds ww edd) i = Ok (a, i') -> i' = i.
  Proof.
    intros ec cn bs ds ww edd i a i' H. cbn [run_op] in H.
    apply bind_Ok in H. destruct H as [[s i2] [He H]]. injection H as _ Hi. subst i'. cbn.
    eapply emit_class_ir; eauto.
  Qed.

  Lemma run_op_frame : forall o i a i',
      (uses_shared_docstring o = true -> td_stable_on td doc_op i) ->
      (is_argparse o = true -> argparse_stable i = true) ->
      run_op pt td dsf doc_op o i = Ok (a, i') -> i' = i.
  Proof.
    intros o i a i' Htd Hap H. destruct o as [ec cn bs ds ww edd|n t ww edd il tb it kw|edd n t wd ww|o].
    - eapply run_op_class_frame; eauto.
    - cbn [run_op] in H. apply bind_Ok in H. destruct H as [[s i2] [He H]]. injection H as _ Hi. subst i'. cbn.
      apply emit_function_ir in He. destruct He as [text Ht].
      destruct (Htd eq_refl) as [Hs _]. eapply Hs; eauto.
    - cbn [run_op] in H. apply bind_Ok in H. destruct H as [[s i2] [He H]]. injection H as _ Hi. subst i'. cbn.
      eapply emit_argparse_stable; eauto.
    - cbn [run_op] in H. apply bind_Ok in H. destruct H as [[t i2] [He H]]. injection H as _ Hi. subst i'. cbn.
      destruct (Htd eq_refl) as [_ Hs]. eapply Hs; eauto.
  Qed.

  Lemma C13_frame_lemma : forall ops i,
      (existsb uses_shared_docstring ops = true -> td_stable_on td doc_op i) ->
      guard_C13 ops i = true ->
      run_shared pt td dsf doc_op ops i = run_fresh pt td dsf doc_op ops i.
  Proof.
    induction ops as [|o r IH]; intros i Htd G; [reflexivity|]. cbn [run_shared run_fresh].
    destruct (run_op pt td dsf doc_op o i) as [[a i']|e] eqn:E; [|reflexivity]. cbn [bind fst snd].
    assert (Hi : i' = i).
    { eapply run_op_frame; eauto.
      - intros Hu. apply Htd. cbn. now rewrite Hu.
      - intros Ha. unfold guard_C13 in G. cbn in G. rewrite Ha in G. exact G. }
    subst i'. rewrite IH; [reflexivity | |].
    - intros Hu. apply Htd. cbn. rewrite Hu. apply orb_true_r.
    - unfold guard_C13 in *. cbn in G. destruct (is_argparse o); cbn in G.
      + rewrite G. apply orb_true_r.
      + exact G.
  Qed.

  (* sequences over the class emitter alone never interfere, whatever the docstring layer does *)
  Lemma C13_class_only_lemma : forall ops i,
      forallb is_class ops = true ->
      run_shared pt td dsf doc_op ops i = run_fresh pt td dsf doc_op ops i.
  Proof.
    induction ops as [|o r IH]; intros i Hc; [reflexivity|]. cbn [run_shared run_fresh].
    cbn in Hc. apply andb_true_iff in Hc. destruct Hc as [Ho Hr].
    destruct (run_op pt td dsf doc_op o i) as [[a i']|e] eqn:E; [|reflexivity]. cbn [bind fst snd].
    destruct o; try discriminate. apply run_op_class_frame in E. subst i'. now rewrite IH.
  Qed.

  (* a class_ call anywhere in a sequence is invisible to the calls after it *)
  Lemma C13_class_neutral_lemma : forall ec cn bs ds ww edd ops i a i',
      run_op pt td dsf doc_op (OpClass ec cn bs ds ww edd) i = Ok (a, i') ->
      run_shared pt td dsf doc_op (OpClass ec cn bs ds ww edd :: ops) i
      = do rest <- run_shared pt td dsf doc_op ops i; Ok (a :: rest).
  Proof.
    intros ec cn bs ds ww edd ops i a i' H. cbn [run_shared]. rewrite H. cbn [bind fst snd].
    apply run_op_class_frame in H. now subst i'.
  Qed.

  (* the Fixpoint run_shared is the fold_left of the design text *)
  Fixpoint run_shared_ir (ops : list op) (i : ir) : outcome (list artefact * ir) :=
    match ops with
    | [] => Ok ([], i)
    | o :: r => do x <- run_op pt td dsf doc_op o i; do rest <- run_shared_ir r (snd x);
                Ok (fst x :: fst rest, snd rest)
    end.

  Lemma run_shared_ir_fst : forall ops i,
      run_shared pt td dsf doc_op ops i = do r <- run_shared_ir ops i; Ok (fst r).
  Proof.
    induction ops as [|o r IH]; intros i; [reflexivity|]. cbn [run_shared run_shared_ir].
    destruct (run_op pt td dsf doc_op o i) as [[a i']|e]; [|reflexivity]. cbn [bind fst snd].
    rewrite IH. destruct (run_shared_ir r i') as [[l i2]|e]; reflexivity.
  Qed.

  Lemma fold_left_Err : forall ops e,
      fold_left (fun acc o => do st <- acc; do x <- run_op pt td dsf doc_op o (snd st);
                              Ok (fst st ++ [fst x], snd x)) ops (Err e) = Err e.
  Proof. induction ops as [|o r IH]; intros e; [reflexivity|]. cbn. apply IH. Qed.

  Lemma run_shared_fold_gen : forall ops acc i,
      fold_left (fun acc o => do st <- acc; do x <- run_op pt td dsf doc_op o (snd st);
                              Ok (fst st ++ [fst x], snd x)) ops (Ok (acc, i))
      = do r <- run_shared_ir ops i; Ok (acc ++ fst r, snd r).
  Proof.
    induction ops as [|o r IH]; intros acc i; cbn [fold_left run_shared_ir bind fst snd].
    - now rewrite app_nil_r.
    - destruct (run_op pt td dsf doc_op o i) as [[a i']|e]; cbn [bind fst snd].
      + rewrite IH. destruct (run_shared_ir r i') as [[l i2]|e]; cbn [bind fst snd]; [|reflexivity].
        now rewrite <- app_assoc.
      + apply fold_left_Err.
  Qed.

  Lemma run_shared_fold_spec : forall ops i,
      run_shared pt td dsf doc_op ops i = do r <- run_shared_fold pt td dsf doc_op ops i; Ok (fst r).
  Proof.
    intros ops i. unfold run_shared_fold. rewrite run_shared_fold_gen, run_shared_ir_fst.
    destruct (run_shared_ir ops i) as [[l i2]|e]; reflexivity.
  Qed.
End Frame.

(* ------------------------------------------------------------------ refutation *)
Definition w_td : td_opts -> ir -> outcome (str * ir) := fun _ i => Ok ([], i).
Definition w_dsf : bool -> ir -> outcome str := fun _ _ => Ok [].
Definition w_doc_op : doc_opts -> ir -> outcome (str * ir) := fun _ i => Ok ([], i).

(* one parameter without a declared type *)
Definition w_ir : ir :=
  mkIR (Has (L "f")) (Has (L "static")) (Has (L "Summary.")) [(L "x", mkG (Has (L "the x.")) Missing None)]
       FNone None.

Definition w_ops : list op :=
  [OpArgparse false (Some (L "set_cli_args")) (Some (L "static")) false false;
   OpFunction (Some (L "f")) (Some (L "static")) false false 0 false true false].

(* after argparse_function the shared parameter carries typ = "Any": the function emitted next is
   def f(x: Any = None) where the fresh copy gives def f(x=None) *)
Lemma C13_refuted_lemma : ~ C13_statement.
Proof.
  intros H. specialize (H [] w_td w_dsf w_doc_op w_ops w_ir). vm_compute in H. discriminate.
Qed.

Lemma C13_witness_stable : td_stable_on w_td w_doc_op w_ir.
Proof. split; intros o t i' H; unfold w_td, w_doc_op in H; injection H as _ H; now subst. Qed.

Lemma C13_witness_class : finding_class_C13 w_ops w_ir false = Some K_argparse_setdefault.
Proof. reflexivity. Qed.

(* ------------------------------------------------------------------ non-vacuity *)
Definition w_ir_ok : ir :=
  mkIR (Has (L "f")) (Has (L "static")) (Has (L "Summary."))
       [(L "x", mkG (Has (L "the x.")) (Has (L "int")) (Some (DV (VInt 5))));
        (L "y", mkG (Has (L "the y.")) (Has (L "Optional[str]")) None)]
       (Has (mkG (Has (L "result.")) (Has (L "int")) None)) None.

Definition w_ops_ok : list op :=
  [OpArgparse false (Some (L "set_cli_args")) (Some (L "static")) false false;
   OpClass false (L "C") [L "object"] [] false false;
   OpFunction (Some (L "f")) (Some (L "static")) false false 0 false true false;
   OpArgparse true (Some (L "set_cli_args")) (Some (L "static")) false false].

Lemma C13_nonvacuous_lemma :
  guard_C13 w_ops_ok w_ir_ok = true
  /\ exists l, run_shared [] w_td w_dsf w_doc_op w_ops_ok w_ir_ok = Ok l /\ List.length l = 4.
Proof.
  split; [reflexivity|]. eexists. split; [vm_compute; reflexivity | reflexivity].
Qed.
