(* C13Facts: the three AST emitters return the IR they were handed (exact footprints: none), hence
   non-interference for every sequence of calls, by induction over the sequence (any length). *)
From Coq Require Import List Ascii Bool Arith ZArith Lia.
From Coq Require String.
Import String.StringSyntax.
From DT Require Import PyStr Sexp PyVal TyExpr PureUtils Defaults PyAst IR EmitAst C13Spec PyStrFacts EmitAstFacts.
Import ListNotations.

(* ------------------------------------------------------------------ footprints *)
(* emit.class_ leaves its argument alone (it works on a deep copy) *)
Lemma emit_class_ir : forall pt i ec cn bs ds ww tds s i2,
    emit_class pt i ec cn bs ds ww tds = Ok (s, i2) -> i2 = i.
Proof.
  intros pt i ec cn bs ds ww tds s i2 H. unfold emit_class in H.
  apply bind_Ok in H. destruct H as [ib [_ H]].
  apply bind_Ok in H. destruct H as [text [_ H]].
  apply bind_Ok in H. destruct H as [meth [_ H]].
  apply bind_Ok in H. destruct H as [attrs [_ H]].
  injection H as _ Hi. now subst i2.
Qed.

(* emit.function: to_docstring works on copies of the param dicts *)
Lemma emit_function_ir : forall pt i fn ft it kw tds s i2,
    emit_function pt i fn ft it kw tds = Ok (s, i2) -> i2 = i.
Proof.
  intros pt i fn ft it kw tds s i2 H. unfold emit_function in H.
  apply bind_Ok in H. destruct H as [fname [_ H]].
  apply bind_Ok in H. destruct H as [ftype [_ H]].
  apply bind_Ok in H. destruct H as [afp [_ H]].
  apply bind_Ok in H. destruct H as [dfp [_ H]].
  apply bind_Ok in H. destruct H as [b [_ H]].
  apply bind_Ok in H. destruct H as [rv [_ H]].
  apply bind_Ok in H. destruct H as [text [_ H]].
  apply bind_Ok in H. destruct H as [rets [_ H]].
  destruct fname as [nm|]; [|discriminate]. injection H as _ Hi. now subst i2.
Qed.

(* emit.argparse_function: param2argparse_param works on a copy of each param dict *)
Lemma emit_argparse_ir : forall pt i edd fn ft wd ww ds s i2,
    emit_argparse pt i edd fn ft wd ww ds = Ok (s, i2) -> i2 = i.
Proof.
  intros pt i edd fn ft wd ww ds s i2 H. unfold emit_argparse in H.
  apply bind_Ok in H. destruct H as [fname [_ H]].
  apply bind_Ok in H. destruct H as [ftype [_ H]].
  apply bind_Ok in H. destruct H as [b [_ H]].
  apply bind_Ok in H. destruct H as [dtext [_ H]].
  apply bind_Ok in H. destruct H as [desc [_ H]].
  apply bind_Ok in H. destruct H as [ps [_ H]].
  apply bind_Ok in H. destruct H as [spliced [_ H]].
  apply bind_Ok in H. destruct H as [ret [_ H]].
  destruct fname as [nm|]; [|discriminate]. injection H as _ Hi. now subst i2.
Qed.

(* ------------------------------------------------------------------ non-interference *)
Section Frame.
  Variable pt : ptable.
  Variable td : td_opts -> ir -> outcome str.
  Variable dsf : bool -> ir -> outcome str.
  Variable doc_op : doc_opts -> ir -> outcome (str * ir).

  Lemma run_op_frame : forall o i a i',
      (is_docstring o = true -> doc_stable_on doc_op i) ->
      run_op pt td dsf doc_op o i = Ok (a, i') -> i' = i.
  Proof.
    intros o i a i' Hd H. destruct o as [ec cn bs ds ww edd|n t ww edd il tb it kw|edd n t wd ww|o];
      cbn [run_op] in H; apply bind_Ok in H; destruct H as [[s i2] [He H]]; injection H as _ Hi; subst i'; cbn.
    - eapply emit_class_ir; eauto.
    - eapply emit_function_ir; eauto.
    - eapply emit_argparse_ir; eauto.
    - eapply (Hd eq_refl); eauto.
  Qed.

  Lemma C13_frame_lemma : forall ops i,
      (existsb is_docstring ops = true -> doc_stable_on doc_op i) ->
      run_shared pt td dsf doc_op ops i = run_fresh pt td dsf doc_op ops i.
  Proof.
    induction ops as [|o r IH]; intros i Hd; [reflexivity|]. cbn [run_shared run_fresh].
    destruct (run_op pt td dsf doc_op o i) as [[a i']|e] eqn:E; [|reflexivity]. cbn [bind fst snd].
    assert (Hi : i' = i).
    { eapply run_op_frame; eauto. intros Ho. apply Hd. cbn. now rewrite Ho. }
    subst i'. rewrite IH; [reflexivity|]. intros Hr. apply Hd. cbn. rewrite Hr. apply orb_true_r.
  Qed.

  (* the Fixpoint run_shared is the fold_left of the design text *)
  Fixpoint run_shared_ir (ops : list op) (i : ir) : outcome (list artefact * ir) :=
    match ops with
    | [] => Ok ([], i)
    | o :: r => do x <- run_op pt td dsf doc_op o i; do rest <- run_shared_ir r (snd x);
                Ok (fst x :: fst rest, snd rest)
    end.

  Lemma run_shared_ir_fst : forall ops i,
      run_shared pt td dsf doc_op ops i = do r <- run_shared_ir ops i; Ok (fst r).
  Proof.
    induction ops as [|o r IH]; intros i; [reflexivity|]. cbn [run_shared run_shared_ir].
    destruct (run_op pt td dsf doc_op o i) as [[a i']|e]; [|reflexivity]. cbn [bind fst snd].
    rewrite IH. destruct (run_shared_ir r i') as [[l i2]|e]; reflexivity.
  Qed.

  Lemma fold_left_Err : forall ops e,
      fold_left (fun acc o => do st <- acc; do x <- run_op pt td dsf doc_op o (snd st);
                              Ok (fst st ++ [fst x], snd x)) ops (Err e) = Err e.
  Proof. induction ops as [|o r IH]; intros e; [reflexivity|]. cbn. apply IH. Qed.

  Lemma run_shared_fold_gen : forall ops acc i,
      fold_left (fun acc o => do st <- acc; do x <- run_op pt td dsf doc_op o (snd st);
                              Ok (fst st ++ [fst x], snd x)) ops (Ok (acc, i))
      = do r <- run_shared_ir ops i; Ok (acc ++ fst r, snd r).
  Proof.
    induction ops as [|o r IH]; intros acc i; cbn [fold_left run_shared_ir bind fst snd].
    - now rewrite app_nil_r.
    - destruct (run_op pt td dsf doc_op o i) as [[a i']|e]; cbn [bind fst snd].
      + rewrite IH. destruct (run_shared_ir r i') as [[l i2]|e]; cbn [bind fst snd]; [|reflexivity].
        now rewrite <- app_assoc.
      + apply fold_left_Err.
  Qed.

  Lemma run_shared_fold_spec : forall ops i,
      run_shared pt td dsf doc_op ops i = do r <- run_shared_fold pt td dsf doc_op ops i; Ok (fst r).
  Proof.
    intros ops i. unfold run_shared_fold. rewrite run_shared_fold_gen, run_shared_ir_fst.
    destruct (run_shared_ir ops i) as [[l i2]|e]; reflexivity.
  Qed.
End Frame.

(* the full statement *)
Lemma C13_lemma : C13_statement.
Proof.
  intros pt td dsf doc_op Hp ops i. apply C13_frame_lemma. intros _ o t i' H. eapply Hp; eauto.
Qed.

Lemma C13_emitters_lemma : C13_emitters_statement.
Proof.
  intros pt td dsf doc_op ops i Hn. apply C13_frame_lemma. rewrite Hn. discriminate.
Qed.

(* the hypothesis on emit.docstring cannot be dropped: a docstring layer that writes into the shared param
   dicts (here: one that appends a default sentence to every doc, as set_default_doc does) changes what the
   argparse emitter, which reads the prose, produces next *)
Definition w_td : td_opts -> ir -> outcome str := fun _ _ => Ok [].
Definition w_dsf : bool -> ir -> outcome str := fun _ _ => Ok [].
Definition w_doc_op : doc_opts -> ir -> outcome (str * ir) :=
  fun _ i => Ok ([], mkIR (ir_name i) (ir_type i) (ir_doc i)
                         (map (fun kv => (fst kv, mkG (match g_doc (snd kv) with
                                                       | Has d => Has (d ++ L ". Defaults to 5")
                                                       | x => x
                                                       end) (g_typ (snd kv)) (g_default (snd kv))))
                              (ir_params i))
                         (ir_returns i) (ir_internal i)).

Definition w_ir : ir :=
  mkIR (Has (L "f")) (Has (L "static")) (Has (L "Summary."))
       [(L "x", mkG (Has (L "the x")) (Has (L "int")) (Some (DV (VInt 5))))] FNone None.

Definition w_ops : list op :=
  [OpDocstring (mkDocOpts false true);
   OpArgparse false (Some (L "set_cli_args")) (Some (L "static")) false false].

Lemma C13_doc_pure_needed_lemma :
  run_shared [] w_td w_dsf w_doc_op w_ops w_ir <> run_fresh [] w_td w_dsf w_doc_op w_ops w_ir.
Proof. vm_compute. discriminate. Qed.

(* ------------------------------------------------------------------ non-vacuity *)
Definition w_ir_ok : ir :=
  mkIR (Has (L "f")) (Has (L "static")) (Has (L "Summary."))
       [(L "x", mkG (Has (L "the x.")) Missing (Some (DV (VInt 5))));
        (L "y", mkG (Has (L "the y")) (Has (L "Optional[str]")) None)]
       (Has (mkG (Has (L "result.")) (Has (L "int")) None)) None.

Definition w_ops_ok : list op :=
  [OpArgparse false (Some (L "set_cli_args")) (Some (L "static")) false false;
   OpClass false (L "C") [L "object"] [] false false;
   OpFunction (Some (L "f")) (Some (L "static")) false true 0 false true false;
   OpArgparse true (Some (L "set_cli_args")) (Some (L "static")) false false;
   OpFunction (Some (L "f")) (Some (L "static")) false false 0 false true false].

Lemma C13_nonvacuous_lemma :
  exists l, run_shared [] w_td w_dsf w_doc_op w_ops_ok w_ir_ok = Ok l /\ List.length l = 5.
Proof. eexists. split; [vm_compute; reflexivity | reflexivity]. Qed.
