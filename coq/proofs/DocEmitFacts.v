(* DocEmitFacts: structural lemmas about model/DocEmit.v.
   - the exact shape of emit.docstring(ir, "rest", word_wrap=False): [emit_docstring_rest_off];
   - what the blocks are for the usual parameter shapes; indent_all_but_first on one-line text;
   - word_wrap is irrelevant where the code does not consult it (Google parameter lines).
   Proofs only. *)
From Coq Require Import List Ascii Bool Arith Lia.
From Coq Require String.
Import String.StringSyntax.
From DT Require Import PyStr Sexp PyVal TyExpr Extracted PureUtils Defaults PyAst IR Fill DocEmit C17Spec
     PyStrFacts SplitFacts DefaultsFacts.
Import ListNotations.

(* ------------------------------------------------------------------ *)
(* small facts                                                          *)
(* ------------------------------------------------------------------ *)

Lemma bind_Ok : forall {A B} (a : A) (f : A -> outcome B), bind (Ok a) f = f a.
Proof. reflexivity. Qed.

Lemma bind_Err : forall {A B} e (f : A -> outcome B), bind (Err e) f = Err e.
Proof. reflexivity. Qed.

Lemma mapM_id : forall w ls, mapM (fill_or_id false w) ls = Ok ls.
Proof.
  intros w ls. induction ls as [|x r IH]; [reflexivity|].
  cbn [mapM fill_or_id bind]. rewrite IH. reflexivity.
Qed.

Lemma truthy_fld_Some : forall f s, truthy_fld f = Some s -> f = Has s /\ s <> [].
Proof.
  intros f s H. destruct f as [| |a]; try discriminate. destruct a as [|c r]; [discriminate|].
  inversion H; subst. split; [reflexivity|discriminate].
Qed.

Lemma truthy_fld_Has : forall c r, truthy_fld (Has (c :: r)) = Some (c :: r).
Proof. reflexivity. Qed.

(* set_default_doc never touches typ; its result has a str doc whenever its input has *)
Lemma set_default_doc_typ : forall name p edd p', set_default_doc name p edd = Ok p' -> p_typ p' = p_typ p.
Proof.
  intros name p edd p' H. unfold set_default_doc in H.
  destruct (p_doc p) as [| |doc]; [now inversion H|discriminate|].
  destruct ((contains (L "Defaults") doc || contains (L "defaults") doc) && negb edd).
  - destruct (extract_default doc true default_announces None false) as [r|e]; [|discriminate].
    cbn [bind] in H. now inversion H.
  - destruct (p_default p) as [dflt|]; [|now inversion H].
    destruct (negb (contains (L "Defaults") doc || contains (L "defaults") doc) && edd); [|now inversion H].
    match type of H with context [if ?c then _ else _] => destruct c end; [|now inversion H].
    destruct (last_c doc); [|discriminate].
    match type of H with context [shown_default ?a ?b] => destruct (shown_default a b) as [sv|e] end;
      [|discriminate].
    cbn [bind] in H. now inversion H.
Qed.

Lemma sdd_doc_typ : forall name p edd d p', sdd_doc name p edd = Ok (d, p') -> p_typ p' = p_typ p /\ p_doc p' = Has d.
Proof.
  intros name p edd d p' H. unfold sdd_doc in H.
  destruct (set_default_doc name p edd) as [q|e] eqn:E; [|discriminate]. cbn [bind] in H.
  destruct (p_doc q) as [| |dq] eqn:Eq; try discriminate. inversion H; subst.
  split; [now apply (set_default_doc_typ name p edd)|assumption].
Qed.

(* ------------------------------------------------------------------ *)
(* emit_param_str, ReST, word_wrap off = the text of the entry's block   *)
(* ------------------------------------------------------------------ *)

Lemma rest_raw_lines_block : forall name p edd,
    rest_raw_lines name p true true edd =
    do bp <- rest_block_of edd name p; Ok (block_lines (fst bp), snd bp).
Proof.
  intros name p edd. unfold rest_raw_lines, rest_block_of.
  destruct (truthy_fld (p_doc p)) as [d|].
  - destruct (sdd_doc name p edd) as [[d' p']|e]; [|reflexivity].
    cbn [bind fst snd]. unfold block_lines. cbn [rb_name rb_doc rb_typ option_map].
    destruct (truthy_fld (p_typ p')); reflexivity.
  - cbn [bind fst snd]. unfold block_lines. cbn [rb_name rb_doc rb_typ option_map].
    destruct (truthy_fld (p_typ p)); reflexivity.
Qed.

(* emit_param_str works on a copy of the param: the caller's param comes back as it was *)
Lemma emit_param_str_pure : forall w name p st ed et ww edd t p',
    emit_param_str w name p st ed et ww edd = Ok (t, p') -> p' = p.
Proof.
  intros w name p st ed et ww edd t p' H. unfold emit_param_str in H. destruct st.
  - destruct (rest_raw_lines name p ed et edd) as [lp|e]; [|discriminate]. cbn [bind] in H.
    destruct (mapM (fill_or_id ww w) (fst lp)) as [f|e]; [|discriminate]. cbn [bind] in H. now inversion H.
  - repeat match type of H with
           | bind ?x _ = _ => destruct x; [cbn [bind] in H|discriminate]
           end.
    now inversion H.
  - repeat match type of H with
           | bind ?x _ = _ => destruct x; [cbn [bind] in H|discriminate]
           end.
    now inversion H.
Qed.

Lemma emit_items_pure : forall {A} (f : str -> param -> outcome (A * param)) ps xs ps',
    (forall k p t p', f k p = Ok (t, p') -> p' = p) ->
    emit_items f ps = Ok (xs, ps') -> ps' = ps.
Proof.
  intros A f ps. induction ps as [|[k p] r IH]; intros xs ps' Hf H.
  - cbn [emit_items] in H. now inversion H.
  - cbn [emit_items] in H. destruct (f k p) as [[t p1]|e] eqn:E1; [|discriminate]. cbn [bind fst snd] in H.
    destruct (emit_items f r) as [[ts r1]|e] eqn:E2; [|discriminate]. cbn [bind fst snd] in H.
    inversion H; subst. rewrite (Hf k p t p1 E1). now rewrite (IH ts r1 Hf eq_refl).
Qed.

Lemma emit_param_str_rest_off : forall w name p edd,
    emit_param_str w name p Rest true true false edd =
    do bp <- rest_block_of edd name p; Ok (rest_entry_text (fst bp), p).
Proof.
  intros w name p edd. unfold emit_param_str. rewrite rest_raw_lines_block.
  destruct (rest_block_of edd name p) as [[b p']|e]; [|reflexivity].
  cbn [bind fst snd]. rewrite mapM_id. reflexivity.
Qed.

Lemma emit_items_rest_off : forall w edd ps,
    emit_items (fun k p => emit_param_str w k p Rest true true false edd) ps =
    do r <- emit_items (rest_block_of edd) ps; Ok (map rest_entry_text (fst r), ps).
Proof.
  intros w edd ps. induction ps as [|[k p] r IH]; [reflexivity|].
  cbn [emit_items]. rewrite emit_param_str_rest_off.
  destruct (rest_block_of edd k p) as [[b p']|e]; [|reflexivity].
  cbn [bind fst snd]. rewrite IH.
  destruct (emit_items (rest_block_of edd) r) as [[bs ps']|e]; reflexivity.
Qed.

(* THE SHAPE: emit.docstring(ir, "rest", word_wrap=False) is the text of the IR's blocks *)
Theorem emit_docstring_rest_off : forall w edd i,
    emit_docstring w Rest false edd i =
    do b <- rest_blocks_of_ir edd i;
    Ok (text_of_blocks (fst (fst (fst b))) (snd (fst (fst b))) (snd (fst b)), snd b).
Proof.
  intros w edd i. unfold emit_docstring, rest_blocks_of_ir.
  destruct (params_of (ir_params i)) as [ps|]; [|reflexivity].
  destruct (ir_doc i) as [| |d]; try reflexivity.
  - (* doc is None: "None" is printed *)
    cbn [bind fill_or_id]. rewrite emit_items_rest_off.
    destruct (emit_items (rest_block_of edd) ps) as [[bs ps']|e]; [|reflexivity].
    cbn [bind fst snd].
    destruct (ir_returns i) as [| |g].
    + cbn [bind fst snd]. unfold text_of_blocks. destruct (map rest_entry_text bs); reflexivity.
    + cbn [bind fst snd]. unfold text_of_blocks. destruct (map rest_entry_text bs); reflexivity.
    + destruct (param_of_gparam g) as [p|]; [|reflexivity].
      rewrite emit_param_str_rest_off.
      destruct (rest_block_of edd (L "return_type") p) as [[rb p']|e]; [|reflexivity].
      cbn [bind fst snd]. unfold text_of_blocks. destruct (map rest_entry_text bs); reflexivity.
  - cbn [bind fill_or_id]. rewrite emit_items_rest_off.
    destruct (emit_items (rest_block_of edd) ps) as [[bs ps']|e]; [|reflexivity].
    cbn [bind fst snd].
    destruct (ir_returns i) as [| |g].
    + cbn [bind fst snd]. unfold text_of_blocks. destruct (map rest_entry_text bs); reflexivity.
    + cbn [bind fst snd]. unfold text_of_blocks. destruct (map rest_entry_text bs); reflexivity.
    + destruct (param_of_gparam g) as [p|]; [|reflexivity].
      rewrite emit_param_str_rest_off.
      destruct (rest_block_of edd (L "return_type") p) as [[rb p']|e]; [|reflexivity].
      cbn [bind fst snd]. unfold text_of_blocks. destruct (map rest_entry_text bs); reflexivity.
Qed.

(* ------------------------------------------------------------------ *)
(* indent_all_but_first on a single line                                 *)
(* ------------------------------------------------------------------ *)

Lemma indent_all_but_first_one_line : forall c r n,
    ~ In nl (c :: r) -> isspace c = false -> indent_all_but_first (c :: r) n false = c :: r.
Proof.
  intros c r n Hn Hc. unfold indent_all_but_first, indent. rewrite !split_nl_eq.
  rewrite (split_c_no_sep_id nl (c :: r)) by assumption.
  cbn [indent_lines forallb]. rewrite Hc. cbn [andb join].
  set (pre := repeat_str tab n).
  destruct (split_c nl (pre ++ c :: r)) as [|l0 rest] eqn:E; [now apply split_c_nonnil in E|].
  (* whatever the prefix, joining the pieces back gives pre ++ c :: r; lstrip of the first piece ... *)
  assert (Hpre : forallb isspace pre = true /\ ~ In nl pre).
  { unfold pre, repeat_str. split.
    - rewrite forallb_forall. intros x Hx. apply in_concat in Hx. destruct Hx as [t [Ht Hx]].
      apply repeat_spec in Ht. subst t. revert x Hx. apply forallb_forall. reflexivity.
    - intros Hx. apply in_concat in Hx. destruct Hx as [t [Ht Hx]].
      apply repeat_spec in Ht. subst t. apply mem_c_In in Hx. vm_compute in Hx. discriminate. }
  destruct Hpre as [Hsp Hnl].
  assert (Hno : ~ In nl (pre ++ c :: r)).
  { intros Hx. apply in_app_or in Hx. tauto. }
  rewrite (split_c_no_sep_id nl _ Hno) in E. inversion E; subst. cbn [join].
  unfold lstrip, lstrip_by. clear - Hsp Hc. induction pre as [|x t IH]; cbn [app dropwhile].
  - now rewrite Hc.
  - cbn [forallb] in Hsp. apply andb_true_iff in Hsp. destruct Hsp as [Hx Ht]. rewrite Hx. now apply IH.
Qed.

Lemma colon_not_space : isspace (ch 58) = false.
Proof. reflexivity. Qed.

Lemma rest_doc_line_head : forall name d, exists r, rest_doc_line name d = ch 58 :: r.
Proof. intros name d. unfold rest_doc_line. eexists. reflexivity. Qed.

Lemma rest_typ_line_head : forall name t, exists r, rest_typ_line name t = ch 58 :: r.
Proof. intros name t. unfold rest_typ_line. eexists. reflexivity. Qed.

Lemma iabf_rest_doc_line : forall name d, ~ In nl (rest_doc_line name d) ->
    indent_all_but_first (rest_doc_line name d) 1 false = rest_doc_line name d.
Proof.
  intros name d H. destruct (rest_doc_line_head name d) as [r E]. rewrite E in *.
  apply indent_all_but_first_one_line; [assumption|reflexivity].
Qed.

Lemma iabf_rest_typ_line : forall name t, ~ In nl (rest_typ_line name t) ->
    indent_all_but_first (rest_typ_line name t) 1 false = rest_typ_line name t.
Proof.
  intros name t H. destruct (rest_typ_line_head name t) as [r E]. rewrite E in *.
  apply indent_all_but_first_one_line; [assumption|reflexivity].
Qed.

(* the text of a block whose prose and type are single lines: exactly the two lines *)
Lemma rest_entry_text_two_lines : forall name d t,
    ~ In nl (rest_doc_line name d) -> ~ In nl (rest_typ_line name t) ->
    rest_entry_text (mkBlock name (Some d) (Some t)) = rest_doc_line name d ++ [nl] ++ rest_typ_line name t.
Proof.
  intros name d t Hd Ht. unfold rest_entry_text, block_lines.
  cbn [rb_name rb_doc rb_typ option_map cat_options map].
  rewrite iabf_rest_doc_line, iabf_rest_typ_line by assumption. reflexivity.
Qed.

Lemma rest_entry_text_doc_only : forall name d,
    ~ In nl (rest_doc_line name d) ->
    rest_entry_text (mkBlock name (Some d) None) = rest_doc_line name d.
Proof.
  intros name d Hd. unfold rest_entry_text, block_lines.
  cbn [rb_name rb_doc rb_typ option_map cat_options map].
  rewrite iabf_rest_doc_line by assumption. reflexivity.
Qed.

Lemma rest_entry_text_typ_only : forall name t,
    ~ In nl (rest_typ_line name t) ->
    rest_entry_text (mkBlock name None (Some t)) = rest_typ_line name t.
Proof.
  intros name t Ht. unfold rest_entry_text, block_lines.
  cbn [rb_name rb_doc rb_typ option_map cat_options map].
  rewrite iabf_rest_typ_line by assumption. reflexivity.
Qed.

Lemma rest_entry_text_empty : forall name, rest_entry_text (mkBlock name None None) = [].
Proof. reflexivity. Qed.

(* ------------------------------------------------------------------ *)
(* the block of the usual parameter shapes                               *)
(* ------------------------------------------------------------------ *)

(* no default: the prose is written as it is (emit_default_doc on) *)
Lemma rest_block_of_no_default : forall name c r t,
    rest_block_of true name (mkParam (Has (c :: r)) t None) =
    Ok (mkBlock name (Some (c :: r)) (truthy_fld t), mkParam (Has (c :: r)) t None).
Proof.
  intros name c r t. unfold rest_block_of. cbn [p_doc truthy_fld].
  unfold sdd_doc. rewrite set_default_doc_no_default by (cbn; congruence || discriminate).
  reflexivity.
Qed.

(* a default and prose that does not mention defaults: the sentence is appended *)
Lemma rest_block_of_default : forall name d l t v sv,
    last_c d = Some l ->
    contains (L "Defaults") d || contains (L "defaults") d = false ->
    (let v' := if pyval_eqb v (VStr NoneStr) then VNone else v in
     negb (pyval_eqb v' VNone) || negb (endswith (L "kwargs") name) = true
     /\ shown_default v' t = Ok sv) ->
    rest_block_of true name (mkParam (Has d) (fld_of_opt t) (Some v)) =
    let d' := (if ascii_eqb l (ch 46) || ascii_eqb l (ch 44) then d else d ++ [ch 46])
              ++ L " Defaults to " ++ py_str sv in
    Ok (mkBlock name (Some d') (truthy_fld (fld_of_opt t)),
        mkParam (Has d') (fld_of_opt t) (Some (if pyval_eqb v (VStr NoneStr) then VNone else v))).
Proof.
  intros name d l t v sv Hl Hdef Hv. unfold rest_block_of. cbn [p_doc].
  destruct d as [|c r]; [discriminate|]. cbn [truthy_fld].
  unfold sdd_doc. rewrite (set_default_doc_writes name (c :: r) l t v sv Hl Hdef Hv).
  reflexivity.
Qed.

(* emit_default_doc off and prose that announces nothing: written as it is, whatever the default *)
Lemma rest_block_of_edd_off : forall name c r t v,
    no_announce (c :: r) = true ->
    rest_block_of false name (mkParam (Has (c :: r)) t v) =
    Ok (mkBlock name (Some (c :: r)) (truthy_fld t), mkParam (Has (c :: r)) t v).
Proof.
  intros name c r t v Hno. unfold rest_block_of. cbn [p_doc truthy_fld].
  unfold sdd_doc. rewrite (set_default_doc_no_announce name _ (c :: r)) by (reflexivity || assumption).
  reflexivity.
Qed.

(* no prose: only the type line; the entry is returned untouched *)
Lemma rest_block_of_no_doc : forall edd name p,
    truthy_fld (p_doc p) = None ->
    rest_block_of edd name p = Ok (mkBlock name None (truthy_fld (p_typ p)), p).
Proof. intros edd name p H. unfold rest_block_of. rewrite H. reflexivity. Qed.

(* ------------------------------------------------------------------ *)
(* word_wrap where the code does not consult it                          *)
(* ------------------------------------------------------------------ *)

Lemma emit_param_str_google_wrap_irrelevant : forall w name p ed et edd,
    emit_param_str w name p Google ed et true edd = emit_param_str w name p Google ed et false edd.
Proof. reflexivity. Qed.

Lemma emit_items_ext : forall {A} (f g : str -> param -> outcome (A * param)) ps,
    (forall k p, In (k, p) ps -> f k p = g k p) -> emit_items f ps = emit_items g ps.
Proof.
  intros A f g ps. induction ps as [|[k p] r IH]; intros H; [reflexivity|].
  cbn [emit_items]. rewrite (H k p) by now left.
  destruct (g k p) as [sp|e]; [|reflexivity]. cbn [bind].
  rewrite IH; [reflexivity|]. intros k' p' Hin. apply H. now right.
Qed.

(* ------------------------------------------------------------------ *)
(* to_docstring leaves the caller's IR as it was                         *)
(* ------------------------------------------------------------------ *)

Lemma to_docstring_ir : forall w i edd st il et est ww t i',
    to_docstring w i edd st il et est ww = Ok (t, i') -> i' = i.
Proof.
  intros w i edd st il et est ww t i' H. unfold to_docstring in H.
  destruct st; try discriminate.
  destruct (params_of (ir_params i)) as [ps|]; [|discriminate].
  match type of H with context [match ?x with Some _ => _ | None => _ end] => destruct x as [ret|] end;
    [|discriminate].
  repeat match type of H with
         | bind ?x _ = _ => destruct x; [cbn [bind] in H|discriminate]
         end.
  now inversion H.
Qed.

(* ------------------------------------------------------------------ *)
(* emit.docstring leaves the caller's IR as it was                       *)
(* ------------------------------------------------------------------ *)

(* plain form of the premise [doc_pure] of props/C13.v (proofs/DocEmitPure.v states it in that shape) *)
Theorem emit_docstring_pure : forall w st ww edd i t i',
    emit_docstring w st ww edd i = Ok (t, i') -> i' = i.
Proof.
  intros w st ww edd i t i' H. unfold emit_docstring in H.
  destruct (params_of (ir_params i)) as [ps|]; [|discriminate].
  repeat match type of H with
         | bind ?x _ = _ => destruct x; [cbn [bind] in H|discriminate]
         end.
  now inversion H.
Qed.

Lemma rest_blocks_of_ir_pure : forall edd i d bs rb i',
    rest_blocks_of_ir edd i = Ok (d, bs, rb, i') -> i' = i.
Proof.
  intros edd i d bs rb i' H. unfold rest_blocks_of_ir in H.
  destruct (params_of (ir_params i)) as [ps|]; [|discriminate].
  repeat match type of H with
         | bind ?x _ = _ => destruct x; [cbn [bind] in H|discriminate]
         end.
  now inversion H.
Qed.
