(* C12Facts: independence of parse_function / merge_inner_function from every set-iteration order,
   and the assembled C12 statement.  Proofs only. *)
From Coq Require Import List Ascii Bool Arith ZArith Lia Permutation.
From Coq Require String.
Import String.StringSyntax.
From DT Require Import PyStr Sexp PyVal PureUtils Defaults PyAst IR Merge ParseSig C12Spec PyStrFacts MergeFacts.
Import ListNotations.

Lemma parse_function_perm : C12_function_statement.
Proof.
  intros pi pi' pj pj' d fd it ww ft fnm Hpi Hpi' Hpj Hpj'. unfold parse_function.
  destruct (pf_prepare d fd ft fnm) as [pp|e]; cbn [bind]; [|reflexivity].
  rewrite (ir_merge_perm pi pi' pj pj' _ _ Hpi Hpi' Hpj Hpj'). reflexivity.
Qed.

Lemma merge_inner_function_perm : C12_inner_statement.
Proof.
  intros p1 p1' q1 q1' p2 p2' q2 q2' c it t n d H1 H1' H2 H2' H3 H3' H4 H4'.
  unfold merge_inner_function.
  destruct (find_inner_function c n) as [[f|]|e]; cbn [bind]; try reflexivity.
  destruct f as [fname a body decos rets| | | | | |]; try reflexivity.
  rewrite (parse_function_perm p1 p1' q1 q1' _ _ _ _ _ _ H1 H1' H2 H2').
  destruct (parse_function p1' q1' d (SFunc fname a body decos rets) it true _ _) as [inner|e]; cbn [bind]; [|reflexivity].
  apply ir_merge_perm; assumption.
Qed.

Lemma state_independent : C12_state_statement.
Proof. intros S st st' pi pj d fd it ww ft fnm. reflexivity. Qed.

Lemma C12_lemma : C12_statement.
Proof.
  split; [|split; [|split; [|split]]].
  - exact join_non_none_perm.
  - exact ir_merge_perm.
  - exact parse_function_perm.
  - exact merge_inner_function_perm.
  - exact state_independent.
Qed.

(* whatever order the interpreter picks, the result is the one computed with the canonical listing *)
Lemma parse_function_canonical : forall pi pj d fd it ww ft fnm, perm_ok pi -> perm_ok pj ->
  parse_function pi pj d fd it ww ft fnm = parse_function id_perm id_perm d fd it ww ft fnm.
Proof.
  intros. apply parse_function_perm; auto using id_perm_ok.
Qed.

(* the finding class of C12Spec: outside it every default of the parsed IR is a value with a
   process-independent text (no raw node) *)
Lemma C12_printable_lemma : forall pi pj d fd r, perm_ok pi -> perm_ok pj ->
  finding_class_C12 d fd = None ->
  parse_function pi pj d fd false true None None = Ok r -> ir_printable r.
Proof.
  intros pi pj d fd r Hpi Hpj Hc Hp.
  rewrite (parse_function_canonical pi pj) in Hp by assumption.
  unfold finding_class_C12 in Hc. rewrite Hp in Hc. unfold finding_class_C12_ir in Hc.
  destruct (ir_has_node_default r) eqn:E; [discriminate|].
  unfold ir_has_node_default in E. apply orb_false_iff in E. destruct E as [E1 E2].
  split.
  - intros k p Hin e He.
    assert (Hx : existsb (fun kv => gparam_has_node (snd kv)) (ir_params r) = true).
    { apply existsb_exists. exists (k, p). split; [exact Hin|]. cbn [snd]. unfold gparam_has_node. rewrite He. reflexivity. }
    congruence.
  - intros p Hr e He. rewrite Hr in E2. unfold gparam_has_node in E2. rewrite He in E2. discriminate.
Qed.

(* before fix 5000c02 the appended names depended on the set order *)
Lemma C12_old_code_refuted :
  exists pd pd' op tp, perm_ok pd /\ perm_ok pd' /\ append_missing_old pd op tp <> append_missing_old pd' op tp.
Proof.
  exists id_perm, rev_perm, [(L "a", g0); (L "b", g0)], [(L "c", g0)].
  split; [exact id_perm_ok|]. split; [exact rev_perm_ok|]. exact old_append_order_dependent.
Qed.

Example C12_nonvacuous_lemma :
  exists t o r, ir_merge id_perm id_perm t o = Ok r /\ ir_merge rev_perm rev_perm t o = Ok r
                /\ List.length (inter_keys (ir_params o) (ir_params t)) = 2.
Proof.
  exists (mkIR FNone (Has (L "static")) (Has (L "Doc."))
               [(L "b", mkG (Has (L "the b")) Missing None); (L "a", mkG (Has (L "the a")) Missing None)] FNone None).
  exists (mkIR Missing Missing Missing
               [(L "a", mkG FNone (Has (L "int")) None); (L "b", mkG FNone FNone (Some (DE (EConst (VInt 5)))));
                (L "c", mkG FNone FNone None)] FNone None).
  eexists. split; [vm_compute; reflexivity|]. split; vm_compute; reflexivity.
Qed.
