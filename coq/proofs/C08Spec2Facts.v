(* Facts about the refined C08 classifier (model/C08Spec2.v). *)
From Coq Require Import List Ascii Bool Arith ZArith.
From Coq Require String.
Import String.StringSyntax.
From DT Require Import PyStr PyVal Defaults IR C01Spec C05Spec C08Spec C08Spec2 C05Closed.
From DT Require EmitAst C04Spec2 C05ClosedFacts.
From DT Require Import PyStrFacts.
Import ListNotations.

(* the refinement only ever adds the new class: an old class is kept as it is *)
Lemma finding_class_C08_r_adds : forall k i c,
    finding_class_C08_r k i = Some c ->
    (exists c0, finding_class_C08 k i = Some c0 /\ c = K8r_old c0)
    \/ (finding_class_C08 k i = None /\ c = K8r_text_quoted_three_deep).
Proof.
  intros k i c H. unfold finding_class_C08_r in H.
  destruct (finding_class_C08 k i) as [c0|].
  - left. exists c0. injection H as H. split; [reflexivity|symmetry; exact H].
  - right. split; [reflexivity|]. unfold new_class_C08 in H.
    destruct (is_argparse_kind k && _); [injection H as H; symmetry; exact H|discriminate H].
Qed.

Lemma finding_class_C08_r_old : forall k i c,
    finding_class_C08 k i = Some c -> finding_class_C08_r k i = Some (K8r_old c).
Proof. intros k i c H. unfold finding_class_C08_r. rewrite H. reflexivity. Qed.

(* the name of a kept class is the old name: KNOWN_FINDINGS lines of the old classes stay valid *)
Lemma c08_class_r_name_old : forall c, c08_class_r_name (K8r_old c) = c05_class_name c.
Proof. reflexivity. Qed.

(* the refined guard is inside the old one: every theorem stated under guard_C08 holds under guard_C08_r *)
Lemma guard_C08_r_inside : forall k i, guard_C08_r k i = true -> guard_C08 k i = true.
Proof.
  intros k i H. unfold guard_C08_r in H. unfold guard_C08.
  apply andb_true_iff in H. destruct H as [Hd Hc]. rewrite Hd. cbn [andb].
  unfold finding_class_C08_r in Hc. destruct (finding_class_C08 k i) as [c|]; [discriminate Hc|reflexivity].
Qed.

(* the new class is given for the argparse kind only *)
Lemma three_deep_needs_argparse_kind : forall k i,
    new_class_C08 k i = Some K8r_text_quoted_three_deep -> k = KArgparse.
Proof.
  intros k i H. unfold new_class_C08 in H. destruct k; cbn [is_argparse_kind andb] in H; try discriminate H. reflexivity.
Qed.

(* a text in the class is itself wrapped in quote marks, and so is what one emission leaves of it: three pairs at least *)
Lemma three_deep_loses_twice : forall s,
    three_deep s = true ->
    C04Spec2.loses_quotes s = true /\ C04Spec2.loses_quotes (EmitAst.set_value_str s) = true.
Proof.
  intros s H. unfold three_deep in H.
  assert (A : forall t, C04Spec2.loses_quotes (EmitAst.set_value_str t) = true -> C04Spec2.loses_quotes t = true).
  { intros t Ht. unfold C04Spec2.loses_quotes in *. destruct (str_eqb (EmitAst.set_value_str t) t) eqn:E; [|reflexivity].
    apply str_eqb_eq in E. rewrite E in Ht. rewrite E in Ht. rewrite str_eqb_refl in Ht. discriminate Ht. }
  split; [apply A; apply A; exact H|apply A; exact H].
Qed.

(* the witness: a summary in three pairs of single quote marks.  Unnamed by the old classifier, named by the refined one
   for the argparse kind only, in the domain; and over the model of the argparse conversion the description read back
   after the first, the second and the third emission are three different texts (so the second and third emission,
   which print the second and the third of them, differ) *)
Definition w8_summary : ir := C05ClosedFacts.w1p (L "'''a'''") (cg (L "first.") (L "int") (VInt 1)).

Definition doc_after (n : nat) (i : ir) : option (fld str) :=
  (fix go (n : nat) (i : ir) : option (fld str) :=
     match n with
     | O => Some (ir_doc i)
     | S m => match conv_argparse default_env i with Ok i' => go m i' | Err _ => None end
     end) n i.

Lemma three_deep_summary_classified :
  finding_class_C08 KArgparse w8_summary = None
  /\ finding_class_C08_r KArgparse w8_summary = Some K8r_text_quoted_three_deep
  /\ forallb (fun k => match finding_class_C08_r k w8_summary with None => true | Some _ => false end)
             [KRest; KNumpydoc; KGoogle; KClass; KFunction; KMethod] = true
  /\ c05_domain w8_summary = true
  /\ doc_after 1 w8_summary = Some (Has (L "''a''"))
  /\ doc_after 2 w8_summary = Some (Has (L "'a'"))
  /\ doc_after 3 w8_summary = Some (Has (L "a")).
Proof. vm_compute. repeat split; reflexivity. Qed.

(* the same on the prose of a parameter *)
Definition w8_help : ir := C05ClosedFacts.w1p (L "Sum.") (cg (L "'''a'''") (L "int") (VInt 1)).

Lemma three_deep_help_classified :
  finding_class_C08 KArgparse w8_help = None
  /\ finding_class_C08_r KArgparse w8_help = Some K8r_text_quoted_three_deep
  /\ finding_class_C08_r KClass w8_help = None
  /\ c05_domain w8_help = true.
Proof. vm_compute. repeat split; reflexivity. Qed.

(* one pair and two pairs stabilise after the first pass: not in the class; seven quote marks alone are *)
Lemma one_and_two_pairs_unclassified :
  forallb (fun s => match finding_class_C08_r KArgparse (C05ClosedFacts.w1p s (cg (L "first.") (L "int") (VInt 1)))
                    with None => true | Some _ => false end)
          [L "'a'"; L "''a''"; L "'a' and 'b'"; L "''''"; L "'''''"] = true
  /\ finding_class_C08_r KArgparse (C05ClosedFacts.w1p (L "'''''''") (cg (L "first.") (L "int") (VInt 1)))
     = Some K8r_text_quoted_three_deep.
Proof. vm_compute. repeat split; reflexivity. Qed.
