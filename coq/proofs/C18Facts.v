(* C18Facts: the docstring-level lemmas behind props/C18.v.
   - ReST :type lines: read back intact when they fit (partial), not in general (refuted by a witness);
   - nothing-needs-wrapping region: word_wrap on and off give byte-identical docstrings, three styles;
   - ReST entries: wrapping changes only whitespace (the words of the wrapped entry, also after the
     parser's re-join, are the words of its lines).
   Proofs only. *)
From Coq Require Import List Ascii Bool Arith ZArith Lia.
From Coq Require String.
Import String.StringSyntax.
From DT Require Import PyStr Sexp PyVal TyExpr Extracted PureUtils Defaults PyAst IR Fill DocEmit C18Spec
     PyStrFacts SplitFacts FillFacts DocEmitFacts.
Import ListNotations.

(* ------------------------------------------------------------------ *)
(* ReST :type lines                                                     *)
(* ------------------------------------------------------------------ *)

Lemma one_line_clean_no_nl : forall s, one_line_clean s = true -> ~ In nl s.
Proof.
  intros s H Hin. destruct (one_line_clean_inv s H) as [Hch _].
  rewrite forallb_forall in Hch. specialize (Hch nl Hin). discriminate.
Qed.

Lemma type_of_type_line_exact : forall name typ,
    type_of_type_line name (rest_typ_line name typ) = Some typ.
Proof.
  intros name typ. unfold type_of_type_line, rest_typ_line.
  set (pre := L ":" ++ rest_key_typ name ++ L ": ```").
  assert (E : L ":" ++ rest_key_typ name ++ L ": ```" ++ typ ++ L "```" = pre ++ typ ++ L "```").
  { unfold pre. now rewrite <- !app_assoc. }
  rewrite E. rewrite startswith_app.
  assert (E2 : pre ++ typ ++ L "```" = (pre ++ typ) ++ L "```") by now rewrite app_assoc.
  rewrite E2 at 1. rewrite endswith_app. cbn [andb].
  assert (Hlen : Nat.leb (List.length pre + 3) (List.length (pre ++ typ ++ L "```")) = true).
  { apply Nat.leb_le. rewrite !app_length. cbn. lia. }
  rewrite Hlen. f_equal.
  replace (List.length (pre ++ typ ++ L "```") - 3) with (List.length pre + List.length typ)
    by (rewrite !app_length; cbn; lia).
  apply slice_app_mid.
Qed.

(* a :type line that fits (and is a clean single line) is read back intact, at every width *)
Lemma C18_type_line_partial_lemma : forall w name typ,
    0 < w -> nowrap_line w (rest_typ_line name typ) = true -> C18_type_line_at w name typ.
Proof.
  intros w name typ Hw Hn r Hr. rewrite (nowrap_line_fill w _ Hw Hn) in Hr. inversion Hr; subst r.
  unfold nowrap_line in Hn. apply andb_true_iff in Hn. destruct Hn as [Hc _].
  rewrite iabf_rest_typ_line by now apply one_line_clean_no_nl.
  apply type_of_type_line_exact.
Qed.

(* ... and a longer one is not: newline + indent end up inside the type *)
Lemma C18_type_line_refuted_lemma : ~ C18_type_line_statement.
Proof.
  intros H. specialize (H 20 (L "lr") (L "Literal['tf', 'sgd', 'mnist']")). unfold C18_type_line_at in H.
  destruct (fill 20 (rest_typ_line (L "lr") (L "Literal['tf', 'sgd', 'mnist']"))) as [r|e] eqn:E.
  - specialize (H ltac:(lia) r eq_refl). vm_compute in E. inversion E; subst r. vm_compute in H. discriminate.
  - vm_compute in E. discriminate.
Qed.

(* ------------------------------------------------------------------ *)
(* nothing needs wrapping: word_wrap on = word_wrap off, byte for byte  *)
(* ------------------------------------------------------------------ *)

Lemma mapM_fill_nowrap : forall w ls, 0 < w -> forallb (nowrap_line w) ls = true ->
                                      mapM (fill_or_id true w) ls = Ok ls.
Proof.
  intros w ls Hw. induction ls as [|x r IH]; intros H; [reflexivity|].
  cbn [forallb] in H. apply andb_true_iff in H. destruct H as [Hx Hr].
  cbn [mapM fill_or_id]. rewrite (nowrap_line_fill w x Hw Hx). cbn [bind]. rewrite IH by assumption. reflexivity.
Qed.

Lemma emit_param_str_nowrap : forall w st edd name p,
    0 < w -> nowrap_entry w st edd (name, p) = true ->
    emit_param_str w name p st true true true edd = emit_param_str w name p st true true false edd.
Proof.
  intros w st edd name p Hw H. unfold nowrap_entry in H. cbn [fst snd] in H.
  destruct st.
  - (* rest *)
    unfold filled_lines in H. unfold emit_param_str.
    destruct (rest_raw_lines name p true true edd) as [[ls p']|e]; [|reflexivity].
    cbn [bind fst snd] in *. rewrite (mapM_fill_nowrap w ls Hw H). now rewrite mapM_id.
  - (* numpydoc *)
    unfold filled_lines in H. unfold emit_param_str.
    destruct (truthy_fld (p_typ p)) as [t|].
    + destruct (truthy_fld (p_doc p)) as [d|].
      * destruct (sdd_doc name p edd) as [[d' p']|e]; [|discriminate].
        cbn [bind fst snd app forallb] in H.
        apply andb_true_iff in H. destruct H as [H1 H2]. apply andb_true_iff in H2. destruct H2 as [H2 _].
        cbn [fill_or_id]. rewrite (nowrap_line_fill w _ Hw H1). cbn [bind fst snd].
        rewrite (nowrap_line_fill w _ Hw H2). reflexivity.
      * cbn [bind app forallb] in H. apply andb_true_iff in H. destruct H as [H1 _].
        cbn [fill_or_id]. rewrite (nowrap_line_fill w _ Hw H1). reflexivity.
    + destruct (truthy_fld (p_doc p)) as [d|]; [|reflexivity].
      destruct (sdd_doc name p edd) as [[d' p']|e]; [|discriminate].
      cbn [bind fst snd app forallb] in H. apply andb_true_iff in H. destruct H as [H2 _].
      cbn [bind fill_or_id fst snd]. rewrite (nowrap_line_fill w _ Hw H2). reflexivity.
  - reflexivity.
Qed.

Lemma C18_nowrap_lemma : forall w st edd i,
    guard_nowrap w st edd i = true ->
    emit_docstring w st true edd i = emit_docstring w st false edd i.
Proof.
  intros w st edd i H. unfold guard_nowrap in H.
  apply andb_true_iff in H. destruct H as [H Hret].
  apply andb_true_iff in H. destruct H as [H Hps].
  apply andb_true_iff in H. destruct H as [Hw Hdoc]. apply Nat.ltb_lt in Hw.
  unfold emit_docstring.
  destruct (params_of (ir_params i)) as [ps|]; [|reflexivity].
  destruct (ir_doc i) as [| |d]; try discriminate.
  cbn [fill_or_id]. rewrite (nowrap_line_fill w d Hw Hdoc). cbn [bind].
  rewrite (emit_items_ext (fun k p => emit_param_str w k p st true true true edd)
                          (fun k p => emit_param_str w k p st true true false edd)).
  2:{ intros k p Hin. apply emit_param_str_nowrap; [assumption|].
      rewrite forallb_forall in Hps. now apply Hps. }
  destruct (emit_items (fun k p => emit_param_str w k p st true true false edd) ps) as [pl|e]; [|reflexivity].
  cbn [bind].
  destruct (ir_returns i) as [| |g]; try reflexivity.
  destruct (param_of_gparam g) as [p|]; [|reflexivity].
  rewrite (emit_param_str_nowrap w st edd (L "return_type") p Hw Hret). reflexivity.
Qed.

(* ------------------------------------------------------------------ *)
(* ReST entries: wrapping changes only whitespace                        *)
(* ------------------------------------------------------------------ *)

Lemma no_exotic_iabf : forall r, no_exotic_space r = true ->
                                 no_exotic_space (indent_all_but_first r 1 false) = true.
Proof.
  intros r Hr. unfold indent_all_but_first, indent. rewrite !split_nl_eq.
  set (ls := split_c nl r).
  assert (Hnn : Forall (fun l => ~ In nl l) (indent_lines (repeat_str tab 1) ls)).
  { apply indent_lines_no_nl; [apply tab1_no_nl|apply split_c_pieces_no_sep]. }
  rewrite split_c_join; [|apply indent_lines_nonnil; apply split_c_nonnil|assumption].
  destruct (indent_lines (repeat_str tab 1) ls) as [|l0 rest] eqn:El.
  { apply indent_lines_nonnil in El; [destruct El|apply split_c_nonnil]. }
  assert (Hall : forall l x, In l (l0 :: rest) -> In x l -> isspace x = tw_space x).
  { intros l x Hl Hx. rewrite <- El in Hl.
    destruct (indent_lines_chars _ _ _ _ Hl Hx) as [Hp|[l1 [H1 H2]]].
    - now apply (no_exotic_In (repeat_str tab 1) x tab1_no_exotic).
    - apply (no_exotic_In r x Hr). eapply split_c_pieces_chars; eassumption. }
  unfold no_exotic_space. rewrite forallb_forall. intros x Hx.
  apply join_chars in Hx. destruct Hx as [Hx|[l [Hl Hxl]]].
  - destruct Hx as [Hx|[]]. subst x. reflexivity.
  - apply eqb_true_iff. destruct Hl as [Hl|Hl].
    + subst l. apply (Hall l0 x); [now left|].
      unfold lstrip, lstrip_by in Hxl. clear - Hxl. induction l0 as [|c t IHt]; [destruct Hxl|].
      cbn [dropwhile] in Hxl. destruct (isspace c); [right; now apply IHt|assumption].
    + apply (Hall l x); [now right|assumption].
Qed.

Lemma no_exotic_join_nl : forall ls, Forall (fun l => no_exotic_space l = true) ls ->
                                     no_exotic_space (join [nl] ls) = true.
Proof.
  intros ls H. unfold no_exotic_space. rewrite forallb_forall. intros x Hx.
  apply join_chars in Hx. destruct Hx as [Hx|[l [Hl Hxl]]].
  - destruct Hx as [Hx|[]]. subst x. reflexivity.
  - rewrite Forall_forall in H. apply eqb_true_iff. now apply (no_exotic_In l x (H l Hl)).
Qed.

(* mapM of fill over lines: each result has the words of its line and no exotic blanks *)
Lemma mapM_fill_words : forall w ls filled,
    Forall (fun l => no_exotic_space l = true) ls ->
    mapM (fill_or_id true w) ls = Ok filled ->
    concat (map words filled) = concat (map words ls)
    /\ Forall (fun l => no_exotic_space l = true) filled.
Proof.
  intros w ls. induction ls as [|x r IH]; intros filled Hn H.
  - cbn [mapM] in H. inversion H; subst. split; [reflexivity|constructor].
  - inversion Hn as [|x' r' Hx Hr]; subst.
    cbn [mapM fill_or_id] in H. destruct (fill w x) as [fx|e] eqn:Ex; [|discriminate]. cbn [bind] in H.
    destruct (mapM (fill_or_id true w) r) as [fr|e] eqn:Er; [|discriminate]. cbn [bind] in H.
    inversion H; subst. destruct (IH fr Hr eq_refl) as [IH1 IH2].
    split.
    + cbn [map concat]. rewrite IH1. now rewrite (fill_words w x fx Ex).
    + constructor; [now apply (fill_no_exotic w x)|assumption].
Qed.

Lemma words_join_iabf : forall ls, Forall (fun l => no_exotic_space l = true) ls ->
    words (join [nl] (map (fun s => indent_all_but_first s 1 false) ls)) = concat (map words ls).
Proof.
  intros ls H. rewrite words_join_sep by reflexivity. rewrite map_map. f_equal.
  apply map_ext_in. intros l Hl. rewrite Forall_forall in H. apply words_indent_all_but_first. now apply H.
Qed.

(* the ReST entry: with word_wrap on (inside Fill's fragment) the text has exactly the words of the raw
   lines, in order - as printed, and after the parser's re-join; word_wrap off gives the same words *)
Lemma C18_rest_entry_lemma : forall w name p ed et edd ls p' tw p1,
    rest_raw_lines name p ed et edd = Ok (ls, p') ->
    Forall (fun l => no_exotic_space l = true) ls ->
    emit_param_str w name p Rest ed et true edd = Ok (tw, p1) ->
    p1 = p'
    /\ words tw = concat (map words ls)
    /\ words (rejoin tw) = concat (map words ls)
    /\ exists tu, emit_param_str w name p Rest ed et false edd = Ok (tu, p')
                  /\ words tu = concat (map words ls).
Proof.
  intros w name p ed et edd ls p' tw p1 Hraw Hn H.
  unfold emit_param_str in *. rewrite Hraw in *. cbn [bind fst snd] in *.
  destruct (mapM (fill_or_id true w) ls) as [filled|e] eqn:Em; [|discriminate].
  cbn [bind] in H. inversion H; subst. clear H.
  destruct (mapM_fill_words w ls filled Hn Em) as [Hw Hf].
  split; [reflexivity|].
  assert (Htw : words (join [nl] (map (fun s => indent_all_but_first s 1 false) filled)) = concat (map words ls)).
  { rewrite words_join_iabf by assumption. exact Hw. }
  split; [exact Htw|]. split.
  - rewrite words_rejoin; [exact Htw|].
    apply no_exotic_join_nl. apply Forall_forall. intros l Hl. apply in_map_iff in Hl.
    destruct Hl as [l0 [E Hl0]]. subst l. apply no_exotic_iabf. rewrite Forall_forall in Hf. now apply Hf.
  - rewrite mapM_id. cbn [bind]. eexists. split; [reflexivity|]. now apply words_join_iabf.
Qed.

(* ------------------------------------------------------------------ *)
(* non-vacuity                                                          *)
(* ------------------------------------------------------------------ *)

Definition sample_ir : ir :=
  mkIR FNone (Has (L "static")) (Has (L "Train the model."))
       [(L "dataset_name", mkG (Has (L "name of dataset.")) (Has (L "str")) (Some (DV (VStr (L "mnist")))));
        (L "epochs", mkG (Has (L "number of epochs.")) (Has (L "int")) (Some (DV (VInt 5%Z))))]
       (Has (mkG (Has (L "the trained model.")) (Has (L "Model")) None)) None.

Lemma C18_nonvacuous_lemma :
  guard_nowrap 79 Rest true sample_ir = true
  /\ guard_nowrap 79 Numpydoc true sample_ir = true
  /\ guard_C18 79 (E_docstring Rest) sample_ir = true
  /\ guard_C18 20 (E_docstring Rest) sample_ir = false
  /\ (exists r, fill 20 (L ":param dataset_name: name of dataset. Defaults to 5") = Ok r
                /\ r <> L ":param dataset_name: name of dataset. Defaults to 5").
Proof.
  split; [vm_compute; reflexivity|]. split; [vm_compute; reflexivity|].
  split; [vm_compute; reflexivity|]. split; [vm_compute; reflexivity|].
  eexists. split; [vm_compute; reflexivity|]. vm_compute. discriminate.
Qed.
