(* C18Facts: the docstring-level lemmas behind props/C18.v.
   - ReST :type lines: read back intact when they fit (partial), not in general (refuted by a witness);
   - nothing-needs-wrapping region: word_wrap on and off give byte-identical docstrings, three styles;
   - ReST entries: wrapping changes only whitespace (the words of the wrapped entry, also after the
     parser's re-join, are the words of its lines).
   Proofs only. *)
From Coq Require Import List Ascii Bool Arith ZArith Lia.
From Coq Require String.
Import String.StringSyntax.
From DT Require Import PyStr Sexp PyVal TyExpr Extracted PureUtils Defaults PyAst IR Fill DocEmit C18Spec
     PyStrFacts SplitFacts FillFacts DocEmitFacts.
Import ListNotations.

(* ------------------------------------------------------------------ *)
(* ReST :type lines                                                     *)
(* ------------------------------------------------------------------ *)

Lemma one_line_clean_no_nl : forall s, one_line_clean s = true -> ~ In nl s.
Proof.
  intros s H Hin. destruct (one_line_clean_inv s H) as [Hch _].
  rewrite forallb_forall in Hch. specialize (Hch nl Hin). discriminate.
Qed.

Lemma type_of_type_line_exact : forall name typ,
    type_of_type_line name (rest_typ_line name typ) = Some typ.
Proof.
  intros name typ. unfold type_of_type_line, rest_typ_line.
  set (pre := L ":" ++ rest_key_typ name ++ L ": ```").
  assert (E : L ":" ++ rest_key_typ name ++ L ": ```" ++ typ ++ L "```" = pre ++ typ ++ L "```").
  { unfold pre. now rewrite <- !app_assoc. }
  rewrite E. rewrite startswith_app.
  assert (E2 : pre ++ typ ++ L "```" = (pre ++ typ) ++ L "```") by now rewrite app_assoc.
  rewrite E2 at 1. rewrite endswith_app. cbn [andb].
  assert (Hlen : Nat.leb (List.length pre + 3) (List.length (pre ++ typ ++ L "```")) = true).
  { apply Nat.leb_le. rewrite !app_length. cbn. lia. }
  rewrite Hlen. f_equal.
  replace (List.length (pre ++ typ ++ L "```") - 3) with (List.length pre + List.length typ)
    by (rewrite !app_length; cbn; lia).
  apply slice_app_mid.
Qed.

(* a :type line that fits (and is a clean single line) is read back intact, at every width *)
Lemma C18_type_line_partial_lemma : forall w name typ,
    0 < w -> nowrap_line w (rest_typ_line name typ) = true -> C18_type_line_at w name typ.
Proof.
  intros w name typ Hw Hn r Hr. rewrite (nowrap_line_fill w _ Hw Hn) in Hr. inversion Hr; subst r.
  unfold nowrap_line in Hn. apply andb_true_iff in Hn. destruct Hn as [Hc _].
  rewrite iabf_rest_typ_line by now apply one_line_clean_no_nl.
  apply type_of_type_line_exact.
Qed.

(* ... and a longer one is not: newline + indent end up inside the type *)
Lemma C18_type_line_refuted_lemma : ~ C18_type_line_statement.
Proof.
  intros H. specialize (H 20 (L "lr") (L "Literal['tf', 'sgd', 'mnist']")). unfold C18_type_line_at in H.
  destruct (fill 20 (rest_typ_line (L "lr") (L "Literal['tf', 'sgd', 'mnist']"))) as [r|e] eqn:E.
  - specialize (H ltac:(lia) r eq_refl). vm_compute in E. inversion E; subst r. vm_compute in H. discriminate.
  - vm_compute in E. discriminate.
Qed.

(* ------------------------------------------------------------------ *)
(* nothing needs wrapping: word_wrap on = word_wrap off, byte for byte  *)
(* ------------------------------------------------------------------ *)

Lemma mapM_fill_nowrap : forall w ls, 0 < w -> forallb (nowrap_line w) ls = true ->
                                      mapM (fill_or_id true w) ls = Ok ls.
Proof.
  intros w ls Hw. induction ls as [|x r IH]; intros H; [reflexivity|].
  cbn [forallb] in H. apply andb_true_iff in H. destruct H as [Hx Hr].
  cbn [mapM fill_or_id]. rewrite (nowrap_line_fill w x Hw Hx). cbn [bind]. rewrite IH by assumption. reflexivity.
Qed.

Lemma emit_param_str_nowrap : forall w st edd name p,
    0 < w -> nowrap_entry w st edd (name, p) = true ->
    emit_param_str w name p st true true true edd = emit_param_str w name p st true true false edd.
Proof.
  intros w st edd name p Hw H. unfold nowrap_entry in H. cbn [fst snd] in H.
  destruct st.
  - (* rest *)
    unfold filled_lines in H. unfold emit_param_str.
    destruct (rest_raw_lines name p true true edd) as [[ls p']|e]; [|reflexivity].
    cbn [bind fst snd] in *. rewrite (mapM_fill_nowrap w ls Hw H). now rewrite mapM_id.
  - (* numpydoc *)
    unfold filled_lines in H. unfold emit_param_str.
    destruct (truthy_fld (p_typ p)) as [t|].
    + destruct (truthy_fld (p_doc p)) as [d|].
      * destruct (sdd_doc name p edd) as [[d' p']|e]; [|discriminate].
        cbn [bind fst snd app forallb] in H.
        apply andb_true_iff in H. destruct H as [H1 H2]. apply andb_true_iff in H2. destruct H2 as [H2 _].
        cbn [fill_or_id]. rewrite (nowrap_line_fill w _ Hw H1). cbn [bind fst snd].
        rewrite (nowrap_line_fill w _ Hw H2). reflexivity.
      * cbn [bind app forallb] in H. apply andb_true_iff in H. destruct H as [H1 _].
        cbn [fill_or_id]. rewrite (nowrap_line_fill w _ Hw H1). reflexivity.
    + destruct (truthy_fld (p_doc p)) as [d|]; [|reflexivity].
      destruct (sdd_doc name p edd) as [[d' p']|e]; [|discriminate].
      cbn [bind fst snd app forallb] in H. apply andb_true_iff in H. destruct H as [H2 _].
      cbn [bind fill_or_id fst snd]. rewrite (nowrap_line_fill w _ Hw H2). reflexivity.
  - reflexivity.
Qed.

Lemma C18_nowrap_lemma : forall w st edd i,
    guard_nowrap w st edd i = true ->
    emit_docstring w st true edd i = emit_docstring w st false edd i.
Proof.
  intros w st edd i H. unfold guard_nowrap in H.
  apply andb_true_iff in H. destruct H as [H Hret].
  apply andb_true_iff in H. destruct H as [H Hps].
  apply andb_true_iff in H. destruct H as [Hw Hdoc]. apply Nat.ltb_lt in Hw.
  unfold emit_docstring.
  destruct (params_of (ir_params i)) as [ps|]; [|reflexivity].
  destruct (ir_doc i) as [| |d]; try discriminate.
  cbn [fill_or_id]. rewrite (nowrap_line_fill w d Hw Hdoc). cbn [bind].
  rewrite (emit_items_ext (fun k p => emit_param_str w k p st true true true edd)
                          (fun k p => emit_param_str w k p st true true false edd)).
  2:{ intros k p Hin. apply emit_param_str_nowrap; [assumption|].
      rewrite forallb_forall in Hps. now apply Hps. }
  destruct (emit_items (fun k p => emit_param_str w k p st true true false edd) ps) as [pl|e]; [|reflexivity].
  cbn [bind].
  destruct (ir_returns i) as [| |g]; try reflexivity.
  destruct (param_of_gparam g) as [p|]; [|reflexivity].
  rewrite (emit_param_str_nowrap w st edd (L "return_type") p Hw Hret). reflexivity.
Qed.

(* ------------------------------------------------------------------ *)
(* ReST entries: wrapping changes only whitespace                        *)
(* ------------------------------------------------------------------ *)

Lemma no_exotic_iabf : forall r, no_exotic_space r = true ->
                                 no_exotic_space (indent_all_but_first r 1 false) = true.
Proof.
  intros r Hr. unfold indent_all_but_first, indent. rewrite !split_nl_eq.
  set (ls := split_c nl r).
  assert (Hnn : Forall (fun l => ~ In nl l) (indent_lines (repeat_str tab 1) ls)).
  { apply indent_lines_no_nl; [apply tab1_no_nl|apply split_c_pieces_no_sep]. }
  rewrite split_c_join; [|apply indent_lines_nonnil; apply split_c_nonnil|assumption].
  destruct (indent_lines (repeat_str tab 1) ls) as [|l0 rest] eqn:El.
  { apply indent_lines_nonnil in El; [destruct El|apply split_c_nonnil]. }
  assert (Hall : forall l x, In l (l0 :: rest) -> In x l -> isspace x = tw_space x).
  { intros l x Hl Hx. rewrite <- El in Hl.
    destruct (indent_lines_chars _ _ _ _ Hl Hx) as [Hp|[l1 [H1 H2]]].
    - now apply (no_exotic_In (repeat_str tab 1) x tab1_no_exotic).
    - apply (no_exotic_In r x Hr). eapply split_c_pieces_chars; eassumption. }
  unfold no_exotic_space. rewrite forallb_forall. intros x Hx.
  apply join_chars in Hx. destruct Hx as [Hx|[l [Hl Hxl]]].
  - destruct Hx as [Hx|[]]. subst x. reflexivity.
  - apply eqb_true_iff. destruct Hl as [Hl|Hl].
    + subst l. apply (Hall l0 x); [now left|].
      unfold lstrip, lstrip_by in Hxl. clear - Hxl. induction l0 as [|c t IHt]; [destruct Hxl|].
      cbn [dropwhile] in Hxl. destruct (isspace c); [right; now apply IHt|assumption].
    + apply (Hall l x); [now right|assumption].
Qed.

Lemma no_exotic_join_nl : forall ls, Forall (fun l => no_exotic_space l = true) ls ->
                                     no_exotic_space (join [nl] ls) = true.
Proof.
  intros ls H. unfold no_exotic_space. rewrite forallb_forall. intros x Hx.
  apply join_chars in Hx. destruct Hx as [Hx|[l [Hl Hxl]]].
  - destruct Hx as [Hx|[]]. subst x. reflexivity.
  - rewrite Forall_forall in H. apply eqb_true_iff. now apply (no_exotic_In l x (H l Hl)).
Qed.

(* mapM of fill over lines: each result has the words of its line and no exotic blanks *)
Lemma mapM_fill_words : forall w ls filled,
    Forall (fun l => no_exotic_space l = true) ls ->
    mapM (fill_or_id true w) ls = Ok filled ->
    concat (map words filled) = concat (map words ls)
    /\ Forall (fun l => no_exotic_space l = true) filled.
Proof.
  intros w ls. induction ls as [|x r IH]; intros filled Hn H.
  - cbn [mapM] in H. inversion H; subst. split; [reflexivity|constructor].
  - inversion Hn as [|x' r' Hx Hr]; subst.
    cbn [mapM fill_or_id] in H. destruct (fill w x) as [fx|e] eqn:Ex; [|discriminate]. cbn [bind] in H.
    destruct (mapM (fill_or_id true w) r) as [fr|e] eqn:Er; [|discriminate]. cbn [bind] in H.
    inversion H; subst. destruct (IH fr Hr eq_refl) as [IH1 IH2].
    split.
    + cbn [map concat]. rewrite IH1. now rewrite (fill_words w x fx Ex).
    + constructor; [now apply (fill_no_exotic w x)|assumption].
Qed.

Lemma words_join_iabf : forall ls, Forall (fun l => no_exotic_space l = true) ls ->
    words (join [nl] (map (fun s => indent_all_but_first s 1 false) ls)) = concat (map words ls).
Proof.
  intros ls H. rewrite words_join_sep by reflexivity. rewrite map_map. f_equal.
  apply map_ext_in. intros l Hl. rewrite Forall_forall in H. apply words_indent_all_but_first. now apply H.
Qed.

(* the ReST entry: with word_wrap on (inside Fill's fragment) the text has exactly the words of the raw
   lines, in order - as printed, and after the parser's re-join; word_wrap off gives the same words; the
   caller's param is not touched either way *)
Lemma C18_rest_entry_lemma : forall w name p ed et edd ls p' tw p1,
    rest_raw_lines name p ed et edd = Ok (ls, p') ->
    Forall (fun l => no_exotic_space l = true) ls ->
    emit_param_str w name p Rest ed et true edd = Ok (tw, p1) ->
    p1 = p
    /\ words tw = concat (map words ls)
    /\ words (rejoin tw) = concat (map words ls)
    /\ exists tu, emit_param_str w name p Rest ed et false edd = Ok (tu, p)
                  /\ words tu = concat (map words ls).
Proof.
  intros w name p ed et edd ls p' tw p1 Hraw Hn H.
  unfold emit_param_str in *. rewrite Hraw in *. cbn [bind fst snd] in *.
  destruct (mapM (fill_or_id true w) ls) as [filled|e] eqn:Em; [|discriminate].
  cbn [bind] in H. inversion H; subst. clear H.
  destruct (mapM_fill_words w ls filled Hn Em) as [Hw Hf].
  split; [reflexivity|].
  assert (Htw : words (join [nl] (map (fun s => indent_all_but_first s 1 false) filled)) = concat (map words ls)).
  { rewrite words_join_iabf by assumption. exact Hw. }
  split; [exact Htw|]. split.
  - rewrite words_rejoin; [exact Htw|].
    apply no_exotic_join_nl. apply Forall_forall. intros l Hl. apply in_map_iff in Hl.
    destruct Hl as [l0 [E Hl0]]. subst l. apply no_exotic_iabf. rewrite Forall_forall in Hf. now apply Hf.
  - rewrite mapM_id. cbn [bind]. eexists. split; [reflexivity|]. now apply words_join_iabf.
Qed.

(* ------------------------------------------------------------------ *)
(* non-vacuity                                                          *)
(* ------------------------------------------------------------------ *)

Definition sample_ir : ir :=
  mkIR FNone (Has (L "static")) (Has (L "Train the model."))
       [(L "dataset_name", mkG (Has (L "name of dataset.")) (Has (L "str")) (Some (DV (VStr (L "mnist")))));
        (L "epochs", mkG (Has (L "number of epochs.")) (Has (L "int")) (Some (DV (VInt 5%Z))))]
       (Has (mkG (Has (L "the trained model.")) (Has (L "Model")) None)) None.

Lemma C18_nonvacuous_lemma :
  guard_nowrap 79 Rest true sample_ir = true
  /\ guard_nowrap 79 Numpydoc true sample_ir = true
  /\ guard_C18 79 (E_docstring Rest) sample_ir = true
  /\ guard_C18 20 (E_docstring Rest) sample_ir = false
  /\ (exists r, fill 20 (L ":param dataset_name: name of dataset. Defaults to 5") = Ok r
                /\ r <> L ":param dataset_name: name of dataset. Defaults to 5").
Proof.
  split; [vm_compute; reflexivity|]. split; [vm_compute; reflexivity|].
  split; [vm_compute; reflexivity|]. split; [vm_compute; reflexivity|].
  eexists. split; [vm_compute; reflexivity|]. vm_compute. discriminate.
Qed.

(* ------------------------------------------------------------------ *)
(* the whole docstring, three styles: wrapping changes only whitespace  *)
(* ------------------------------------------------------------------ *)

Lemma words_app_nl : forall a b, words (a ++ nl :: b) = words a ++ words b.
Proof. intros a b. now apply words_app_sp_mid. Qed.

Lemma words_join_allsp : forall sep ls, sep <> [] -> allsp sep -> words (join sep ls) = concat (map words ls).
Proof.
  intros sep ls Hne Hs. induction ls as [|x r IH]; [reflexivity|].
  destruct r as [|y r2].
  - cbn [join map concat]. now rewrite app_nil_r.
  - rewrite join_cons_cons. destruct sep as [|d sep']; [congruence|].
    unfold allsp in Hs. cbn [forallb] in Hs. apply andb_true_iff in Hs. destruct Hs as [Hd Hs'].
    cbn [app]. rewrite words_app_sp_mid by assumption. rewrite words_app_allsp_l by assumption.
    rewrite IH. reflexivity.
Qed.

Lemma words_join_filter_nonempty : forall ls,
    words (join [nl] (filter nonempty ls)) = concat (map words ls).
Proof.
  intros ls. rewrite words_join_sep by reflexivity. induction ls as [|x r IH]; [reflexivity|].
  cbn [filter]. destruct x as [|c t]; cbn [nonempty map concat]; [exact IH|]. now rewrite IH.
Qed.

(* emit.docstring's final assembly, as a function of the three parts *)
Definition assemble (st : style) (doc : str) (param_lines : list str) (ret : str) : str :=
  let nl0 := match st with Rest => [] | _ => [nl] end in
  let nl1 := match st with Numpydoc => [nl] | _ => [] end in
  let param_lines' := match param_lines, st with
                      | [], _ => param_lines
                      | _, Rest => param_lines
                      | _, _ => arg_token st :: param_lines
                      end in
  let params := join (nl :: match st with Rest => [nl] | _ => [] end) param_lines' in
  [nl] ++ doc ++ [nl; nl] ++ nl0 ++ params ++ [nl] ++ ret ++ [nl] ++ nl1.

Definition ret_part (w : nat) (st : style) (ww edd : bool) (i : ir) : outcome (str * fld gparam) :=
  match ir_returns i with
  | Has g =>
    match param_of_gparam g with
    | None => Err Unmodelled
    | Some p =>
      do sp <- emit_param_str w (L "return_type") p st true true ww edd;
      Ok ((match st with Rest => [] | _ => nl :: return_token st end) ++ [nl] ++ fst sp,
          Has (gparam_of_param (snd sp)))
    end
  | other => Ok ([], other)
  end.

Definition doc_part (w : nat) (ww : bool) (i : ir) : outcome str :=
  match ir_doc i with
  | Missing => Err KeyError
  | FNone => if ww then Err AttributeError else Ok (L "None")
  | Has d => fill_or_id ww w d
  end.

Lemma emit_docstring_assemble : forall w st ww edd i,
    emit_docstring w st ww edd i =
    match params_of (ir_params i) with
    | None => Err Unmodelled
    | Some ps =>
      do doc <- doc_part w ww i;
      do pl <- emit_items (fun k p => emit_param_str w k p st true true ww edd) ps;
      do ret <- ret_part w st ww edd i;
      Ok (assemble st doc (fst pl) (fst ret), i)
    end.
Proof. reflexivity. Qed.

Lemma assemble_words : forall st doc pls ret,
    words (assemble st doc pls ret) =
    words doc
    ++ concat (map words (match pls, st with [], _ => pls | _, Rest => pls | _, _ => arg_token st :: pls end))
    ++ words ret.
Proof.
  intros st doc pls ret. unfold assemble.
  set (pls' := match pls, st with [], _ => pls | _, Rest => pls | _, _ => arg_token st :: pls end).
  change ([nl] ++ doc ++ [nl; nl] ++ ?x) with (nl :: (doc ++ nl :: nl :: x)).
  rewrite words_cons_sp by reflexivity. rewrite words_app_nl. rewrite words_cons_sp by reflexivity.
  f_equal.
  assert (Hj : words (join (nl :: match st with Rest => [nl] | _ => [] end) pls') = concat (map words pls')).
  { apply words_join_allsp; [discriminate|]. destruct st; reflexivity. }
  rewrite (words_app_allsp_l (match st with Rest => [] | _ => [nl] end)) by (destruct st; reflexivity).
  change (?p ++ [nl] ++ ret ++ [nl] ++ ?z) with (p ++ nl :: (ret ++ nl :: z)).
  rewrite words_app_nl, words_app_nl, Hj. f_equal.
  destruct st; [change (words []) with (@nil str)|rewrite (words_allsp [nl]) by reflexivity
                |change (words []) with (@nil str)]; apply app_nil_r.
Qed.

Lemma words_join2 : forall a b,
    words (join [nl] (filter nonempty (cat_options [Some a; Some b]))) = words a ++ words b.
Proof. intros a b. cbn [cat_options]. rewrite words_join_filter_nonempty. cbn [map concat]. now rewrite app_nil_r. Qed.

Lemma words_join1l : forall a,
    words (join [nl] (filter nonempty (cat_options [Some a; None]))) = words a.
Proof. intros a. cbn [cat_options]. rewrite words_join_filter_nonempty. cbn [map concat]. now rewrite app_nil_r. Qed.

Lemma words_join1r : forall b,
    words (join [nl] (filter nonempty (cat_options [None; Some b]))) = words b.
Proof. intros b. cbn [cat_options]. rewrite words_join_filter_nonempty. cbn [map concat]. now rewrite app_nil_r. Qed.

(* one entry, any style *)
Lemma C18_entry_words : forall w st edd name p tw p1,
    plain_entry st edd (name, p) = true ->
    emit_param_str w name p st true true true edd = Ok (tw, p1) ->
    exists tu, emit_param_str w name p st true true false edd = Ok (tu, p1) /\ words tw = words tu.
Proof.
  intros w st edd name p tw p1 Hpl H. destruct st.
  - (* rest *)
    unfold plain_entry, filled_lines in Hpl. cbn [fst snd] in Hpl.
    destruct (rest_raw_lines name p true true edd) as [[ls p']|e] eqn:Eraw.
    + cbn [bind fst] in Hpl.
      assert (Hn : Forall (fun l => no_exotic_space l = true) ls).
      { apply Forall_forall. intros l Hl. rewrite forallb_forall in Hpl. now apply Hpl. }
      destruct (C18_rest_entry_lemma w name p true true edd ls p' tw p1 Eraw Hn H)
        as [E1 [Hw [_ [tu [Htu Hwu]]]]].
      subst p1. exists tu. split; [assumption|congruence].
    + unfold emit_param_str in H. rewrite Eraw in H. discriminate.
  - (* numpydoc *)
    unfold emit_param_str in *.
    destruct (truthy_fld (p_typ p)) as [t|].
    + cbn [fill_or_id] in *.
      destruct (fill w (if is_return name then t else name ++ L " : " ++ t)) as [f1|e] eqn:E1; [|discriminate].
      cbn [bind] in *.
      destruct (truthy_fld (p_doc p)) as [d|].
      * destruct (sdd_doc name p edd) as [[d' p']|e]; [|discriminate]. cbn [bind fst snd] in *.
        destruct (fill w (indent tab d')) as [f2|e] eqn:E2; [|discriminate]. cbn [bind fst snd] in *.
        inversion H; subst. eexists. split; [reflexivity|].
        transitivity (words f1 ++ words f2); [exact (words_join2 f1 f2)|].
        rewrite (fill_words w _ f1 E1), (fill_words w _ f2 E2). symmetry. exact (words_join2 _ _).
      * cbn [bind fst snd] in *. inversion H; subst. eexists. split; [reflexivity|].
        transitivity (words f1); [exact (words_join1l f1)|].
        rewrite (fill_words w _ f1 E1). symmetry. exact (words_join1l _).
    + cbn [bind] in *. destruct (truthy_fld (p_doc p)) as [d|].
      * destruct (sdd_doc name p edd) as [[d' p']|e]; [|discriminate]. cbn [bind fst snd fill_or_id] in *.
        destruct (fill w (indent tab d')) as [f2|e] eqn:E2; [|discriminate]. cbn [bind fst snd] in *.
        inversion H; subst. eexists. split; [reflexivity|].
        transitivity (words f2); [exact (words_join1r f2)|].
        rewrite (fill_words w _ f2 E2). symmetry. exact (words_join1r _).
      * cbn [bind fst snd] in *. inversion H; subst. eexists. split; reflexivity.
  - (* google: word_wrap is not consulted *)
    exists tw. split; [exact H|reflexivity].
Qed.

Lemma C18_items_words : forall w st edd ps lw ps1,
    forallb (plain_entry st edd) ps = true ->
    emit_items (fun k p => emit_param_str w k p st true true true edd) ps = Ok (lw, ps1) ->
    exists lu, emit_items (fun k p => emit_param_str w k p st true true false edd) ps = Ok (lu, ps1)
               /\ Forall2 (fun a b => words a = words b) lw lu.
Proof.
  intros w st edd ps. induction ps as [|[k p] r IH]; intros lw ps1 Hpl H.
  - cbn [emit_items] in *. inversion H; subst. exists []. split; [reflexivity|constructor].
  - cbn [forallb] in Hpl. apply andb_true_iff in Hpl. destruct Hpl as [Hp Hr].
    cbn [emit_items] in *.
    destruct (emit_param_str w k p st true true true edd) as [[tw p1]|e] eqn:E1; [|discriminate].
    cbn [bind fst snd] in H.
    destruct (emit_items (fun k p => emit_param_str w k p st true true true edd) r) as [[lw' ps']|e] eqn:E2;
      [|discriminate].
    cbn [bind fst snd] in H. inversion H; subst.
    destruct (C18_entry_words w st edd k p tw p1 Hp E1) as [tu [Etu Hw]].
    destruct (IH lw' ps' Hr eq_refl) as [lu [Elu Hf]].
    rewrite Etu. cbn [bind fst snd]. rewrite Elu. cbn [bind fst snd].
    exists (tu :: lu). split; [reflexivity|now constructor].
Qed.

Lemma Forall2_words_concat : forall a b, Forall2 (fun x y => words x = words y) a b ->
                                         concat (map words a) = concat (map words b).
Proof. intros a b H. induction H as [|x y a' b' Hxy Hr IH]; [reflexivity|]. cbn [map concat]. now rewrite Hxy, IH. Qed.

(* THE WHOLE DOCSTRING: inside Fill's fragment, emit.docstring with word_wrap on succeeds only if it succeeds
   with word_wrap off, mutates the IR identically, and the two texts have the same words in the same order *)
Lemma C18_docstring_words_lemma : forall w st edd i tw i1,
    ir_plain st edd i = true ->
    emit_docstring w st true edd i = Ok (tw, i1) ->
    exists tu, emit_docstring w st false edd i = Ok (tu, i1) /\ words tw = words tu.
Proof.
  intros w st edd i tw i1 Hpl H. rewrite emit_docstring_assemble in *.
  unfold ir_plain in Hpl. apply andb_true_iff in Hpl. destruct Hpl as [Hps Hret].
  destruct (params_of (ir_params i)) as [ps|]; [|discriminate].
  (* summary *)
  unfold doc_part in *. destruct (ir_doc i) as [| |d] eqn:Ed; try discriminate.
  cbn [fill_or_id] in *. destruct (fill w d) as [d'|e] eqn:Efd; [|discriminate]. cbn [bind] in *.
  (* parameters *)
  destruct (emit_items (fun k p => emit_param_str w k p st true true true edd) ps) as [[lw ps1]|e] eqn:Ei;
    [|discriminate].
  destruct (C18_items_words w st edd ps lw ps1 Hps Ei) as [lu [Elu Hf]].
  rewrite Elu. cbn [bind fst snd] in *.
  (* return entry *)
  unfold ret_part in *. destruct (ir_returns i) as [| |g].
  - cbn [bind fst snd] in *. inversion H; subst. eexists. split; [reflexivity|].
    rewrite !assemble_words. rewrite (fill_words w d d' Efd). f_equal. f_equal.
    pose proof (Forall2_words_concat _ _ Hf) as Hc.
    inversion Hf; subst; [reflexivity|]. destruct st; cbn [map concat] in *; congruence.
  - cbn [bind fst snd] in *. inversion H; subst. eexists. split; [reflexivity|].
    rewrite !assemble_words. rewrite (fill_words w d d' Efd). f_equal. f_equal.
    pose proof (Forall2_words_concat _ _ Hf) as Hc.
    inversion Hf; subst; [reflexivity|]. destruct st; cbn [map concat] in *; congruence.
  - destruct (param_of_gparam g) as [p|]; [|discriminate].
    destruct (emit_param_str w (L "return_type") p st true true true edd) as [[rw p1]|e] eqn:Er; [|discriminate].
    destruct (C18_entry_words w st edd _ p rw p1 Hret Er) as [ru [Eru Hwr]].
    rewrite Eru. cbn [bind fst snd] in *. inversion H; subst. eexists. split; [reflexivity|].
    rewrite !assemble_words. rewrite (fill_words w d d' Efd). f_equal.
    pose proof (Forall2_words_concat _ _ Hf) as Hc.
    f_equal.
    + inversion Hf; subst; [reflexivity|]. destruct st; cbn [map concat] in *; congruence.
    + change (?h ++ [nl] ++ ?t) with (h ++ nl :: t). rewrite !words_app_nl. now rewrite Hwr.
Qed.

(* ... and neither call writes into the caller's IR *)
Lemma C18_docstring_words_pure_lemma : forall w st edd i tw i1,
    ir_plain st edd i = true ->
    emit_docstring w st true edd i = Ok (tw, i1) ->
    i1 = i /\ exists tu, emit_docstring w st false edd i = Ok (tu, i) /\ words tw = words tu.
Proof.
  intros w st edd i tw i1 Hpl H. pose proof (emit_docstring_pure _ _ _ _ _ _ _ H) as E. subst i1.
  split; [reflexivity|]. exact (C18_docstring_words_lemma w st edd i tw i Hpl H).
Qed.
