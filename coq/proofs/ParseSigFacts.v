(* ParseSigFacts: lemmas about ParseSig.v — which names parse.function's merge produces and in which
   order (exactly), what py_signature reports, and when the two agree.  Unbounded in the number of
   parameters.  Proofs only. *)
From Coq Require Import List Ascii Bool Arith ZArith Lia Permutation.
From Coq Require String.
Import String.StringSyntax.
From DT Require Import PyStr Sexp PyVal TyExpr PureUtils Defaults PyAst IR Merge ParseSig C12Spec C07Spec
     PyStrFacts MergeFacts C12Facts.
Import ListNotations.

(* ------------------------------------------------------------------ *)
(* small list facts                                                    *)
(* ------------------------------------------------------------------ *)
Lemma strs_distinct_NoDup : forall l, strs_distinct l = true <-> NoDup l.
Proof.
  induction l as [|x r IH]; cbn [strs_distinct].
  - split; [constructor|reflexivity].
  - rewrite andb_true_iff, negb_true_iff, IH, mem_str_false. split.
    + intros [H1 H2]; constructor; assumption.
    + intros H; inversion H; subst; split; assumption.
Qed.

Lemma filter_neq_notin : forall (k : str) l, ~ In k l -> filter (fun x => negb (str_eqb k x)) l = l.
Proof.
  intros k l; induction l as [|y l IH]; cbn [filter In]; [reflexivity|].
  intros H. assert (E : str_eqb k y = false) by (apply str_eqb_neq; intros ->; apply H; left; reflexivity).
  rewrite E. cbn [negb]. f_equal. apply IH. tauto.
Qed.

Lemma NoDup_filter : forall (f : str -> bool) l, NoDup l -> NoDup (filter f l).
Proof.
  intros f l H; induction H as [|x l Hx Hl IH]; cbn [filter]; [constructor|].
  destruct (f x); [constructor; [rewrite filter_In; tauto|exact IH]|exact IH].
Qed.

Lemma NoDup_app_intro : forall l1 l2 : list str, NoDup l1 -> NoDup l2 ->
  (forall x, In x l1 -> ~ In x l2) -> NoDup (l1 ++ l2).
Proof.
  intros l1 l2 H1 H2 Hd. induction H1 as [|x l1 Hx H1 IH]; cbn [app]; [exact H2|].
  constructor.
  - intros Hin. apply in_app_or in Hin. destruct Hin as [Hin|Hin]; [tauto|]. apply (Hd x); [left; reflexivity|exact Hin].
  - apply IH. intros y Hy. apply Hd. right; exact Hy.
Qed.

Lemma NoDup_app_filter : forall A B : list str, NoDup A -> NoDup B ->
  NoDup (A ++ filter (fun k => negb (mem_str k A)) B).
Proof.
  intros A B HA HB. apply NoDup_app_intro; [exact HA|apply NoDup_filter; exact HB|].
  intros x Hx Hin. apply filter_In in Hin. destruct Hin as [_ Hm].
  apply mem_str_In in Hx. rewrite Hx in Hm. discriminate.
Qed.

Lemma NoDup_app_l : forall l1 l2 : list str, NoDup (l1 ++ l2) -> NoDup l1.
Proof.
  induction l1 as [|x l1 IH]; intros l2 H; [constructor|]. cbn [app] in H. inversion H; subst.
  constructor; [|eapply IH; eauto]. intros Hin. match goal with Hx : ~ In x _ |- _ => apply Hx end.
  apply in_or_app; left; exact Hin.
Qed.

Lemma NoDup_app_single : forall (l : list str) x, NoDup l -> ~ In x l -> NoDup (l ++ [x]).
Proof.
  intros l x H; induction H as [|y l Hy Hl IH]; intros Hx; cbn [app].
  - constructor; [intros []|constructor].
  - constructor.
    + intros Hin. apply in_app_or in Hin. destruct Hin as [Hin|[->|[]]]; [tauto|]. apply Hx; left; reflexivity.
    + apply IH. intros Hin; apply Hx; right; exact Hin.
Qed.

Lemma is_prefix_spec : forall p l, is_prefix p l = true <-> exists r, l = p ++ r.
Proof.
  induction p as [|x p IH]; intros l; cbn [is_prefix].
  - split; [intros _; exists l; reflexivity|reflexivity].
  - destruct l as [|y l].
    + split; [discriminate|]. intros [r H]; discriminate.
    + rewrite andb_true_iff, str_eqb_eq, IH. split.
      * intros [-> [r ->]]. exists r; reflexivity.
      * intros [r H]. cbn [app] in H. inversion H; subst. split; [reflexivity|exists r; reflexivity].
Qed.

(* a prefix followed by the rest gives back the list *)
Lemma prefix_then_rest : forall D S : list str, NoDup S -> is_prefix D S = true ->
  D ++ filter (fun k => negb (mem_str k D)) S = S.
Proof.
  intros D S Hnd Hp. apply is_prefix_spec in Hp. destruct Hp as [R ->].
  f_equal.
  assert (HD : forall k, In k D -> ~ In k R).
  { intros k Hk Hr. clear - Hnd Hk Hr. induction D as [|d D IH]; [destruct Hk|].
    cbn [app] in Hnd. inversion Hnd as [|? ? Hd Hnd']; subst. destruct Hk as [->|Hk].
    - apply Hd. apply in_or_app; right; exact Hr.
    - apply IH; assumption. }
  rewrite filter_app.
  assert (E1 : filter (fun k => negb (mem_str k D)) D = []).
  { clear. assert (G : forall l, (forall k, In k l -> In k D) -> filter (fun k => negb (mem_str k D)) l = []).
    { induction l as [|y l IHl]; intros H; cbn [filter]; [reflexivity|].
      assert (Hy : mem_str y D = true) by (apply mem_str_In; apply H; left; reflexivity).
      rewrite Hy. cbn [negb]. apply IHl. intros k Hk; apply H; right; exact Hk. }
    apply G; auto. }
  rewrite E1. cbn [app].
  clear - HD. induction R as [|y R IH]; cbn [filter]; [reflexivity|].
  assert (Hy : mem_str y D = false).
  { apply mem_str_false. intros Hin. apply (HD y Hin). left; reflexivity. }
  rewrite Hy. cbn [negb]. f_equal. apply IH. intros k Hk Hr. apply (HD k Hk). right; exact Hr.
Qed.

(* ------------------------------------------------------------------ *)
(* mapM                                                                *)
(* ------------------------------------------------------------------ *)
Lemma mapM_Forall2 : forall {A B} (f : A -> outcome B) l l', mapM f l = Ok l' -> Forall2 (fun x y => f x = Ok y) l l'.
Proof.
  intros A B f l; induction l as [|x r IH]; intros l' H; cbn [mapM] in H.
  - inversion H; constructor.
  - destruct (f x) as [y|] eqn:E; cbn [bind] in H; [|discriminate].
    destruct (mapM f r) as [ys|] eqn:E2; cbn [bind] in H; [|discriminate].
    inversion H; subst. constructor; [exact E|apply IH; reflexivity].
Qed.

(* ------------------------------------------------------------------ *)
(* _set_name_and_type keeps identifiers                                *)
(* ------------------------------------------------------------------ *)
Lemma snt_name_ok : forall n, name_ok n = true -> snt_name n = n.
Proof.
  intros n H. unfold snt_name. destruct (kwargs_like n); [|reflexivity].
  destruct n as [|c r]; [reflexivity|]. cbn [name_ok] in H.
  unfold lstrip_chars, lstrip_by. cbn [dropwhile mem_c existsb].
  apply negb_true_iff in H. rewrite H. reflexivity.
Qed.

Lemma set_name_and_type_fst : forall n p it ww r, set_name_and_type n p it ww = Ok r -> fst r = snt_name n.
Proof.
  intros n p it ww r H. unfold set_name_and_type in H.
  destruct (snt_param n p it ww); cbn [bind] in H; [|discriminate]. inversion H; reflexivity.
Qed.

Lemma set_names_and_types_keys : forall ps it ww r,
  NoDup (od_keys ps) -> forallb name_ok (od_keys ps) = true ->
  set_names_and_types ps it ww = Ok r -> od_keys r = od_keys ps.
Proof.
  intros ps it ww r Hnd Hok H. unfold set_names_and_types in H.
  destruct (mapM _ ps) as [l|] eqn:E; cbn [bind] in H; [|discriminate]. inversion H; subst; clear H.
  apply mapM_Forall2 in E.
  assert (K : od_keys l = od_keys ps).
  { clear Hnd. induction E as [|[k p] y ps l Hxy E IH]; [reflexivity|].
    cbn [od_keys map fst] in *. apply andb_true_iff in Hok. destruct Hok as [Hk Hok].
    cbn [fst snd] in Hxy. apply set_name_and_type_fst in Hxy. rewrite Hxy, snt_name_ok by exact Hk.
    f_equal. apply IH; exact Hok. }
  rewrite od_of_pairs_NoDup; [exact K|]. rewrite K; exact Hnd.
Qed.

(* the entry of a name after the map: _set_name_and_type applied to the entry before it *)
Lemma set_names_and_types_get : forall ps it ww r k p,
  NoDup (od_keys ps) -> forallb name_ok (od_keys ps) = true ->
  set_names_and_types ps it ww = Ok r -> od_get k ps = Some p ->
  exists p', snt_param k p it ww = Ok p' /\ od_get k r = Some p'.
Proof.
  intros ps it ww r k p Hnd Hok H Hg. unfold set_names_and_types in H.
  destruct (mapM _ ps) as [l|] eqn:E; cbn [bind] in H; [|discriminate]. inversion H; subst; clear H.
  apply mapM_Forall2 in E.
  assert (K : od_keys l = od_keys ps).
  { clear Hnd Hg. induction E as [|[k0 p0] y ps l Hxy E IH]; [reflexivity|].
    cbn [od_keys map fst] in *. apply andb_true_iff in Hok. destruct Hok as [Hk Hok].
    cbn [fst snd] in Hxy. apply set_name_and_type_fst in Hxy. rewrite Hxy, snt_name_ok by exact Hk.
    f_equal. apply IH; exact Hok. }
  rewrite od_of_pairs_NoDup by (rewrite K; exact Hnd).
  clear Hnd K. induction E as [|[k0 p0] [k1 p1] ps l Hxy E IH]; [discriminate|].
  cbn [od_keys map fst forallb] in Hok. apply andb_true_iff in Hok. destruct Hok as [Hk Hok].
  cbn [fst snd] in Hxy. pose proof (set_name_and_type_fst _ _ _ _ _ Hxy) as Hn. cbn [fst] in Hn.
  rewrite snt_name_ok in Hn by exact Hk. subst k1.
  cbn [od_get] in *. destruct (str_eqb k k0) eqn:Ek.
  - apply str_eqb_eq in Ek; subst k0. inversion Hg; subst p0.
    unfold set_name_and_type in Hxy. destruct (snt_param k p it ww) as [q|]; cbn [bind] in Hxy; [|discriminate].
    inversion Hxy; subst. exists p1. split; reflexivity.
  - apply IH; assumption.
Qed.

(* ------------------------------------------------------------------ *)
(* the signature side                                                  *)
(* ------------------------------------------------------------------ *)
Lemma map2_func_arg2param_keys : forall args (ds : list (option expr)), List.length args <= List.length ds ->
  map fst (map2 func_arg2param args ds) = map a_name args.
Proof.
  induction args as [|x args IH]; intros ds H; cbn [map2 map]; [reflexivity|].
  destruct ds as [|d ds]; [cbn in H; lia|]. cbn [map fst func_arg2param]. f_equal. apply IH. cbn in H; lia.
Qed.

Lemma pad_defaults_length : forall {A} n (ds : list (option A)), n <= List.length (pad_defaults n ds).
Proof. intros A n ds. unfold pad_defaults. rewrite app_length, repeat_length. lia. Qed.

Lemma sig_pairs_keys : forall a pos, od_keys (sig_pairs a pos) = map a_name pos ++ map a_name (ar_kwonly a).
Proof.
  intros a pos. unfold sig_pairs, od_keys. rewrite map_app.
  rewrite !map2_func_arg2param_keys by apply pad_defaults_length. reflexivity.
Qed.

(* facts that wf_fd gives *)
Record fd_facts (a : arguments) : Prop := mkFacts {
  ff_vararg : ar_vararg a = None;
  ff_defaults : List.length (ar_defaults a) <= List.length (ar_args a);
  ff_kw : List.length (ar_kwonly a) = List.length (ar_kw_defaults a);
  ff_nodup : NoDup (sig_pos_names a ++ opt_list (kwarg_name a));
  ff_ok : forallb name_ok (sig_pos_names a ++ opt_list (kwarg_name a)) = true
}.

Lemma wf_fd_facts : forall fd, wf_fd fd = true -> exists n a b dc r, fd = SFunc n a b dc r /\ fd_facts a.
Proof.
  intros fd H. destruct fd as [n a b dc r| | | | | |]; try discriminate.
  exists n, a, b, dc, r. split; [reflexivity|]. cbn [wf_fd] in H.
  repeat (apply andb_true_iff in H; destruct H as [H ?]).
  match goal with H1 : forallb name_ok _ = true, H2 : strs_distinct _ = true |- _ =>
    rename H1 into Hok; rename H2 into Hnd end.
  apply strs_distinct_NoDup in Hnd.
  constructor.
  - destruct (ar_vararg a); [discriminate|reflexivity].
  - match goal with Hx : Nat.leb _ _ = true |- _ => apply Nat.leb_le in Hx; exact Hx end.
  - match goal with Hx : Nat.eqb _ _ = true |- _ => apply Nat.eqb_eq in Hx; exact Hx end.
  - unfold sig_pos_names, pos_args. destruct (str_eqb (get_function_type a) (L "static")).
    + rewrite <- app_assoc. exact Hnd.
    + destruct (ar_args a) as [|x args]; cbn [tl map app] in *; [rewrite <- ?app_assoc; exact Hnd|].
      inversion Hnd; subst. rewrite <- app_assoc. assumption.
  - unfold sig_pos_names, pos_args. destruct (str_eqb (get_function_type a) (L "static")).
    + rewrite <- app_assoc. exact Hok.
    + destruct (ar_args a) as [|x args]; cbn [tl map app] in *; [rewrite <- ?app_assoc; exact Hok|].
      cbn [forallb] in Hok. apply andb_true_iff in Hok. rewrite <- app_assoc. tauto.
Qed.

Lemma map2_sig_names : forall k args (ds : list (option expr)), List.length args <= List.length ds ->
  map s_name (map2 (fun x d => mkSig (a_name x) k d (a_ann x)) args ds) = map a_name args.
Proof.
  intros k; induction args as [|x args IH]; intros ds H; cbn [map2 map]; [reflexivity|].
  destruct ds as [|d ds]; [cbn in H; lia|]. cbn [map s_name]. f_equal. apply IH. cbn in H; lia.
Qed.

(* what Python sees, minus self/cls: positional and keyword-only names in source order, then ** *)
Lemma sig_names_spec : forall n a b dc r, fd_facts a ->
  sig_names (SFunc n a b dc r) = sig_pos_names a ++ opt_list (kwarg_name a).
Proof.
  intros n a b dc r F. destruct F as [Hv Hd Hk _ _].
  unfold sig_names, py_signature, py_signature_raw.
  assert (E1 : Nat.ltb (List.length (ar_args a)) (List.length (ar_defaults a)) = false) by (apply Nat.ltb_ge; exact Hd).
  assert (E2 : Nat.eqb (List.length (ar_kwonly a)) (List.length (ar_kw_defaults a)) = true) by (apply Nat.eqb_eq; exact Hk).
  rewrite E1, E2, Hv. cbn [orb negb app].
  unfold sig_pos_names, pos_args, get_function_type, kwarg_name.
  destruct (ar_args a) as [|x args] eqn:Ea.
  - cbn [map2 app map tl List.length].
    assert (Hstat : str_eqb (L "static") (L "static") = true) by reflexivity. rewrite Hstat.
    destruct (ar_kwonly a) as [|y ys] eqn:Eko; destruct (ar_kw_defaults a) as [|d ds]; cbn [List.length] in Hk; try lia.
    + cbn [map2 app]. destruct (ar_kwarg a); reflexivity.
    + cbn [map2 app s_kind andb map s_name]. rewrite !map_app.
      rewrite map2_sig_names by (cbn [List.length] in *; lia). destruct (ar_kwarg a); reflexivity.
  - assert (Hlen : List.length (x :: args) <=
                   List.length (repeat (@None expr) (List.length (x :: args) - List.length (ar_defaults a))
                                ++ map Some (ar_defaults a))).
    { rewrite app_length, repeat_length, map_length. lia. }
    destruct (repeat None (List.length (x :: args) - List.length (ar_defaults a)) ++ map Some (ar_defaults a))
      as [|d0 ds0] eqn:Eds; [cbn [List.length] in Hlen; lia|].
    cbn [map2 app s_kind s_name andb].
    assert (Hrest : map s_name
              (map2 (fun x0 d => mkSig (a_name x0) PosOrKw d (a_ann x0)) args ds0 ++
               map2 (fun x0 d => mkSig (a_name x0) KwOnly d (a_ann x0)) (ar_kwonly a) (ar_kw_defaults a) ++
               match ar_kwarg a with Some x0 => [mkSig (a_name x0) VarKw None (a_ann x0)] | None => [] end)
              = map a_name args ++ map a_name (ar_kwonly a) ++ opt_list (option_map a_name (ar_kwarg a))).
    { rewrite !map_app. rewrite map2_sig_names by (cbn [List.length] in Hlen; lia).
      rewrite map2_sig_names by lia. destruct (ar_kwarg a); reflexivity. }
    destruct (str_eqb (a_name x) (L "self") || str_eqb (a_name x) (L "cls")) eqn:Es.
    + assert (Hns : str_eqb (a_name x) (L "static") = false).
      { apply orb_true_iff in Es. destruct Es as [Es|Es]; apply str_eqb_eq in Es; rewrite Es; reflexivity. }
      rewrite Hns. cbn [tl]. rewrite Hrest. rewrite <- app_assoc. reflexivity.
    + assert (Hstat : str_eqb (L "static") (L "static") = true) by reflexivity. rewrite Hstat.
      cbn [map s_name]. rewrite Hrest. cbn [map app]. rewrite <- app_assoc. reflexivity.
Qed.

(* ------------------------------------------------------------------ *)
(* inversion of parse_function                                         *)
(* ------------------------------------------------------------------ *)
Lemma ir_merge_params : forall pi pj t o m, ir_merge pi pj t o = Ok m ->
  merge_params pi (ir_params t) (ir_params o) = Ok (ir_params m).
Proof.
  intros pi pj t o m H. unfold ir_merge in H.
  destruct (negb _); [discriminate|].
  destruct (merge_params pi (ir_params t) (ir_params o)) as [ps|]; cbn [bind] in H; [|discriminate].
  destruct (merge_returns pj (ir_returns t) (ir_returns o)); cbn [bind] in H; [|discriminate].
  inversion H; reflexivity.
Qed.

(* the kwargs step of parse.function on the docstring's parameter map *)
Definition kw_split (a : arguments) (dps : list (str * gparam))
  : outcome (list (str * gparam) * list (str * gparam)) :=
  match ar_kwarg a with
  | Some k =>
    match od_get (a_name k) dps with
    | Some p => if fld_present (g_typ p)
                then Ok (od_pop (a_name k) dps, [(a_name k, mkG (g_doc p) (g_typ p) (Some (DV (VStr NoneStr))))])
                else Err AssertionError
    | None => Ok (dps, [])
    end
  | None => Ok (dps, [])
  end.

Lemma pf_prepare_inv : forall d n a b dc r ft fnm pp,
  pf_prepare d (SFunc n a b dc r) ft fnm = Ok pp ->
  kw_split a (doc_params d (SFunc n a b dc r)) = Ok (ir_params (pp_target pp), pp_append pp)
  /\ ir_params (pp_other pp) = od_of_pairs (sig_pairs a (pos_args a))
  /\ pp_sig pp = sig_pos_names a.
Proof.
  intros d n a b dc r ft fnm pp H. unfold pf_prepare in H.
  destruct (match fnm with Some n0 => negb (str_eqb n n0) | None => false end); [discriminate|].
  destruct (negb (arg_exprs_ok a)); [discriminate|].
  unfold doc_params, fd_body.
  destruct (docstring_of b) as [s|] eqn:Eb.
  - destruct d as [i|]; cbn [bind] in H; [|discriminate].
    unfold kw_split.
    destruct (ar_kwarg a) as [k|].
    + destruct (od_get (a_name k) (ir_params i)) as [p|].
      * destruct (fld_present (g_typ p)); cbn [bind] in H; [|discriminate]. inversion H; subst. repeat split; reflexivity.
      * cbn [bind] in H. inversion H; subst. repeat split; reflexivity.
    + cbn [bind] in H. inversion H; subst. repeat split; reflexivity.
  - cbn [bind] in H. unfold kw_split.
    assert (E : (match d with Some _ | _ => @nil (str * gparam) end) = []) by (destruct d; reflexivity).
    destruct (ar_kwarg a) as [k|]; cbn [ir_params od_get bind] in H; inversion H; subst; cbn [pp_target pp_append pp_other ir_params fst snd];
      destruct d; repeat split; reflexivity.
Qed.

Lemma pf_finish_params : forall pp m it ww r, pf_finish pp m it ww = Ok r ->
  set_names_and_types (fold_left (fun d kv => od_set (fst kv) (snd kv) d) (pp_append pp)
                                 (sort_by_sig (pp_sig pp) (ir_params m))) it ww
  = Ok (ir_params r).
Proof.
  intros pp m it ww r H. unfold pf_finish in H.
  destruct (set_names_and_types _ it ww) as [ps|]; cbn [bind] in H; [|discriminate].
  destruct (interpolate_return _ _ _) as [rets|]; cbn [bind] in H; [|discriminate].
  destruct rets as [| |p]; cbn [bind] in H.
  - inversion H; reflexivity.
  - inversion H; reflexivity.
  - destruct (set_name_and_type _ p it ww); cbn [bind] in H; [|discriminate]. inversion H; reflexivity.
Qed.

(* ------------------------------------------------------------------ *)
(* sorting the merged map into signature order                         *)
(* ------------------------------------------------------------------ *)
Lemma filter_neq_notin' : forall (x : str) l, ~ In x l -> filter (fun y => negb (str_eqb x y)) l = l.
Proof. exact filter_neq_notin. Qed.

Lemma od_get_app : forall {A} k (l1 l2 : list (str * A)),
  od_get k (l1 ++ l2) = match od_get k l1 with Some v => Some v | None => od_get k l2 end.
Proof.
  intros A k l1 l2; induction l1 as [|[k0 v0] l1 IH]; cbn [app od_get]; [reflexivity|].
  destruct (str_eqb k k0); [reflexivity|exact IH].
Qed.

Lemma dedup_first_NoDup_id : forall l, NoDup l -> dedup_first l = l.
Proof.
  induction l as [|x r IH]; intros H; cbn [dedup_first]; [reflexivity|].
  inversion H as [|? ? Hx Hr]; subst. rewrite IH by exact Hr. rewrite filter_neq_notin by exact Hx. reflexivity.
Qed.

Lemma od_keys_filter_fst : forall (f : str -> bool) (ps : list (str * gparam)),
  od_keys (filter (fun kv => f (fst kv)) ps) = filter f (od_keys ps).
Proof.
  intros f ps; induction ps as [|[k v] ps IH]; cbn [filter od_keys map fst]; [reflexivity|].
  destruct (f k); cbn [map fst]; unfold od_keys in IH; rewrite IH; reflexivity.
Qed.

Lemma od_get_filter_fst : forall (f : str -> bool) (ps : list (str * gparam)) k, f k = true ->
  od_get k (filter (fun kv => f (fst kv)) ps) = od_get k ps.
Proof.
  intros f ps k Hk; induction ps as [|[k0 v] ps IH]; cbn [filter od_get fst]; [reflexivity|].
  destruct (f k0) eqn:E; cbn [od_get].
  - destruct (str_eqb k k0); [reflexivity|exact IH].
  - destruct (str_eqb k k0) eqn:E2; [apply str_eqb_eq in E2; subst; congruence|exact IH].
Qed.

Lemma od_get_filter_fst_none : forall (f : str -> bool) (ps : list (str * gparam)) k, f k = false ->
  od_get k (filter (fun kv => f (fst kv)) ps) = None.
Proof.
  intros f ps k Hk. apply od_get_None_iff. rewrite od_keys_filter_fst. intros Hin. apply filter_In in Hin.
  destruct Hin as [_ Hin]. congruence.
Qed.

Definition pick (ps : list (str * gparam)) (k : str) : list (str * gparam) :=
  match od_get k ps with Some v => [(k, v)] | None => [] end.

Lemma flat_map_pick_keys : forall ps l,
  od_keys (flat_map (pick ps) l) = filter (fun k => mem_str k (od_keys ps)) l.
Proof.
  intros ps l; induction l as [|x l IH]; cbn [flat_map filter]; [reflexivity|].
  unfold od_keys in *. rewrite map_app, IH. unfold pick.
  destruct (od_get x ps) as [v|] eqn:E.
  - assert (Hm : mem_str x (map fst ps) = true) by (apply mem_str_In; eapply od_get_Some_In_keys; exact E).
    rewrite Hm. reflexivity.
  - assert (Hm : mem_str x (map fst ps) = false) by (apply mem_str_false; apply od_get_None_iff; exact E).
    rewrite Hm. reflexivity.
Qed.

Lemma flat_map_pick_get : forall ps l k, NoDup l ->
  od_get k (flat_map (pick ps) l) = if mem_str k l then od_get k ps else None.
Proof.
  intros ps l k; induction l as [|x l IH]; intros Hnd; cbn [flat_map mem_str]; [reflexivity|].
  inversion Hnd as [|? ? Hx Hl]; subst. rewrite od_get_app. unfold pick at 1.
  destruct (str_eqb k x) eqn:E.
  - apply str_eqb_eq in E; subst x. cbn [orb].
    destruct (od_get k ps) as [v|] eqn:Eg; cbn [od_get]; [rewrite str_eqb_refl; reflexivity|].
    rewrite IH by exact Hl. apply mem_str_false in Hx. rewrite Hx. reflexivity.
  - cbn [orb]. destruct (od_get x ps) as [v|]; cbn [od_get]; [rewrite E|]; apply IH; exact Hl.
Qed.

Lemma sort_by_sig_keys : forall S ps, NoDup S ->
  od_keys (sort_by_sig S ps) = filter (fun k => mem_str k (od_keys ps)) S
                               ++ filter (fun k => negb (mem_str k S)) (od_keys ps).
Proof.
  intros S ps HS. unfold sort_by_sig. rewrite dedup_first_NoDup_id by exact HS.
  change (fun k => match od_get k ps with Some v => [(k, v)] | None => [] end) with (pick ps).
  unfold od_keys at 1. rewrite map_app.
  change (map fst (flat_map (pick ps) S)) with (od_keys (flat_map (pick ps) S)).
  rewrite flat_map_pick_keys. f_equal.
  apply (od_keys_filter_fst (fun k => negb (mem_str k S))).
Qed.

(* sorting moves entries, it does not change them *)
Lemma sort_by_sig_get : forall S ps k, NoDup S -> od_get k (sort_by_sig S ps) = od_get k ps.
Proof.
  intros S ps k HS. unfold sort_by_sig. rewrite dedup_first_NoDup_id by exact HS.
  change (fun k => match od_get k ps with Some v => [(k, v)] | None => [] end) with (pick ps).
  rewrite od_get_app, flat_map_pick_get by exact HS.
  destruct (mem_str k S) eqn:E.
  - destruct (od_get k ps) as [v|] eqn:Eg; [reflexivity|].
    rewrite (od_get_filter_fst_none (fun k => negb (mem_str k S))); [reflexivity|rewrite E; reflexivity].
  - rewrite (od_get_filter_fst (fun k => negb (mem_str k S))); [reflexivity|rewrite E; reflexivity].
Qed.

(* ------------------------------------------------------------------ *)
(* names and order of the result, exactly                              *)
(* ------------------------------------------------------------------ *)
Record doc_facts (d : option ir) (fd : stmt) (a : arguments) : Prop := mkDocFacts {
  df_nodup : NoDup (doc_names d fd);
  df_sub : forall k, In k (doc_names d fd) -> In k (sig_pos_names a ++ opt_list (kwarg_name a))
}.

Lemma wf_doc_facts : forall d n a b dc r, wf_doc d (SFunc n a b dc r) = true -> doc_facts d (SFunc n a b dc r) a.
Proof.
  intros d n a b dc r H. unfold wf_doc in H. cbn [fd_arguments] in H.
  repeat (apply andb_true_iff in H; destruct H as [H ?]).
  constructor.
  - apply strs_distinct_NoDup; exact H.
  - intros k Hk. match goal with Hx : forallb _ (doc_names _ _) = true |- _ => rewrite forallb_forall in Hx; apply Hx in Hk end.
    apply mem_str_In; exact Hk.
Qed.

Lemma forallb_sub : forall (f : str -> bool) l l', (forall k, In k l -> In k l') ->
  forallb f l' = true -> forallb f l = true.
Proof.
  intros f l l' Hs H. rewrite forallb_forall in *. intros x Hx. apply H, Hs, Hx.
Qed.

(* documented names other than the ** one are parameters of the signature *)
Lemma doc_pos_names_in_sig : forall d n a b dc r k, doc_facts d (SFunc n a b dc r) a ->
  In k (doc_pos_names d a (SFunc n a b dc r)) -> In k (sig_pos_names a).
Proof.
  intros d n a b dc r k D H. unfold doc_pos_names in H.
  destruct (kwarg_name a) as [kw|] eqn:Ek.
  - apply filter_In in H. destruct H as [Hin Hne]. apply (df_sub _ _ _ D) in Hin. rewrite Ek in Hin.
    apply in_app_or in Hin. destruct Hin as [Hin|[Hin|[]]]; [exact Hin|]. subst. rewrite str_eqb_refl in Hne. discriminate.
  - apply (df_sub _ _ _ D) in H. rewrite Ek in H. cbn [opt_list] in H. rewrite app_nil_r in H. exact H.
Qed.

Lemma filter_all_false : forall (f : str -> bool) l, (forall k, In k l -> f k = false) -> filter f l = [].
Proof.
  intros f l; induction l as [|x l IH]; intros H; cbn [filter]; [reflexivity|].
  rewrite (H x) by (left; reflexivity). apply IH. intros k Hk; apply H; right; exact Hk.
Qed.

Lemma filter_all_true : forall (f : str -> bool) l, (forall k, In k l -> f k = true) -> filter f l = l.
Proof.
  intros f l; induction l as [|x l IH]; intros H; cbn [filter]; [reflexivity|].
  rewrite (H x) by (left; reflexivity). f_equal. apply IH. intros k Hk; apply H; right; exact Hk.
Qed.

(* inside the domain: the signature's names, then a documented ** parameter *)
Lemma expected_names_domain : forall d n a b dc r, doc_facts d (SFunc n a b dc r) a ->
  expected_names d (SFunc n a b dc r)
  = sig_pos_names a ++ (if kwarg_documented d a (SFunc n a b dc r) then opt_list (kwarg_name a) else []).
Proof.
  intros d n a b dc r D. unfold expected_names. cbn [fd_arguments].
  rewrite (filter_all_false _ (doc_pos_names d a (SFunc n a b dc r))); [reflexivity|].
  intros k Hk. apply negb_false_iff. apply mem_str_In. eapply doc_pos_names_in_sig; eauto.
Qed.

Lemma expected_names_NoDup : forall d n a b dc r, fd_facts a -> doc_facts d (SFunc n a b dc r) a ->
  NoDup (expected_names d (SFunc n a b dc r)).
Proof.
  intros d n a b dc r F D. rewrite (expected_names_domain _ _ _ _ _ _ D).
  pose proof (ff_nodup a F) as H. destruct (kwarg_documented _ _ _); [exact H|].
  rewrite app_nil_r. apply (NoDup_app_l _ _ H).
Qed.

Lemma expected_names_sub : forall d n a b dc r k, doc_facts d (SFunc n a b dc r) a ->
  In k (expected_names d (SFunc n a b dc r)) -> In k (sig_pos_names a ++ opt_list (kwarg_name a)).
Proof.
  intros d n a b dc r k D H. rewrite (expected_names_domain _ _ _ _ _ _ D) in H.
  apply in_app_or in H. apply in_or_app. destruct H as [H|H]; [left; exact H|].
  destruct (kwarg_documented _ _ _); [right; exact H|destruct H].
Qed.

(* a successful parse, stage by stage *)
Definition append_kw (app m : list (str * gparam)) : list (str * gparam) :=
  fold_left (fun d0 kv => od_set (fst kv) (snd kv) d0) app m.

Lemma parse_function_structure : forall pi pj d n a b dc rr it ww ft fnm r,
  fd_facts a -> doc_facts d (SFunc n a b dc rr) a ->
  parse_function pi pj d (SFunc n a b dc rr) it ww ft fnm = Ok r ->
  exists tparams app m,
    kw_split a (doc_params d (SFunc n a b dc rr)) = Ok (tparams, app)
    /\ merge_params pi tparams (sig_pairs a (pos_args a)) = Ok m
    /\ set_names_and_types (append_kw app (sort_by_sig (sig_pos_names a) m)) it ww = Ok (ir_params r)
    /\ od_keys (append_kw app (sort_by_sig (sig_pos_names a) m)) = expected_names d (SFunc n a b dc rr).
Proof.
  intros pi pj d n a b dc rr it ww ft fnm r F D H.
  unfold parse_function in H.
  destruct (pf_prepare d (SFunc n a b dc rr) ft fnm) as [pp|] eqn:Epp; cbn [bind] in H; [|discriminate].
  destruct (ir_merge pi pj (pp_target pp) (pp_other pp)) as [m|] eqn:Em; cbn [bind] in H; [|discriminate].
  apply pf_prepare_inv in Epp. destruct Epp as (Ekw & Eother & Esig).
  apply ir_merge_params in Em. rewrite Eother in Em.
  apply pf_finish_params in H. rewrite Esig in H.
  assert (HS : NoDup (sig_pos_names a)) by (apply (NoDup_app_l _ _ (ff_nodup a F))).
  assert (Hop : od_of_pairs (sig_pairs a (pos_args a)) = sig_pairs a (pos_args a)).
  { apply od_of_pairs_NoDup. rewrite sig_pairs_keys. exact HS. }
  rewrite Hop in Em.
  exists (ir_params (pp_target pp)), (pp_append pp), (ir_params m).
  split; [exact Ekw|]. split; [exact Em|]. split; [exact H|].
  apply merge_params_keys in Em; [|rewrite sig_pairs_keys; exact HS].
  rewrite sig_pairs_keys in Em. fold (sig_pos_names a) in Em.
  (* keys after sorting: the signature's names (all present), then the target's names that are no parameter *)
  assert (Ksort : od_keys (sort_by_sig (sig_pos_names a) (ir_params m))
                  = sig_pos_names a
                    ++ filter (fun k => negb (mem_str k (sig_pos_names a))) (od_keys (ir_params (pp_target pp)))).
  { rewrite sort_by_sig_keys by exact HS. rewrite Em. f_equal.
    - apply filter_all_true. intros k Hk. apply mem_str_In.
      destruct (mem_str k (od_keys (ir_params (pp_target pp)))) eqn:E.
      + apply in_or_app; left. apply mem_str_In; exact E.
      + apply in_or_app; right. apply filter_In. split; [exact Hk|rewrite E; reflexivity].
    - rewrite filter_app. rewrite (filter_all_false _ (filter _ (sig_pos_names a))); [apply app_nil_r|].
      intros k Hk. apply filter_In in Hk. destruct Hk as [Hk _]. apply negb_false_iff. apply mem_str_In; exact Hk. }
  unfold append_kw. unfold kw_split in Ekw. unfold expected_names. cbn [fd_arguments].
  unfold doc_pos_names, kwarg_documented, kwarg_name.
  destruct (ar_kwarg a) as [karg|] eqn:Ek; cbn [option_map opt_list].
  - destruct (od_get (a_name karg) (doc_params d (SFunc n a b dc rr))) as [p|] eqn:Eg.
    + destruct (fld_present (g_typ p)); [|discriminate].
      injection Ekw as Et Ea. rewrite <- Ea. cbn [fold_left fst snd].
      assert (Hin : In (a_name karg) (doc_names d (SFunc n a b dc rr))) by (eapply od_get_Some_In_keys; exact Eg).
      apply mem_str_In in Hin. rewrite Hin.
      assert (Kt : od_keys (ir_params (pp_target pp))
                   = filter (fun x => negb (str_eqb (a_name karg) x)) (doc_names d (SFunc n a b dc rr))).
      { rewrite <- Et. apply od_keys_pop. apply (df_nodup _ _ _ D). }
      rewrite od_keys_set_absent.
      * rewrite Ksort, Kt. rewrite <- app_assoc. reflexivity.
      * rewrite Ksort, Kt. intros Hx. apply in_app_or in Hx. destruct Hx as [Hx|Hx].
        -- pose proof (ff_nodup a F) as Hnd. unfold kwarg_name in Hnd. rewrite Ek in Hnd. cbn [option_map opt_list] in Hnd.
           apply NoDup_remove_2 in Hnd. rewrite app_nil_r in Hnd. tauto.
        -- apply filter_In in Hx. destruct Hx as [Hx _]. apply filter_In in Hx. destruct Hx as [_ Hx].
           rewrite str_eqb_refl in Hx. discriminate.
    + injection Ekw as Et Ea. rewrite <- Ea. cbn [fold_left].
      assert (Hnot : ~ In (a_name karg) (doc_names d (SFunc n a b dc rr))) by (apply od_get_None_iff; exact Eg).
      pose proof Hnot as Hm. apply mem_str_false in Hm. rewrite Hm. rewrite app_nil_r.
      rewrite filter_neq_notin by exact Hnot. rewrite Ksort, <- Et. reflexivity.
  - injection Ekw as Et Ea. rewrite <- Ea. cbn [fold_left]. rewrite app_nil_r. rewrite Ksort, <- Et. reflexivity.
Qed.

(* THE order parse.function produces: the signature's positional and keyword-only names in source
   order, then a documented ** parameter.  For every set order. *)
Theorem parse_function_names : forall pi pj d fd it ww ft fnm r, C07_domain d fd = true ->
  parse_function pi pj d fd it ww ft fnm = Ok r -> od_keys (ir_params r) = expected_names d fd.
Proof.
  intros pi pj d fd it ww ft fnm r Hdom H.
  unfold C07_domain in Hdom. apply andb_true_iff in Hdom. destruct Hdom as [Hwf Hdoc].
  destruct (wf_fd_facts _ Hwf) as (n & a & b & dc & rr & -> & F).
  pose proof (wf_doc_facts _ _ _ _ _ _ Hdoc) as D.
  destruct (parse_function_structure _ _ _ _ _ _ _ _ _ _ _ _ _ F D H) as (tp & app & m & _ & _ & Esn & Ekeys).
  apply set_names_and_types_keys in Esn.
  - rewrite Esn. exact Ekeys.
  - rewrite Ekeys. apply expected_names_NoDup; assumption.
  - rewrite Ekeys. eapply forallb_sub; [|apply (ff_ok a F)]. intros k Hk. eapply expected_names_sub; eauto.
Qed.

(* each exactly once *)
Theorem parse_function_names_NoDup : forall pi pj d fd it ww ft fnm r, C07_domain d fd = true ->
  parse_function pi pj d fd it ww ft fnm = Ok r -> NoDup (od_keys (ir_params r)).
Proof.
  intros pi pj d fd it ww ft fnm r Hdom H. rewrite (parse_function_names _ _ _ _ _ _ _ _ _ Hdom H).
  unfold C07_domain in Hdom. apply andb_true_iff in Hdom. destruct Hdom as [Hwf Hdoc].
  destruct (wf_fd_facts _ Hwf) as (n & a & b & dc & rr & -> & F).
  apply expected_names_NoDup; [exact F|apply wf_doc_facts; exact Hdoc].
Qed.

(* the exact condition under which these are the names Python sees, in source order: an existing **
   parameter is documented (an undocumented one is dropped) *)
Lemma order_guard_iff : forall d fd, C07_domain d fd = true ->
  (expected_names d fd = sig_names fd <-> order_guard d fd = true).
Proof.
  intros d fd Hdom. unfold C07_domain in Hdom. apply andb_true_iff in Hdom. destruct Hdom as [Hwf Hdoc].
  destruct (wf_fd_facts _ Hwf) as (n & a & b & dc & rr & -> & F).
  pose proof (wf_doc_facts _ _ _ _ _ _ Hdoc) as D.
  rewrite (sig_names_spec _ _ _ _ _ F), (expected_names_domain _ _ _ _ _ _ D).
  unfold order_guard. cbn [fd_arguments].
  destruct (kwarg_name a) as [k|] eqn:Ek; cbn [opt_list].
  - destruct (kwarg_documented d a (SFunc n a b dc rr)); [split; reflexivity|].
    split; [|discriminate]. intros H. apply (f_equal (@List.length _)) in H. rewrite !app_length in H. cbn in H. lia.
  - destruct (kwarg_documented d a (SFunc n a b dc rr)); split; reflexivity.
Qed.

(* the positional and keyword-only parameters are ALWAYS there, once each, in source order *)
Lemma sig_pos_prefix : forall pi pj d fd it ww ft fnm r a, C07_domain d fd = true -> fd_arguments fd = Some a ->
  parse_function pi pj d fd it ww ft fnm = Ok r ->
  exists rest, od_keys (ir_params r) = sig_pos_names a ++ rest
               /\ (rest = [] \/ rest = opt_list (kwarg_name a)).
Proof.
  intros pi pj d fd it ww ft fnm r a Hdom Ha H. rewrite (parse_function_names _ _ _ _ _ _ _ _ _ Hdom H).
  unfold C07_domain in Hdom. apply andb_true_iff in Hdom. destruct Hdom as [Hwf Hdoc].
  destruct (wf_fd_facts _ Hwf) as (n & a' & b & dc & rr & -> & F). cbn [fd_arguments] in Ha. inversion Ha; subst a'.
  pose proof (wf_doc_facts _ _ _ _ _ _ Hdoc) as D. rewrite (expected_names_domain _ _ _ _ _ _ D).
  eexists. split; [reflexivity|]. destruct (kwarg_documented _ _ _); [right|left]; reflexivity.
Qed.
