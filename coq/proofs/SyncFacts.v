(* SyncFacts: model/Sync.v (conform, conform_files, conform_kinds, ground_truth) over every
   instantiation of the conversion layers and every fault assignment.  Frame, atomicity, error safety,
   and stability / idempotence from named laws.  Proofs only. *)
From Coq Require Import List Ascii Bool Arith Lia Relations.
From Coq Require String.
Import String.StringSyntax.
From DT Require Import PyStr Sexp PyVal PureUtils FS Sync PyStrFacts FSFacts.
Import ListNotations.

Lemma split_aux_nonnil : forall fuel sep s cur, split_aux fuel sep s cur <> [].
Proof.
  induction fuel as [|f IHf]; intros sep s cur; cbn [split_aux]; [discriminate|].
  destruct s as [|c r]; [discriminate|].
  destruct (startswith sep (c :: r)); [discriminate|apply IHf].
Qed.

Lemma split_nonnil : forall sep s, split sep s <> [].
Proof. intros sep s. unfold split. apply split_aux_nonnil. Qed.

Lemma strip_split_nonnil : forall sep s, strip_split sep s <> [].
Proof.
  intros sep s H. unfold strip_split in H. apply map_eq_nil in H. exact (split_nonnil sep s H).
Qed.

Lemma kind_eq_dec : forall a b : kind, {a = b} + {a <> b}.
Proof. decide equality. Qed.

(* the paths conform_files really works on: the listed ones other than the truth *)
Definition proc (truth : path) (files : list path) : list path :=
  filter (fun f => negb (str_eqb f truth)) files.

Lemma proc_In : forall truth files f, In f (proc truth files) <-> In f files /\ f <> truth.
Proof.
  intros truth files f. unfold proc. rewrite filter_In. split; intros [H1 H2]; (split; [exact H1|]).
  - apply negb_true_iff in H2. apply str_eqb_neq in H2. exact H2.
  - apply negb_true_iff. apply str_eqb_neq. exact H2.
Qed.

Lemma proc_app : forall truth a b, proc truth (a ++ b) = proc truth a ++ proc truth b.
Proof. intros truth a b. unfold proc. apply filter_app. Qed.

Lemma NoDup_app_inv : forall (A : Type) (l1 l2 : list A),
    NoDup (l1 ++ l2) -> NoDup l1 /\ NoDup l2 /\ (forall x, In x l1 -> ~ In x l2).
Proof.
  intros A l1 l2. induction l1 as [|a l1 IH]; cbn [app]; intros H.
  - split; [constructor|]. split; [exact H|]. intros x [].
  - inversion H as [|a' l' Hn Hd]. subst. destruct (IH Hd) as [H1 [H2 H3]].
    split; [constructor; [intros Hi; apply Hn; apply in_or_app; left; exact Hi|exact H1]|].
    split; [exact H2|]. intros x [Hx|Hx].
    + subst x. intros Hi. apply Hn. apply in_or_app. right. exact Hi.
    + apply H3. exact Hx.
Qed.

Section SyncFacts.
  Variables (node tree irT opts : Type).
  Variable emit_k : kind -> irT -> opts -> outcome node.
  Variable parse_file : path -> bytes -> outcome tree.
  Variable find : list str -> tree -> option node.
  Variable rewrite : list str -> node -> tree -> tree * bool.
  Variable cmp : node -> node -> bool.
  Variable render_node : node -> outcome bytes.
  Variable render_tree : tree -> outcome bytes.
  Variable opts_of : option node -> list str -> kind -> opts.
  Variable type_ok : kind -> node -> bool.
  Variable parse_truth : kind -> option node -> list str -> outcome irT.

  Notation conf :=
    (conform emit_k parse_file find rewrite cmp render_node render_tree opts_of type_ok).
  Notation conf_files :=
    (conform_files emit_k parse_file find rewrite cmp render_node render_tree opts_of type_ok).
  Notation conf_kinds :=
    (conform_kinds emit_k parse_file find rewrite cmp render_node render_tree opts_of type_ok).
  Notation gtruth :=
    (ground_truth emit_k parse_file find rewrite cmp render_node render_tree opts_of type_ok
                  parse_truth).

  Definition printed_line (replaced : bool) (file : path) : list str :=
    [(if replaced then L "modified" else L "unchanged") ++ [tabch] ++ file].

  (* ---------------------------------------------------------------- *)
  (* conform = decide from the bytes of the file alone, then at most one emit.file *)
  (* ---------------------------------------------------------------- *)

  Definition plan (c : option bytes) (file : path) (search : list str) (k : kind) (ir : irT)
    : (outcome bool * list str) + (mode * outcome bytes * list str) :=
    match c with
    | None =>
      match emit_k k ir (opts_of None search k) with
      | Err e => inl (Err e, [])
      | Ok n => inr (Wt, render_node n, [])
      end
    | Some content =>
      match parse_file file content with
      | Err e => inl (Err e, [])
      | Ok t =>
        match emit_k k ir (opts_of (find search t) search k) with
        | Err e => inl (Err e, [])
        | Ok n =>
          match find search t with
          | None => inr (Ap, render_node n, [])
          | Some o =>
            match search with
            | [] => inl (Err AssertionError, [])
            | _ =>
              if negb (type_ok k n) then inl (Err AssertionError, [])
              else if cmp o n then inl (Ok false, [])
              else if snd (rewrite search n t)
                   then inr (Wt, render_tree (fst (rewrite search n t)), printed_line true file)
                   else inl (Ok false, printed_line false file)
            end
          end
        end
      end
    end.

  Definition exec (fs : fsys) (file : path) (f : fault)
             (p : (outcome bool * list str) + (mode * outcome bytes * list str)) : out3 bool :=
    match p with
    | inl (r, pr) => (fs, r, pr)
    | inr (m, rd, pr) => lift_write (emit_file fs file m rd f) true pr
    end.

  Lemma conform_plan : forall fs file search k ir f,
      conf fs file search k ir f = exec fs file f (plan (fs_get file fs) file search k ir).
  Proof.
    intros fs file search k ir f. unfold conform, plan.
    destruct (fs_get file fs) as [content|].
    - destruct (parse_file file content) as [t|e]; [|reflexivity].
      destruct (emit_k k ir (opts_of (find search t) search k)) as [n|e]; [|reflexivity].
      destruct (find search t) as [o|]; [|reflexivity].
      destruct search as [|s0 sr]; [reflexivity|].
      destruct (negb (type_ok k n)); [reflexivity|].
      destruct (cmp o n); [reflexivity|].
      destruct (rewrite (s0 :: sr) n t) as [t' replaced]. cbn [fst snd].
      destruct replaced; reflexivity.
    - destruct (emit_k k ir (opts_of None search k)) as [n|e]; reflexivity.
  Qed.

  Lemma plan_inl_not_true : forall c file search k ir r pr,
      plan c file search k ir = inl (r, pr) -> r <> Ok true.
  Proof.
    intros c file search k ir r pr H. unfold plan in H.
    destruct c as [content|].
    - destruct (parse_file file content) as [t|e]; [|injection H as H _; subst r; discriminate].
      destruct (emit_k k ir (opts_of (find search t) search k)) as [n|e];
        [|injection H as H _; subst r; discriminate].
      destruct (find search t) as [o|]; [|discriminate H].
      destruct search as [|s0 sr]; [injection H as H _; subst r; discriminate|].
      destruct (negb (type_ok k n)); [injection H as H _; subst r; discriminate|].
      destruct (cmp o n); [injection H as H _; subst r; discriminate|].
      destruct (snd (rewrite (s0 :: sr) n t)); [discriminate H|].
      injection H as H _; subst r; discriminate.
    - destruct (emit_k k ir (opts_of None search k)) as [n|e]; [discriminate H|].
      injection H as H _; subst r; discriminate.
  Qed.

  Lemma lift_write_inv : forall w flag printed fs' r pr,
      lift_write w flag printed = (fs', r, pr) ->
      pr = printed /\
      ((exists u, w = (fs', Ok u) /\ r = Ok flag) \/ (exists e, w = (fs', Err e) /\ r = Err e)).
  Proof.
    intros [fs2 [u|e]] flag printed fs' r pr H; cbn [lift_write] in H;
      injection H as H1 H2 H3; subst; (split; [reflexivity|]).
    - left. exists u. split; reflexivity.
    - right. exists e. split; reflexivity.
  Qed.

  (* the three shapes of one conform call *)
  Lemma conform_cases : forall fs file search k ir f fs' r pr,
      conf fs file search k ir f = (fs', r, pr) ->
      (fs' = fs /\ r <> Ok true /\ plan (fs_get file fs) file search k ir = inl (r, pr))
      \/ (exists m rd u, plan (fs_get file fs) file search k ir = inr (m, rd, pr)
                         /\ emit_file fs file m rd f = (fs', Ok u) /\ r = Ok true)
      \/ (exists m rd e, plan (fs_get file fs) file search k ir = inr (m, rd, pr)
                         /\ emit_file fs file m rd f = (fs', Err e) /\ r = Err e).
  Proof.
    intros fs file search k ir f fs' r pr H. rewrite conform_plan in H.
    destruct (plan (fs_get file fs) file search k ir) as [[r0 pr0]|[[m rd] pr0]] eqn:EP;
      cbn [exec] in H.
    - injection H as H1 H2 H3. subst. left. split; [reflexivity|].
      split; [apply (plan_inl_not_true _ _ _ _ _ _ _ EP)|reflexivity].
    - apply lift_write_inv in H. destruct H as [Hpr [[u [Hw Hr]]|[e [Hw Hr]]]]; subst pr0.
      + right. left. exists m, rd, u. split; [reflexivity|]. split; assumption.
      + right. right. exists m, rd, e. split; [reflexivity|]. split; assumption.
  Qed.

  (* ---------------------------------------------------------------- *)
  (* one conform call                                                   *)
  (* ---------------------------------------------------------------- *)

  (* C11 at file granularity, one call: only the file and its temporary name can change *)
  Lemma conform_frame : forall fs file search k ir f fs' r pr,
      conf fs file search k ir f = (fs', r, pr) ->
      forall p, p <> file -> p <> tmp_of file -> fs_get p fs' = fs_get p fs.
  Proof.
    intros fs file search k ir f fs' r pr H p Hf Ht.
    destruct (conform_cases _ _ _ _ _ _ _ _ _ H)
      as [[E _]|[[m [rd [u [_ [Hw _]]]]]|[m [rd [e [_ [Hw _]]]]]]].
    - subst fs'. reflexivity.
    - apply (emit_file_frame _ _ _ _ _ _ _ Hw); assumption.
    - apply (emit_file_frame _ _ _ _ _ _ _ Hw); assumption.
  Qed.

  (* C10: reported unchanged => the file system is the same one *)
  Lemma conform_false_unchanged : forall fs file search k ir f fs' pr,
      conf fs file search k ir f = (fs', Ok false, pr) -> fs' = fs.
  Proof.
    intros fs file search k ir f fs' pr H.
    destruct (conform_cases _ _ _ _ _ _ _ _ _ H)
      as [[E _]|[[m [rd [u [_ [_ Hr]]]]]|[m [rd [e [_ [_ Hr]]]]]]].
    - exact E.
    - discriminate Hr.
    - discriminate Hr.
  Qed.

  (* C20: a conversion error or an I/O fault leaves every path but the temporary one as it was;
     in particular the current file *)
  Lemma conform_err_safe : forall fs file search k ir f fs' e pr,
      conf fs file search k ir f = (fs', Err e, pr) ->
      fs_get file fs' = fs_get file fs
      /\ (forall p, p <> tmp_of file -> fs_get p fs' = fs_get p fs)
      /\ (fs_get (tmp_of file) fs = None -> fs' = fs).
  Proof.
    intros fs file search k ir f fs' e pr H.
    assert (Hall : (forall p, p <> tmp_of file -> fs_get p fs' = fs_get p fs)
                   /\ (fs_get (tmp_of file) fs = None -> fs' = fs)).
    { destruct (conform_cases _ _ _ _ _ _ _ _ _ H)
        as [[E _]|[[m [rd [u [_ [_ Hr]]]]]|[m [rd [e' [_ [Hw _]]]]]]].
      - subst fs'. split; reflexivity.
      - discriminate Hr.
      - split.
        + apply (emit_file_err_get _ _ _ _ _ _ _ Hw).
        + intros Ht. apply (emit_file_err_eq _ _ _ _ _ _ _ Ht Hw). }
    destruct Hall as [H1 H2]. split; [apply H1; apply tmp_of_neq_sym|]. split; assumption.
  Qed.

  Lemma conform_tmp_clean : forall fs file search k ir f fs' r pr,
      fs_get (tmp_of file) fs = None ->
      conf fs file search k ir f = (fs', r, pr) -> fs_get (tmp_of file) fs' = None.
  Proof.
    intros fs file search k ir f fs' r pr Ht H.
    destruct (conform_cases _ _ _ _ _ _ _ _ _ H)
      as [[E _]|[[m [rd [u [_ [Hw _]]]]]|[m [rd [e [_ [Hw _]]]]]]].
    - subst fs'. exact Ht.
    - apply (emit_file_tmp_clean _ _ _ _ _ _ _ Ht Hw).
    - apply (emit_file_tmp_clean _ _ _ _ _ _ _ Ht Hw).
  Qed.

  (* reported modified => the file holds the complete intended text of the branch taken *)
  Lemma conform_true_wrote : forall fs file search k ir f fs' pr,
      conf fs file search k ir f = (fs', Ok true, pr) ->
      (* the file did not exist: the emitted node alone, written *)
      (fs_get file fs = None /\
       exists n src, emit_k k ir (opts_of None search k) = Ok n /\ render_node n = Ok src
                     /\ fs' = written fs file Wt src /\ pr = [])
      \/
      (* the file exists, nothing at the location: appended *)
      (exists content t n src,
          fs_get file fs = Some content /\ parse_file file content = Ok t /\ find search t = None
          /\ emit_k k ir (opts_of None search k) = Ok n /\ render_node n = Ok src
          /\ fs' = written fs file Ap src /\ pr = [])
      \/
      (* found and different: the rewritten tree, written *)
      (exists content t o n t' src,
          fs_get file fs = Some content /\ parse_file file content = Ok t /\ find search t = Some o
          /\ emit_k k ir (opts_of (Some o) search k) = Ok n /\ search <> [] /\ type_ok k n = true
          /\ cmp o n = false /\ rewrite search n t = (t', true) /\ render_tree t' = Ok src
          /\ fs' = written fs file Wt src /\ pr = printed_line true file).
  Proof.
    intros fs file search k ir f fs' pr H.
    destruct (conform_cases _ _ _ _ _ _ _ _ _ H)
      as [[_ [Hr _]]|[[m [rd [u [HP [Hw _]]]]]|[m [rd [e [_ [_ Hr]]]]]]].
    - contradiction Hr. reflexivity.
    - destruct (emit_file_ok _ _ _ _ _ _ _ Hw) as [src [Hrd Hfs]]. subst rd.
      unfold plan in HP. destruct (fs_get file fs) as [content|] eqn:EG.
      + right.
        destruct (parse_file file content) as [t|e] eqn:EPF; [|discriminate HP].
        destruct (find search t) as [o|] eqn:EF.
        * right.
          destruct (emit_k k ir (opts_of (Some o) search k)) as [n|e] eqn:EE; [|discriminate HP].
          destruct search as [|s0 sr]; [discriminate HP|].
          destruct (type_ok k n) eqn:ET; cbn [negb] in HP; [|discriminate HP].
          destruct (cmp o n) eqn:EC; [discriminate HP|].
          destruct (rewrite (s0 :: sr) n t) as [t' replaced] eqn:ER. cbn [fst snd] in HP.
          destruct replaced; [|discriminate HP].
          injection HP as Hm Hrd Hpr. subst m pr.
          exists content, t, o, n, t', src.
          repeat (split; [first [reflexivity|assumption|discriminate]|]). reflexivity.
        * left.
          destruct (emit_k k ir (opts_of None search k)) as [n|e] eqn:EE; [|discriminate HP].
          injection HP as Hm Hrd Hpr. subst m pr.
          exists content, t, n, src.
          repeat (split; [first [reflexivity|assumption]|]). reflexivity.
      + left. split; [reflexivity|].
        destruct (emit_k k ir (opts_of None search k)) as [n|e] eqn:EE; [|discriminate HP].
        injection HP as Hm Hrd Hpr. subst m pr.
        exists n, src. repeat (split; [first [reflexivity|assumption]|]). reflexivity.
    - discriminate Hr.
  Qed.

  (* in every branch of a reported modification the file reads as one complete intended text *)
  Lemma conform_true_intended : forall fs file search k ir f fs' pr,
      conf fs file search k ir f = (fs', Ok true, pr) ->
      exists m src, fs' = written fs file m src
                    /\ fs_get file fs' = Some (intended fs file m src).
  Proof.
    intros fs file search k ir f fs' pr H.
    destruct (conform_true_wrote _ _ _ _ _ _ _ _ H)
      as [[_ [n [src [_ [_ [E _]]]]]]
         |[[content [t [n [src [_ [_ [_ [_ [_ [E _]]]]]]]]]]
          |[content [t [o [n [t' [src [_ [_ [_ [_ [_ [_ [_ [_ [_ [E _]]]]]]]]]]]]]]]]]].
    - exists Wt, src. split; [exact E|]. subst fs'. apply written_get_file.
    - exists Ap, src. split; [exact E|]. subst fs'. apply written_get_file.
    - exists Wt, src. split; [exact E|]. subst fs'. apply written_get_file.
  Qed.

  (* ---------------------------------------------------------------- *)
  (* lifting a per-call fact through conform_files, conform_kinds, ground_truth *)
  (* ---------------------------------------------------------------- *)

  Definition targets_of (a : sync_args) (ks : list kind) : list path :=
    flat_map (fun k => match sa_files a k with Some l => l | None => [] end) ks.

  (* every file named on the command line, whatever its kind *)
  Definition targets (a : sync_args) : list path := targets_of a kinds_in_order.

  Lemma targets_of_In : forall a ks f,
      In f (targets_of a ks) <-> exists k files, In k ks /\ sa_files a k = Some files /\ In f files.
  Proof.
    intros a ks f. unfold targets_of. rewrite in_flat_map. split.
    - intros [k [Hk Hf]]. destruct (sa_files a k) as [files|] eqn:E; [|destruct Hf].
      exists k, files. split; [exact Hk|]. split; [exact E|exact Hf].
    - intros [k [files [Hk [E Hf]]]]. exists k. split; [exact Hk|]. rewrite E. exact Hf.
  Qed.

  Section Lift.
    Variable P : fsys -> Prop.                  (* invariant *)
    Variable R : fsys -> fsys -> Prop.          (* relation established *)
    Variable T : path -> Prop.                  (* the files worked on *)
    Variable truth : path.
    Variable faults : path -> fault.
    Hypothesis R_refl : forall fs, R fs fs.
    Hypothesis R_trans : forall a b c, R a b -> R b c -> R a c.
    Hypothesis STEP : forall fs file search k ir fs' r pr,
        T file -> P fs -> conf fs file search k ir (faults file) = (fs', r, pr) -> R fs fs' /\ P fs'.

    Lemma conform_files_lift : forall files search k ir fs acc printed fs' r pr,
        (forall f, In f files -> f <> truth -> T f) -> P fs ->
        conf_files fs truth files search k ir faults acc printed = (fs', r, pr) ->
        R fs fs' /\ P fs'.
    Proof.
      induction files as [|file rest IH]; intros search k ir fs acc printed fs' r pr HT HP H;
        cbn [conform_files] in H.
      - injection H as H1 _ _. subst fs'. split; [apply R_refl|exact HP].
      - destruct (str_eqb file truth) eqn:E.
        + apply (IH _ _ _ _ _ _ _ _ _ (fun f Hf => HT f (or_intror Hf)) HP H).
        + apply str_eqb_neq in E.
          destruct (conf fs file search k ir (faults file)) as [[fs2 r2] pr2] eqn:EC.
          destruct (STEP _ _ _ _ _ _ _ _ (HT file (or_introl eq_refl) E) HP EC) as [HR2 HP2].
          destruct r2 as [flag|e].
          * destruct (IH _ _ _ _ _ _ _ _ _ (fun f Hf => HT f (or_intror Hf)) HP2 H) as [HR3 HP3].
            split; [apply (R_trans _ _ _ HR2 HR3)|exact HP3].
          * injection H as H1 _ _. subst fs'. split; assumption.
    Qed.

    Lemma conform_kinds_lift : forall a ks ir fs acc printed fs' r pr,
        (forall f, In f (targets_of a ks) -> f <> truth -> T f) -> P fs ->
        conf_kinds fs a truth ks ir faults acc printed = (fs', r, pr) ->
        R fs fs' /\ P fs'.
    Proof.
      intros a. induction ks as [|k rest IH]; intros ir fs acc printed fs' r pr HT HP H;
        cbn [conform_kinds] in H.
      - injection H as H1 _ _. subst fs'. split; [apply R_refl|exact HP].
      - assert (HTrest : forall f, In f (targets_of a rest) -> f <> truth -> T f).
        { intros f Hf. apply HT. unfold targets_of. cbn [flat_map]. apply in_or_app. right. exact Hf. }
        destruct (sa_files a k) as [files|] eqn:EF.
        + destruct (name_of a k) as [nm|e].
          * destruct (conf_files fs truth files (strip_split [ch 46] nm) k ir faults acc printed)
              as [[fs2 r2] pr2] eqn:EC.
            assert (HTfiles : forall f, In f files -> f <> truth -> T f).
            { intros f Hf. apply HT. unfold targets_of. cbn [flat_map]. rewrite EF.
              apply in_or_app. left. exact Hf. }
            destruct (conform_files_lift _ _ _ _ _ _ _ _ _ _ HTfiles HP EC) as [HR2 HP2].
            destruct r2 as [acc2|e].
            -- destruct (IH _ _ _ _ _ _ _ HTrest HP2 H) as [HR3 HP3].
               split; [apply (R_trans _ _ _ HR2 HR3)|exact HP3].
            -- injection H as H1 _ _. subst fs'. split; assumption.
          * injection H as H1 _ _. subst fs'. split; [apply R_refl|exact HP].
        + apply (IH _ _ _ _ _ _ _ HTrest HP H).
    Qed.
  End Lift.

  (* the conversion of the truth, before any target is touched *)
  Definition truth_ir (fs : fsys) (a : sync_args) (truth : path) : outcome irT :=
    match name_of a (sa_truth a) with
    | Err e => Err e
    | Ok nm =>
      match fs_get truth fs with
      | None => Err IOError
      | Some content =>
        match parse_file truth content with
        | Err e => Err e
        | Ok t => parse_truth (sa_truth a) (find (split [ch 46] nm) t) (split [ch 46] nm)
        end
      end
    end.

  Lemma ground_truth_unfold : forall fs a truth faults,
      gtruth fs a truth faults =
      match truth_ir fs a truth with
      | Err e => (fs, Err e, [])
      | Ok ir => conf_kinds fs a truth kinds_in_order ir faults [] []
      end.
  Proof.
    intros fs a truth faults. unfold ground_truth, truth_ir.
    destruct (name_of a (sa_truth a)) as [nm|e]; [|reflexivity].
    destruct (fs_get truth fs) as [content|]; [|reflexivity].
    destruct (parse_file truth content) as [t|e]; [|reflexivity].
    reflexivity.
  Qed.

  Lemma truth_ir_ext : forall fs1 fs2 a truth,
      fs_get truth fs1 = fs_get truth fs2 -> truth_ir fs1 a truth = truth_ir fs2 a truth.
  Proof. intros fs1 fs2 a truth H. unfold truth_ir. rewrite H. reflexivity. Qed.

  Lemma ground_truth_lift : forall (P : fsys -> Prop) (R : fsys -> fsys -> Prop) (T : path -> Prop)
                                   truth faults,
      (forall fs, R fs fs) -> (forall x y z, R x y -> R y z -> R x z) ->
      (forall fs file search k ir fs' r pr,
          T file -> P fs -> conf fs file search k ir (faults file) = (fs', r, pr) -> R fs fs' /\ P fs') ->
      forall fs a fs' r pr,
        (forall f, In f (targets a) -> f <> truth -> T f) -> P fs ->
        gtruth fs a truth faults = (fs', r, pr) -> R fs fs' /\ P fs'.
  Proof.
    intros P R T truth faults Hrefl Htrans Hstep fs a fs' r pr HT HP H.
    rewrite ground_truth_unfold in H. destruct (truth_ir fs a truth) as [ir|e].
    - apply (conform_kinds_lift P R T truth faults Hrefl Htrans Hstep _ _ _ _ _ _ _ _ _ HT HP H).
    - injection H as H1 _ _. subst fs'. split; [apply Hrefl|exact HP].
  Qed.

  (* ---------------------------------------------------------------- *)
  (* frame: a set of paths disjoint from the files worked on and their temporary names *)
  (* ---------------------------------------------------------------- *)

  Definition same_on (S : path -> Prop) (fs fs' : fsys) : Prop :=
    forall p, S p -> fs_get p fs' = fs_get p fs.

  Definition avoids (S : path -> Prop) (file : path) : Prop :=
    forall p, S p -> p <> file /\ p <> tmp_of file.

  Lemma same_on_refl : forall S fs, same_on S fs fs.
  Proof. intros S fs p _. reflexivity. Qed.

  Lemma same_on_trans : forall S a b c, same_on S a b -> same_on S b c -> same_on S a c.
  Proof. intros S a b c H1 H2 p Hp. rewrite (H2 p Hp). apply H1. exact Hp. Qed.

  Lemma conform_same_on : forall S (faults : path -> fault) fs file search k ir fs' r pr,
      avoids S file -> True -> conf fs file search k ir (faults file) = (fs', r, pr) ->
      same_on S fs fs' /\ True.
  Proof.
    intros S faults fs file search k ir fs' r pr Hav _ H. split; [|exact I].
    intros p Hp. destruct (Hav p Hp) as [H1 H2]. apply (conform_frame _ _ _ _ _ _ _ _ _ H); assumption.
  Qed.

  Lemma conform_files_frame : forall S truth faults files search k ir fs acc printed fs' r pr,
      (forall f, In f files -> f <> truth -> avoids S f) ->
      conf_files fs truth files search k ir faults acc printed = (fs', r, pr) -> same_on S fs fs'.
  Proof.
    intros S truth faults files search k ir fs acc printed fs' r pr HT H.
    apply (conform_files_lift (fun _ => True) (same_on S) (avoids S) truth faults
             (same_on_refl S) (same_on_trans S) (conform_same_on S faults)
             _ _ _ _ _ _ _ _ _ _ HT I H).
  Qed.

  Lemma conform_kinds_frame : forall S truth faults a ks ir fs acc printed fs' r pr,
      (forall f, In f (targets_of a ks) -> f <> truth -> avoids S f) ->
      conf_kinds fs a truth ks ir faults acc printed = (fs', r, pr) -> same_on S fs fs'.
  Proof.
    intros S truth faults a ks ir fs acc printed fs' r pr HT H.
    apply (conform_kinds_lift (fun _ => True) (same_on S) (avoids S) truth faults
             (same_on_refl S) (same_on_trans S) (conform_same_on S faults)
             _ _ _ _ _ _ _ _ _ HT I H).
  Qed.

  Lemma ground_truth_frame : forall S truth faults fs a fs' r pr,
      (forall f, In f (targets a) -> f <> truth -> avoids S f) ->
      gtruth fs a truth faults = (fs', r, pr) -> same_on S fs fs'.
  Proof.
    intros S truth faults fs a fs' r pr HT H.
    apply (ground_truth_lift (fun _ => True) (same_on S) (avoids S) truth faults
             (same_on_refl S) (same_on_trans S) (conform_same_on S faults)
             _ _ _ _ _ HT I H).
  Qed.

  (* C11 at file granularity: a path that is neither a listed file nor the temporary name of one
     reads as before, for every outcome and every fault assignment *)
  Theorem ground_truth_only_targets : forall fs a truth faults fs' r pr p,
      gtruth fs a truth faults = (fs', r, pr) ->
      ~ In p (targets a) -> (forall t, In t (targets a) -> p <> tmp_of t) ->
      fs_get p fs' = fs_get p fs.
  Proof.
    intros fs a truth faults fs' r pr p H Hn Ht.
    refine (ground_truth_frame (fun q => q = p) truth faults _ _ _ _ _ _ H p eq_refl).
    intros f Hf _ q Hq. subst q. split; [intros E; subst f; contradiction|apply Ht; exact Hf].
  Qed.

  (* C10: the truth is never modified, whatever happens to the others *)
  Theorem ground_truth_truth_untouched : forall fs a truth faults fs' r pr,
      gtruth fs a truth faults = (fs', r, pr) ->
      (forall t, In t (targets a) -> t <> truth -> truth <> tmp_of t) ->
      fs_get truth fs' = fs_get truth fs.
  Proof.
    intros fs a truth faults fs' r pr H Ht.
    refine (ground_truth_frame (fun q => q = truth) truth faults _ _ _ _ _ _ H truth eq_refl).
    intros f Hf Hne q Hq. subst q. split; [intros E; apply Hne; symmetry; exact E|apply Ht; assumption].
  Qed.

  (* ---------------------------------------------------------------- *)
  (* C20(ii): every reachable file system is a sequence of complete writes *)
  (* ---------------------------------------------------------------- *)

  Definition safe_step (fs fs' : fsys) : Prop :=
    (forall p, fs_get p fs' = fs_get p fs)
    \/ exists file m src,
        (forall p, p <> file -> p <> tmp_of file -> fs_get p fs' = fs_get p fs)
        /\ fs_get file fs' = Some (intended fs file m src)
        /\ fs_get (tmp_of file) fs' = fs_get (tmp_of file) fs.

  Definition safe_path : fsys -> fsys -> Prop := clos_refl_trans fsys safe_step.

  (* no temporary name of a file worked on exists beforehand or is itself worked on *)
  Definition no_tmp_clash (fs : fsys) (truth : path) (l : list path) : Prop :=
    forall t, In t l -> t <> truth ->
              fs_get (tmp_of t) fs = None /\ forall t', In t' l -> t' <> truth -> tmp_of t <> t'.

  Lemma conform_safe_step : forall fs file search k ir f fs' r pr,
      fs_get (tmp_of file) fs = None ->
      conf fs file search k ir f = (fs', r, pr) -> safe_step fs fs'.
  Proof.
    intros fs file search k ir f fs' r pr Ht H. destruct r as [[|]|e].
    - destruct (conform_true_intended _ _ _ _ _ _ _ _ H) as [m [src [E Hg]]].
      right. exists file, m, src. split; [apply (conform_frame _ _ _ _ _ _ _ _ _ H)|].
      split; [exact Hg|]. rewrite Ht. apply (conform_tmp_clean _ _ _ _ _ _ _ _ _ Ht H).
    - left. rewrite (conform_false_unchanged _ _ _ _ _ _ _ _ H). reflexivity.
    - left. destruct (conform_err_safe _ _ _ _ _ _ _ _ _ H) as [_ [_ E]]. rewrite (E Ht). reflexivity.
  Qed.

  Theorem ground_truth_safe_path : forall fs a truth faults fs' r pr,
      no_tmp_clash fs truth (targets a) ->
      gtruth fs a truth faults = (fs', r, pr) ->
      safe_path fs fs' /\ no_tmp_clash fs' truth (targets a).
  Proof.
    intros fs a truth faults fs' r pr HC H.
    set (T := fun f => In f (targets a) /\ f <> truth
                       /\ forall t', In t' (targets a) -> t' <> truth ->
                                     tmp_of f <> t' /\ tmp_of t' <> f).
    set (P := fun fs0 => forall t, In t (targets a) -> t <> truth -> fs_get (tmp_of t) fs0 = None).
    assert (HL : safe_path fs fs' /\ P fs').
    { apply (ground_truth_lift P safe_path T truth faults) with (a := a) (r := r) (pr := pr).
      - intros x. apply rt_refl.
      - intros x y z. apply rt_trans.
      - intros fs0 file search k ir fs1 r1 pr1 [HTin [HTne HTc]] HP0 HS.
        pose proof (HP0 file HTin HTne) as Htmp. split.
        + apply rt_step. apply (conform_safe_step _ _ _ _ _ _ _ _ _ Htmp HS).
        + intros t Hin Hne. destruct (HTc t Hin Hne) as [_ Hc].
          destruct (list_eq_dec ascii_dec (tmp_of t) (tmp_of file)) as [E|E].
          * rewrite E. apply (conform_tmp_clean _ _ _ _ _ _ _ _ _ Htmp HS).
          * rewrite (conform_frame _ _ _ _ _ _ _ _ _ HS _ Hc E). apply HP0; assumption.
      - intros f Hin Hne. split; [exact Hin|]. split; [exact Hne|].
        intros t' Hin' Hne'. split.
        + apply (proj2 (HC f Hin Hne)); assumption.
        + apply (proj2 (HC t' Hin' Hne')); assumption.
      - intros t Hin Hne. apply (proj1 (HC t Hin Hne)).
      - exact H. }
    destruct HL as [HS HP]. split; [exact HS|].
    intros t Hin Hne. split; [apply HP; assumption|apply (proj2 (HC t Hin Hne))].
  Qed.

  (* what the closure says path by path: the bytes before, or the complete intended text of some
     write made from a reachable state -- never a truncated or partial one *)
  Lemma safe_path_pointwise : forall fs fs',
      safe_path fs fs' ->
      forall p, fs_get p fs' = fs_get p fs
                \/ exists fsm m src, safe_path fs fsm /\ fs_get p fs' = Some (intended fsm p m src).
  Proof.
    intros fs fs' H. apply clos_rt_rtn1 in H. induction H as [|y z Hyz Hxy IH]; intros p.
    - left. reflexivity.
    - apply clos_rtn1_rt in Hxy. destruct Hyz as [Hid|[file [m [src [Hfr [Hf Htm]]]]]].
      + rewrite Hid. apply IH.
      + destruct (list_eq_dec ascii_dec p file) as [E|E].
        * subst p. right. exists y, m, src. split; [exact Hxy|exact Hf].
        * destruct (list_eq_dec ascii_dec p (tmp_of file)) as [E2|E2].
          -- subst p. rewrite Htm. apply IH.
          -- rewrite (Hfr p E E2). apply IH.
  Qed.

  Corollary ground_truth_never_partial : forall fs a truth faults fs' r pr,
      no_tmp_clash fs truth (targets a) ->
      gtruth fs a truth faults = (fs', r, pr) ->
      forall p, fs_get p fs' = fs_get p fs
                \/ exists fsm m src, safe_path fs fsm /\ fs_get p fs' = Some (intended fsm p m src).
  Proof.
    intros fs a truth faults fs' r pr HC H.
    apply safe_path_pointwise. apply (ground_truth_safe_path _ _ _ _ _ _ _ HC H).
  Qed.
  (* ---------------------------------------------------------------- *)
  (* stability and idempotence, from named laws of the conversion layers *)
  (* ---------------------------------------------------------------- *)

  (* the target is found at its location and equals the re-emission of the truth *)
  Definition stable (fs : fsys) (file : path) (search : list str) (k : kind) (ir : irT) : Prop :=
    exists content t o n,
      fs_get file fs = Some content /\ parse_file file content = Ok t /\ find search t = Some o
      /\ emit_k k ir (opts_of (Some o) search k) = Ok n /\ search <> [] /\ type_ok k n = true
      /\ cmp o n = true.

  (* weaker: ... or the rewriter declines to replace it (the run prints unchanged) *)
  Definition settled (fs : fsys) (file : path) (search : list str) (k : kind) (ir : irT) : Prop :=
    exists content t o n,
      fs_get file fs = Some content /\ parse_file file content = Ok t /\ find search t = Some o
      /\ emit_k k ir (opts_of (Some o) search k) = Ok n /\ search <> [] /\ type_ok k n = true
      /\ (cmp o n = true \/ snd (rewrite search n t) = false).

  Lemma stable_settled : forall fs file search k ir,
      stable fs file search k ir -> settled fs file search k ir.
  Proof.
    intros fs file search k ir [content [t [o [n [H1 [H2 [H3 [H4 [H5 [H6 H7]]]]]]]]]].
    exists content, t, o, n. repeat (split; [assumption|]). left. exact H7.
  Qed.

  Lemma stable_ext : forall fs1 fs2 file search k ir,
      fs_get file fs1 = fs_get file fs2 -> stable fs1 file search k ir -> stable fs2 file search k ir.
  Proof.
    intros fs1 fs2 file search k ir Hg [content [t [o [n [H1 H]]]]].
    exists content, t, o, n. split; [rewrite <- Hg; exact H1|exact H].
  Qed.

  Lemma settled_ext : forall fs1 fs2 file search k ir,
      fs_get file fs1 = fs_get file fs2 -> settled fs1 file search k ir -> settled fs2 file search k ir.
  Proof.
    intros fs1 fs2 file search k ir Hg [content [t [o [n [H1 H]]]]].
    exists content, t, o, n. split; [rewrite <- Hg; exact H1|exact H].
  Qed.

  Lemma stable_conform_noop : forall fs file search k ir f,
      stable fs file search k ir -> conf fs file search k ir f = (fs, Ok false, []).
  Proof.
    intros fs file search k ir f [content [t [o [n [H1 [H2 [H3 [H4 [H5 [H6 H7]]]]]]]]]].
    rewrite conform_plan. unfold plan. rewrite H1, H2, H3, H4.
    destruct search as [|s0 sr]; [contradiction H5; reflexivity|].
    rewrite H6, H7. reflexivity.
  Qed.

  Lemma settled_conform_noop : forall fs file search k ir f,
      settled fs file search k ir -> exists pr, conf fs file search k ir f = (fs, Ok false, pr).
  Proof.
    intros fs file search k ir f [content [t [o [n [H1 [H2 [H3 [H4 [H5 [H6 H7]]]]]]]]]].
    rewrite conform_plan. unfold plan. rewrite H1, H2, H3, H4.
    destruct search as [|s0 sr]; [contradiction H5; reflexivity|].
    rewrite H6. cbn [negb]. destruct (cmp o n); [exists []; reflexivity|].
    destruct H7 as [H7|H7]; [discriminate H7|]. rewrite H7.
    exists (printed_line false file). reflexivity.
  Qed.

  (* reported unchanged => settled *)
  Lemma conform_false_settled : forall fs file search k ir f fs' pr,
      conf fs file search k ir f = (fs', Ok false, pr) -> settled fs file search k ir.
  Proof.
    intros fs file search k ir f fs' pr H.
    destruct (conform_cases _ _ _ _ _ _ _ _ _ H)
      as [[_ [_ HP]]|[[m [rd [u [_ [_ Hr]]]]]|[m [rd [e [_ [_ Hr]]]]]]];
      [|discriminate Hr|discriminate Hr].
    unfold plan in HP. destruct (fs_get file fs) as [content|] eqn:EG.
    - destruct (parse_file file content) as [t|e] eqn:EPF; [|discriminate HP].
      destruct (find search t) as [o|] eqn:EF.
      + destruct (emit_k k ir (opts_of (Some o) search k)) as [n|e] eqn:EE; [|discriminate HP].
        destruct search as [|s0 sr]; [discriminate HP|].
        destruct (type_ok k n) eqn:ET; cbn [negb] in HP; [|discriminate HP].
        exists content, t, o, n.
        repeat (split; [first [reflexivity|assumption|discriminate]|]).
        destruct (cmp o n); [left; reflexivity|right].
        destruct (snd (rewrite (s0 :: sr) n t)); [discriminate HP|reflexivity].
      + destruct (emit_k k ir (opts_of None search k)); discriminate HP.
    - destruct (emit_k k ir (opts_of None search k)); discriminate HP.
  Qed.

  (* LAW (fixpoint): what conform writes is, read back, stable *)
  Definition FIX_law : Prop :=
    forall fs file search k ir fs' pr,
      search <> [] -> conf fs file search k ir NoFault = (fs', Ok true, pr) ->
      stable fs' file search k ir.

  (* LAW: the rewriter replaces whatever the finder finds *)
  Definition REPLACES_law : Prop :=
    forall search n t o, find search t = Some o -> search <> [] -> snd (rewrite search n t) = true.

  Lemma settled_stable : REPLACES_law -> forall fs file search k ir,
      settled fs file search k ir -> stable fs file search k ir.
  Proof.
    intros HR fs file search k ir [content [t [o [n [H1 [H2 [H3 [H4 [H5 [H6 H7]]]]]]]]]].
    exists content, t, o, n. repeat (split; [assumption|]).
    destruct H7 as [H7|H7]; [exact H7|]. rewrite (HR search n t o H3 H5) in H7. discriminate H7.
  Qed.

  Definition flags_false (l : list (path * bool)) : Prop := Forall (fun e => snd e = false) l.

  Definition clash_free (truth : path) (l : list path) : Prop :=
    forall t t', In t (proc truth l) -> In t' (proc truth l) -> tmp_of t <> t'.

  Lemma proc_cons_eq : forall truth rest, proc truth (truth :: rest) = proc truth rest.
  Proof. intros truth rest. unfold proc. cbn [filter]. rewrite str_eqb_refl. reflexivity. Qed.

  Lemma proc_cons_ne : forall truth f rest, f <> truth -> proc truth (f :: rest) = f :: proc truth rest.
  Proof.
    intros truth f rest H. unfold proc. cbn [filter]. apply str_eqb_neq in H. rewrite H. reflexivity.
  Qed.

  Fixpoint sync_runs (a : sync_args) (truth : path) (faults : path -> fault) (n : nat) (fs : fsys)
    : option fsys :=
    match n with
    | O => Some fs
    | S m => match gtruth fs a truth faults with
             | (fs', Ok _, _) => sync_runs a truth faults m fs'
             | (_, Err _, _) => None
             end
    end.

  Section Quiesce.
    Variable G : fsys -> path -> list str -> kind -> irT -> Prop.
    Variable Pr : list str -> Prop.
    Hypothesis G_ext : forall fs1 fs2 file s k ir,
        fs_get file fs1 = fs_get file fs2 -> G fs1 file s k ir -> G fs2 file s k ir.
    Hypothesis G_noop : forall fs file s k ir f,
        G fs file s k ir -> exists pr, Pr pr /\ conf fs file s k ir f = (fs, Ok false, pr).
    Hypothesis Pr_nil : Pr [].
    Hypothesis Pr_app : forall x y, Pr x -> Pr y -> Pr (x ++ y).

    Definition all_G (fs : fsys) (a : sync_args) (truth : path) (ks : list kind) (ir : irT) : Prop :=
      forall k, In k ks -> forall files, sa_files a k = Some files ->
        exists nm, name_of a k = Ok nm
                   /\ forall file, In file files -> file <> truth ->
                                   G fs file (strip_split [ch 46] nm) k ir.

    (* the truth converts and every target is in the good state *)
    Definition synced (fs : fsys) (a : sync_args) (truth : path) : Prop :=
      exists ir, truth_ir fs a truth = Ok ir /\ all_G fs a truth kinds_in_order ir.

    Lemma conform_files_noop : forall truth faults files search k ir fs acc printed,
        (forall file, In file files -> file <> truth -> G fs file search k ir) ->
        exists acc' pr',
          conf_files fs truth files search k ir faults acc printed
          = (fs, Ok (acc ++ acc'), printed ++ pr') /\ flags_false acc' /\ Pr pr'.
    Proof.
      intros truth faults. induction files as [|file rest IH]; intros search k ir fs acc printed HG.
      - exists [], []. rewrite !app_nil_r. split; [reflexivity|]. split; [constructor|exact Pr_nil].
      - cbn [conform_files]. destruct (str_eqb file truth) eqn:E.
        + destruct (IH search k ir fs (acc ++ [(truth, false)]) printed
                       (fun f Hf => HG f (or_intror Hf))) as [acc' [pr' [H1 [H2 H3]]]].
          exists ((truth, false) :: acc'), pr'. rewrite H1, <- app_assoc.
          split; [reflexivity|]. split; [constructor; [reflexivity|exact H2]|exact H3].
        + apply str_eqb_neq in E.
          destruct (G_noop _ _ _ _ _ (faults file) (HG file (or_introl eq_refl) E))
            as [pr0 [HP0 HC]].
          rewrite HC.
          destruct (IH search k ir fs (acc ++ [(file, false)]) (printed ++ pr0)
                       (fun f Hf => HG f (or_intror Hf))) as [acc' [pr' [H1 [H2 H3]]]].
          exists ((file, false) :: acc'), (pr0 ++ pr'). rewrite H1, <- !app_assoc.
          split; [reflexivity|].
          split; [constructor; [reflexivity|exact H2]|apply Pr_app; assumption].
    Qed.

    Lemma conform_kinds_noop : forall a truth faults ir ks fs acc printed,
        all_G fs a truth ks ir ->
        exists acc' pr',
          conf_kinds fs a truth ks ir faults acc printed
          = (fs, Ok (acc ++ acc'), printed ++ pr') /\ flags_false acc' /\ Pr pr'.
    Proof.
      intros a truth faults ir. induction ks as [|k rest IH]; intros fs acc printed HG.
      - exists [], []. rewrite !app_nil_r. split; [reflexivity|]. split; [constructor|exact Pr_nil].
      - assert (HGrest : all_G fs a truth rest ir).
        { intros k' Hk'. apply HG. right. exact Hk'. }
        cbn [conform_kinds]. destruct (sa_files a k) as [files|] eqn:EF.
        + destruct (HG k (or_introl eq_refl) files EF) as [nm [Hnm HGf]]. rewrite Hnm.
          destruct (conform_files_noop truth faults files (strip_split [ch 46] nm) k ir fs acc
                                       printed HGf) as [acc1 [pr1 [H1 [H2 H3]]]].
          rewrite H1.
          destruct (IH fs (acc ++ acc1) (printed ++ pr1) HGrest) as [acc2 [pr2 [H4 [H5 H6]]]].
          exists (acc1 ++ acc2), (pr1 ++ pr2). rewrite H4, <- !app_assoc.
          split; [reflexivity|].
          split; [apply Forall_app; split; assumption|apply Pr_app; assumption].
        + apply (IH fs acc printed HGrest).
    Qed.

    (* a synced file system is a fixpoint of ground_truth, under every fault assignment (no write
       is attempted) *)
    Lemma synced_noop : forall fs a truth faults,
        synced fs a truth ->
        exists eff pr, gtruth fs a truth faults = (fs, Ok eff, pr) /\ flags_false eff /\ Pr pr.
    Proof.
      intros fs a truth faults [ir [Hir HG]]. rewrite ground_truth_unfold, Hir.
      destruct (conform_kinds_noop a truth faults ir kinds_in_order fs [] [] HG)
        as [acc' [pr' [H1 [H2 H3]]]].
      exists acc', pr'. rewrite H1. split; [reflexivity|]. split; assumption.
    Qed.

    Lemma synced_runs : forall fs a truth faults n,
        synced fs a truth -> sync_runs a truth faults n fs = Some fs.
    Proof.
      intros fs a truth faults n HS. induction n as [|n IHn]; [reflexivity|].
      cbn [sync_runs]. destruct (synced_noop fs a truth faults HS) as [eff [pr [H _]]].
      rewrite H. exact IHn.
    Qed.

    Section Establish.
      Variable faults : path -> fault.
      Hypothesis STEP_G : forall fs file s k ir fs' b pr,
          s <> [] -> conf fs file s k ir (faults file) = (fs', Ok b, pr) -> G fs' file s k ir.

      Lemma conform_files_establish : forall truth files search k ir fs acc printed fs' acc' pr',
          search <> [] ->
          conf_files fs truth files search k ir faults acc printed = (fs', Ok acc', pr') ->
          NoDup (proc truth files) -> clash_free truth files ->
          forall file, In file files -> file <> truth -> G fs' file search k ir.
      Proof.
        intros truth. induction files as [|f0 rest IH];
          intros search k ir fs acc printed fs' acc' pr' Hs H ND CF file Hin Hne.
        - destruct Hin.
        - cbn [conform_files] in H. destruct (str_eqb f0 truth) eqn:E.
          + apply str_eqb_eq in E. subst f0. unfold clash_free in CF. rewrite proc_cons_eq in ND, CF.
            destruct Hin as [E0|Hin]; [contradiction Hne; symmetry; exact E0|].
            apply (IH _ _ _ _ _ _ _ _ _ Hs H ND CF file Hin Hne).
          + apply str_eqb_neq in E. unfold clash_free in CF. rewrite (proc_cons_ne _ _ _ E) in ND, CF.
            destruct (conf fs f0 search k ir (faults f0)) as [[fs2 r2] pr2] eqn:EC.
            destruct r2 as [flag|e]; [|discriminate H].
            inversion ND as [|x l Hnotin ND']. subst x l.
            assert (CF' : clash_free truth rest).
            { intros t t' Ht Ht'. apply CF; right; assumption. }
            destruct Hin as [E0|Hin].
            * subst file. pose proof (STEP_G _ _ _ _ _ _ _ _ Hs EC) as HG2.
              apply (G_ext fs2 fs'); [|exact HG2]. symmetry.
              refine (conform_files_frame (fun q => q = f0) truth faults _ _ _ _ _ _ _ _ _ _ _ H
                                          f0 eq_refl).
              intros f Hf Hfne q Hq. subst q.
              assert (Hfp : In f (proc truth rest)) by (apply proc_In; split; assumption).
              split.
              -- intros E1. subst f. contradiction.
              -- intros E1. apply (CF f f0); [right; exact Hfp|left; reflexivity|].
                 symmetry. exact E1.
            * apply (IH _ _ _ _ _ _ _ _ _ Hs H ND' CF' file Hin Hne).
      Qed.

      Lemma conform_kinds_establish : forall a truth ir ks fs acc printed fs' acc' pr',
          conf_kinds fs a truth ks ir faults acc printed = (fs', Ok acc', pr') ->
          NoDup (proc truth (targets_of a ks)) -> clash_free truth (targets_of a ks) ->
          all_G fs' a truth ks ir.
      Proof.
        intros a truth ir. induction ks as [|k0 rest IH];
          intros fs acc printed fs' acc' pr' H ND CF.
        - intros k [].
        - cbn [conform_kinds] in H. unfold clash_free in CF. unfold targets_of in ND, CF.
          cbn [flat_map] in ND, CF. fold (targets_of a rest) in ND, CF.
          destruct (sa_files a k0) as [files0|] eqn:EF.
          + rewrite proc_app in ND, CF.
            destruct (NoDup_app_inv _ _ _ ND) as [ND0 [NDr Hdisj]].
            assert (CF0 : clash_free truth files0).
            { intros t t' Ht Ht'. apply CF; apply in_or_app; left; assumption. }
            assert (CFr : clash_free truth (targets_of a rest)).
            { intros t t' Ht Ht'. apply CF; apply in_or_app; right; assumption. }
            destruct (name_of a k0) as [nm|e] eqn:EN; [|discriminate H].
            destruct (conf_files fs truth files0 (strip_split [ch 46] nm) k0 ir faults acc printed)
              as [[fs2 r2] pr2] eqn:EC.
            destruct r2 as [acc2|e]; [|discriminate H].
            pose proof (IH _ _ _ _ _ _ H NDr CFr) as HGr.
            intros k Hk files Hfiles.
            destruct (kind_eq_dec k k0) as [Ek|Ek].
            * subst k. rewrite EF in Hfiles. injection Hfiles as Hfiles. subst files.
              exists nm. split; [exact EN|]. intros file Hin Hne.
              pose proof (conform_files_establish _ _ _ _ _ _ _ _ _ _ _
                            (strip_split_nonnil [ch 46] nm) EC ND0 CF0 file Hin Hne) as HG2.
              apply (G_ext fs2 fs'); [|exact HG2]. symmetry.
              refine (conform_kinds_frame (fun q => q = file) truth faults _ _ _ _ _ _ _ _ _ _ H
                                          file eq_refl).
              assert (Hfp : In file (proc truth files0)) by (apply proc_In; split; assumption).
              intros f Hf Hfne q Hq. subst q.
              assert (Hfr : In f (proc truth (targets_of a rest)))
                by (apply proc_In; split; assumption).
              split.
              -- intros E1. subst f. apply (Hdisj file Hfp Hfr).
              -- intros E1. apply (CF f file); [apply in_or_app; right; exact Hfr
                                               |apply in_or_app; left; exact Hfp|].
                 symmetry. exact E1.
            * destruct Hk as [Hk|Hk]; [contradiction Ek; symmetry; exact Hk|].
              apply (HGr k Hk files Hfiles).
          + cbn [app] in ND, CF.
            pose proof (IH _ _ _ _ _ _ H ND CF) as HGr.
            intros k Hk files Hfiles. destruct Hk as [Hk|Hk].
            * subst k. rewrite EF in Hfiles. discriminate Hfiles.
            * apply (HGr k Hk files Hfiles).
      Qed.

      Lemma ground_truth_establish : forall fs a truth fs1 eff pr,
          gtruth fs a truth faults = (fs1, Ok eff, pr) ->
          NoDup (proc truth (targets a)) -> clash_free truth (targets a) ->
          (forall t, In t (proc truth (targets a)) -> truth <> tmp_of t) ->
          synced fs1 a truth.
      Proof.
        intros fs a truth fs1 eff pr H ND CF HT.
        assert (Hsame : fs_get truth fs1 = fs_get truth fs).
        { apply (ground_truth_truth_untouched _ _ _ _ _ _ _ H).
          intros t Hin Hne. apply HT. apply proc_In. split; assumption. }
        rewrite ground_truth_unfold in H.
        destruct (truth_ir fs a truth) as [ir|e] eqn:Eir; [|discriminate H].
        exists ir. split; [rewrite (truth_ir_ext fs1 fs a truth Hsame); exact Eir|].
        apply (conform_kinds_establish _ _ _ _ _ _ _ _ _ _ H ND CF).
      Qed.
    End Establish.
  End Quiesce.

  Definition NoFaults : path -> fault := fun _ => NoFault.

  (* the premises about the command line: no file listed twice (the truth aside), no temporary
     name of a target is a target or the truth *)
  Definition sync_args_ok (a : sync_args) (truth : path) : Prop :=
    NoDup (proc truth (targets a)) /\ clash_free truth (targets a)
    /\ (forall t, In t (proc truth (targets a)) -> truth <> tmp_of t).

  Lemma step_settled : FIX_law -> forall fs file s k ir fs' b pr,
      s <> [] -> conf fs file s k ir (NoFaults file) = (fs', Ok b, pr) -> settled fs' file s k ir.
  Proof.
    intros HF fs file s k ir fs' b pr Hs H. destruct b.
    - apply stable_settled. apply (HF _ _ _ _ _ _ _ Hs H).
    - rewrite (conform_false_unchanged _ _ _ _ _ _ _ _ H).
      apply (conform_false_settled _ _ _ _ _ _ _ _ H).
  Qed.

  Lemma step_stable : FIX_law -> REPLACES_law -> forall fs file s k ir fs' b pr,
      s <> [] -> conf fs file s k ir (NoFaults file) = (fs', Ok b, pr) -> stable fs' file s k ir.
  Proof.
    intros HF HR fs file s k ir fs' b pr Hs H. apply (settled_stable HR).
    apply (step_settled HF _ _ _ _ _ _ _ _ Hs H).
  Qed.

  Lemma settled_noop_G : forall fs file s k ir f,
      settled fs file s k ir -> exists pr, True /\ conf fs file s k ir f = (fs, Ok false, pr).
  Proof.
    intros fs file s k ir f H. destruct (settled_conform_noop fs file s k ir f H) as [pr Hpr].
    exists pr. split; [exact I|exact Hpr].
  Qed.

  Lemma stable_noop_G : forall fs file s k ir f,
      stable fs file s k ir -> exists pr, pr = [] /\ conf fs file s k ir f = (fs, Ok false, pr).
  Proof.
    intros fs file s k ir f H. exists []. split; [reflexivity|].
    apply stable_conform_noop. exact H.
  Qed.

  (* C09: after a successful fault-free run every target is found at its location and equal to the
     re-emission of the truth *)
  Theorem sync_establishes_agreement : FIX_law -> REPLACES_law ->
      forall fs a truth fs1 eff pr,
        sync_args_ok a truth ->
        gtruth fs a truth NoFaults = (fs1, Ok eff, pr) -> synced stable fs1 a truth.
  Proof.
    intros HF HR fs a truth fs1 eff pr [ND [CF HT]] H.
    apply (ground_truth_establish stable stable_ext NoFaults (step_stable HF HR)
                                  _ _ _ _ _ _ H ND CF HT).
  Qed.

  (* the same from FIX alone, with the weaker state *)
  Theorem sync_establishes_settled : FIX_law ->
      forall fs a truth fs1 eff pr,
        sync_args_ok a truth ->
        gtruth fs a truth NoFaults = (fs1, Ok eff, pr) -> synced settled fs1 a truth.
  Proof.
    intros HF fs a truth fs1 eff pr [ND [CF HT]] H.
    apply (ground_truth_establish settled settled_ext NoFaults (step_settled HF)
                                  _ _ _ _ _ _ H ND CF HT).
  Qed.

  Lemma app_nil_both : forall x y : list str, x = [] -> y = [] -> x ++ y = [].
  Proof. intros x y Hx Hy. subst. reflexivity. Qed.

  (* C10 idempotence: a second run reports every file unchanged, prints nothing and returns the
     same file system -- under every fault assignment, since it attempts no write *)
  Theorem sync_second_run_noop : FIX_law -> REPLACES_law ->
      forall fs a truth fs1 eff pr,
        sync_args_ok a truth ->
        gtruth fs a truth NoFaults = (fs1, Ok eff, pr) ->
        forall faults, exists eff',
            gtruth fs1 a truth faults = (fs1, Ok eff', []) /\ flags_false eff'.
  Proof.
    intros HF HR fs a truth fs1 eff pr Hok H faults.
    pose proof (sync_establishes_agreement HF HR _ _ _ _ _ _ Hok H) as HS.
    destruct (synced_noop stable (fun pr => pr = []) stable_noop_G eq_refl app_nil_both
                          fs1 a truth faults HS) as [eff' [pr' [H1 [H2 H3]]]].
    subst pr'. exists eff'. split; assumption.
  Qed.

  (* from FIX alone: same file system, every flag false (lines saying unchanged may be printed) *)
  Theorem sync_second_run_unchanged : FIX_law ->
      forall fs a truth fs1 eff pr,
        sync_args_ok a truth ->
        gtruth fs a truth NoFaults = (fs1, Ok eff, pr) ->
        forall faults, exists eff' pr',
            gtruth fs1 a truth faults = (fs1, Ok eff', pr') /\ flags_false eff'.
  Proof.
    intros HF fs a truth fs1 eff pr Hok H faults.
    pose proof (sync_establishes_settled HF _ _ _ _ _ _ Hok H) as HS.
    destruct (synced_noop settled (fun _ => True) settled_noop_G I (fun _ _ _ _ => I)
                          fs1 a truth faults HS) as [eff' [pr' [H1 [H2 _]]]].
    exists eff', pr'. split; assumption.
  Qed.

  (* convergence: any number of further runs leaves the file system where the first run put it *)
  Theorem sync_converges : FIX_law ->
      forall fs a truth fs1 eff pr,
        sync_args_ok a truth ->
        gtruth fs a truth NoFaults = (fs1, Ok eff, pr) ->
        forall faults n, sync_runs a truth faults n fs1 = Some fs1.
  Proof.
    intros HF fs a truth fs1 eff pr Hok H faults n.
    pose proof (sync_establishes_settled HF _ _ _ _ _ _ Hok H) as HS.
    apply (synced_runs settled (fun _ => True) settled_noop_G I (fun _ _ _ _ => I)). exact HS.
  Qed.
  (* ---------------------------------------------------------------- *)
  (* C11: what a modification keeps, from named laws                    *)
  (* ---------------------------------------------------------------- *)

  (* append branch: the old text is a prefix of the new, up to terminating its last line *)
  Theorem conform_append_keeps_old : forall fs file search k ir f fs' pr old t,
      conf fs file search k ir f = (fs', Ok true, pr) ->
      fs_get file fs = Some old -> parse_file file old = Ok t -> find search t = None ->
      exists sep src, (sep = [] \/ sep = [nl]) /\ fs_get file fs' = Some (old ++ sep ++ src).
  Proof.
    intros fs file search k ir f fs' pr old t H Hold Hparse Hfind.
    destruct (conform_true_wrote _ _ _ _ _ _ _ _ H)
      as [[Hnone _]
         |[[content [t0 [n [src [Hc [_ [_ [_ [_ [E _]]]]]]]]]]
          |[content [t0 [o [n [t' [src [Hc [Hp [Hf _]]]]]]]]]]].
    - rewrite Hold in Hnone. discriminate Hnone.
    - destruct (intended_append_prefix fs file src old Hold) as [sep [Hsep Hint]].
      exists sep, src. split; [exact Hsep|]. subst fs'. rewrite written_get_file, Hint. reflexivity.
    - rewrite Hold in Hc. injection Hc as Hc. subst content. rewrite Hparse in Hp.
      injection Hp as Hp. subst t0. rewrite Hfind in Hf. discriminate Hf.
  Qed.

  Section Structure.
    Variable X : Type.
    Variable others : list str -> tree -> list X.   (* everything in the tree but the addressed node *)

    (* LAW: the rewriter changes only the addressed node *)
    Definition REWRITE_FRAME_law : Prop :=
      forall search n t, others search (fst (rewrite search n t)) = others search t.

    (* LAW: what is rendered parses back to the tree rendered *)
    Definition RENDER_PARSE_law : Prop :=
      forall file t src, render_tree t = Ok src -> parse_file file src = Ok t.

    (* replaced branch: the new bytes parse to a tree that agrees with the old one everywhere else *)
    Theorem conform_replaced_keeps_others : REWRITE_FRAME_law -> RENDER_PARSE_law ->
        forall fs file search k ir f fs' pr content t o,
          conf fs file search k ir f = (fs', Ok true, pr) ->
          fs_get file fs = Some content -> parse_file file content = Ok t ->
          find search t = Some o ->
          exists content' t',
            fs_get file fs' = Some content' /\ parse_file file content' = Ok t'
            /\ others search t' = others search t.
    Proof.
      intros HRF HRP fs file search k ir f fs' pr content t o H Hc Hp Hf.
      destruct (conform_true_wrote _ _ _ _ _ _ _ _ H)
        as [[Hnone _]
           |[[content0 [t0 [n [src [Hc0 [Hp0 [Hf0 _]]]]]]]
            |[content0 [t0 [o0 [n [t' [src [Hc0 [Hp0 [_ [_ [_ [_ [_ [HR [Hrd [E _]]]]]]]]]]]]]]]]]].
      - rewrite Hc in Hnone. discriminate Hnone.
      - rewrite Hc in Hc0. injection Hc0 as Hc0. subst content0. rewrite Hp in Hp0.
        injection Hp0 as Hp0. subst t0. rewrite Hf in Hf0. discriminate Hf0.
      - rewrite Hc in Hc0. injection Hc0 as Hc0. subst content0. rewrite Hp in Hp0.
        injection Hp0 as Hp0. subst t0.
        exists src, t'. subst fs'. rewrite written_get_file, intended_wt.
        split; [reflexivity|]. split; [apply HRP; exact Hrd|].
        pose proof (HRF search n t) as HF. rewrite HR in HF. exact HF.
    Qed.
  End Structure.
End SyncFacts.

(* -------------------------------------------------------------------- *)
(* the laws are satisfiable and the theorems not vacuous: a toy instance *)
(* node = tree = ir = bytes; the file is the node; emitting returns the truth *)
(* -------------------------------------------------------------------- *)
Module Toy.
  Definition emit_k (k : kind) (ir : bytes) (o : unit) : outcome bytes := Ok ir.
  Definition parse_file (p : path) (c : bytes) : outcome bytes := Ok c.
  Definition find (s : list str) (t : bytes) : option bytes := Some t.
  Definition rewrite (s : list str) (n t : bytes) : bytes * bool := (n, true).
  Definition cmp (a b : bytes) : bool := str_eqb a b.
  Definition render (n : bytes) : outcome bytes := Ok n.
  Definition opts_of (o : option bytes) (s : list str) (k : kind) : unit := tt.
  Definition type_ok (k : kind) (n : bytes) : bool := true.
  Definition parse_truth (k : kind) (o : option bytes) (s : list str) : outcome bytes :=
    match o with Some n => Ok n | None => Err ValueError end.
  Definition others (s : list str) (t : bytes) : list unit := [].

  Definition truth : path := L "t.py".
  Definition args : sync_args :=
    mkSyncArgs KClass (fun _ => Some [L "C"])
               (fun k => match k with
                         | KClass => Some [L "t.py"]
                         | KFunction => Some [L "f.py"; L "g.py"]
                         | KArgparse => None
                         end).
  Definition fs0 : fsys := [(L "t.py", L "truth"); (L "f.py", L "old")].
  Definition run (fs : fsys) (faults : path -> fault) :=
    ground_truth emit_k parse_file find rewrite cmp render render opts_of type_ok parse_truth
                 fs args truth faults.
End Toy.

Lemma toy_FIX :
  FIX_law bytes bytes bytes unit Toy.emit_k Toy.parse_file Toy.find Toy.rewrite Toy.cmp
          Toy.render Toy.render Toy.opts_of Toy.type_ok.
Proof.
  intros fs file search k ir fs' pr Hs H.
  assert (Hst : forall src, src = ir -> fs' = written fs file Wt src ->
                            stable bytes bytes bytes unit Toy.emit_k Toy.parse_file Toy.find
                                   Toy.cmp Toy.opts_of Toy.type_ok fs' file search k ir).
  { intros src Hsrc E. subst src fs'. exists ir, ir, ir, ir.
    split; [rewrite written_get_file; reflexivity|].
    repeat (split; [first [reflexivity|exact Hs]|]). apply str_eqb_refl. }
  destruct (conform_true_wrote _ _ _ _ _ _ _ _ _ _ _ _ _ _ _ _ _ _ _ _ _ H)
    as [[_ [n [src [He [Hr [E _]]]]]]
       |[[content [t [n [src [_ [_ [Hf _]]]]]]]
        |[content [t [o [n [t' [src [_ [_ [_ [He [_ [_ [_ [HR [Hr [E _]]]]]]]]]]]]]]]]]].
  - unfold Toy.emit_k in He. unfold Toy.render in Hr. injection He as He. injection Hr as Hr.
    apply (Hst src); [congruence|exact E].
  - discriminate Hf.
  - unfold Toy.emit_k in He. unfold Toy.render in Hr. unfold Toy.rewrite in HR.
    injection He as He. injection Hr as Hr. injection HR as HR.
    apply (Hst src); [congruence|exact E].
Qed.

Lemma toy_sync_args_ok : sync_args_ok Toy.args Toy.truth.
Proof.
  assert (E : proc Toy.truth (targets Toy.args) = [L "f.py"; L "g.py"]) by (vm_compute; reflexivity).
  unfold sync_args_ok, clash_free. rewrite E. split; [|split].
  - constructor; [intros [H|[]]; discriminate H|]. constructor; [intros []|constructor].
  - intros t t' [Ht|[Ht|[]]] [Ht'|[Ht'|[]]]; subst t t'; discriminate.
  - intros t [Ht|[Ht|[]]]; subst t; discriminate.
Qed.

(* FIX, REPLACES, REWRITE_FRAME and RENDER_PARSE hold together of one instance, whose command line
   meets sync_args_ok and whose first run modifies one file and creates another *)
Example laws_satisfiable :
  FIX_law bytes bytes bytes unit Toy.emit_k Toy.parse_file Toy.find Toy.rewrite Toy.cmp
          Toy.render Toy.render Toy.opts_of Toy.type_ok
  /\ REPLACES_law bytes bytes Toy.find Toy.rewrite
  /\ REWRITE_FRAME_law bytes bytes Toy.rewrite unit Toy.others
  /\ RENDER_PARSE_law bytes Toy.parse_file Toy.render
  /\ sync_args_ok Toy.args Toy.truth
  /\ Toy.run Toy.fs0 NoFaults
     = ([(L "g.py", L "truth"); (L "f.py", L "truth"); (L "t.py", L "truth")],
        Ok [(L "t.py", false); (L "f.py", true); (L "g.py", true)],
        [L "modified" ++ [tabch] ++ L "f.py"]).
Proof.
  split; [exact toy_FIX|]. split; [intros search n t o _ _; reflexivity|].
  split; [intros search n t; reflexivity|].
  split; [intros file t src H; unfold Toy.render in H; injection H as H; subst; reflexivity|].
  split; [exact toy_sync_args_ok|]. vm_compute. reflexivity.
Qed.

(* hence the idempotence theorem applies to it: the second run is a no-op *)
Example toy_second_run_noop : forall faults, exists eff',
    Toy.run [(L "g.py", L "truth"); (L "f.py", L "truth"); (L "t.py", L "truth")] faults
    = ([(L "g.py", L "truth"); (L "f.py", L "truth"); (L "t.py", L "truth")], Ok eff', [])
    /\ flags_false eff'.
Proof.
  destruct laws_satisfiable as [HF [HR [_ [_ [Hok Hrun]]]]].
  exact (sync_second_run_noop _ _ _ _ _ _ _ _ _ _ _ _ _ _ HF HR _ _ _ _ _ _ Hok Hrun).
Qed.
