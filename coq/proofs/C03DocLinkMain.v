(* C03DocLinkMain: the docstring link of property C03, assembled.

     emit.function:   text = to_docstring(ir, emit_default_doc, emit_types = not inline_types, indent_level, ...)
                      (C03DocLinkDefs.function_docstring_text over DocEmit.to_docstring)
     parse.function:  d = parse.docstring(inspect.cleandoc(text).replace(":cvar", ":param"), infer_type=False)
                      (C03DocLinkDefs.function_docstring_ir over C03DocLinkDefs.cleandoc and the ReST model of DocParse)

   C03_doc_link_lemma: inside guard_C03 and the boolean side condition doc_link_ok, both succeed and the docstring-derived IR
   satisfies doc_agrees - the hypothesis that the C03 theorems (props/C03.v) leave to the oracle.  Closed corollaries of
   C03_partial / C03_scalar / C03_return_only follow.  Pieces: C03DocLinkGuard.guard_link_facts (guard + side condition
   => per-entry facts), C03DocLinkLines.to_docstring_lines (the text as lines; over C03DocLinkEmit.td_param_documented), C03DocLinkClean.cleandoc_heads (cleandoc
   keeps the contents of the lines, changes blanks only), C03DocLink.parse_heads (the ReST scanner / parser of C01 on
   heads followed by arbitrary blanks), C03DocLink.params_agree / returns_agree.

   The side condition doc_link_ok (C03DocLinkDefs) and why each clause is there:
     has_documented        NEEDED: without any documented entry the docstring holds no ReST token and parse.docstring reads
                           it as numpydoc / Google (not in the DocParse model; on the real code a summary such as
                           Returns:/  int  then invents a return entry);
     prose_link_ok         plain blanks only - NEEDED (str.splitlines in multiline() splits at form feed etc. and the prose
                           comes back changed); no trailing backslash - NEEDED (multiline() strips it); not starting with
                           Optional - proof limit (the C01 line lemmas assume it; no failing input known);
     typ_link_ok           (types written into the docstring, inline_types = False) NEEDED: a ReST token, a line break or
                           a leading ** inside the type text breaks the :type line;
     summary_link_ok       one clean line without tab - proof limit (multi-line summaries are not covered; cleandoc's tab
                           expansion is not modelled);
     fits_line             word_wrap off, or no line longer than the width - proof limit (no proof about textwrap.fill
                           re-flowing followed by the parser's re-joining).
   Witnesses for the NEEDED clauses: link_witnesses below (and on the real code, see the report). *)
From Coq Require Import List Ascii Bool Arith ZArith Lia.
From Coq Require String.
Import String.StringSyntax.
From DT Require Import PyStr Sexp PyVal TyExpr PureUtils Defaults PyAst IR Extracted.
From DT Require DocEmit DocParse C01Spec C02Spec.
From DT Require Import C03Spec C03Compose C03DocLinkDefs.
From DT Require C03DocLinkClean C03DocLinkEmit C03DocLinkLines C03DocLink C03DocLinkGuard.
Import ListNotations.

Theorem C03_doc_link_lemma : forall w o i,
    guard_C03 o i = true -> doc_link_ok w o i = true ->
    exists text d,
      function_docstring_text w o i = Ok text
      /\ function_docstring_ir text = Ok d
      /\ doc_agrees o i d = true.
Proof.
  intros w o i Hg Hl.
  pose proof (C03DocLinkGuard.guard_link_facts w o i Hg Hl) as Hfacts. cbv zeta in Hfacts.
  destruct Hfacts as [Hsum [Hsumtok [Hents [Hret [Hdents [Hnd [Hrent Hsome]]]]]]].
  destruct (C03DocLink.guard_agree_facts o i Hg) as [Hndp [Hpf Hrf]].
  assert (Hlast : forall g d l, ir_returns i = Has g -> prose_of g = Some d ->
                                emitted_typ (negb (fo_inline o)) g = None -> last_c d = Some l -> isspace l = false).
  { intros g d l Eg Ep _ Hlc. destruct (Hrf g Eg d Ep) as [_ [[_ [l' [Hl' Hsp]]] _]].
    rewrite Hlc in Hl'. injection Hl' as Hl'. subst l'. exact Hsp. }
  destruct (C03DocLinkLines.to_docstring_lines w i (fo_edd o) (fo_indent o) (negb (fo_inline o)) (fo_sep_tab o)
              (fo_word_wrap o) Hsum Hents Hret Hlast Hsome)
    as [text [i' [lns [Htd [Etext [Hne [Hok Hheads]]]]]]].
  destruct (C03DocLinkClean.cleandoc_heads lns Hne Hok) as [ws0 [hws [Hcd [Hfst [Hws0 Hws]]]]].
  assert (Hwsall : C03DocLink.ws_all hws).
  { intros hw Hin. rewrite forallb_forall in Hws. apply (Hws hw Hin). }
  rewrite Hheads in Hfst.
  destruct (C03DocLink.parse_heads (sum_of i) (docs_of (negb (fo_inline o)) (ir_params i))
              (rent_of (negb (fo_inline o)) (ir_returns i)) ws0 hws Hsumtok Hdents Hnd Hrent Hsome Hfst Hws0 Hwsall)
    as [sdoc Hparse].
  exists text. eexists. split; [|split].
  - unfold function_docstring_text. rewrite Htd. reflexivity.
  - unfold function_docstring_ir. rewrite Etext, Hcd. cbn [bind]. exact Hparse.
  - unfold doc_agrees, DocParse.ir_of_parts. cbn [ir_params ir_returns]. rewrite map_map. cbn [fst snd].
    rewrite (C03DocLink.params_agree (negb (fo_inline o)) (ir_params i) Hndp Hpf). cbn [andb].
    apply C03DocLink.returns_agree. exact Hrf.
Qed.

(* ---- the closed corollaries of the C03 theorems: text and d instantiated, no docstring hypothesis ---- *)

Theorem C03_partial_closed_lemma : forall w o i,
    guard_C03 o i = true -> doc_link_ok w o i = true ->
    exists text d,
      function_docstring_text w o i = Ok text /\ function_docstring_ir text = Ok d /\ C03_at o i text d.
Proof.
  intros w o i Hg Hl. destruct (C03_doc_link_lemma w o i Hg Hl) as [text [d [Ht [Hd Ha]]]].
  exists text, d. split; [exact Ht|]. split; [exact Hd|]. apply C03_partial_lemma; assumption.
Qed.

Theorem C03_scalar_closed_lemma : forall w o i,
    scalar_ir o i = true -> doc_link_ok w o i = true ->
    exists text d,
      function_docstring_text w o i = Ok text /\ function_docstring_ir text = Ok d /\ C03_at o i text d.
Proof. intros w o i Hs Hl. apply C03_partial_closed_lemma; [apply C03_scalar_guard; exact Hs|exact Hl]. Qed.

Theorem C03_return_only_closed_lemma : forall w o i,
    return_only_ir o i = true -> doc_link_ok w o i = true ->
    exists text d,
      function_docstring_text w o i = Ok text /\ function_docstring_ir text = Ok d /\ C03_at o i text d.
Proof. intros w o i Hs Hl. apply C03_partial_closed_lemma; [apply C03_return_only_guard; exact Hs|exact Hl]. Qed.

(* ---- non-vacuity: seven parameters (defaults of every class, a ** parameter), a return entry; types in the signature
        (nv3) and types in the docstring, keyword-only, method (nv4) ---- *)

Definition nv4_opts : fopts := mkFO (L "cls") false true 1 false false true [].

Definition nv4_ir : ir :=
  mkIR (Has (L "f")) (Has (L "static")) (Has (L "Summary."))
       [(L "dataset_name", mkG (Has (L "name of the dataset.")) (Has (L "str")) (Some (DV (VStr (L "mnist")))));
        (L "K", mkG (Has (L "backend.")) (Has (L "Literal['np', 'tf']")) (Some (DV (VStr (L "np")))));
        (L "lr", mkG Missing Missing (Some (DV VNone)));
        (L "n", mkG (Has (L "count.")) (Has (L "int")) (Some (DV (VInt (-5)%Z))));
        (L "items", mkG (Has (L "the items.")) (Has (L "List[int]")) (Some (DV (VStr (L "```[1, 2]```")))));
        (L "data_loader_kwargs", mkG (Has (L "passed on.")) (Has (L "Optional[dict]")) (Some (DV (VStr NoneStr))))]
       (Has (mkG (Has (L "the pair.")) (Has (L "Tuple[int, int]")) (Some (DV (VStr (L "```[1, 2]```")))))) None.

Lemma C03_doc_link_nonvacuous_lemma :
  guard_C03 nv3_opts nv3_ir = true /\ doc_link_ok 100 nv3_opts nv3_ir = true
  /\ guard_C03 nv4_opts nv4_ir = true /\ doc_link_ok 100 nv4_opts nv4_ir = true
  /\ List.length (ir_params nv3_ir) = 7 /\ List.length (ir_params nv4_ir) = 6.
Proof. vm_compute. repeat split; reflexivity. Qed.

(* ---- witnesses: inside guard_C03, outside doc_link_ok, and the link fails in the model (the same inputs fail on the
        real code) ---- *)

Definition lw_ir (g : gparam) : ir := mkIR FNone (Has (L "static")) (Has (L "Sum.")) [(L "a", g)] FNone None.
Definition lw_inline : fopts := mkFO (L "static") true false 2 true false true [].
Definition lw_doctyp : fopts := mkFO (L "static") false false 2 true false true [].

(* the docstring link at one point, as a boolean *)
Definition doc_link_b (w : nat) (o : fopts) (i : ir) : bool :=
  match function_docstring_text w o i with
  | Ok text => match function_docstring_ir text with Ok d => doc_agrees o i d | Err _ => false end
  | Err _ => false
  end.

Definition link_witnesses : list (fopts * ir) :=
  [ (* prose with a form feed: re-flowed *)
    (lw_inline, lw_ir (mkG (Has (L "a" ++ [ch 12] ++ L "b")) (Has (L "str")) (Some (DV (VStr (L "x"))))));
    (* a ReST token inside a type that is written into the docstring *)
    (lw_doctyp, lw_ir (mkG (Has (L "the a.")) (Has (L "Literal[':type']")) (Some (DV VNone))));
    (* no documented entry: the text holds no ReST token and is not read as ReST *)
    (lw_inline, lw_ir (mkG Missing (Has (L "int")) (Some (DV (VInt 5))))) ].

Lemma C03_doc_link_witnesses_lemma :
  forallb (fun oi => guard_C03 (fst oi) (snd oi) && negb (doc_link_ok 100 (fst oi) (snd oi))
                     && negb (doc_link_b 100 (fst oi) (snd oi))) link_witnesses = true.
Proof. vm_compute. reflexivity. Qed.

(* regression point of the /repo fix of pure_utils.multiline: prose ending in a backslash used to lose it *)
Lemma C03_trailing_backslash_regression_lemma :
  guard_C03 lw_inline (lw_ir (mkG (Has (L "dir\")) (Has (L "str")) (Some (DV (VStr (L "x")))))) = true
  /\ doc_link_b 100 lw_inline (lw_ir (mkG (Has (L "dir\")) (Has (L "str")) (Some (DV (VStr (L "x")))))) = true.
Proof. vm_compute. split; reflexivity. Qed.

(* hence the link does NOT hold on the whole guard: the side condition is not an artefact of the proof *)
Lemma C03_doc_link_refuted_lemma :
  ~ (forall w o i, guard_C03 o i = true ->
       exists text d, function_docstring_text w o i = Ok text /\ function_docstring_ir text = Ok d
                      /\ doc_agrees o i d = true).
Proof.
  intros H.
  destruct (H 100 lw_inline (lw_ir (mkG (Has (L "a" ++ [ch 12] ++ L "b")) (Has (L "str")) (Some (DV (VStr (L "x"))))))) as [text [d [Ht [Hd Ha]]]];
    [vm_compute; reflexivity|].
  assert (Hb : doc_link_b 100 lw_inline (lw_ir (mkG (Has (L "a" ++ [ch 12] ++ L "b")) (Has (L "str")) (Some (DV (VStr (L "x")))))) = true).
  { unfold doc_link_b. rewrite Ht, Hd. exact Ha. }
  vm_compute in Hb. discriminate.
Qed.
