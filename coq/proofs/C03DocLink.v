(* C03DocLink: the docstring link of property C03 - discharges the hypothesis doc_agrees of the C03 theorems from the
   docstring models (DocEmit.to_docstring, C03DocLinkDefs.cleandoc = inspect.cleandoc, DocParse ReST parser).

   Part 1 (this section): the parser side.  A text that consists of leading blanks, an optional one-line summary and
   then the heads  :param n: d  [ :type n: ```t``` ]  ...  [ :returns: d  [ :rtype: ```t``` ] ], every head followed by
   ARBITRARY blanks (line breaks, indentation), is read back by parse.docstring as exactly those entries.  Built on the
   line lemmas of DocParseFacts (C01, ReST), which already quantify over the blanks after a value, and on
   scan_rest_blocks. *)
From Coq Require Import List Ascii Bool Arith ZArith Lia.
From Coq Require String.
Import String.StringSyntax.
From DT Require Import PyStr Sexp PyVal TyExpr PureUtils Defaults PyAst IR Extracted C17Spec DocParse C01Spec.
From DT Require Import PyStrFacts PureUtilsFacts DefaultsFacts DocParseFacts.
From DT Require DocEmit C02Spec C06Spec C03Spec C07Facts ParseSigFacts.
From DT Require Import C03DocLinkDefs.
Import ListNotations.

(* ------------------------------------------------------------------ *)
(* doc_str.replace(":cvar", ":param") is the identity on such a text    *)
(* ------------------------------------------------------------------ *)

Definition cvar : str := L ":cvar".

Lemma contains_cons_false : forall t c r, contains t (c :: r) = false -> contains t r = false.
Proof.
  intros t c r H. destruct (contains t r) eqn:E; [|reflexivity].
  pose proof (contains_app_r t r [c] E) as H'. cbn [app] in H'. congruence.
Qed.

Lemma replace_aux_absent : forall a b fuel s, contains a s = false -> replace_aux fuel a b s = s.
Proof.
  intros a b fuel. induction fuel as [|f IH]; intros s H; [reflexivity|].
  destruct s as [|c r]; [reflexivity|]. cbn [replace_aux].
  rewrite (contains_false_startswith a (c :: r) H). f_equal. apply IH. apply (contains_cons_false a c r H).
Qed.

Lemma replace_absent : forall a b s, contains a s = false -> replace a b s = s.
Proof. intros a b s H. unfold replace. apply replace_aux_absent. exact H. Qed.

Lemma contains_junction : forall t a b,
    tok_lower t = true -> contains t a = false -> contains t b = false ->
    (forall c, head_c b = Some c -> islower_c c = false) -> contains t (a ++ b) = false.
Proof.
  intros t a b Hl Ha Hb Hhead. destruct (contains t (a ++ b)) eqn:E; [|reflexivity]. exfalso.
  destruct (contains_straddle t a b Ha Hb E) as [m [m' [Hm [Hm' [Et [_ Hsw]]]]]].
  destruct m as [|x m]; [contradiction|]. destruct m' as [|y m']; [contradiction|].
  rewrite Et in Hl. cbn [app tok_lower] in Hl. apply andb_true_iff in Hl. destruct Hl as [_ Hl].
  rewrite forallb_app in Hl. apply andb_true_iff in Hl. destruct Hl as [_ Hl].
  cbn [forallb] in Hl. apply andb_true_iff in Hl. destruct Hl as [Hy _].
  destruct b as [|c b]; [discriminate|]. cbn [startswith] in Hsw.
  apply andb_true_iff in Hsw. destruct Hsw as [Hyc _]. apply ascii_eqb_eq in Hyc. subst c.
  rewrite (Hhead y eq_refl) in Hy. discriminate.
Qed.

Definition cvar_ok (b : str * str) : Prop := contains cvar (blk b) = false /\ head_c (blk b) = Some colon.

Lemma cvar_in_tokens : In cvar Extracted.rest_tokens.
Proof. right. left. reflexivity. Qed.

Lemma cvar_ok_generic : forall tok body,
    contains cvar tok = false -> head_c tok = Some colon -> no_rest_token body = true ->
    (forall c, head_c body = Some c -> islower_c c = false) -> cvar_ok (tok, body).
Proof.
  intros tok body Ht Hh Hb Hhead. split.
  - unfold blk. cbn [fst snd]. apply contains_junction; [reflexivity|exact Ht| |exact Hhead].
    apply (proj1 (no_rest_token_spec body) Hb cvar cvar_in_tokens).
  - unfold blk. cbn [fst snd]. destruct tok; [discriminate|exact Hh].
Qed.

Lemma cvar_ok_dblock : forall n d ws, block_good (dblock n d ws) -> cvar_ok (dblock n d ws).
Proof.
  intros n d ws [_ H]. apply cvar_ok_generic; [reflexivity|reflexivity|exact H|].
  intros c Hc. cbn [dblock snd head_c] in Hc. injection Hc as Hc. subst c. reflexivity.
Qed.

Lemma cvar_ok_tblock : forall n t ws, block_good (tblock n t ws) -> cvar_ok (tblock n t ws).
Proof.
  intros n t ws [_ H]. apply cvar_ok_generic; [reflexivity|reflexivity|exact H|].
  intros c Hc. cbn [tblock snd head_c] in Hc. injection Hc as Hc. subst c. reflexivity.
Qed.

Lemma cvar_ok_rtblock : forall t ws, block_good (rtblock t ws) -> cvar_ok (rtblock t ws).
Proof.
  intros t ws [_ H]. apply cvar_ok_generic; [reflexivity|reflexivity|exact H|].
  intros c Hc. cbn [rtblock snd head_c] in Hc. injection Hc as Hc. subst c. reflexivity.
Qed.

Lemma cvar_ok_rblock : forall d ws, block_good (rblock d ws) -> cvar_ok (rblock d ws).
Proof.
  intros d ws [_ H]. cbn [rblock snd] in H. split.
  - unfold blk, rblock. cbn [fst snd].
    change (L ":return" ++ L "s" ++ colon :: sp :: d ++ ws) with (L ":returns" ++ colon :: sp :: d ++ ws).
    apply contains_junction; [reflexivity|reflexivity| |].
    + apply (contains_cons_false cvar (ch 115)).
      apply (proj1 (no_rest_token_spec _) H cvar cvar_in_tokens).
    + intros c Hc. cbn [head_c] in Hc. injection Hc as Hc. subst c. reflexivity.
  - reflexivity.
Qed.

Lemma cvar_free_text : forall blocks doc,
    contains cvar doc = false -> (forall b, In b blocks -> cvar_ok b) ->
    contains cvar (doc ++ concat (map blk blocks)) = false.
Proof.
  induction blocks as [|b bs IH]; intros doc Hdoc Hok.
  - cbn [map concat]. rewrite app_nil_r. exact Hdoc.
  - cbn [map concat]. rewrite app_assoc. apply IH.
    + destruct (Hok b (or_introl eq_refl)) as [Hc Hh].
      apply contains_junction; [reflexivity|exact Hdoc|exact Hc|].
      intros c Hc'. rewrite Hh in Hc'. injection Hc' as Hc'. subst c. reflexivity.
    + intros b' Hb'. apply Hok. right. exact Hb'.
Qed.


(* ------------------------------------------------------------------ *)
(* entries followed by arbitrary blanks                                *)
(* ------------------------------------------------------------------ *)

Lemma entry_doc_typ_ws : forall ww edd n d t ws1 ws2,
    good_name n -> prose_facts d -> typ_facts t ->
    forallb isspace ws1 = true -> forallb isspace ws2 = true ->
    entry_spec ww edd n [dline n d ws1; tline n t ws2]
               (mkParam (Has d) (Has t) None) (mkParam (Has d) (Has t) None).
Proof.
  intros ww edd n d t ws1 ws2 Hn Hd Ht Hw1 Hw2.
  destruct (IS_nodefault ww edd n (Some d) (Some t) (proj1 (proj2 Hn))) as [HI HS].
  { intros d' E. injection E as E. subst d'. exact Hd. }
  { intros t' E. injection E as E. subst t'. exact Ht. }
  cbn [fld_of_opt] in HI, HS.
  split; [|split].
  - intros sdoc done rets cur Hcur. cbn [fold_outcome].
    rewrite (run_doc_line_nodefault ww edd n d ws1 sdoc done rets cur Hn Hcur Hd Hw1). cbn [bind].
    rewrite (run_typ_line_nodefault_second ww edd n d t ws2 sdoc _ rets Hn Hd Ht Hw2). reflexivity.
  - eexists. split; [exact HI|exact HS].
  - exact HI.
Qed.

Lemma entry_doc_ws : forall ww edd n d ws,
    good_name n -> prose_facts d -> forallb isspace ws = true ->
    entry_spec ww edd n [dline n d ws] (mkParam (Has d) Missing None) (mkParam (Has d) Missing None).
Proof.
  intros ww edd n d ws Hn Hd Hw.
  destruct (IS_nodefault ww edd n (Some d) None (proj1 (proj2 Hn))) as [HI HS].
  { intros d' E. injection E as E. subst d'. exact Hd. }
  { intros t' E. discriminate. }
  cbn [fld_of_opt] in HI, HS.
  split; [|split].
  - intros sdoc done rets cur Hcur. cbn [fold_outcome].
    rewrite (run_doc_line_nodefault ww edd n d ws sdoc done rets cur Hn Hcur Hd Hw). reflexivity.
  - eexists. split; [exact HI|exact HS].
  - exact HI.
Qed.

Lemma entry_kwargs_ws : forall ww edd n d t ws1 ws2,
    mem_c colon n = false -> endswith (L "kwargs") n = true -> (exists c r, n = c :: r /\ c <> ch 42) ->
    prose_facts d -> typ_facts t -> str_eqb t (L "dict") = false ->
    forallb isspace ws1 = true -> forallb isspace ws2 = true ->
    entry_spec ww edd n [dline n d ws1; tline n t ws2]
               (mkParam (Has d) (Has t) (Some (VStr NoneStr))) (mkParam (Has d) (Has t) (Some (VStr NoneStr))).
Proof.
  intros ww edd n d t ws1 ws2 Hc Hk Hstar Hd Ht Hnd Hw1 Hw2.
  pose proof Ht as [Hbt [Hne [Hstar' Hopt]]].
  assert (HI : forall T v0, interpolate_defaults (mkParam (Has d) T v0) default_announces false edd
                            = Ok (mkParam (Has d) T v0)).
  { intros T v0. apply I_noannounce. apply Hd. }
  assert (HS2 : forall v0, v0 = None \/ v0 = Some (VStr NoneStr) ->
             set_name_and_type (Some n) (mkParam (Has d) (Has t) v0) false ww
             = Ok (n, mkParam (Has d) (Has t) (Some (VStr NoneStr)))).
  { intros v0 Hv0. rewrite (S_kwargs n d (Has t) v0 ww Hk Hstar).
    - cbn [kwargs_typ]. rewrite Hnd. destruct Hv0 as [E|E]; subst v0; reflexivity.
    - cbn [kwargs_typ]. rewrite Hnd. exact Hopt.
    - apply Hd. }
  split; [|split].
  - intros sdoc done rets cur Hcur. cbn [fold_outcome]. unfold step, dline.
    rewrite step_param_line; [|exact Hc|apply doc_fine_edge; apply Hd|exact Hw1].
    rewrite (flush_for_other n sdoc done rets cur Hcur). cbn [bind fst snd empty_param p_typ p_default].
    rewrite HI. cbn [bind].
    rewrite (S_kwargs n d Missing None ww Hk Hstar); [|reflexivity|apply Hd]. cbn [bind fst snd kwargs_typ].
    unfold tline. rewrite step_type_line; [|exact Hc|exact Hbt|exact Hne|exact Hstar'|exact Hw2].
    rewrite flush_for_same. cbn [bind fst snd p_doc p_default].
    rewrite HI. cbn [bind]. rewrite HS2; [reflexivity|right; reflexivity].
  - eexists. split; [apply HI|]. apply HS2. right. reflexivity.
  - apply HI.
Qed.

Definition opt_dict : str := L "Optional[dict]".

Lemma entry_kwargs_doc_ws : forall ww edd n d ws,
    mem_c colon n = false -> endswith (L "kwargs") n = true -> (exists c r, n = c :: r /\ c <> ch 42) ->
    prose_facts d -> forallb isspace ws = true ->
    entry_spec ww edd n [dline n d ws]
               (mkParam (Has d) (Has opt_dict) (Some (VStr NoneStr))) (mkParam (Has d) (Has opt_dict) (Some (VStr NoneStr))).
Proof.
  intros ww edd n d ws Hc Hk Hstar Hd Hw.
  assert (HI : forall T v0, interpolate_defaults (mkParam (Has d) T v0) default_announces false edd
                            = Ok (mkParam (Has d) T v0)).
  { intros T v0. apply I_noannounce. apply Hd. }
  assert (HS2 : set_name_and_type (Some n) (mkParam (Has d) (Has opt_dict) (Some (VStr NoneStr))) false ww
                = Ok (n, mkParam (Has d) (Has opt_dict) (Some (VStr NoneStr)))).
  { rewrite (S_kwargs n d (Has opt_dict) (Some (VStr NoneStr)) ww Hk Hstar); [reflexivity|reflexivity|apply Hd]. }
  split; [|split].
  - intros sdoc done rets cur Hcur. cbn [fold_outcome]. unfold step, dline.
    rewrite step_param_line; [|exact Hc|apply doc_fine_edge; apply Hd|exact Hw].
    rewrite (flush_for_other n sdoc done rets cur Hcur). cbn [bind fst snd empty_param p_typ p_default].
    rewrite HI. cbn [bind].
    rewrite (S_kwargs n d Missing None ww Hk Hstar); [|reflexivity|apply Hd]. reflexivity.
  - eexists. split; [apply HI|exact HS2].
  - apply HI.
Qed.

(* ------------------------------------------------------------------ *)
(* documented entries                                                  *)
(* ------------------------------------------------------------------ *)

(* what the parser makes of it *)
Definition dent_fin (e : dent) : param :=
  if endswith (L "kwargs") (dn e)
  then mkParam (Has (dd e)) (match dt e with Some t => Has t | None => Has opt_dict end) (Some (VStr NoneStr))
  else mkParam (Has (dd e)) (fld_of_opt (dt e)) None.

Definition dent_ok (e : dent) : Prop :=
  mem_c colon (dn e) = false /\ (exists c r, dn e = c :: r /\ c <> ch 42) /\ startswith (L "**") (dn e) = false
  /\ DocEmit.is_return (dn e) = false
  /\ prose_facts (dd e) /\ no_rest_token (dd e) = true
  /\ (forall t, dt e = Some t ->
        typ_facts t /\ no_rest_token t = true
        /\ (endswith (L "kwargs") (dn e) = true -> str_eqb t (L "dict") = false)).

Definition hw_text (hws : list (str * str)) : str := concat (map (fun hw => fst hw ++ snd hw) hws).

Definition ws_all (hws : list (str * str)) : Prop := forall hw, In hw hws -> forallb isspace (snd hw) = true.

Lemma rest_doc_line_param : forall n d ws, DocEmit.is_return n = false ->
    DocEmit.rest_doc_line n d ++ ws = blk (dblock n d ws).
Proof.
  intros n d ws H. unfold DocEmit.rest_doc_line, DocEmit.rest_key. rewrite H. apply doc_line_text.
Qed.

Lemma rest_typ_line_param : forall n t ws, DocEmit.is_return n = false ->
    DocEmit.rest_typ_line n t ++ ws = blk (tblock n t ws).
Proof.
  intros n t ws H. unfold DocEmit.rest_typ_line, DocEmit.rest_key_typ. rewrite H. apply typ_line_text.
Qed.

Lemma dent_entry : forall e hws,
    dent_ok e -> map fst hws = dent_heads e -> ws_all hws ->
    exists en, e_name en = dn e /\ entry_ok true true en /\ e_fin en = dent_fin e /\ e_mid en = dent_fin e
               /\ hw_text hws = concat (map blk (e_blocks en))
               /\ (forall b, In b (e_blocks en) -> cvar_ok b).
Proof.
  intros [[n d] ot] hws Hok Hh Hws. unfold dent_ok, dent_heads, dent_fin in *. unfold dn, dd, dt in *. cbn [fst snd] in *.
  destruct Hok as [Hcolon [Hstar [Hss [Hret [Hd [Hdtok Ht]]]]]].
  assert (Hbasic : name_basic n) by (split; assumption).
  destruct ot as [t|].
  - destruct (Ht t eq_refl) as [Htf [Httok Hdict]].
    destruct hws as [|[h1 w1] [|[h2 w2] [|x hws]]]; try discriminate.
    cbn [map fst] in Hh. injection Hh as E1 E2. subst h1 h2.
    pose proof (Hws _ (or_introl eq_refl)) as Hw1. cbn [snd] in Hw1.
    pose proof (Hws _ (or_intror (or_introl eq_refl))) as Hw2. cbn [snd] in Hw2.
    destruct (endswith (L "kwargs") n) eqn:Hk.
    + exists (mkE n [dblock n d w1; tblock n t w2]
                  (mkParam (Has d) (Has t) (Some (VStr NoneStr))) (mkParam (Has d) (Has t) (Some (VStr NoneStr)))).
      split; [reflexivity|]. split; [|split; [reflexivity|split; [reflexivity|split]]].
      * split; [exact Hbasic|]. split; [apply entry_kwargs_ws; try assumption; apply Hdict; reflexivity|].
        split; [|discriminate].
        intros b [Hb|[Hb|[]]]; subst b; [apply dblock_good|apply tblock_good]; assumption.
      * unfold hw_text. cbn [map concat fst snd e_blocks]. rewrite !app_nil_r.
        rewrite (rest_doc_line_param n d w1 Hret), (rest_typ_line_param n t w2 Hret). reflexivity.
      * intros b [Hb|[Hb|[]]]; subst b; [apply cvar_ok_dblock; apply dblock_good|apply cvar_ok_tblock; apply tblock_good]; assumption.
    + exists (mkE n [dblock n d w1; tblock n t w2]
                  (mkParam (Has d) (Has t) None) (mkParam (Has d) (Has t) None)).
      split; [reflexivity|]. split; [|split; [reflexivity|split; [reflexivity|split]]].
      * split; [exact Hbasic|].
        assert (Hgn : good_name n) by (split; [exact Hcolon|split; [split; assumption|exact Hstar]]).
        split; [apply entry_doc_typ_ws; assumption|].
        split; [|discriminate].
        intros b [Hb|[Hb|[]]]; subst b; [apply dblock_good|apply tblock_good]; assumption.
      * unfold hw_text. cbn [map concat fst snd e_blocks]. rewrite !app_nil_r.
        rewrite (rest_doc_line_param n d w1 Hret), (rest_typ_line_param n t w2 Hret). reflexivity.
      * intros b [Hb|[Hb|[]]]; subst b; [apply cvar_ok_dblock; apply dblock_good|apply cvar_ok_tblock; apply tblock_good]; assumption.
  - destruct hws as [|[h1 w1] [|x hws]]; try discriminate.
    cbn [map fst] in Hh. injection Hh as E1. subst h1.
    pose proof (Hws _ (or_introl eq_refl)) as Hw1. cbn [snd] in Hw1.
    destruct (endswith (L "kwargs") n) eqn:Hk.
    + exists (mkE n [dblock n d w1]
                  (mkParam (Has d) (Has opt_dict) (Some (VStr NoneStr))) (mkParam (Has d) (Has opt_dict) (Some (VStr NoneStr)))).
      split; [reflexivity|]. split; [|split; [reflexivity|split; [reflexivity|split]]].
      * split; [exact Hbasic|]. split; [apply entry_kwargs_doc_ws; assumption|].
        split; [|discriminate].
        intros b [Hb|[]]; subst b; apply dblock_good; assumption.
      * unfold hw_text. cbn [map concat fst snd e_blocks]. rewrite !app_nil_r.
        rewrite (rest_doc_line_param n d w1 Hret). reflexivity.
      * intros b [Hb|[]]; subst b; apply cvar_ok_dblock; apply dblock_good; assumption.
    + exists (mkE n [dblock n d w1] (mkParam (Has d) Missing None) (mkParam (Has d) Missing None)).
      split; [reflexivity|]. split; [|split; [reflexivity|split; [reflexivity|split]]].
      * split; [exact Hbasic|].
        assert (Hgn : good_name n) by (split; [exact Hcolon|split; [split; assumption|exact Hstar]]).
        split; [apply entry_doc_ws; assumption|].
        split; [|discriminate].
        intros b [Hb|[]]; subst b; apply dblock_good; assumption.
      * unfold hw_text. cbn [map concat fst snd e_blocks]. rewrite !app_nil_r.
        rewrite (rest_doc_line_param n d w1 Hret). reflexivity.
      * intros b [Hb|[]]; subst b; apply cvar_ok_dblock; apply dblock_good; assumption.
Qed.

Lemma hw_text_app : forall a b, hw_text (a ++ b) = hw_text a ++ hw_text b.
Proof. intros a b. unfold hw_text. rewrite map_app, concat_app. reflexivity. Qed.

Lemma map_fst_app_inv : forall (hws : list (str * str)) a b,
    map fst hws = a ++ b -> exists h1 h2, hws = h1 ++ h2 /\ map fst h1 = a /\ map fst h2 = b.
Proof.
  intros hws a. revert hws. induction a as [|x a IH]; intros hws b H.
  - exists [], hws. repeat split. exact H.
  - destruct hws as [|hw hws]; [discriminate|]. cbn [map app] in H. injection H as Hx Hr.
    destruct (IH hws b Hr) as [h1 [h2 [E [E1 E2]]]].
    exists (hw :: h1), h2. subst hws. cbn [map app]. rewrite Hx, E1. repeat split. exact E2.
Qed.

Lemma dents_entries : forall docs hws rest_heads,
    Forall dent_ok docs -> map fst hws = concat (map dent_heads docs) ++ rest_heads -> ws_all hws ->
    exists es hws2,
      hw_text hws = concat (map blk (all_blocks es)) ++ hw_text hws2
      /\ map fst hws2 = rest_heads /\ ws_all hws2
      /\ map e_name es = map dn docs
      /\ (forall e, In e es -> entry_ok true true e)
      /\ map (fun e => (e_name e, e_fin e)) es = map (fun e => (dn e, dent_fin e)) docs
      /\ map (fun e => (e_name e, e_mid e)) es = map (fun e => (dn e, dent_fin e)) docs
      /\ (forall b, In b (all_blocks es) -> cvar_ok b).
Proof.
  induction docs as [|e docs IH]; intros hws rest_heads Hok Hh Hws.
  - exists [], hws. cbn [map concat app] in *.
    split; [reflexivity|]. split; [exact Hh|]. split; [exact Hws|]. split; [reflexivity|].
    split; [intros e0 []|]. split; [reflexivity|]. split; [reflexivity|]. intros b [].
  - inversion Hok as [|e' docs' He Hdocs]; subst.
    cbn [map concat] in Hh. rewrite <- app_assoc in Hh.
    destruct (map_fst_app_inv hws _ _ Hh) as [h1 [h2 [E [E1 E2]]]]. subst hws.
    assert (Hws1 : ws_all h1) by (intros hw Hin; apply Hws; apply in_or_app; left; exact Hin).
    assert (Hws2 : ws_all h2) by (intros hw Hin; apply Hws; apply in_or_app; right; exact Hin).
    destruct (dent_entry e h1 He E1 Hws1) as [en [En [Hen [Efin [Emid [Etxt Hcv]]]]]].
    destruct (IH h2 rest_heads Hdocs E2 Hws2) as [es [hws2 [H1 [H2 [H3 [H4 [H5 [H6 [H7 H8]]]]]]]]].
    exists (en :: es), hws2.
    split; [|split; [exact H2|split; [exact H3|split; [|split; [|split; [|split]]]]]].
    + rewrite hw_text_app, Etxt, H1. unfold all_blocks. cbn [map concat]. rewrite map_app, concat_app, <- app_assoc. reflexivity.
    + cbn [map]. rewrite En, H4. reflexivity.
    + intros e0 [E0|Hin]; [subst e0; exact Hen|apply H5; exact Hin].
    + cbn [map]. rewrite En, Efin, H6. reflexivity.
    + cbn [map]. rewrite En, Emid, H7. reflexivity.
    + intros b Hb. unfold all_blocks in Hb. cbn [map concat] in Hb. apply in_app_or in Hb.
      destruct Hb as [Hb|Hb]; [apply Hcv; exact Hb|apply H8; exact Hb].
Qed.

(* ------------------------------------------------------------------ *)
(* the return entry                                                    *)
(* ------------------------------------------------------------------ *)

Definition rent_fin (r : option rent) : option param :=
  match r with
  | None => None
  | Some (d, ot) => Some (mkParam (Has d) (fld_of_opt ot) None)
  end.

Definition rent_ok (r : option rent) : Prop :=
  match r with
  | None => True
  | Some (d, ot) =>
    edge_ok d /\ no_announce d = true /\ no_rest_token d = true
    /\ (forall t, ot = Some t -> mem_c bt t = false /\ startswith (L "**") t = false /\ no_rest_token t = true)
  end.

Lemma ret_doc_head : forall d, DocEmit.rest_doc_line (L "return_type") d = L ":" ++ L "returns" ++ L ": " ++ d.
Proof. reflexivity. Qed.

Lemma ret_typ_head : forall t, DocEmit.rest_typ_line (L "return_type") t = L ":" ++ L "rtype" ++ L ": ```" ++ t ++ L "```".
Proof. reflexivity. Qed.

Lemma rent_blocks : forall r hws,
    rent_ok r -> map fst hws = rent_heads r -> ws_all hws ->
    exists rblocks,
      hw_text hws = concat (map blk rblocks)
      /\ (forall ww st, rs_returns st = None ->
            fold_outcome (step ww true) (map as_line rblocks) st
            = Ok (mkRS (rs_doc st) (rs_params st) (rent_fin r) (rs_cur st)))
      /\ map_returns (fun p => interpolate_defaults p default_announces false true) (rent_fin r) = Ok (rent_fin r)
      /\ (forall b, In b rblocks -> block_good b)
      /\ (forall b, In b rblocks -> cvar_ok b)
      /\ (r <> None -> rblocks <> []).
Proof.
  intros [[d ot]|] hws Hok Hh Hws; cbn [rent_heads rent_fin] in *.
  - destruct Hok as [He [Hna [Hdtok Ht]]].
    assert (HI : interpolate_defaults (mkParam (Has d) (fld_of_opt ot) None) default_announces false true
                 = Ok (mkParam (Has d) (fld_of_opt ot) None)) by (apply I_noannounce; exact Hna).
    destruct ot as [t|].
    + destruct (Ht t eq_refl) as [Hbt [Hstar Httok]].
      destruct hws as [|[h1 w1] [|[h2 w2] [|x hws]]]; try discriminate.
      cbn [map fst] in Hh. injection Hh as E1 E2. subst h1 h2.
      pose proof (Hws _ (or_introl eq_refl)) as Hw1. cbn [snd] in Hw1.
      pose proof (Hws _ (or_intror (or_introl eq_refl))) as Hw2. cbn [snd] in Hw2.
      exists [rblock d w1; rtblock t w2].
      split; [|split; [|split; [|split; [|split]]]].
      * unfold hw_text. cbn [map concat fst snd]. rewrite !app_nil_r.
        rewrite ret_doc_head, ret_typ_head, ret_doc_line_text, ret_typ_line_text. reflexivity.
      * intros ww st Hst. destruct st as [sdoc ps rets cur]. cbn [rs_returns rs_doc rs_params rs_cur] in *. subst rets.
        cbn [map fold_outcome]. rewrite rblock_line. unfold step.
        rewrite step_returns_line; [|exact He|exact Hna|exact Hw1]. cbn [bind].
        rewrite rtblock_line. rewrite step_rtype_line; [|exact Hbt|exact Hstar|exact Hw2]. reflexivity.
      * cbn [map_returns]. rewrite HI. reflexivity.
      * intros b [Hb|[Hb|[]]]; subst b; [apply rblock_good|apply rtblock_good]; assumption.
      * intros b [Hb|[Hb|[]]]; subst b; [apply cvar_ok_rblock; apply rblock_good|apply cvar_ok_rtblock; apply rtblock_good]; assumption.
      * intros _. discriminate.
    + destruct hws as [|[h1 w1] [|x hws]]; try discriminate.
      cbn [map fst] in Hh. injection Hh as E1. subst h1.
      pose proof (Hws _ (or_introl eq_refl)) as Hw1. cbn [snd] in Hw1.
      exists [rblock d w1].
      split; [|split; [|split; [|split; [|split]]]].
      * unfold hw_text. cbn [map concat fst snd]. rewrite !app_nil_r.
        rewrite ret_doc_head, ret_doc_line_text. reflexivity.
      * intros ww st Hst. destruct st as [sdoc ps rets cur]. cbn [rs_returns rs_doc rs_params rs_cur] in *. subst rets.
        cbn [map fold_outcome]. rewrite rblock_line. unfold step.
        rewrite step_returns_line; [|exact He|exact Hna|exact Hw1]. reflexivity.
      * cbn [map_returns]. rewrite HI. reflexivity.
      * intros b [Hb|[]]; subst b; apply rblock_good; assumption.
      * intros b [Hb|[]]; subst b; apply cvar_ok_rblock; apply rblock_good; assumption.
      * intros _. discriminate.
  - destruct hws; [|discriminate]. exists [].
    split; [reflexivity|]. split; [intros ww st Hst; destruct st; cbn in *; subst; reflexivity|].
    split; [reflexivity|]. split; [intros b []|]. split; [intros b []|]. intros H. exfalso. apply H. reflexivity.
Qed.

(* ------------------------------------------------------------------ *)
(* the parser on a text of heads followed by arbitrary blanks          *)
(* ------------------------------------------------------------------ *)

(* parse.function: docstring(doc_str.replace(":cvar", ":param"), infer_type=False) *)
Definition parse_cleaned (c : str) : outcome ir :=
  parse_dot_docstring ng_unmodelled (replace cvar (L ":param") c) false true true.

Lemma isspace_no_token : forall ws, forallb isspace ws = true -> no_rest_token ws = true.
Proof. intros ws H. apply (no_rest_token_ws [] ws eq_refl H). Qed.

Lemma ws_lead_token_free : forall ws x, forallb isspace ws = true -> no_rest_token x = true ->
    no_rest_token (ws ++ x) = true.
Proof.
  intros ws x Hws Hx. apply no_rest_token_app_l; [apply isspace_no_token; exact Hws|exact Hx|].
  intros c Hc. apply isspace_not_lower. apply last_c_In in Hc.
  rewrite forallb_forall in Hws. apply Hws. exact Hc.
Qed.

Theorem parse_heads : forall sd docs r ws0 hws,
    (forall d0, sd = Some d0 -> no_rest_token d0 = true) ->
    Forall dent_ok docs -> NoDup (map dn docs) -> rent_ok r -> (docs <> [] \/ r <> None) ->
    map fst hws = heads sd docs r -> forallb isspace ws0 = true -> ws_all hws ->
    exists sdoc,
      parse_cleaned (text_of_heads ws0 hws)
      = Ok (ir_of_parts sdoc (map (fun e => (dn e, dent_fin e)) docs) (rent_fin r)).
Proof.
  intros sd docs r ws0 hws Hsd Hdocs Hnd Hr Hsome Hh Hws0 Hws.
  (* the summary part *)
  assert (Hsplit : exists docpart hwsB,
             text_of_heads ws0 hws = docpart ++ hw_text hwsB /\ no_rest_token docpart = true
             /\ map fst hwsB = concat (map dent_heads docs) ++ rent_heads r /\ ws_all hwsB).
  { unfold heads in Hh. destruct sd as [d0|].
    - destruct hws as [|[h0 w0] hwsB]; [discriminate|]. cbn [map fst app] in Hh. injection Hh as E0 EB. subst h0.
      exists (ws0 ++ d0 ++ w0), hwsB. split; [|split; [|split]].
      + unfold text_of_heads, hw_text. cbn [map concat fst snd]. rewrite <- !app_assoc. reflexivity.
      + apply ws_lead_token_free; [exact Hws0|]. apply no_rest_token_ws; [apply Hsd; reflexivity|].
        apply (Hws (d0, w0)). left. reflexivity.
      + exact EB.
      + intros hw Hin. apply Hws. right. exact Hin.
    - exists ws0, hws. split; [reflexivity|]. split; [apply isspace_no_token; exact Hws0|]. split; [exact Hh|exact Hws]. }
  destruct Hsplit as [docpart [hwsB [Etext [Hdoctok [HhB HwsB]]]]].
  destruct (dents_entries docs hwsB (rent_heads r) Hdocs HhB HwsB)
    as [es [hws2 [Etxt [Hh2 [Hws2 [Hnames [Hoks [Hfin [Hmid Hescv]]]]]]]]].
  destruct (rent_blocks r hws2 Hr Hh2 Hws2) as [rblocks [Ertxt [Hrrun [Hrpost [Hrgood [Hrcv Hrne]]]]]].
  set (blocks := all_blocks es ++ rblocks).
  assert (Etext' : text_of_heads ws0 hws = docpart ++ concat (map blk blocks)).
  { rewrite Etext, Etxt, Ertxt. unfold blocks. rewrite map_app, concat_app. reflexivity. }
  assert (Hes_good : forall b, In b (all_blocks es) -> block_good b).
  { intros b Hb. unfold all_blocks in Hb. apply in_concat in Hb.
    destruct Hb as [bl [Hbl Hb]]. apply in_map_iff in Hbl. destruct Hbl as [e [Ee He]]. subst bl.
    destruct (Hoks e He) as [_ [_ [Hg _]]]. apply Hg. exact Hb. }
  assert (Hblocks_good : forall b, In b blocks -> block_good b).
  { intros b Hb. unfold blocks in Hb. apply in_app_or in Hb. destruct Hb as [Hb|Hb]; [apply Hes_good|apply Hrgood]; exact Hb. }
  assert (Hblocks_ne : exists b0, In b0 blocks).
  { destruct es as [|e1 es1].
    - assert (Eps : docs = []) by (destruct docs; [reflexivity|discriminate]).
      destruct rblocks as [|b0 rb].
      + exfalso. destruct Hsome as [H|H]; [apply H; exact Eps|apply (Hrne H); reflexivity].
      + exists b0. unfold blocks. cbn [all_blocks map concat app]. left. reflexivity.
    - destruct (Hoks e1) as [_ [_ [_ Hne]]]; [left; reflexivity|].
      destruct (e_blocks e1) as [|b0 bl] eqn:Eb; [contradiction|].
      exists b0. unfold blocks, all_blocks. cbn [map concat]. rewrite Eb. left. reflexivity. }
  (* the replace is the identity *)
  assert (Hrepl : replace cvar (L ":param") (docpart ++ concat (map blk blocks)) = docpart ++ concat (map blk blocks)).
  { apply replace_absent. apply cvar_free_text.
    - apply (proj1 (no_rest_token_spec docpart) Hdoctok cvar cvar_in_tokens).
    - intros b Hb. unfold blocks in Hb. apply in_app_or in Hb. destruct Hb as [Hb|Hb]; [apply Hescv|apply Hrcv]; exact Hb. }
  (* the scanner *)
  assert (Hscan : scan_rest (docpart ++ concat (map blk blocks)) = (false, docpart) :: map as_line blocks).
  { apply scan_rest_blocks; [exact Hdoctok|exact Hblocks_good|].
    left. destruct Hblocks_ne as [b0 Hb0]. intros E. rewrite E in Hb0. destruct Hb0. }
  (* the parse phase *)
  assert (Hnd' : NoDup (map e_name es)) by (rewrite Hnames; exact Hnd).
  set (sdoc := strip docpart).
  assert (Hphase : exists cur', parse_phase_rest ((false, docpart) :: map as_line blocks) false true true true
                   = Ok (mkRS sdoc (map (fun e => (e_name e, e_mid e)) es) (rent_fin r) cur')).
  { unfold parse_phase_rest. cbn [fold_outcome]. unfold parse_rest_line at 1. cbn [init_rstate rs_doc].
    unfold init_rstate. cbn [bind rs_params rs_returns rs_cur rs_doc]. fold sdoc.
    unfold blocks. rewrite map_app, fold_outcome_app, <- all_lines_blocks.
    fold (step true true).
    destruct es as [|e1 es1].
    - cbn [all_lines map concat fold_outcome bind].
      rewrite Hrrun by reflexivity. cbn [bind rs_doc rs_params rs_returns rs_cur fst].
      eexists. reflexivity.
    - rewrite (run_entries true true (e1 :: es1) sdoc [] None (None, empty_param) Hoks).
      2:{ cbn [names_ok]. split; [reflexivity|].
          apply (names_ok_of_nodup true true).
          - intros e He. apply Hoks. right. exact He.
          - destruct (Hoks e1) as [[_ Hb] _]; [left; reflexivity|exact Hb].
          - exact Hnd'. }
      cbn [bind]. rewrite Hrrun by reflexivity. cbn [bind rs_doc rs_params rs_returns rs_cur].
      cbn [run_spec]. change (flushed [] (None, empty_param)) with (@nil (str * param)).
      destruct (final_params es1 [] (e_name e1) (e_mid e1)) as [nl' [pl [H1 [H2 H3]]]].
      { cbn [map app]. exact Hnd'. }
      rewrite H1. cbn [fst snd].
      assert (Hlast : exists e, In e (e1 :: es1) /\ nl' = e_name e /\ pl = e_mid e).
      { destruct H3 as [[E1 [E2 E3]]|[e [He [E2 E3]]]].
        - exists e1. split; [left; reflexivity|]. split; assumption.
        - exists e. split; [right; exact He|]. split; assumption. }
      destruct Hlast as [el [Hel [Enl Epl]]]. subst nl' pl.
      destruct (Hoks el Hel) as [_ [[_ [[mi [HI HS]] _]] _]].
      rewrite HI. cbn [bind]. rewrite HS. cbn [bind fst snd]. unfold maybe_remove. rewrite andb_false_r. cbn [bind].
      rewrite H2. eexists. reflexivity. }
  destruct Hphase as [cur' Hphase].
  assert (Hparse : parse_rest (docpart ++ concat (map blk blocks)) false true true true
                   = Ok (ir_of_parts sdoc (map (fun e => (e_name e, e_fin e)) es) (rent_fin r))).
  { unfold parse_rest. rewrite Hscan, Hphase. cbn [bind rs_params rs_returns rs_doc].
    rewrite (map_params_entries true es).
    2:{ intros e He. destruct (Hoks e He) as [_ [[_ [_ H]] _]]. exact H. }
    cbn [bind]. rewrite Hrpost. cbn [bind post_remove fst snd]. reflexivity. }
  assert (Hstyle : detect_style (Some (docpart ++ concat (map blk blocks))) = Rest).
  { destruct Hblocks_ne as [b0 Hb0].
    apply (detect_style_rest _ (fst b0)).
    - rewrite <- rest_scan_tokens_eq. apply (Hblocks_good b0 Hb0).
    - apply contains_block_token. exact Hb0. }
  exists sdoc. unfold parse_cleaned. rewrite Etext', Hrepl.
  rewrite parse_dot_rest; [|destruct Hblocks_ne as [b0 Hb0]|exact Hstyle].
  - rewrite Hparse, Hfin. reflexivity.
  - intros E. apply app_eq_nil in E. destruct E as [_ E].
    apply in_split in Hb0. destruct Hb0 as [l1 [l2 El]]. rewrite El in E.
    rewrite map_app, concat_app in E. apply app_eq_nil in E. destruct E as [_ E].
    cbn [map concat] in E. apply app_eq_nil in E. destruct E as [E _].
    destruct (Hblocks_good b0) as [Htok _]; [rewrite El; apply in_or_app; right; left; reflexivity|].
    unfold blk in E. apply app_eq_nil in E. destruct E as [E _]. rewrite E in Htok.
    revert Htok. vm_compute. intros H. repeat (destruct H as [H|H]; [discriminate|]). exact H.
Qed.

(* ------------------------------------------------------------------ *)
(* doc_agrees of the docstring-derived IR                              *)
(* ------------------------------------------------------------------ *)

Definition dummy_g : gparam := mkG Missing Missing None.

Definition Gof (et : bool) (kv : str * gparam) : gparam :=
  match dent_of et kv with Some e => gparam_of_param (dent_fin e) | None => dummy_g end.

Lemma docs_of_cons : forall et kv ps,
    docs_of et (kv :: ps) = match dent_of et kv with Some e => e :: docs_of et ps | None => docs_of et ps end.
Proof. intros et kv ps. unfold docs_of. cbn [map DocEmit.cat_options]. destruct (dent_of et kv); reflexivity. Qed.

Lemma dent_of_prose : forall et kv, dent_of et kv = None <-> C03Spec.has_prose (snd kv) = false.
Proof.
  intros et kv. unfold dent_of, C03Spec.has_prose. destruct (C03Spec.prose_of (snd kv)); split; intros H; try discriminate; reflexivity.
Qed.

Lemma dps_eq : forall et ps,
    map (fun e => (dn e, gparam_of_param (dent_fin e))) (docs_of et ps)
    = map (fun kv => (fst kv, Gof et kv)) (C03Spec.documented ps).
Proof.
  intros et ps. induction ps as [|kv ps IH]; [reflexivity|].
  rewrite docs_of_cons. unfold C03Spec.documented in *. cbn [filter].
  assert (HG : Gof et kv = match dent_of et kv with Some e => gparam_of_param (dent_fin e) | None => dummy_g end)
    by reflexivity.
  unfold C03Spec.has_prose. unfold dent_of in *.
  destruct (C03Spec.prose_of (snd kv)) as [d|] eqn:Ep.
  - cbn [map]. rewrite IH, HG. reflexivity.
  - exact IH.
Qed.

Lemma docs_names : forall et ps, map dn (docs_of et ps) = map fst (C03Spec.documented ps).
Proof.
  intros et ps. pose proof (f_equal (map fst) (dps_eq et ps)) as H. rewrite !map_map in H. cbn [fst] in H. exact H.
Qed.

Lemma od_get_map : forall (F : str * gparam -> gparam) l kv,
    NoDup (map fst l) -> In kv l -> od_get (fst kv) (map (fun kv => (fst kv, F kv)) l) = Some (F kv).
Proof.
  intros F l. induction l as [|x l IH]; intros kv Hnd Hin; [destruct Hin|].
  cbn [map od_get fst]. inversion Hnd as [|y l' Hnotin Hnd']; subst.
  destruct Hin as [E|Hin].
  - subst x. rewrite str_eqb_refl. reflexivity.
  - assert (Hne : str_eqb (fst kv) (fst x) = false).
    { apply str_eqb_neq. intros E. apply Hnotin. rewrite <- E. apply in_map. exact Hin. }
    rewrite Hne. apply IH; assumption.
Qed.

(* what doc_entry_agrees needs of a documented entry *)
Definition agree_facts (n : str) (g : gparam) : Prop :=
  forall d, C03Spec.prose_of g = Some d ->
    mem_c nl d = false /\ edge_ok d /\ g_typ g <> FNone
    /\ (endswith (L "kwargs") n = true -> g_typ g = Has opt_dict).

Lemma reflow_id : forall d, mem_c nl d = false -> edge_ok d -> C03Spec.reflow d = d.
Proof. intros d Hnl He. unfold C03Spec.reflow. apply (doc_norm_id true d Hnl He). Qed.

Lemma entry_agrees : forall et n g,
    agree_facts n g -> C03Spec.has_prose g = true ->
    C03Spec.doc_entry_agrees et n g (Gof et (n, g)) = true.
Proof.
  intros et n g Hf Hp. unfold C03Spec.has_prose in Hp.
  destruct (C03Spec.prose_of g) as [d|] eqn:Ep; [|discriminate].
  destruct (Hf d Ep) as [Hnl [He [Hty Hkw]]].
  unfold Gof, dent_of. cbn [fst snd]. rewrite Ep.
  unfold C03Spec.doc_entry_agrees, dent_fin, dn, dd, dt. cbn [fst snd]. rewrite Ep.
  unfold C03Spec.kwargs_name.
  destruct (endswith (L "kwargs") n) eqn:Hk.
  - cbn [gparam_of_param g_doc g_typ g_default p_doc p_typ p_default option_map].
    rewrite (reflow_id d Hnl He), str_eqb_refl. cbn [andb].
    rewrite (Hkw eq_refl). unfold emitted_typ. rewrite (Hkw eq_refl).
    destruct et; reflexivity.
  - cbn [gparam_of_param g_doc g_typ g_default p_doc p_typ p_default option_map].
    rewrite (reflow_id d Hnl He), str_eqb_refl. cbn [andb].
    unfold emitted_typ. destruct et.
    + destruct (g_typ g) as [| |t]; [reflexivity|contradiction|]. cbn [fld_of_opt C03Spec.fld_eqb].
      rewrite str_eqb_refl. reflexivity.
    + reflexivity.
Qed.

Lemma params_agree : forall et ps,
    NoDup (map fst ps) -> (forall kv, In kv ps -> agree_facts (fst kv) (snd kv)) ->
    C03Spec.doc_params_agree et ps (map (fun e => (dn e, gparam_of_param (dent_fin e))) (docs_of et ps)) = true.
Proof.
  intros et ps Hnd Hf. rewrite dps_eq. unfold C03Spec.doc_params_agree.
  assert (Hkeys : od_keys (map (fun kv => (fst kv, Gof et kv)) (C03Spec.documented ps)) = od_keys (C03Spec.documented ps)).
  { unfold od_keys. rewrite map_map. reflexivity. }
  rewrite Hkeys. rewrite C07Facts.list_eqb_str_refl. cbn [andb].
  assert (Hnd' : NoDup (map fst (C03Spec.documented ps))).
  { unfold C03Spec.documented. clear Hf Hkeys. induction ps as [|x ps IH]; [constructor|].
    cbn [filter]. inversion Hnd as [|y l Hnotin Hnd']; subst.
    destruct (C03Spec.has_prose (snd x)); [|apply IH; exact Hnd'].
    cbn [map]. constructor; [|apply IH; exact Hnd'].
    intros Hin. apply Hnotin. apply in_map_iff in Hin. destruct Hin as [z [Ez Hz]].
    apply filter_In in Hz. rewrite <- Ez. apply in_map. apply Hz. }
  apply forallb_forall. intros kv Hin.
  rewrite (od_get_map (Gof et) _ kv Hnd' Hin).
  unfold C03Spec.documented in Hin. apply filter_In in Hin. destruct Hin as [Hin Hp].
  destruct kv as [n g]. cbn [fst snd] in *. apply entry_agrees; [apply (Hf (n, g) Hin)|exact Hp].
Qed.

Lemma returns_agree : forall et rets,
    (forall g, rets = Has g -> agree_facts (L "return_type") g) ->
    C03Spec.doc_returns_agree et rets
      (match rent_fin (rent_of et rets) with None => FNone | Some rp => Has (gparam_of_param rp) end) = true.
Proof.
  intros et rets Hf. unfold C03Spec.doc_returns_agree, rent_of.
  destruct rets as [| |g]; cbn [fget rent_fin]; try reflexivity.
  unfold C03Spec.has_prose.
  destruct (C03Spec.prose_of g) as [d|] eqn:Ep; cbn [rent_fin]; [|reflexivity].
  destruct (Hf g eq_refl d Ep) as [Hnl [He [Hty _]]].
  unfold C03Spec.doc_entry_agrees. rewrite Ep.
  cbn [gparam_of_param g_doc g_typ g_default p_doc p_typ p_default option_map].
  rewrite (reflow_id d Hnl He), str_eqb_refl. cbn [andb].
  change (C03Spec.kwargs_name (L "return_type")) with false. cbv iota.
  unfold emitted_typ. destruct et.
  - destruct (g_typ g) as [| |t]; [reflexivity|contradiction|]. cbn [fld_of_opt C03Spec.fld_eqb].
    rewrite str_eqb_refl. reflexivity.
  - reflexivity.
Qed.

(* ------------------------------------------------------------------ *)
(* agree_facts from the guard                                          *)
(* ------------------------------------------------------------------ *)

Lemma first_class_none : forall (f : str -> gparam -> option C03Spec.c03_class) ps,
    C03Spec.first_class f ps = None -> forall kv, In kv ps -> f (fst kv) (snd kv) = None.
Proof.
  intros f ps. induction ps as [|[n g] ps IH]; intros H kv Hin; [destruct Hin|].
  cbn [C03Spec.first_class] in H. destruct (f n g) as [k|] eqn:E; [discriminate|].
  destruct Hin as [Ekv|Hin]; [subst kv; exact E|apply IH; assumption].
Qed.

Lemma guard_classes : forall o i, C03Spec.guard_C03 o i = true ->
    C03Spec.C03_domain o i = true
    /\ C03Spec.first_class (C03Spec.param_class o) (ir_params i) = None
    /\ (forall g, ir_returns i = Has g -> C03Spec.return_class o g = None).
Proof.
  intros o i H. unfold C03Spec.guard_C03 in H. apply andb_true_iff in H. destruct H as [Hdom Hc].
  split; [exact Hdom|].
  destruct (C03Spec.finding_class_C03 o i) as [k|] eqn:E; [discriminate|]. clear Hc.
  unfold C03Spec.finding_class_C03 in E.
  destruct (C03Spec.fo_edd o && _); [discriminate|].
  destruct (match ir_doc i with Has d => C02Spec.prose_has_token d | _ => false end); [discriminate|].
  destruct (C03Spec.first_class (C03Spec.param_class o) (ir_params i)) as [k|]; [discriminate|].
  split; [reflexivity|]. intros g Eg. rewrite Eg in E. exact E.
Qed.

Lemma prose_class_clean : forall g d, C03Spec.prose_class g = None -> C03Spec.prose_of g = Some d ->
    mem_c nl d = false /\ edge_ok d.
Proof.
  intros g d Hc Ep. unfold C03Spec.prose_class in Hc. rewrite Ep in Hc.
  destruct (C03Spec.prose_safe d) eqn:Es; cbn [negb] in Hc; [|discriminate].
  unfold C03Spec.prose_safe in Es. apply andb_true_iff in Es. destruct Es as [Es _].
  apply andb_true_iff in Es. destruct Es as [Es _]. apply negb_true_iff in Es.
  unfold C02Spec.prose_unclean in Es. apply orb_false_iff in Es. destruct Es as [Es _].
  apply orb_false_iff in Es. destruct Es as [Es _]. apply orb_false_iff in Es. destruct Es as [Es Hnl].
  apply negb_false_iff in Es. apply str_eqb_eq in Es.
  split; [exact Hnl|]. apply strip_fix_edge_ok; [|exact Es].
  unfold C03Spec.prose_of, C02Spec.prose_of in Ep. destruct (g_doc g) as [| |[|c r]]; try discriminate.
  injection Ep as Ep. subst d. discriminate.
Qed.

Lemma entry_domain_typ : forall g, C03Spec.entry_in_domain g = true -> g_typ g <> FNone.
Proof.
  intros g H E. unfold C03Spec.entry_in_domain in H. rewrite E in H.
  rewrite andb_false_r in H. cbn [andb] in H. discriminate.
Qed.

Lemma param_class_agree : forall o n g, C03Spec.entry_in_domain g = true -> C03Spec.param_class o n g = None ->
    agree_facts n g.
Proof.
  intros o n g Hdom Hc d Ep. unfold C03Spec.param_class in Hc. unfold C03Spec.kwargs_name in Hc.
  destruct (endswith (L "kwargs") n) eqn:Hk.
  - unfold C03Spec.kwargs_class in Hc.
    destruct (negb (C03Spec.has_prose g)); [discriminate|].
    destruct (C03Spec.prose_class g) as [k|] eqn:Epc; [discriminate|].
    destruct (prose_class_clean g d Epc Ep) as [Hnl He].
    split; [exact Hnl|]. split; [exact He|]. split; [apply entry_domain_typ; exact Hdom|].
    intros _. destruct (C03Spec.fld_eqb (g_typ g) (Has (L "Optional[dict]"))) eqn:Et; [|discriminate].
    destruct (g_typ g) as [| |t]; try discriminate. cbn [C03Spec.fld_eqb] in Et. apply str_eqb_eq in Et. subst t. reflexivity.
  - destruct (C03Spec.prose_class g) as [k|] eqn:Epc; [discriminate|].
    destruct (prose_class_clean g d Epc Ep) as [Hnl He].
    split; [exact Hnl|]. split; [exact He|]. split; [apply entry_domain_typ; exact Hdom|].
    intros E. discriminate.
Qed.

Lemma return_class_agree : forall o g, C03Spec.entry_in_domain g = true -> C03Spec.return_class o g = None ->
    agree_facts (L "return_type") g.
Proof.
  intros o g Hdom Hc d Ep. unfold C03Spec.return_class in Hc.
  destruct (C03Spec.prose_class g) as [k|] eqn:Epc; [discriminate|].
  destruct (prose_class_clean g d Epc Ep) as [Hnl He].
  split; [exact Hnl|]. split; [exact He|]. split; [apply entry_domain_typ; exact Hdom|].
  intros E. discriminate.
Qed.

Lemma guard_agree_facts : forall o i, C03Spec.guard_C03 o i = true ->
    NoDup (map fst (ir_params i))
    /\ (forall kv, In kv (ir_params i) -> agree_facts (fst kv) (snd kv))
    /\ (forall g, ir_returns i = Has g -> agree_facts (L "return_type") g).
Proof.
  intros o i Hg. destruct (guard_classes o i Hg) as [Hdom [Hfc Hrc]].
  unfold C03Spec.C03_domain in Hdom.
  repeat (apply andb_true_iff in Hdom; let H := fresh "Hd" in destruct Hdom as [Hdom H]).
  split; [apply ParseSigFacts.strs_distinct_NoDup; assumption|]. split.
  - intros kv Hin. apply (param_class_agree o).
    + rewrite forallb_forall in Hd1. apply (Hd1 kv Hin).
    + apply (first_class_none _ _ Hfc kv Hin).
  - intros g Eg. apply (return_class_agree o).
    + rewrite Eg in Hd0. exact Hd0.
    + apply Hrc. exact Eg.
Qed.
