(* C03DocLinkLines: the text of DocEmit.to_docstring (ReST) as a list of lines (indentation, content), for
   descriptions whose lines need no wrapping.
   Used by proofs/C03DocLinkMain.v (property C03, docstring link).  Proofs only. *)
From Coq Require Import List Ascii Bool Arith ZArith Lia.
From Coq Require String.
Import String.StringSyntax.
From DT Require Import PyStr Sexp PyVal TyExpr Extracted PureUtils Defaults PyAst IR Fill C17Spec.
From DT Require Import PyStrFacts SplitFacts DefaultsFacts DocEmit DocEmitFacts C03Spec C03DocLinkDefs C03DocLinkEmit.
From DT Require FillFacts C01Spec.
Import ListNotations.

Ltac norm_app := repeat first [rewrite <- app_assoc | rewrite app_nil_r | progress (cbn [app])].

(* ------------------------------------------------------------------ *)
(* indentation and content of a line                                    *)
(* ------------------------------------------------------------------ *)

Definition Tn (il : nat) : str := repeat_str tab il.
Definition Sp (est : bool) (il : nat) : str := if est then Tn il else [].

Definition blanks_ok (s : str) : bool :=
  forallb isspace s && negb (mem_c nl s) && negb (mem_c tabch s).

Definition cont_ok (s : str) : bool :=
  negb (mem_c nl s) && negb (mem_c tabch s)
  && match s with [] => true | c :: _ => negb (isspace c) end.

Lemma ln_ok_split : forall a b, ln_ok (a, b) = blanks_ok a && cont_ok b.
Proof.
  intros a b. unfold ln_ok, blanks_ok, cont_ok. cbn [fst snd].
  rewrite !andb_assoc. reflexivity.
Qed.

Lemma ln_ok_intro : forall a b, blanks_ok a = true -> cont_ok b = true -> ln_ok (a, b) = true.
Proof. intros a b Ha Hb. rewrite ln_ok_split, Ha, Hb. reflexivity. Qed.

Lemma forallb_app_true : forall {A} (f : A -> bool) a b,
    forallb f a = true -> forallb f b = true -> forallb f (a ++ b) = true.
Proof. intros A f a b Ha Hb. rewrite forallb_app, Ha, Hb. reflexivity. Qed.

Lemma forallb_cons_true : forall {A} (f : A -> bool) x l,
    f x = true -> forallb f l = true -> forallb f (x :: l) = true.
Proof. intros A f x l Hx Hl. cbn [forallb]. rewrite Hx, Hl. reflexivity. Qed.

Ltac lines_ok_tac :=
  repeat (apply forallb_cons_true; [apply ln_ok_intro; try assumption; reflexivity|]); reflexivity.

Lemma blanks_ok_app : forall a b, blanks_ok a = true -> blanks_ok b = true -> blanks_ok (a ++ b) = true.
Proof.
  intros a b Ha Hb. unfold blanks_ok in *.
  apply andb_true_iff in Ha. destruct Ha as [Ha Ha3]. apply andb_true_iff in Ha. destruct Ha as [Ha1 Ha2].
  apply andb_true_iff in Hb. destruct Hb as [Hb Hb3]. apply andb_true_iff in Hb. destruct Hb as [Hb1 Hb2].
  rewrite forallb_app, !mem_c_app, Ha1, Hb1.
  apply negb_true_iff in Ha2, Ha3, Hb2, Hb3. rewrite Ha2, Ha3, Hb2, Hb3. reflexivity.
Qed.

Lemma blanks_ok_tab : blanks_ok tab = true.
Proof. vm_compute. reflexivity. Qed.

Lemma blanks_ok_Tn : forall il, blanks_ok (Tn il) = true.
Proof.
  intros il. unfold Tn, repeat_str. induction il as [|n IH]; [reflexivity|].
  cbn [repeat concat]. apply blanks_ok_app; [exact blanks_ok_tab|exact IH].
Qed.

Lemma blanks_ok_Sp : forall est il, blanks_ok (Sp est il) = true.
Proof. intros est il. unfold Sp. destruct est; [apply blanks_ok_Tn|reflexivity]. Qed.

Lemma blanks_ok_isspace : forall s, blanks_ok s = true -> forallb isspace s = true.
Proof.
  intros s H. unfold blanks_ok in H. apply andb_true_iff in H. destruct H as [H _].
  apply andb_true_iff in H. destruct H as [H _]. exact H.
Qed.

Lemma cont_ok_intro : forall s,
    mem_c nl s = false -> mem_c tabch s = false -> (exists r, s = ch 58 :: r) -> cont_ok s = true.
Proof.
  intros s Hn Ht [r E]. unfold cont_ok. rewrite Hn, Ht. subst s. reflexivity.
Qed.

(* ------------------------------------------------------------------ *)
(* text of lines                                                        *)
(* ------------------------------------------------------------------ *)

Definition text_nl (l : list ln) : str := concat (map (fun x => render_ln x ++ [nl]) l).

Lemma text_nl_app : forall a b, text_nl (a ++ b) = text_nl a ++ text_nl b.
Proof. intros a b. unfold text_nl. rewrite map_app, concat_app. reflexivity. Qed.

Lemma text_nl_cons : forall x l, text_nl (x :: l) = render_ln x ++ nl :: text_nl l.
Proof. intros x l. unfold text_nl. cbn [map concat]. rewrite <- app_assoc. reflexivity. Qed.

Lemma text_nl_nil : text_nl [] = [].
Proof. reflexivity. Qed.

Ltac tn_nil := change (text_nl []) with (@nil ascii).

Lemma text_of_lns_snoc : forall l x, text_of_lns (l ++ [x]) = text_nl l ++ render_ln x.
Proof.
  intros l x. induction l as [|a r IH]; [reflexivity|].
  unfold text_of_lns in *. cbn [app map].
  destruct (map render_ln (r ++ [x])) as [|y ys] eqn:E.
  - exfalso. destruct r; discriminate E.
  - rewrite join_cons_cons. rewrite IH. rewrite text_nl_cons. norm_app. reflexivity.
Qed.

Lemma heads_of_app : forall a b, heads_of (a ++ b) = heads_of a ++ heads_of b.
Proof. intros a b. unfold heads_of. rewrite map_app, filter_app. reflexivity. Qed.

(* ------------------------------------------------------------------ *)
(* one documented entry                                                 *)
(* ------------------------------------------------------------------ *)

Definition dent_text (il : nat) (e : dent) : str :=
  rest_doc_line (dn e) (dd e) ++ nl :: Tn il
  ++ match dt e with Some t => rest_typ_line (dn e) t ++ nl :: Tn il | None => [] end.

Lemma entry_text_dent : forall il et n d g,
    entry_text il et n d (g_typ g) = dent_text il (n, d, emitted_typ et g).
Proof.
  intros il et n d g. unfold entry_text, dent_text, emitted_typ, dn, dd, dt, Tn. cbn [fst snd].
  destruct (g_typ g) as [| |t]; destruct et; reflexivity.
Qed.

Lemma nonempty_doc_line : forall n d, nonempty (rest_doc_line n d) = true.
Proof. intros n d. destruct (rest_doc_line_head n d) as [r E]. rewrite E. reflexivity. Qed.

Lemma nonempty_typ_line : forall n t, nonempty (rest_typ_line n t) = true.
Proof. intros n t. destruct (rest_typ_line_head n t) as [r E]. rewrite E. reflexivity. Qed.

Lemma dent_text_ne : forall il e, nonempty (dent_text il e) = true.
Proof.
  intros il e. unfold dent_text. destruct (rest_doc_line_head (dn e) (dd e)) as [r E]. rewrite E. reflexivity.
Qed.

Definition elines (S0 T0 : str) (e : dent) : list ln :=
  (S0, rest_doc_line (dn e) (dd e))
  :: (match dt e with Some t => [(T0, rest_typ_line (dn e) t)] | None => [] end ++ [(T0, [])]).

Lemma text_nl_elines : forall S0 il e, text_nl (elines S0 (Tn il) e) = S0 ++ dent_text il e ++ [nl].
Proof.
  intros S0 il e. unfold elines, dent_text. destruct (dt e) as [t|];
    cbn [app]; rewrite ?text_nl_cons; tn_nil; unfold render_ln; cbn [fst snd]; norm_app; reflexivity.
Qed.

Definition plines (S0 T0 : str) (docs : list dent) : list ln :=
  match docs with
  | [] => [(S0, [])]
  | _ => concat (map (elines S0 T0) docs)
  end.

Lemma text_nl_plines_cons : forall S0 il docs e,
    text_nl (concat (map (elines S0 (Tn il)) (e :: docs)))
    = S0 ++ join (nl :: S0) (map (dent_text il) (e :: docs)) ++ [nl].
Proof.
  intros S0 il docs. induction docs as [|e2 r IH]; intros e.
  - cbn [map concat join]. rewrite app_nil_r. apply text_nl_elines.
  - change (map (dent_text il) (e :: e2 :: r)) with (dent_text il e :: dent_text il e2 :: map (dent_text il) r).
    rewrite join_cons_cons.
    change (concat (map (elines S0 (Tn il)) (e :: e2 :: r)))
      with (elines S0 (Tn il) e ++ concat (map (elines S0 (Tn il)) (e2 :: r))).
    rewrite text_nl_app, text_nl_elines, (IH e2).
    change (dent_text il e2 :: map (dent_text il) r) with (map (dent_text il) (e2 :: r)).
    norm_app. reflexivity.
Qed.

Lemma text_nl_plines : forall S0 il docs,
    text_nl (plines S0 (Tn il) docs) = S0 ++ join (nl :: S0) (map (dent_text il) docs) ++ [nl].
Proof.
  intros S0 il docs. destruct docs as [|e r].
  - unfold plines. rewrite text_nl_cons; tn_nil. unfold render_ln. cbn [fst snd map join]. norm_app. reflexivity.
  - unfold plines. apply text_nl_plines_cons.
Qed.

(* ------------------------------------------------------------------ *)
(* the return entry                                                     *)
(* ------------------------------------------------------------------ *)

Definition rlines (ind T0 : str) (r : option rent) : list ln :=
  match r with
  | None => []
  | Some (d, ot) =>
    (ind, rest_doc_line (L "return_type") d)
    :: match ot with Some t => [(T0, rest_typ_line (L "return_type") t)] | None => [] end
  end.

Definition rtext (il : nat) (S0 : str) (r : option rent) : str :=
  match r with
  | None => []
  | Some (d, ot) =>
    (rest_doc_line (L "return_type") d
     ++ match ot with Some t => nl :: Tn il ++ rest_typ_line (L "return_type") t | None => [] end)
    ++ [nl] ++ S0
  end.

Lemma rtext_lines : forall il S0 ind r, r <> None ->
    text_nl (rlines ind (Tn il) r) ++ S0 = ind ++ rtext il S0 r.
Proof.
  intros il S0 ind r Hr. destruct r as [[d ot]|]; [|contradiction].
  unfold rlines, rtext. destruct ot as [t|];
    rewrite ?text_nl_cons; tn_nil; unfold render_ln; cbn [fst snd]; norm_app; reflexivity.
Qed.

Lemma rtext_lines_S : forall il S0 r,
    text_nl (rlines S0 (Tn il) r) ++ S0 = S0 ++ rtext il S0 r.
Proof.
  intros il S0 r. destruct r as [x|].
  - apply rtext_lines. discriminate.
  - cbn [rlines rtext]. tn_nil. rewrite app_nil_r. reflexivity.
Qed.

Lemma last_c_doc_line : forall n d, d <> [] -> last_c (rest_doc_line n d) = last_c d.
Proof.
  intros n d Hd. unfold rest_doc_line. rewrite !app_assoc. apply last_c_app_nonnil. exact Hd.
Qed.

Lemma last_c_typ_line : forall n t, last_c (rest_typ_line n t) = Some (ch 96).
Proof.
  intros n t. unfold rest_typ_line. rewrite !app_assoc. rewrite last_c_app_nonnil; [reflexivity|discriminate].
Qed.

Lemma forallb_isspace_nl_Tn : forall il, forallb isspace (nl :: Tn il) = true.
Proof.
  intros il. cbn [forallb]. rewrite (blanks_ok_isspace _ (blanks_ok_Tn il)). reflexivity.
Qed.

Lemma rstrip_dent_text : forall il e,
    dd e <> [] ->
    (dt e = None -> forall l, last_c (dd e) = Some l -> isspace l = false) ->
    rstrip (dent_text il e)
    = rest_doc_line (dn e) (dd e)
      ++ match dt e with Some t => nl :: Tn il ++ rest_typ_line (dn e) t | None => [] end.
Proof.
  intros il e Hne Hl. unfold dent_text, rstrip. destruct (dt e) as [t|].
  - assert (E : rest_doc_line (dn e) (dd e) ++ nl :: Tn il ++ rest_typ_line (dn e) t ++ nl :: Tn il
                = (rest_doc_line (dn e) (dd e) ++ nl :: Tn il ++ rest_typ_line (dn e) t) ++ nl :: Tn il).
    { norm_app. reflexivity. }
    rewrite E.
    apply (rstrip_by_app isspace _ _ (ch 96)).
    + apply forallb_isspace_nl_Tn.
    + rewrite last_c_app_nonnil; [|discriminate].
      change (nl :: Tn il ++ rest_typ_line (dn e) t) with ((nl :: Tn il) ++ rest_typ_line (dn e) t).
      rewrite last_c_app_nonnil; [apply last_c_typ_line|apply rest_typ_line_ne].
    + reflexivity.
  - rewrite !app_nil_r.
    destruct (last_c (dd e)) as [l|] eqn:El.
    + apply (rstrip_by_app isspace _ _ l).
      * apply forallb_isspace_nl_Tn.
      * rewrite last_c_doc_line; assumption.
      * apply (Hl eq_refl l eq_refl).
    + apply last_c_nil_iff in El. contradiction.
Qed.

(* ------------------------------------------------------------------ *)
(* td_param on one entry of the description                             *)
(* ------------------------------------------------------------------ *)

Lemma td_param_undoc : forall w ww edd et il n gd typ dflt,
    (gd = Missing \/ gd = Has []) -> (et = false \/ typ = Missing) ->
    td_param w ww edd et il n (mkParam gd typ dflt) = Ok (None, mkParam gd typ dflt).
Proof.
  intros w ww edd et il n gd typ dflt Hgd Het.
  unfold td_param. cbn [p_doc p_typ p_default].
  destruct Hgd as [E|E]; subst gd.
  - rewrite ?bind_Ok. cbn [p_doc truthy_fld]. rewrite ?bind_Ok. cbn [fst snd p_typ].
    destruct Het as [E|E]; subst.
    + destruct typ as [| |t]; rewrite ?bind_Ok; reflexivity.
    + rewrite ?bind_Ok. reflexivity.
  - unfold extract_default_fld.
    rewrite (extract_default_no_announce [] true None edd no_announce_nil).
    rewrite ?bind_Ok. cbn [fst snd]. rewrite ?bind_Ok. cbn [p_doc truthy_fld].
    rewrite ?bind_Ok. cbn [fst snd p_typ].
    destruct Het as [E|E]; subst.
    + destruct typ as [| |t]; rewrite ?bind_Ok; reflexivity.
    + rewrite ?bind_Ok. reflexivity.
Qed.

Lemma param_of_gparam_shape : forall g p,
    param_of_gparam g = Some p -> p = mkParam (g_doc g) (g_typ g) (p_default p).
Proof.
  intros g p H. unfold param_of_gparam in H.
  destruct (g_default g) as [[v|e|r]|]; inversion H; reflexivity.
Qed.

Lemma td_param_entry : forall w ww edd et il n g,
    entry_emit_ok w ww edd et n g ->
    exists p p', param_of_gparam g = Some p
                 /\ td_param w ww edd et il n p = Ok (option_map (dent_text il) (dent_of et (n, g)), p').
Proof.
  intros w ww edd et il n g H. unfold entry_emit_ok in H. destruct H as [Hn [Hnt H]].
  unfold dent_of. cbn [fst snd]. destruct (prose_of g) as [d|] eqn:Ep.
  - destruct H as [Hdoc [[c [r [l [Ed [Hc [Hl Hm]]]]]] [Hnl [Htab [Hna [[dflt [Hp Hedd]] [Hww Htyp]]]]]]].
    assert (Htyp' : match g_typ g with
                    | Has t => et = true ->
                               t <> [] /\ mem_c nl t = false
                               /\ (ww = true -> fill w (rest_typ_line n t) = Ok (rest_typ_line n t)
                                                /\ List.length (rest_typ_line n t) <= w)
                    | Missing => True
                    | FNone => False
                    end).
    { destruct (g_typ g) as [| |t]; try exact Htyp.
      intros E. destruct (Htyp E) as [A [B [_ D]]]. split; [exact A|]. split; [exact B|exact D]. }
    destruct (td_param_documented w ww edd et il n d (g_typ g) dflt c r l Ed Hc Hnl Hl Hm Hna Hedd Hww Htyp' Hn)
      as [p' Hp'].
    exists (mkParam (Has d) (g_typ g) dflt), p'. split; [exact Hp|].
    cbn [option_map]. rewrite <- entry_text_dent. exact Hp'.
  - destruct H as [Hgd [Het [p Hp]]].
    pose proof (param_of_gparam_shape g p Hp) as Es.
    destruct p as [pd pt pv]. cbn [p_default] in Es. injection Es as E1 E2. subst pd pt.
    exists (mkParam (g_doc g) (g_typ g) pv), (mkParam (g_doc g) (g_typ g) pv). split; [exact Hp|].
    cbn [option_map]. apply td_param_undoc; assumption.
Qed.

(* ------------------------------------------------------------------ *)
(* well-formedness of the documented view                               *)
(* ------------------------------------------------------------------ *)

Definition dent_ok (e : dent) : Prop :=
  dd e <> []
  /\ cont_ok (rest_doc_line (dn e) (dd e)) = true
  /\ match dt e with Some t => cont_ok (rest_typ_line (dn e) t) = true | None => True end.

Lemma rest_doc_line_no_tab : forall n d,
    mem_c tabch n = false -> mem_c tabch d = false -> mem_c tabch (rest_doc_line n d) = false.
Proof.
  intros n d Hn Hd. unfold rest_doc_line, rest_key.
  destruct (is_return n); rewrite !mem_c_app; rewrite ?Hn, ?Hd; reflexivity.
Qed.

Lemma rest_typ_line_no_tab : forall n t,
    mem_c tabch n = false -> mem_c tabch t = false -> mem_c tabch (rest_typ_line n t) = false.
Proof.
  intros n t Hn Ht. unfold rest_typ_line, rest_key_typ.
  destruct (is_return n); rewrite !mem_c_app; rewrite ?Hn, ?Ht; reflexivity.
Qed.

Lemma entry_dent_ok : forall w ww edd et n g d,
    entry_emit_ok w ww edd et n g -> prose_of g = Some d -> dent_ok (n, d, emitted_typ et g).
Proof.
  intros w ww edd et n g d H Ep. unfold entry_emit_ok in H. destruct H as [Hn [Hnt H]].
  rewrite Ep in H.
  destruct H as [Hdoc [[c [r [l [Ed [Hc [Hl Hm]]]]]] [Hnl [Htab [Hna [_ [_ Htyp]]]]]]].
  unfold dent_ok, dn, dd, dt. cbn [fst snd]. split; [subst d; discriminate|]. split.
  - apply cont_ok_intro.
    + apply rest_doc_line_no_nl; assumption.
    + apply rest_doc_line_no_tab; assumption.
    + apply rest_doc_line_head.
  - unfold emitted_typ. destruct et; [|exact I].
    destruct (g_typ g) as [| |t]; try exact I.
    destruct (Htyp eq_refl) as [_ [B [C _]]].
    apply cont_ok_intro.
    + apply rest_typ_line_no_nl; assumption.
    + apply rest_typ_line_no_tab; assumption.
    + apply rest_typ_line_head.
Qed.

Lemma docs_ok : forall w ww edd et params,
    Forall (fun kv => entry_emit_ok w ww edd et (fst kv) (snd kv)) params ->
    Forall dent_ok (docs_of et params).
Proof.
  intros w ww edd et params H. induction H as [|[n g] rest Hx Hrest IH]; [constructor|].
  unfold docs_of in *. cbn [map]. unfold dent_of at 1. cbn [fst snd] in *.
  destruct (prose_of g) as [d|] eqn:Ep; cbn [cat_options]; [|exact IH].
  constructor; [|exact IH]. apply (entry_dent_ok w ww edd et n g d Hx Ep).
Qed.

Definition rent_ok (r : option rent) : Prop :=
  match r with Some (d, ot) => dent_ok (L "return_type", d, ot) | None => True end.

(* ------------------------------------------------------------------ *)
(* emit_items over the parameters                                       *)
(* ------------------------------------------------------------------ *)

Definition p2s (w : nat) (ww edd et : bool) (il : nat) (k : str) (p : param) : outcome (str * param) :=
  do op <- td_param w ww edd et il k p;
  Ok (match fst op with Some s => s | None => [] end, snd op).

Lemma emit_params : forall w ww edd et il params,
    Forall (fun kv => entry_emit_ok w ww edd et (fst kv) (snd kv)) params ->
    exists ps strs ps',
      params_of params = Some ps /\ (ps = [] <-> params = [])
      /\ emit_items (p2s w ww edd et il) ps = Ok (strs, ps')
      /\ filter nonempty strs = map (dent_text il) (docs_of et params).
Proof.
  intros w ww edd et il params H. induction H as [|[n g] rest Hx Hrest IH].
  - exists [], [], []. split; [reflexivity|]. split; [split; reflexivity|]. split; reflexivity.
  - destruct IH as [ps [strs [ps' [Hps [Hiff [Hemit Hfilt]]]]]]. cbn [fst snd] in Hx.
    destruct (td_param_entry w ww edd et il n g Hx) as [p [p' [Hp Htd]]].
    exists ((n, p) :: ps),
           ((match option_map (dent_text il) (dent_of et (n, g)) with Some s => s | None => [] end) :: strs),
           ((n, p') :: ps').
    split; [cbn [params_of]; rewrite Hp, Hps; reflexivity|].
    split; [split; discriminate|].
    split.
    + cbn [emit_items]. unfold p2s at 1. rewrite Htd, bind_Ok. cbn [fst snd]. rewrite bind_Ok.
      rewrite Hemit, bind_Ok. reflexivity.
    + unfold docs_of in *. cbn [map].
      destruct (dent_of et (n, g)) as [e|]; cbn [option_map cat_options filter map].
      * rewrite dent_text_ne. rewrite Hfilt. reflexivity.
      * cbn [nonempty]. exact Hfilt.
Qed.

(* ------------------------------------------------------------------ *)
(* the three parts of to_docstring                                      *)
(* ------------------------------------------------------------------ *)

Definition hdr_comp (w : nat) (ww : bool) (il : nat) (S0 : str) (i : ir) : outcome str :=
  match truthy_fld (ir_doc i) with
  | Some d =>
    do f <- td_fill w ww il d;
    Ok ([nl] ++ indent S0 f
        ++ (if endswith [nl] (rstrip_chars (L " " ++ [tabch]) d) then [] else [nl])
        ++ S0)
  | None => Ok []
  end.

Definition pl_comp (w : nat) (ww edd et : bool) (il : nat) (S0 : str) (ps : list (str * param))
  : outcome (str * list (str * param)) :=
  match ps with
  | [] => Ok ([], ps)
  | _ =>
    do r <- emit_items (p2s w ww edd et il) ps;
    Ok ([nl] ++ S0 ++ join (nl :: S0) (filter nonempty (fst r)) ++ [nl] ++ S0, snd r)
  end.

Definition rt_comp (w : nat) (ww edd et : bool) (il : nat) (S0 : str) (i : ir) (ret : option param)
  : outcome (str * fld gparam) :=
  match ret with
  | Some p =>
    if gparam_is_empty (gparam_of_param p) then Ok ([], ir_returns i)
    else
      do op <- td_param w ww edd et il (L "return_type") p;
      match fst op with
      | None => Ok ([], ir_returns i)
      | Some s => if nonempty s then Ok (rstrip s ++ [nl] ++ S0, Has (gparam_of_param (snd op)))
                  else Ok ([], ir_returns i)
      end
  | None => Ok ([], ir_returns i)
  end.

Definition ret_opt (i : ir) : option (option param) :=
  match ir_returns i with Has g => option_map Some (param_of_gparam g) | _ => Some None end.

Lemma to_docstring_unfold : forall w i edd il et est ww,
    to_docstring w i edd Rest il et est ww
    = match params_of (ir_params i), ret_opt i with
      | Some ps, Some ret =>
        do header <- hdr_comp w ww il (Sp est il) i;
        do pl <- pl_comp w ww edd et il (Sp est il) ps;
        do rt <- rt_comp w ww edd et il (Sp est il) i ret;
        Ok (header ++ fst pl ++ fst rt, i)
      | _, _ => Err Unmodelled
      end.
Proof. reflexivity. Qed.

Definition hdr_text (S0 : str) (so : option str) : str :=
  match so with Some d0 => nl :: S0 ++ d0 ++ nl :: S0 | None => [] end.

Definition pl_text (S0 : str) (il : nat) (pne : bool) (docs : list dent) : str :=
  if pne then nl :: S0 ++ join (nl :: S0) (map (dent_text il) docs) ++ nl :: S0 else [].

Definition pne_of {A} (l : list A) : bool := match l with [] => false | _ => true end.

Lemma indent_one : forall S0 c r,
    mem_c nl (c :: r) = false -> isspace c = false -> indent S0 (c :: r) = S0 ++ c :: r.
Proof.
  intros S0 c r Hnl Hc. unfold indent. rewrite (split_nl_one _ Hnl).
  cbn [indent_lines forallb]. rewrite Hc. reflexivity.
Qed.

Lemma endswith_nl_rstrip : forall cs s, mem_c nl s = false -> endswith [nl] (rstrip_chars cs s) = false.
Proof.
  intros cs s Hnl. destruct (endswith [nl] (rstrip_chars cs s)) eqn:E; [|reflexivity].
  apply endswith_single in E. apply last_c_In in E. unfold rstrip_chars in E.
  destruct (FillFacts.rstrip_by_decomp (fun c => mem_c c cs) s) as [t [Es _]].
  assert (Hin : In nl s). { rewrite Es. apply in_or_app. left. exact E. }
  apply mem_c_In in Hin. rewrite Hin in Hnl. discriminate.
Qed.

Lemma hdr_comp_eq : forall w ww il S0 i,
    sum_emit_ok w ww i -> hdr_comp w ww il S0 i = Ok (hdr_text S0 (sum_of i)).
Proof.
  intros w ww il S0 i H. unfold sum_emit_ok, sum_of in *. unfold hdr_comp.
  destruct (truthy_fld (ir_doc i)) as [d0|]; [|reflexivity].
  destruct H as [[c [r [E Hc]]] [Hnl [Htab Hw]]]. subst d0.
  rewrite (td_fill_fits w ww il c r Hnl Hw). rewrite bind_Ok.
  rewrite (indent_one S0 c r Hnl Hc). rewrite (endswith_nl_rstrip _ _ Hnl).
  unfold hdr_text. norm_app. reflexivity.
Qed.

Lemma pl_comp_eq : forall w ww edd et il S0 params,
    Forall (fun kv => entry_emit_ok w ww edd et (fst kv) (snd kv)) params ->
    exists ps x, params_of params = Some ps
                 /\ pl_comp w ww edd et il S0 ps = Ok (pl_text S0 il (pne_of params) (docs_of et params), x).
Proof.
  intros w ww edd et il S0 params H.
  destruct (emit_params w ww edd et il params H) as [ps [strs [ps' [Hps [Hiff [Hemit Hfilt]]]]]].
  exists ps. destruct ps as [|kp r].
  - assert (E : params = []) by (apply Hiff; reflexivity). subst params.
    eexists. split; [exact Hps|]. reflexivity.
  - destruct params as [|kv rest].
    { exfalso. destruct Hiff as [_ Hb]. discriminate (Hb eq_refl). }
    eexists. split; [exact Hps|].
    unfold pl_comp. rewrite Hemit, bind_Ok. cbn [fst snd]. rewrite Hfilt.
    unfold pl_text, pne_of. cbn [app]. reflexivity.
Qed.

Lemma rt_comp_eq : forall w ww edd et il S0 i,
    (match ir_returns i with
     | Has g => entry_emit_ok w ww edd et (L "return_type") g
     | FNone => True
     | Missing => False
     end) ->
    (forall g d l, ir_returns i = Has g -> prose_of g = Some d -> emitted_typ et g = None ->
                   last_c d = Some l -> isspace l = false) ->
    exists ret, ret_opt i = Some ret
                /\ exists x, rt_comp w ww edd et il S0 i ret = Ok (rtext il S0 (rent_of et (ir_returns i)), x).
Proof.
  intros w ww edd et il S0 i H Hlast. unfold ret_opt, rt_comp.
  destruct (ir_returns i) as [| |g] eqn:Er.
  - contradiction.
  - exists None. split; [reflexivity|]. eexists. reflexivity.
  - destruct (td_param_entry w ww edd et il (L "return_type") g H) as [p [p' [Hp Htd]]].
    exists (Some p). rewrite Hp. split; [reflexivity|].
    pose proof (param_of_gparam_shape g p Hp) as Es.
    unfold dent_of in Htd. cbn [fst snd] in Htd. cbn [rent_of].
    destruct (prose_of g) as [d|] eqn:Ep.
    + pose proof (entry_dent_ok w ww edd et (L "return_type") g d H Ep) as Hok.
      destruct Hok as [Hne _]. unfold dd in Hne. cbn [fst snd] in Hne.
      assert (Hgd : g_doc g = Has d).
      { unfold entry_emit_ok in H. rewrite Ep in H. destruct H as [_ [_ [Hd _]]]. exact Hd. }
      assert (Hemp : gparam_is_empty (gparam_of_param p) = false).
      { rewrite Es. unfold gparam_is_empty, gparam_of_param. cbn [g_doc g_typ g_default p_doc p_typ p_default].
        rewrite Hgd. reflexivity. }
      rewrite Hemp. rewrite Htd, bind_Ok. cbn [fst snd option_map]. rewrite dent_text_ne.
      rewrite rstrip_dent_text.
      * unfold rtext, dn, dd, dt. cbn [fst snd]. eexists. reflexivity.
      * unfold dd. cbn [fst snd]. exact Hne.
      * unfold dd, dt. cbn [fst snd]. intros Et l Hl. apply (Hlast g d l eq_refl Ep Et Hl).
    + destruct (gparam_is_empty (gparam_of_param p)).
      * eexists. reflexivity.
      * rewrite Htd, bind_Ok. cbn [fst snd option_map]. eexists. reflexivity.
Qed.

(* ------------------------------------------------------------------ *)
(* all the lines                                                        *)
(* ------------------------------------------------------------------ *)

Definition all_lines (S0 T0 : str) (so : option str) (pne : bool) (docs : list dent) (r : option rent)
  : list ln :=
  match so, pne with
  | Some d0, true => [([], []); (S0, d0); (S0, [])] ++ plines S0 T0 docs ++ rlines S0 T0 r
  | Some d0, false => [([], []); (S0, d0)] ++ rlines S0 T0 r
  | None, true => [([], [])] ++ plines S0 T0 docs ++ rlines S0 T0 r
  | None, false => rlines [] T0 r
  end ++ [(S0, [])].

Lemma all_lines_text : forall il S0 so pne docs r,
    (so = None -> pne = false -> r <> None) ->
    hdr_text S0 so ++ pl_text S0 il pne docs ++ rtext il S0 r
    = text_of_lns (all_lines S0 (Tn il) so pne docs r).
Proof.
  intros il S0 so pne docs r Hr. unfold all_lines. rewrite text_of_lns_snoc.
  unfold render_ln at 1. cbn [fst snd]. rewrite app_nil_r.
  unfold hdr_text, pl_text. destruct so as [d0|]; destruct pne.
  - rewrite !text_nl_app. rewrite <- !app_assoc. rewrite rtext_lines_S, text_nl_plines.
    rewrite !text_nl_cons; tn_nil. unfold render_ln. cbn [fst snd]. norm_app. reflexivity.
  - rewrite !text_nl_app. rewrite <- !app_assoc. rewrite rtext_lines_S.
    rewrite !text_nl_cons; tn_nil. unfold render_ln. cbn [fst snd]. norm_app. reflexivity.
  - rewrite !text_nl_app. rewrite <- !app_assoc. rewrite rtext_lines_S, text_nl_plines.
    rewrite !text_nl_cons; tn_nil. unfold render_ln. cbn [fst snd]. norm_app. reflexivity.
  - rewrite (rtext_lines il S0 [] r (Hr eq_refl eq_refl)). reflexivity.
Qed.

Lemma all_lines_ne : forall S0 T0 so pne docs r, all_lines S0 T0 so pne docs r <> [].
Proof.
  intros S0 T0 so pne docs r H. unfold all_lines in H. apply app_eq_nil in H. destruct H as [_ H]. discriminate H.
Qed.

Lemma elines_ok : forall S0 T0 e,
    blanks_ok S0 = true -> blanks_ok T0 = true -> dent_ok e -> forallb ln_ok (elines S0 T0 e) = true.
Proof.
  intros S0 T0 e HS HT [_ [Hd Ht]]. unfold elines. destruct (dt e) as [t|];
    cbn [app forallb]; rewrite !ln_ok_split, ?HS, ?HT, ?Hd, ?Ht; reflexivity.
Qed.

Lemma plines_ok : forall S0 T0 docs,
    blanks_ok S0 = true -> blanks_ok T0 = true -> Forall dent_ok docs ->
    forallb ln_ok (plines S0 T0 docs) = true.
Proof.
  intros S0 T0 docs HS HT H.
  assert (G : forallb ln_ok (concat (map (elines S0 T0) docs)) = true).
  { induction H as [|e r He Hr IH]; [reflexivity|].
    cbn [map concat]. rewrite forallb_app, IH, (elines_ok S0 T0 e HS HT He). reflexivity. }
  destruct docs as [|e r].
  - unfold plines. cbn [forallb]. rewrite ln_ok_split, HS. reflexivity.
  - exact G.
Qed.

Lemma rlines_ok : forall ind T0 r,
    blanks_ok ind = true -> blanks_ok T0 = true -> rent_ok r -> forallb ln_ok (rlines ind T0 r) = true.
Proof.
  intros ind T0 r HS HT H. destruct r as [[d ot]|]; [|reflexivity].
  unfold rent_ok, dent_ok, dn, dd, dt in H. cbn [fst snd] in H. destruct H as [_ [Hd Ht]].
  unfold rlines. destruct ot as [t|];
    cbn [forallb]; rewrite !ln_ok_split, ?HS, ?HT, ?Hd, ?Ht; reflexivity.
Qed.

Lemma all_lines_ok : forall S0 T0 so pne docs r,
    blanks_ok S0 = true -> blanks_ok T0 = true ->
    (forall d0, so = Some d0 -> cont_ok d0 = true) ->
    Forall dent_ok docs -> rent_ok r ->
    forallb ln_ok (all_lines S0 T0 so pne docs r) = true.
Proof.
  intros S0 T0 so pne docs r HS HT Hso Hdocs Hr. unfold all_lines.
  apply forallb_app_true; [|lines_ok_tac].
  assert (Hnil : blanks_ok [] = true) by reflexivity.
  destruct so as [d0|]; destruct pne.
  - pose proof (Hso d0 eq_refl) as Hd0.
    apply forallb_app_true; [lines_ok_tac|].
    apply forallb_app_true; [apply plines_ok; assumption|apply rlines_ok; assumption].
  - pose proof (Hso d0 eq_refl) as Hd0.
    apply forallb_app_true; [lines_ok_tac|apply rlines_ok; assumption].
  - apply forallb_app_true; [lines_ok_tac|].
    apply forallb_app_true; [apply plines_ok; assumption|apply rlines_ok; assumption].
  - apply (rlines_ok _ _ _ Hnil HT Hr).
Qed.

Lemma heads_elines : forall S0 T0 e, heads_of (elines S0 T0 e) = dent_heads e.
Proof.
  intros S0 T0 e. unfold heads_of, elines, dent_heads. destruct (dt e) as [t|];
    cbn [app map filter fst snd]; rewrite ?nonempty_doc_line, ?nonempty_typ_line; reflexivity.
Qed.

Lemma heads_plines : forall S0 T0 docs, heads_of (plines S0 T0 docs) = concat (map dent_heads docs).
Proof.
  intros S0 T0 docs.
  assert (G : heads_of (concat (map (elines S0 T0) docs)) = concat (map dent_heads docs)).
  { induction docs as [|e r IH]; [reflexivity|].
    cbn [map concat]. rewrite heads_of_app, heads_elines, IH. reflexivity. }
  destruct docs as [|e r]; [reflexivity|exact G].
Qed.

Lemma heads_rlines : forall ind T0 r, heads_of (rlines ind T0 r) = rent_heads r.
Proof.
  intros ind T0 r. destruct r as [[d ot]|]; [|reflexivity].
  unfold heads_of, rlines, rent_heads. destruct ot as [t|];
    cbn [map filter fst snd]; rewrite ?nonempty_doc_line, ?nonempty_typ_line; reflexivity.
Qed.

Lemma all_lines_heads : forall S0 T0 so pne docs r,
    (forall d0, so = Some d0 -> d0 <> []) ->
    (pne = false -> docs = []) ->
    heads_of (all_lines S0 T0 so pne docs r) = heads so docs r.
Proof.
  intros S0 T0 so pne docs r Hso Hp. unfold all_lines, heads.
  rewrite heads_of_app.
  change (heads_of [(S0, [])]) with (@nil str). rewrite app_nil_r.
  destruct so as [d0|]; destruct pne.
  - rewrite !heads_of_app, heads_plines, heads_rlines.
    assert (Hd : nonempty d0 = true). { pose proof (Hso d0 eq_refl) as Hn. destruct d0; [contradiction|reflexivity]. }
    unfold heads_of. cbn [map filter fst snd nonempty]. rewrite Hd. reflexivity.
  - rewrite (Hp eq_refl). rewrite !heads_of_app, heads_rlines.
    assert (Hd : nonempty d0 = true). { pose proof (Hso d0 eq_refl) as Hn. destruct d0; [contradiction|reflexivity]. }
    unfold heads_of. cbn [map filter fst snd nonempty concat app]. rewrite Hd. reflexivity.
  - rewrite !heads_of_app, heads_plines, heads_rlines. reflexivity.
  - rewrite (Hp eq_refl). rewrite heads_rlines. reflexivity.
Qed.

(* how a caller gets the extra hypothesis on the last character of the return prose *)
Lemma last_not_blank : forall d l,
    C01Spec.plain_blank_only d = true -> last_c d = Some l ->
    mem_c l (L " " ++ [nl; ch 92]) = false -> isspace l = false.
Proof.
  intros d l Hp Hl Hm. apply last_c_In in Hl.
  unfold C01Spec.plain_blank_only in Hp. rewrite forallb_forall in Hp. specialize (Hp l Hl).
  change (L " " ++ [nl; ch 92]) with (sp :: [nl; ch 92]) in Hm. rewrite mem_c_cons in Hm.
  apply orb_false_iff in Hm. destruct Hm as [Hsp _]. rewrite Hsp, orb_false_r in Hp.
  apply negb_true_iff in Hp. exact Hp.
Qed.

(* ------------------------------------------------------------------ *)
(* the theorem                                                          *)
(* ------------------------------------------------------------------ *)

Lemma rent_of_ok : forall w ww edd et r,
    (match r with
     | Has g => entry_emit_ok w ww edd et (L "return_type") g
     | FNone => True
     | Missing => False
     end) ->
    rent_ok (rent_of et r).
Proof.
  intros w ww edd et r H. destruct r as [| |g]; try exact I.
  cbn [rent_of]. destruct (prose_of g) as [d|] eqn:Ep; [|exact I].
  unfold rent_ok. apply (entry_dent_ok w ww edd et (L "return_type") g d H Ep).
Qed.

Theorem to_docstring_lines : forall w i edd il et est ww,
    sum_emit_ok w ww i ->
    Forall (fun kv => entry_emit_ok w ww edd et (fst kv) (snd kv)) (ir_params i) ->
    (match ir_returns i with
     | Has g => entry_emit_ok w ww edd et (L "return_type") g
     | FNone => True
     | Missing => False
     end) ->
    (forall g d l, ir_returns i = Has g -> prose_of g = Some d -> emitted_typ et g = None ->
                   last_c d = Some l -> isspace l = false) ->
    (docs_of et (ir_params i) <> [] \/ rent_of et (ir_returns i) <> None) ->
    exists text i' lns,
      to_docstring w i edd Rest il et est ww = Ok (text, i')
      /\ text = text_of_lns lns /\ lns <> [] /\ forallb ln_ok lns = true
      /\ heads_of lns = heads (sum_of i) (docs_of et (ir_params i)) (rent_of et (ir_returns i)).
Proof.
  intros w i edd il et est ww Hsum Hpar Hret Hlast Hdoc.
  destruct (pl_comp_eq w ww edd et il (Sp est il) (ir_params i) Hpar) as [ps [x1 [Hps Hpl]]].
  destruct (rt_comp_eq w ww edd et il (Sp est il) i Hret Hlast) as [ret [Hro [x2 Hrt]]].
  assert (Hpne : pne_of (ir_params i) = false -> docs_of et (ir_params i) = []).
  { intros E. destruct (ir_params i) as [|kv rest]; [reflexivity|discriminate E]. }
  exists (hdr_text (Sp est il) (sum_of i)
          ++ pl_text (Sp est il) il (pne_of (ir_params i)) (docs_of et (ir_params i))
          ++ rtext il (Sp est il) (rent_of et (ir_returns i))).
  exists i.
  exists (all_lines (Sp est il) (Tn il) (sum_of i) (pne_of (ir_params i)) (docs_of et (ir_params i))
                    (rent_of et (ir_returns i))).
  split.
  { rewrite to_docstring_unfold. rewrite Hps, Hro.
    rewrite (hdr_comp_eq w ww il (Sp est il) i Hsum), bind_Ok.
    rewrite Hpl, bind_Ok. rewrite Hrt, bind_Ok. reflexivity. }
  split.
  { apply all_lines_text. intros _ E. destruct Hdoc as [Hd|Hr]; [|exact Hr].
    exfalso. apply Hd. apply Hpne. exact E. }
  split; [apply all_lines_ne|].
  split.
  - apply all_lines_ok.
    + apply blanks_ok_Sp.
    + apply blanks_ok_Tn.
    + intros d0 E. unfold sum_emit_ok in Hsum. rewrite E in Hsum.
      destruct Hsum as [[c [r [Ed Hc]]] [Hnl [Htab _]]].
      unfold cont_ok. rewrite Hnl, Htab. subst d0. rewrite Hc. reflexivity.
    + apply (docs_ok w ww edd et _ Hpar).
    + apply (rent_of_ok w ww edd et _ Hret).
  - apply all_lines_heads.
    + intros d0 E. unfold sum_emit_ok in Hsum. rewrite E in Hsum.
      destruct Hsum as [[c [r [Ed _]]] _]. subst d0. discriminate.
    + exact Hpne.
Qed.
Print Assumptions to_docstring_lines.
